(** The ring queue ([ring.go]) as a labelled transition system.  Definitions only.

    Threads: any number of putters (PutOne / PutMulti are the same code shape: one payload), one
    writer (NextWriteCmd / WaitForWrite), one reader (NextResultCh / FinishResult and the
    channel send in between, which pipe.go performs).  A putter is named by the number of its
    ticket: the p-th caller of [atomic.AddUint32(&r.write, 1)] is putter p, and its command is
    item p (ghost numbering; the code has no such number).

    Every critical section under a slot mutex that contains no blocking call is ONE step.
    [sync.Cond]: Wait enqueues and releases the mutex atomically, Signal wakes any one parked
    thread, Broadcast all, no spurious wake-ups; a woken thread must re-acquire the mutex, which
    is its next step ([PutLock] for a putter in [woken1], [WWaitRetry] for the writer).
    The wait-condition check and cond.Wait are one step here: both happen under the slot mutex,
    every state change they depend on also happens under that mutex, and a lock-free Signal /
    Broadcast that falls between them has the same effect as one that happens just before them
    (the waiter is in the queue in neither case) - unlike pool.go, where a context is cancelled
    outside the mutex.
    The reader keeps the slot mutex from NextResultCh to FinishResult: an explicit lock tenure
    ([rlock]); [Signal] / [Broadcast] after an unlock are separate steps.  NextWriteCmd uses TryLock
    (repair D15): [WNext] is the call that got the mutex, [WNextBusy] the call that did not; the
    code as found is the system without the label [WNextBusy] (there [WNext] blocks while [rlock]).

    Counters are uint32 in the code: [write], [read1], [read2] are kept modulo 2^32 and the slot
    index is [counter land (2^k - 1)].  [nw], [n1], [n2], [fillseq], [wseq], [rseq], [recv] are
    ghost history. *)
From Coq Require Import List NArith ZArith Bool Arith.
Require Import RV.Model.Base.
Import ListNotations.
Local Open Scope nat_scope.

Record slot := {
  mark : nat;               (* 0 free, 1 filled, 2 written *)
  payload : option nat;     (* ghost: the item (= putter) that occupies the slot *)
  pm : bool;                (* ghost: the occupant came through PutMulti *)
  c_one : option nat;       (* n.one: None = Completed{}, Some p = the command of putter p *)
  c_multi : option nat;     (* n.multi: None = nil, Some p = the slice putter p passed to PutMulti *)
  c_resps : option nat;     (* n.resps: None = nil, Some p = the result slice putter p passed to PutMulti *)
  slept : bool;             (* n.slept *)
  rlock : bool;             (* the reader holds the slot mutex (NextResultCh .. FinishResult) *)
  tk : list nat;            (* putters that hold a ticket for this slot and have not locked yet *)
  parked1 : list nat;       (* putters waiting on c1 *)
  woken1 : list nat;        (* putters signalled on c1 that have not re-locked yet *)
  bc : list nat;            (* putters that filled the slot, read slept = true and still have to Broadcast c2 *)
  wt : list nat;            (* putters that returned the slot's channel and wait for their result *)
  wparked : bool;           (* the writer waits on c2 *)
  wwoken : bool;            (* the writer was woken on c2 and has not re-locked yet *)
  fillseq : list nat        (* ghost: the items that occupied this slot, oldest first *)
}.

Definition slot0 : slot :=
  {| mark := 0; payload := None; pm := false; c_one := None; c_multi := None; c_resps := None; slept := false; rlock := false; tk := []; parked1 := []; woken1 := [];
     bc := []; wt := []; wparked := false; wwoken := false; fillseq := [] |}.

Inductive wstate := WIdle | WWait (s : nat).                         (* WWait: inside WaitForWrite *)
Inductive rstate := RIdle | RHold (s : nat) (item : option nat) | RSig (s : nat).

Record state := {
  write : N; read1 : N; read2 : N;
  slots : nat -> slot;
  wpc : wstate; rpc : rstate;
  nw : nat; n1 : nat; n2 : nat;
  wseq : list nat; rseq : list nat;
  recv : list (nat * nat)    (* (putter, item whose result it received), most recent first *)
}.

Definition u32 (x : N) : N := (x mod 2 ^ 32)%N.
Definition idx (k : nat) (c : N) : nat := N.to_nat (N.land c (N.ones (N.of_nat k))).

Definition init (start : N) : state :=
  {| write := u32 start; read1 := u32 start; read2 := u32 start; slots := fun _ => slot0;
     wpc := WIdle; rpc := RIdle; nw := 0; n1 := 0; n2 := 0; wseq := []; rseq := []; recv := [] |}.

Inductive label :=
| PutTicket
| PutLock (p : nat) (s : nat) (m : bool)   (* m: the caller is in PutMulti *)
| PutBcast (p : nat) (s : nat)
| WNext
| WWaitEnter
| WWaitRetry
| RNext
| RDeliver (p : nat)
| RUnlock
| RSignal (o : option nat)
| WNextBusy.  (* NextWriteCmd found the slot mutex busy (TryLock failed): it returns nothing, like an empty slot *)

Fixpoint memb (x : nat) (l : list nat) : bool :=
  match l with [] => false | y :: r => Nat.eqb x y || memb x r end.
Fixpoint remove1 (x : nat) (l : list nat) : list nat :=
  match l with [] => [] | y :: r => if Nat.eqb x y then r else y :: remove1 x r end.
Definition is_nil {A} (l : list A) : bool := match l with [] => true | _ => false end.

Definition upd (f : nat -> slot) (i : nat) (v : slot) : nat -> slot :=
  fun j => if Nat.eqb j i then v else f j.

Definition set_slots (st : state) (f : nat -> slot) : state :=
  {| write := write st; read1 := read1 st; read2 := read2 st; slots := f; wpc := wpc st; rpc := rpc st;
     nw := nw st; n1 := n1 st; n2 := n2 st; wseq := wseq st; rseq := rseq st; recv := recv st |}.

Definition set_slot (st : state) (i : nat) (v : slot) : state := set_slots st (upd (slots st) i v).

(** slot record updates *)
Definition sl_lists (x : slot) (t p w b wl : list nat) : slot :=
  {| mark := mark x; payload := payload x; pm := pm x; c_one := c_one x; c_multi := c_multi x; c_resps := c_resps x; slept := slept x; rlock := rlock x; tk := t; parked1 := p; woken1 := w;
     bc := b; wt := wl; wparked := wparked x; wwoken := wwoken x; fillseq := fillseq x |}.
(** PutOne writes n.one only, PutMulti writes n.multi and n.resps only *)
Definition sl_fill (x : slot) (p : nat) (m : bool) : slot :=
  {| mark := 1; payload := Some p; pm := m;
     c_one := if m then c_one x else Some p;
     c_multi := if m then Some p else c_multi x;
     c_resps := if m then Some p else c_resps x;
     slept := slept x; rlock := rlock x; tk := tk x; parked1 := parked1 x; woken1 := woken1 x;
     bc := bc x; wt := wt x; wparked := wparked x; wwoken := wwoken x; fillseq := fillseq x ++ [p] |}.
Definition sl_mark (x : slot) (m : nat) (pl : option nat) : slot :=
  {| mark := m; payload := pl; pm := pm x; c_one := c_one x; c_multi := c_multi x; c_resps := c_resps x; slept := slept x; rlock := rlock x; tk := tk x; parked1 := parked1 x; woken1 := woken1 x;
     bc := bc x; wt := wt x; wparked := wparked x; wwoken := wwoken x; fillseq := fillseq x |}.
(** NextResultCh frees the slot: n.mark = 0; n.one = Completed{}; n.multi = nil; n.resps = nil *)
Definition sl_clear (x : slot) : slot :=
  {| mark := 0; payload := None; pm := pm x; c_one := None; c_multi := None; c_resps := None; slept := slept x; rlock := rlock x;
     tk := tk x; parked1 := parked1 x; woken1 := woken1 x; bc := bc x; wt := wt x; wparked := wparked x; wwoken := wwoken x;
     fillseq := fillseq x |}.
Definition sl_writer (x : slot) (sl wp ww : bool) : slot :=
  {| mark := mark x; payload := payload x; pm := pm x; c_one := c_one x; c_multi := c_multi x; c_resps := c_resps x; slept := sl; rlock := rlock x; tk := tk x; parked1 := parked1 x; woken1 := woken1 x;
     bc := bc x; wt := wt x; wparked := wp; wwoken := ww; fillseq := fillseq x |}.
Definition sl_rlock (x : slot) (b : bool) : slot :=
  {| mark := mark x; payload := payload x; pm := pm x; c_one := c_one x; c_multi := c_multi x; c_resps := c_resps x; slept := slept x; rlock := b; tk := tk x; parked1 := parked1 x; woken1 := woken1 x;
     bc := bc x; wt := wt x; wparked := wparked x; wwoken := wwoken x; fillseq := fillseq x |}.

Definition set_counts (st : state) (wr r1 r2 : N) (a b c : nat) (ws rs : list nat) : state :=
  {| write := wr; read1 := r1; read2 := r2; slots := slots st; wpc := wpc st; rpc := rpc st;
     nw := a; n1 := b; n2 := c; wseq := ws; rseq := rs; recv := recv st |}.
Definition set_wpc (st : state) (w : wstate) : state :=
  {| write := write st; read1 := read1 st; read2 := read2 st; slots := slots st; wpc := w; rpc := rpc st;
     nw := nw st; n1 := n1 st; n2 := n2 st; wseq := wseq st; rseq := rseq st; recv := recv st |}.
Definition set_rpc (st : state) (r : rstate) : state :=
  {| write := write st; read1 := read1 st; read2 := read2 st; slots := slots st; wpc := wpc st; rpc := r;
     nw := nw st; n1 := n1 st; n2 := n2 st; wseq := wseq st; rseq := rseq st; recv := recv st |}.
Definition add_recv (st : state) (p x : nat) : state :=
  {| write := write st; read1 := read1 st; read2 := read2 st; slots := slots st; wpc := wpc st; rpc := rpc st;
     nw := nw st; n1 := n1 st; n2 := n2 st; wseq := wseq st; rseq := rseq st; recv := (p, x) :: recv st |}.

Definition opt_list (o : option nat) : list nat := match o with Some x => [x] | None => [] end.

(** the writer's critical section at slot [s] once it holds the mutex: take the command if there is one *)
Definition writer_take (st : state) (s : nat) (r1' : N) : option state :=
  let x := slots st s in
  if Nat.eqb (mark x) 1 then
    Some (set_counts (set_slot st s (sl_mark x 2 (payload x))) (write st) r1' (read2 st) (nw st) (S (n1 st)) (n2 st)
            (wseq st ++ opt_list (payload x)) (rseq st))
  else None.

Definition lstep (k : nat) (st : state) (l : label) : option state :=
  match l with
  | PutTicket =>
      let w' := u32 (write st + 1)%N in
      let s := idx k w' in
      let p := S (nw st) in
      let x := slots st s in
      Some (set_counts (set_slot st s (sl_lists x (tk x ++ [p]) (parked1 x) (woken1 x) (bc x) (wt x)))
              w' (read1 st) (read2 st) p (n1 st) (n2 st) (wseq st) (rseq st))
  | PutLock p s m =>
      let x := slots st s in
      if negb (rlock x) && (memb p (tk x) || memb p (woken1 x)) then
        let x1 := if memb p (tk x) then sl_lists x (remove1 p (tk x)) (parked1 x) (woken1 x) (bc x) (wt x)
                  else sl_lists x (tk x) (parked1 x) (remove1 p (woken1 x)) (bc x) (wt x) in
        if Nat.eqb (mark x1) 0 then
          let x2 := sl_fill x1 p m in
          Some (set_slot st s (if slept x2 then sl_lists x2 (tk x2) (parked1 x2) (woken1 x2) (bc x2 ++ [p]) (wt x2)
                               else sl_lists x2 (tk x2) (parked1 x2) (woken1 x2) (bc x2) (wt x2 ++ [p])))
        else Some (set_slot st s (sl_lists x1 (tk x1) (parked1 x1 ++ [p]) (woken1 x1) (bc x1) (wt x1)))
      else None
  | PutBcast p s =>
      let x := slots st s in
      if memb p (bc x) then
        let x1 := sl_lists x (tk x) (parked1 x) (woken1 x) (remove1 p (bc x)) (wt x ++ [p]) in
        Some (set_slot st s (if wparked x1 then sl_writer x1 (slept x1) false true else x1))
      else None
  | WNext =>
      match wpc st with
      | WIdle =>
          let r1' := u32 (read1 st + 1)%N in
          let s := idx k r1' in
          if rlock (slots st s) then None
          else match writer_take st s r1' with Some st' => Some st' | None => Some st end
      | _ => None
      end
  | WWaitEnter =>
      match wpc st with
      | WIdle =>
          let r1' := u32 (read1 st + 1)%N in
          let s := idx k r1' in
          if rlock (slots st s) then None
          else match writer_take st s r1' with
               | Some st' => Some st'
               | None =>
                   let st1 := set_counts st (write st) r1' (read2 st) (nw st) (n1 st) (n2 st) (wseq st) (rseq st) in
                   Some (set_wpc (set_slot st1 s (sl_writer (slots st1 s) true true false)) (WWait s))
               end
      | _ => None
      end
  | WWaitRetry =>
      match wpc st with
      | WWait s =>
          let x := slots st s in
          if wwoken x && negb (rlock x) then
            let st1 := set_slot st s (sl_writer x false false false) in
            match writer_take st1 s (read1 st1) with
            | Some st' => Some (set_wpc st' WIdle)
            | None => Some (set_slot st1 s (sl_writer (slots st1 s) true true false))
            end
          else None
      | _ => None
      end
  | RNext =>
      match rpc st with
      | RIdle =>
          let r2' := u32 (read2 st + 1)%N in
          let s := idx k r2' in
          let x := slots st s in
          if rlock x then None
          else if Nat.eqb (mark x) 2 then
            let st1 := set_slot st s (sl_rlock (sl_clear x) true) in
            Some (set_rpc (set_counts st1 (write st1) (read1 st1) r2' (nw st1) (n1 st1) (S (n2 st1)) (wseq st1)
                             (rseq st1 ++ opt_list (payload x)))
                    (RHold s (Some (match payload x with Some i => i | None => 0%nat end))))
          else Some (set_rpc (set_slot st s (sl_rlock x true)) (RHold s None))
      | _ => None
      end
  | RDeliver p =>
      match rpc st with
      | RHold s (Some i) =>
          let x := slots st s in
          if memb p (wt x) then
            Some (set_rpc (add_recv (set_slot st s (sl_lists x (tk x) (parked1 x) (woken1 x) (bc x) (remove1 p (wt x)))) p i)
                    (RHold s None))
          else None
      | _ => None
      end
  | RUnlock =>
      match rpc st with
      | RHold s None => Some (set_rpc (set_slot st s (sl_rlock (slots st s) false)) (RSig s))
      | _ => None
      end
  | RSignal o =>
      match rpc st with
      | RSig s =>
          let x := slots st s in
          match o with
          | None => if is_nil (parked1 x) then Some (set_rpc st RIdle) else None
          | Some p =>
              if memb p (parked1 x) then
                Some (set_rpc (set_slot st s (sl_lists x (tk x) (remove1 p (parked1 x)) (woken1 x ++ [p]) (bc x) (wt x))) RIdle)
              else None
          end
      | _ => None
      end
  | WNextBusy =>
      (* r.read1++; TryLock fails; r.read1--; return: no state change.  No guard on the lock: the recorded
         position of this lock-free event need not be the instant of the failed TryLock. *)
      match wpc st with WIdle => Some st | _ => None end
  end.

Fixpoint run (k : nat) (ls : list label) (st : state) : option state :=
  match ls with
  | [] => Some st
  | l :: r => match lstep k st l with Some st' => run k r st' | None => None end
  end.

(** ---- trace validation ---- *)

(** A recorded step and what the hook saw: [t_code] 1 = a command was filled / taken / a result
    channel was taken, 2 = filled and the writer was asleep, 0 = nothing (parked, or an empty poll);
    [t_item] = the item involved when there is one. *)
Record tstep := { t_label : label; t_code : option nat; t_item : option nat;
                  t_tuple : option (option nat * option nat * option nat) }.
(** [t_tuple]: what the call returned as (one, multi, resps) - None = zero value / nil, Some p = the value
    putter p supplied - for the writer's and the reader's hand-outs ([resps] is not returned to the writer) *)

Definition opt_nat_eqb (a b : option nat) : bool :=
  match a, b with Some x, Some y => Nat.eqb x y | None, None => true | _, _ => false end.

(** what the model computes for the same observation *)
Definition observe (k : nat) (st st' : state) (l : label) : option nat * option nat :=
  match l with
  | PutLock p s _ =>
      if memb p (bc (slots st' s)) then (Some 2, Some p)
      else if memb p (wt (slots st' s)) then (Some 1, Some p) else (Some 0, None)
  | WNext | WWaitEnter | WWaitRetry =>
      if Nat.eqb (n1 st') (S (n1 st)) then (Some 1, Some (last (wseq st') 0)) else (Some 0, None)
  | RNext =>
      match rpc st' with RHold _ (Some i) => (Some 1, Some i) | _ => (Some 0, None) end
  | RDeliver p => match recv st' with (q, i) :: _ => (Some 1, Some i) | [] => (Some 0, None) end
  | _ => (None, None)
  end.

(** the (one, multi, resps) the code returns: the fields of the slot at the moment of the call *)
Definition handed (k : nat) (st : state) (l : label) : option nat * option nat * option nat :=
  match l with
  | WNext | WWaitEnter => let x := slots st (idx k (u32 (read1 st + 1)%N)) in (c_one x, c_multi x, None)
  | WWaitRetry => match wpc st with WWait s => let x := slots st s in (c_one x, c_multi x, None) | WIdle => (None, None, None) end
  | RNext => let x := slots st (idx k (u32 (read2 st + 1)%N)) in (c_one x, c_multi x, c_resps x)
  | _ => (None, None, None)
  end.

Definition tuple_eqb (a b : option nat * option nat * option nat) : bool :=
  match a, b with (a1, a2, a3), (b1, b2, b3) => opt_nat_eqb a1 b1 && opt_nat_eqb a2 b2 && opt_nat_eqb a3 b3 end.

Definition obs_ok (k : nat) (st st' : state) (x : tstep) : bool :=
  match t_code x with
  | None => true
  | Some c => let '(c', i') := observe k st st' (t_label x) in
              opt_nat_eqb (Some c) c' && match t_item x with None => true | Some i => opt_nat_eqb (Some i) i' end &&
              match t_tuple x with None => true | Some t => tuple_eqb t (handed k st (t_label x)) end
  end.

Fixpoint replay (k : nat) (ts : list tstep) (st : state) : option state :=
  match ts with
  | [] => Some st
  | x :: r =>
      match lstep k st (t_label x) with
      | Some st' => if obs_ok k st st' x then replay k r st' else None
      | None => None
      end
  end.

Fixpoint first_bad (k : nat) (ts : list tstep) (st : state) (i : nat) : option nat :=
  match ts with
  | [] => None
  | x :: r =>
      match lstep k st (t_label x) with
      | Some st' => if obs_ok k st st' x then first_bad k r st' (S i) else Some i
      | None => Some i
      end
  end.

Fixpoint slots_quiet (f : nat -> slot) (n : nat) : bool :=
  match n with
  | O => true
  | S m => let x := f m in
           Nat.eqb (mark x) 0 && negb (rlock x) && is_nil (tk x) && is_nil (parked1 x) && is_nil (woken1 x) &&
           is_nil (bc x) && is_nil (wt x) && slots_quiet f m
  end.

Fixpoint own_results (l : list (nat * nat)) : bool :=
  match l with [] => true | (p, i) :: r => Nat.eqb p i && own_results r end.

(** A recorded execution of the real ring with 2^k slots whose counters started at [start]: [np]
    commands were put, written and completed, everybody received a result. *)
Inductive case :=
| RingTrace (k : nat) (start : N) (ts : list tstep) (np : nat)
| RingEnc (k : nat) (start : N) (ds : list N) (np : nat).

(** compact encoding of a trace as a list of numbers (the case files are much cheaper to parse);
    a number packs kind (4 bits), p (12), s (4), code+1 or 0 (2), item+1 or 0 (13), the PutMulti flag (1),
    tuple present (1) and one+1, multi+1, resps+1 or 0 (8 bits each) *)
Definition dec_label (kind p s : nat) (m : bool) : label :=
  match kind with
  | 0 => PutTicket | 1 => PutLock p s m | 2 => PutBcast p s | 3 => WNext | 4 => WWaitEnter | 5 => WWaitRetry
  | 6 => RNext | 7 => RDeliver p | 8 => RUnlock | 9 => RSignal None | 10 => RSignal (Some p) | _ => WNextBusy
  end.

Definition dec_opt (x : N) : option nat := if N.eqb x 0 then None else Some (N.to_nat (x - 1)).

Definition dec_step (x : N) : tstep :=
  {| t_label := dec_label (N.to_nat (x mod 16)) (N.to_nat ((x / 16) mod 4096)) (N.to_nat ((x / 65536) mod 16))
                  (N.eqb ((x / 34359738368) mod 2) 1);
     t_code := dec_opt ((x / 1048576) mod 4);
     t_item := dec_opt ((x / 4194304) mod 8192);
     t_tuple := if N.eqb ((x / 68719476736) mod 2) 1
                then Some (dec_opt ((x / 137438953472) mod 256), dec_opt ((x / 35184372088832) mod 256),
                           dec_opt ((x / 9007199254740992) mod 256))
                else None |}.

Definition dec_steps (ds : list N) : list tstep := map dec_step ds.

Definition check_trace (k : nat) (start : N) (ts : list tstep) (np : nat) : bool :=
      match replay k ts (init start) with
      | Some st =>
          slots_quiet (slots st) (2 ^ k) && Nat.eqb (nw st) np && Nat.eqb (n1 st) np && Nat.eqb (n2 st) np &&
          Nat.eqb (length (recv st)) np && own_results (recv st) &&
          match rpc st with RIdle => true | _ => false end
      | None => false
      end.

Definition check_case (c : case) : bool :=
  match c with
  | RingEnc k start ds np => check_trace k start (dec_steps ds) np
  | RingTrace k start ts np =>
      match replay k ts (init start) with
      | Some st =>
          slots_quiet (slots st) (2 ^ k) && Nat.eqb (nw st) np && Nat.eqb (n1 st) np && Nat.eqb (n2 st) np &&
          Nat.eqb (length (recv st)) np && own_results (recv st) &&
          match rpc st with RIdle => true | _ => false end
      | None => false
      end
  end.

Definition mk (l : label) : tstep := {| t_label := l; t_code := None; t_item := None; t_tuple := None |}.
Definition mkc (l : label) (c : nat) : tstep := {| t_label := l; t_code := Some c; t_item := None; t_tuple := None |}.
Definition mki (l : label) (c i : nat) : tstep := {| t_label := l; t_code := Some c; t_item := Some i; t_tuple := None |}.
Definition mkt (l : label) (c i : nat) (t : option nat * option nat * option nat) : tstep :=
  {| t_label := l; t_code := Some c; t_item := Some i; t_tuple := Some t |}.
