(** Model of rueidisprob/slidingbloomfilter.go (C37).

    Server keys: the current filter [{name}], the next filter [{name}:n], their counters [{name}:c],
    [{name}:nc] and the rotation lock [{name}:lr], which is the only key with an expiry (SET … PX
    windowHalf NX).  A key that does not exist is [None] (RENAME of a missing key is a Redis error that
    aborts the script; what the script wrote before the error stays).  [now] is the server clock in
    milliseconds at the moment the script runs (the scripts call TIME only to store the value in the
    lock key; every decision is taken by the key expiry).  The lock is alive while [now < pxat]
    (fakeredis' expiry rule; Redis keeps a key one millisecond longer, [now <= pxat]).

    Every script is transcribed statement by statement: initialize, add (rotation, loop with two
    BITFIELD SET per index, two INCRBY), exists (rotation, loop), reset; Delete is DEL of the five keys.
    The client side (indexes, conversion of the reply) is Model/Bloom.v's. *)
From Coq Require Import List NArith ZArith Bool.
Require Import RV.Model.Base RV.Model.Bloom.
Import ListNotations.
Open Scope Z_scope.

Record sstate := {
  cur : option bitmap;    (* {name}    *)
  nxt : option bitmap;    (* {name}:n  *)
  ccnt : option Z;        (* {name}:c  *)
  ncnt : option Z;        (* {name}:nc *)
  lock : option Z         (* {name}:lr : expiry instant (pxat) *)
}.

Definition sempty : sstate := {| cur := None; nxt := None; ccnt := None; ncnt := None; lock := None |}.

Definition lock_alive (s : sstate) (now : Z) : bool :=
  match lock s with Some p => now <? p | None => false end.

Definition getb (o : option bitmap) : bitmap := match o with Some b => b | None => [] end.
Definition getz (o : option Z) : Z := match o with Some z => z | None => 0 end.

(** a script either finishes with a value or is aborted by a command error; the state is what was written so far *)
Inductive sres (A : Type) :=
| SOk (s : sstate) (a : A)
| SErr (s : sstate).
Arguments SOk {A} s a.
Arguments SErr {A} s.

(** slidingBloomFilterInitializeScript: only when none of the five keys exists *)
Definition sinit_script (wh now : Z) (s : sstate) : sres unit :=
  match cur s, nxt s, ccnt s, ncnt s, lock_alive s now with
  | None, None, None, None, false =>
    let s1 := {| cur := Some []; nxt := Some []; ccnt := Some 0; ncnt := Some 0; lock := None |} in
    if wh <=? 0 then SErr s1                                    (* SET … PX 0: invalid expire time *)
    else SOk {| cur := Some []; nxt := Some []; ccnt := Some 0; ncnt := Some 0; lock := Some (now + wh) |} tt
  | _, _, _, _, _ => SOk s tt
  end.

(** the common head of the add and exists scripts:
    [acquiredLock = SET lastRotationKey now PX windowHalf NX]; if acquired:
    RENAME next -> current, RENAME nextCounter -> counter, SET next "", SET nextCounter 0 *)
Definition rotate (wh now : Z) (s : sstate) : sres unit :=
  if wh <=? 0 then SErr s                                        (* SET … PX 0: invalid expire time, whatever NX says *)
  else if lock_alive s now then SOk s tt
  else
    let s1 := {| cur := cur s; nxt := nxt s; ccnt := ccnt s; ncnt := ncnt s; lock := Some (now + wh) |} in
    match nxt s with
    | None => SErr s1                                            (* RENAME: no such key *)
    | Some n =>
      let s2 := {| cur := Some n; nxt := None; ccnt := ccnt s; ncnt := ncnt s; lock := Some (now + wh) |} in
      match ncnt s with
      | None => SErr s2
      | Some c =>
        SOk {| cur := Some n; nxt := Some []; ccnt := Some c; ncnt := Some 0; lock := Some (now + wh) |} tt
      end
    end.

(** add script, the loop: BITFIELD SET on the current filter (old bit counted) and on the next one *)
Fixpoint sadd_loop (kk i one cnt : N) (idxs : list N) (c n : bitmap) : bitmap * bitmap * N :=
  match idxs with
  | [] => (c, n, cnt)
  | ix :: r =>
    let one' := (one + bit_of (testbit c ix))%N in
    let c' := setbit c ix in
    let n' := setbit n ix in
    if boundary kk i
    then sadd_loop kk (i + 1)%N 0%N (if (one' =? kk)%N then cnt else (cnt + 1)%N) r c' n'
    else sadd_loop kk (i + 1)%N one' cnt r c' n'
  end.

Definition sadd_script (wh now : Z) (kk : N) (idxs : list N) (s : sstate) : sres Z :=
  match rotate wh now s with
  | SErr s' => SErr s'
  | SOk s1 _ =>
    match idxs with
    | [] => (* no BITFIELD: the filter keys are not created; INCRBY creates the counters *)
      SOk {| cur := cur s1; nxt := nxt s1; ccnt := Some (getz (ccnt s1)); ncnt := Some (getz (ncnt s1)); lock := lock s1 |}
          (getz (ccnt s1))
    | _ =>
      let '(c, n, cnt) := sadd_loop kk 1%N 0%N 0%N idxs (getb (cur s1)) (getb (nxt s1)) in
      let d := Z.of_N cnt in
      SOk {| cur := Some c; nxt := Some n; ccnt := Some (getz (ccnt s1) + d); ncnt := Some (getz (ncnt s1) + d); lock := lock s1 |}
          (getz (ccnt s1) + d)
    end
  end.

Definition sexists_script (wh now : Z) (kk : N) (idxs : list N) (s : sstate) : sres (list bool) :=
  match rotate wh now s with
  | SErr s' => SErr s'
  | SOk s1 _ => SOk s1 (exists_loop kk 1%N 0%N idxs (getb (cur s1)))
  end.

(** slidingBloomFilterResetScript (no return value: the reply is nil) *)
Definition sreset_script (s : sstate) : sres unit :=
  match nxt s with
  | None => SErr s
  | Some n =>
    let s2 := {| cur := Some n; nxt := None; ccnt := ccnt s; ncnt := ncnt s; lock := lock s |} in
    match ncnt s with
    | None => SErr s2
    | Some c => SOk {| cur := Some n; nxt := Some []; ccnt := Some c; ncnt := Some 0; lock := lock s |} tt
    end
  end.

Section Client.
  Variable K : Type.
  Variable hash : K -> N * N.
  Variable size : N.
  Variable k : N.
  Variable wh : Z.     (* windowHalfMs = window.Milliseconds() / 2 *)

  Inductive sop :=
  | SInit                      (* NewSlidingBloomFilter's initialize() *)
  | SAdd (keys : list K)
  | SExists (keys : list K)
  | SCount
  | SReset
  | SDelete.

  Inductive sobs :=
  | XDone                                 (* nil error (for Reset: nil or the redis-nil of the empty reply) *)
  | XBools (r : result (list bool))
  | XCount (n : result Z)
  | XErr                                  (* the script was aborted by a Redis error: the method returns it *)
  | XPanic.

  Definition sane : bool := negb (size =? 0)%N && negb (k =? 0)%N.

  (** expired lock keys are deleted lazily by Redis; the model forgets them when it looks *)
  Definition sstep (s : sstate) (now : Z) (o : sop) : sstate * sobs :=
    match o with
    | SInit =>
      match sinit_script wh now s with
      | SOk s' _ => (s', XDone)
      | SErr s' => (s', XErr)
      end
    | SAdd [] => (s, XDone)
    | SAdd keys =>
      if sane then
        match sadd_script wh now k (flat_map (indexes_of K hash size k) keys) s with
        | SOk s' _ => (s', XDone)
        | SErr s' => (s', XErr)
        end
      else (s, XPanic)
    | SExists [] => (s, XBools (Ok []))
    | SExists keys =>
      if sane then
        match sexists_script wh now k (flat_map (indexes_of K hash size k) keys) s with
        | SOk s' r => (s', XBools (fill_results (length keys) r))
        | SErr s' => (s', XErr)
        end
      else (s, XPanic)
    | SCount =>
      (s, XCount (match ccnt s with None => Ok 0 | Some z => if z <? 0 then Err 1 else Ok z end))
    | SReset =>
      match sreset_script s with
      | SOk s' _ => (s', XDone)
      | SErr s' => (s', XErr)
      end
    | SDelete => (sempty, XDone)
    end.

  Fixpoint srun (s : sstate) (ops : list (Z * sop)) : sstate :=
    match ops with
    | [] => s
    | (now, o) :: r => srun (fst (sstep s now o)) r
    end.

  Definition sdestructive (o : sop) : bool :=
    match o with SReset | SDelete => true | _ => false end.
End Client.

Arguments SInit {K}.
Arguments SAdd {K} keys.
Arguments SExists {K} keys.
Arguments SCount {K}.
Arguments SReset {K}.
Arguments SDelete {K}.

(** ---- correspondence cases (printed by harness/cmd/obs_sbloom) ----
    A case is a history on a fresh server; every step carries the server clock at which it ran. *)
Inductive simpl :=
| YDone (sent : list N)
| YBools (sent : list N) (r : list bool)
| YCount (n : Z)
| YNoTrip
| YErr
| YState (c n : option (list N)) (cc nc : option Z) (lockpx : option Z).
     (* raw server state: set bits of both filters, counters, expiry of the lock key (None = no key) *)

Inductive case :=
| CSHist (size k : N) (wh : Z) (table : list (bytes * (N * N))) (steps : list (Z * option (sop bytes) * simpl)).

Definition nl_eqb := list_eqb N.eqb.

(** the model's bitmap and the server's bit list denote the same set *)
Definition bits_agree (m : option bitmap) (srv : option (list N)) : bool :=
  match m, srv with
  | None, None => true
  | Some b, Some l => forallb (testbit b) l && forallb (testbit l) b
  | _, _ => false
  end.

Definition sobs_agree (size k : N) (hash : bytes -> N * N) (o : sop bytes) (v : sobs) (i : simpl) : bool :=
  let idx keys := flat_map (indexes_of bytes hash size k) keys in
  match o, v, i with
  | SInit, XDone, YDone [] => true
  | SAdd [], XDone, YNoTrip => true
  | SExists [], XBools (Ok []), YNoTrip => true
  | SAdd keys, XDone, YDone sent => nl_eqb (idx keys) sent
  | SAdd keys, XErr, YErr => true
  | SExists keys, XBools (Ok r), YBools sent r' => nl_eqb (idx keys) sent && list_eqb Bool.eqb r r'
  | SExists keys, XErr, YErr => true
  | SCount, XCount (Ok n), YCount n' => Z.eqb n n'
  | SReset, XDone, YDone [] => true
  | SReset, XErr, YErr => true
  | SDelete, XDone, YDone [] => true
  | _, _, _ => false
  end.

Definition lock_view (s : sstate) (now : Z) : option Z :=
  match lock s with Some p => if now <? p then Some p else None | None => None end.

Fixpoint scheck_steps (size k : N) (wh : Z) (hash : bytes -> N * N) (s : sstate)
                      (steps : list (Z * option (sop bytes) * simpl)) : bool :=
  match steps with
  | [] => true
  | (now, Some o, i) :: r =>
    let '(s1, v) := sstep bytes hash size k wh s now o in
    sobs_agree size k hash o v i && scheck_steps size k wh hash s1 r
  | (now, None, YState c n cc nc lk) :: r =>
    bits_agree (cur s) c && bits_agree (nxt s) n
    && option_eqb Z.eqb (ccnt s) cc && option_eqb Z.eqb (ncnt s) nc
    && option_eqb Z.eqb (lock_view s now) lk
    && scheck_steps size k wh hash s r
  | (_, None, _) :: _ => false
  end.

Definition check_case (c : case) : bool :=
  match c with
  | CSHist size k wh table steps => scheck_steps size k wh (lookup_hash table) sempty steps
  end.
