(** Model of NewSimpleCacheAdapter (cache.go: adapter, adapterEntry) over an abstract SimpleCache.

    The SimpleCache is a finite map from strings to messages ([astore]); besides Get / Set / Del /
    Flush it may forget any entry at any time ([StoreDrop], an arbitrary eviction policy of the user's
    cache).  [aflights] is the two-level map flights[key][cmd]: a row is either a pending
    adapterEntry or the nil marker the code leaves behind ("a value for this command may be in the
    SimpleCache"); [None] = the map was set to nil by Close.
    The store identity of a command is the concatenation key ++ cmd (C08).
    Definitions only.  Same conventions as Model/Lru.v (time in ns, messages, outputs vocabulary). *)
From Coq Require Import List NArith ZArith Bool.
Require Import RV.Model.Base RV.Model.Lru.
Import ListNotations.
Open Scope Z_scope.

Record aentry := mkAE { aid : N; axat : Z }.            (* adapterEntry: identity, xat (int64, not truncated) *)
Record flrow := FR { fr_key : bytes; fr_cmd : bytes; fr_ent : option aentry }.
Record srow := SR { sr_key : bytes; sr_val : msg }.

Record astate := mkA {
  aflights : option (list flrow);
  astore : list srow;
  anext : N
}.

Definition ainit : astate := mkA (Some []) [] 0.

(** SimpleCache *)
Fixpoint sget (sk : bytes) (l : list srow) : msg :=
  match l with
  | [] => empty_msg
  | SR k v :: r => if bytes_eqb sk k then v else sget sk r
  end.
Definition sdel (sk : bytes) (l : list srow) : list srow := filter (fun r => negb (bytes_eqb sk (sr_key r))) l.
Definition sset (sk : bytes) (v : msg) (l : list srow) : list srow := SR sk v :: sdel sk l.

(** flights[key][cmd] *)
Definition fmatch (k c : bytes) (r : flrow) : bool := bytes_eqb k (fr_key r) && bytes_eqb c (fr_cmd r).
Definition flookup (k c : bytes) (l : list flrow) : option (option aentry) := option_map fr_ent (find (fmatch k c) l).
Definition fdel (k c : bytes) (l : list flrow) : list flrow := filter (fun r => negb (fmatch k c r)) l.
Definition fset (k c : bytes) (x : option aentry) (l : list flrow) : list flrow := FR k c x :: fdel k c l.

(** v.typ != 0 && v.relativePTTL(now) > 0 *)
Definition a_live (v : msg) (now : Z) : bool := negb (is_pending_msg v) && (0 <? rel_pttl v now).

Inductive aout :=
| AOFlight (v : msg) (ce : option N)                  (* Flight / FlightSlow *)
| AOFastHit (v : msg) | AOFastWait (id : N) | AOFastNone   (* the read-locked section *)
| AOUpdate (sxat : Z) (r : option rel)
| AOCancel (r : option N)                             (* Wait returns (RedisMessage{}, err) *)
| AOClose (r : list N)
| AONone.

(** Flight, read-locked section *)
Definition afast (s : astate) (k c : bytes) (now : Z) : aout :=
  let v := sget (k ++ c) (astore s) in
  if a_live v now then AOFastHit v
  else match aflights s with
       | Some fl => match flookup k c fl with Some (Some ae) => AOFastWait (aid ae) | _ => AOFastNone end
       | None => AOFastNone
       end.

(** Flight, write-locked section (repaired code: the SimpleCache is looked up again under the lock) *)
Definition aslow (s : astate) (k c : bytes) (ttl now : Z) : astate * aout :=
  let v := sget (k ++ c) (astore s) in
  if a_live v now then (s, AOFlight v None)
  else match aflights s with
       | None => (s, AOFlight empty_msg None)
       | Some fl =>
           match flookup k c fl with
           | Some (Some ae) => (s, AOFlight empty_msg (Some (aid ae)))
           | _ => (mkA (Some (fset k c (Some (mkAE (anext s) (unix_milli (now + ttl)))) fl)) (astore s) (N.succ (anext s)),
                   AOFlight empty_msg None)
           end
       end.

Definition aflight (s : astate) (k c : bytes) (ttl now : Z) : astate * aout :=
  match afast s k c now with
  | AOFastHit v => (s, AOFlight v None)
  | AOFastWait id => (s, AOFlight empty_msg (Some id))
  | _ => aslow s k c ttl now
  end.

Definition aupdate (s : astate) (k c : bytes) (v : msg) : astate * aout :=
  match aflights s with
  | Some fl =>
      match flookup k c fl with
      | Some (Some ae) =>
          let sx := m_xat v in
          let short := (axat ae <? sx) || (sx =? 0) in
          let px := if short then axat ae else sx in
          let v' := if short then set_xat v (trunc56 (axat ae)) else v in
          (mkA (Some (fset k c None fl)) (sset (k ++ c) v' (astore s)) (anext s), AOUpdate px (Some (Rel (aid ae) v')))
      | _ => (s, AOUpdate 0 None)
      end
  | None => (s, AOUpdate 0 None)
  end.

Definition acancel (s : astate) (k c : bytes) : astate * aout :=
  match aflights s with
  | Some fl =>
      match flookup k c fl with
      | Some (Some ae) => (mkA (Some (fset k c None fl)) (astore s) (anext s), AOCancel (Some (aid ae)))
      | _ => (s, AOCancel None)
      end
  | None => (s, AOCancel None)
  end.

(** adapter.del for the keys selected by [p]: every nil-marked command of the key is deleted from the
    SimpleCache and from the table; pending ones stay *)
Definition is_marker (r : flrow) : bool := match fr_ent r with None => true | Some _ => false end.
Definition adel_if (p : bytes -> bool) (s : astate) : astate :=
  match aflights s with
  | Some fl =>
      let gone := filter (fun r => p (fr_key r) && is_marker r) fl in
      mkA (Some (filter (fun r => negb (p (fr_key r) && is_marker r)) fl))
          (fold_left (fun st r => sdel (fr_key r ++ fr_cmd r) st) gone (astore s)) (anext s)
  | None => s
  end.
Definition adelete (s : astate) (keys : option (list bytes)) : astate :=
  match keys with
  | None => adel_if (fun _ => true) s
  | Some ks => adel_if (fun k => existsb (bytes_eqb k) ks) s
  end.

Definition pending_ids (fl : list flrow) : list N :=
  flat_map (fun r => match fr_ent r with Some ae => [aid ae] | None => [] end) fl.

Definition aclose (s : astate) : astate * aout :=
  (mkA None [] (anext s), AOClose (match aflights s with Some fl => pending_ids fl | None => [] end)).

Inductive aop :=
| AFlight (k c : bytes) (ttl now : Z)
| AUpdate (k c : bytes) (v : msg)
| ACancel (k c : bytes) (err : N)
| ADelete (keys : option (list bytes))
| AClose (err : N)
| AStoreDrop (sk : bytes)            (* the SimpleCache forgets an entry *)
| AFlightFast (k c : bytes) (now : Z)
| AFlightSlow (k c : bytes) (ttl now : Z).

Definition astep (s : astate) (o : aop) : astate * aout :=
  match o with
  | AFlight k c ttl now => aflight s k c ttl now
  | AUpdate k c v => aupdate s k c v
  | ACancel k c _ => acancel s k c
  | ADelete keys => (adelete s keys, AONone)
  | AClose _ => aclose s
  | AStoreDrop sk => (mkA (aflights s) (sdel sk (astore s)) (anext s), AONone)
  | AFlightFast k c now => (s, afast s k c now)
  | AFlightSlow k c ttl now => aslow s k c ttl now
  end.

Definition arun (ops : list aop) (s : astate) : astate := fold_left (fun st o => fst (astep st o)) ops s.

(** vocabulary of the statements *)
Definition a_answers (k c : bytes) (o : aop) (x : aout) : list ans :=
  match o, x with
  | AFlight k' c' _ _, AOFlight v ce | AFlightSlow k' c' _ _, AOFlight v ce =>
      if bytes_eqb k k' && bytes_eqb c c' then [ans_of_flight v ce] else []
  | AFlightFast k' c' _, AOFastHit v => if bytes_eqb k k' && bytes_eqb c c' then [AHit v] else []
  | AFlightFast k' c' _, AOFastWait id => if bytes_eqb k k' && bytes_eqb c c' then [AWait id] else []
  | _, _ => []
  end.
Definition a_now_of (o : aop) : Z :=
  match o with AFlight _ _ _ now | AFlightFast _ _ now | AFlightSlow _ _ _ now => now | _ => 0 end.
Definition a_invalidates (k : bytes) (o : aop) : Prop :=
  match o with ADelete None => True | ADelete (Some ks) => In k ks | AClose _ => True | _ => False end.
Definition a_resolves (k c : bytes) (o : aop) : Prop :=
  match o with AUpdate k' c' _ | ACancel k' c' _ => k' = k /\ c' = c | AClose _ => True | _ => False end.
Definition a_released (x : aout) : list N :=
  match x with
  | AOUpdate _ (Some (Rel id _)) => [id]
  | AOCancel (Some id) => [id]
  | AOClose ids => ids
  | _ => []
  end.

(** ** correspondence cases *)

Inductive arow := ARow (key cmd : bytes) (ent : option N) (xat : Z).   (* pending: identity and xat; marker: None, 0 *)
Inductive ssnap := SS (key : bytes) (typ : N) (xat : Z).     (* a SimpleCache row: key, type byte and expiry of the value *)
Record asnap := mkASnap { as_closed : bool; as_flights : list arow; as_store : list ssnap }.

Definition arow_eqb (a b : arow) : bool :=
  let 'ARow k1 c1 e1 x1 := a in let 'ARow k2 c2 e2 x2 := b in
  bytes_eqb k1 k2 && bytes_eqb c1 c2 && option_eqb N.eqb e1 e2 && (x1 =? x2).
Definition ssnap_eqb (a b : ssnap) : bool :=
  let 'SS k1 t1 x1 := a in let 'SS k2 t2 x2 := b in bytes_eqb k1 k2 && (t1 =? t2)%N && (x1 =? x2).
(** Go map iteration order is arbitrary: compare as sets of equal size *)
Definition same_set {A : Type} (eqb : A -> A -> bool) (l1 l2 : list A) : bool :=
  (length l1 =? length l2)%nat && forallb (fun x => existsb (eqb x) l2) l1 && forallb (fun x => existsb (eqb x) l1) l2.

Definition arows_of (s : astate) : list arow :=
  match aflights s with
  | Some fl => map (fun r => match fr_ent r with Some ae => ARow (fr_key r) (fr_cmd r) (Some (aid ae)) (axat ae)
                                            | None => ARow (fr_key r) (fr_cmd r) None 0 end) fl
  | None => []
  end.
Definition asnap_ok (sn : asnap) (s : astate) : bool :=
  Bool.eqb (as_closed sn) (match aflights s with None => true | _ => false end) &&
  same_set arow_eqb (as_flights sn) (arows_of s) &&
  same_set ssnap_eqb (as_store sn) (map (fun r => SS (sr_key r) (m_typ (sr_val r)) (m_xat (sr_val r))) (astore s)).

Definition aout_eqb (a b : aout) : bool :=
  match a, b with
  | AOFlight v ce, AOFlight w cf => msg_eqb v w && option_eqb N.eqb ce cf
  | AOFastHit v, AOFastHit w => msg_eqb v w
  | AOFastWait i, AOFastWait j => (i =? j)%N
  | AOFastNone, AOFastNone => true
  | AOUpdate p r, AOUpdate p' r' => (p =? p') && option_eqb rel_eqb r r'
  | AOCancel r, AOCancel r' => option_eqb N.eqb r r'
  | AOClose l, AOClose l' => same_set N.eqb l l'
  | AONone, AONone => true
  | _, _ => false
  end.

Inductive aitem := AIOp (o : aop) (x : aout) (sn : asnap).

Fixpoint acheck_items (s : astate) (l : list aitem) : bool :=
  match l with
  | [] => true
  | AIOp o x sn :: r =>
      let '(s1, y) := astep s o in
      aout_eqb x y && asnap_ok sn s1 && acheck_items s1 r
  end.

Inductive case := CAHist (l : list aitem).
Definition check_case (c : case) : bool := match c with CAHist l => acheck_items ainit l end.
