(** Model of the object-mapping add-on (om/hash.go, om/conv.go, om/schema.go, om/json.go, om/repo.go).

    One entity key of one repository.  The server side is a Redis hash (field -> string, plus an
    expiry on the server clock) transformed by [hashSaveScript]; the client side is [toExec]
    (entity -> KEYS/ARGV), [Save] (reply -> error / new version) and [Fetch] (HGETALL -> entity).
    Every script execution is atomic on the server, so an interleaving of savers is a list of saves.

    Field conversion (om/conv.go [converters]) is concrete for int64 / string / bool and their
    pointers, []byte, []float32 / []float64 (the C45 model [RV.Model.Binary]); struct-like kinds
    (json.Marshal / json.Unmarshal) are abstract: a type [J] with [jprint] / [jparse] / [jzero]
    (Section variables; the tie instantiates them with "a struct value is its canonical JSON text").

    Lua numbers: the script computes [tostring(tonumber(ARGV[2])+1)].  Lua 5.1 prints numbers with
    "%.14g", so the result is the decimal numeral of v+1 exactly when |v+1| < 10^14; beyond that range
    the model answers [SOutOfRange] (a distinct outcome, excluded by hypothesis in the theorems).

    No proofs in this file. *)
From Coq Require Import List Arith NArith ZArith Bool Decimal DecimalN.
Require Import RV.Model.Base RV.Model.Binary.
Import ListNotations.
Open Scope N_scope.

(** ---- decimal numerals: strconv.FormatInt / strconv.ParseInt(s, 10, 64) ---- *)

Fixpoint bytes_of_uint (u : Decimal.uint) : bytes :=
  match u with
  | Nil => []
  | D0 r => 48 :: bytes_of_uint r | D1 r => 49 :: bytes_of_uint r | D2 r => 50 :: bytes_of_uint r
  | D3 r => 51 :: bytes_of_uint r | D4 r => 52 :: bytes_of_uint r | D5 r => 53 :: bytes_of_uint r
  | D6 r => 54 :: bytes_of_uint r | D7 r => 55 :: bytes_of_uint r | D8 r => 56 :: bytes_of_uint r
  | D9 r => 57 :: bytes_of_uint r
  end.

Definition digit_cons (b : N) (u : Decimal.uint) : option Decimal.uint :=
  match b with
  | 48 => Some (D0 u) | 49 => Some (D1 u) | 50 => Some (D2 u) | 51 => Some (D3 u) | 52 => Some (D4 u)
  | 53 => Some (D5 u) | 54 => Some (D6 u) | 55 => Some (D7 u) | 56 => Some (D8 u) | 57 => Some (D9 u)
  | _ => None
  end.

Fixpoint uint_of_bytes (bs : bytes) : option Decimal.uint :=
  match bs with
  | [] => Some Nil
  | b :: r => match uint_of_bytes r with
              | Some u => digit_cons b u
              | None => None
              end
  end.

Definition print_N (n : N) : bytes := bytes_of_uint (N.to_uint n).

(** at least one digit, digits only *)
Definition parse_N (bs : bytes) : option N :=
  match bs with
  | [] => None
  | _ => match uint_of_bytes bs with Some u => Some (N.of_uint u) | None => None end
  end.

(** strconv.FormatInt(z, 10) *)
Definition print_Z (z : Z) : bytes :=
  if (z <? 0)%Z then 45 :: print_N (Z.abs_N z) else print_N (Z.to_N z).

(** strconv.ParseInt(s, 10, 64): optional sign, digits, int64 range; [None] = error *)
Definition parse_int64 (bs : bytes) : option Z :=
  match bs with
  | 45 :: r => match parse_N r with
               | Some n => if (n <=? 2 ^ 63) then Some (- Z.of_N n)%Z else None
               | None => None
               end
  | 43 :: r => match parse_N r with
               | Some n => if (n <? 2 ^ 63) then Some (Z.of_N n) else None
               | None => None
               end
  | _ => match parse_N bs with
         | Some n => if (n <? 2 ^ 63) then Some (Z.of_N n) else None
         | None => None
         end
  end.

Definition int64_ok (z : Z) : bool := ((- 2 ^ 63 <=? z) && (z <? 2 ^ 63))%Z.

(** the range in which Lua 5.1's [tostring(tonumber(s)+1)] is the decimal numeral of z+1 *)
Definition lua_ver_ok (z : Z) : bool := ((- 10 ^ 14 <? z) && (z + 1 <? 10 ^ 14))%Z.

(** [tostring(tonumber(s)+1)] on the strings Go sends (canonical int64 numerals) *)
Definition lua_incr (s : bytes) : option bytes :=
  match parse_int64 s with
  | Some z => if lua_ver_ok z then Some (print_Z (z + 1)) else None
  | None => None
  end.

(** ---- the server: one hash key ---- *)

Definition hash := list (bytes * bytes).

Fixpoint hget (h : hash) (k : bytes) : option bytes :=
  match h with
  | [] => None
  | (k', v) :: r => if bytes_eqb k' k then Some v else hget r k
  end.

Fixpoint hset (h : hash) (k v : bytes) : hash :=
  match h with
  | [] => [(k, v)]
  | (k', v') :: r => if bytes_eqb k' k then (k, v) :: r else (k', v') :: hset r k v
  end.

Fixpoint hdel (h : hash) (k : bytes) : hash :=
  match h with
  | [] => []
  | (k', v') :: r => if bytes_eqb k' k then hdel r k else (k', v') :: hdel r k
  end.

(** HSET key f1 v1 f2 v2 …: [None] = wrong number of arguments *)
Fixpoint hset_pairs (h : hash) (l : list bytes) : option hash :=
  match l with
  | [] => Some h
  | k :: v :: r => hset_pairs (hset h k v) r
  | [_] => None
  end.

Definition hdel_all (h : hash) (ks : list bytes) : hash := fold_left hdel ks h.

Record hrec := { h_fields : hash; h_pxat : Z (* 0 = no expiry; unix ms on the server clock *) }.

(** lazy expiry, evaluated against the server clock on access *)
Definition live (now : Z) (st : option hrec) : option hrec :=
  match st with
  | Some r => if ((h_pxat r =? 0) || (now <? h_pxat r))%Z then Some r else None
  | None => None
  end.

Inductive sreply :=
| SNil                (* Lua nil / false  -> RESP null *)
| SStr (s : bytes)
| SErr                (* a redis.call raised an error (the effects applied before it stay) *)
| SOutOfRange.        (* version outside [lua_ver_ok]: "%.14g" formatting not modelled *)

(** HSET on the (possibly absent) key; keeps the expiry of an existing key *)
Definition do_hset (st : option hrec) (l : list bytes) : option (option hrec) :=
  let '(h, px) := match st with Some r => (h_fields r, h_pxat r) | None => ([], 0%Z) end in
  match l with
  | [] => None                                   (* HSET key: wrong number of arguments *)
  | _ => match hset_pairs h l with
         | Some h' => Some (Some {| h_fields := h'; h_pxat := px |})
         | None => None
         end
  end.

(** HDEL key f…: an emptied hash is removed *)
Definition do_hdel (st : option hrec) (ks : list bytes) : option hrec :=
  match st with
  | Some r => match hdel_all (h_fields r) ks with
              | [] => None
              | h' => Some {| h_fields := h'; h_pxat := h_pxat r |}
              end
  | None => None
  end.

(** PEXPIREAT key ms: [None] = "value is not an integer" *)
Definition do_pexpireat (now : Z) (st : option hrec) (e : bytes) : option (option hrec) :=
  match parse_int64 e with
  | None => None
  | Some t => match st with
              | None => Some None
              | Some r => if (t <=? now)%Z then Some None
                          else Some (Some {| h_fields := h_fields r; h_pxat := t |})
              end
  end.

(** the tail shared by both branches of the script:
      if redis.call('HSET',KEYS[1],unpack(ARGV)) then
        if #d > 0 then redis.call('HDEL',KEYS[1],unpack(d)) end
        if e then redis.call('PEXPIREAT',KEYS[1],e) end … *)
Definition write_tail (now : Z) (st : option hrec) (argv dels : list bytes) (e : option bytes)
  : option (option hrec) :=
  match do_hset st argv with
  | None => None
  | Some st1 =>
    let st2 := match dels with [] => st1 | _ => do_hdel st1 dels end in
    match e with
    | None => Some st2
    | Some t => match do_pexpireat now st2 t with
                | Some st3 => Some st3
                | None => None
                end
    end
  end.

(** [local e = (#ARGV % 2 == 1) and table.remove(ARGV) or nil] *)
Definition split_exat (argv : list bytes) : list bytes * option bytes :=
  if Nat.odd (length argv) then (removelast argv, Some (last argv [])) else (argv, None).

(** [local d = {} for i = 1, tonumber(table.remove(ARGV)) do d[i] = table.remove(ARGV) end]:
    the last element is the number of trailing field names to clear.  [None] = malformed. *)
Definition split_dels (argv : list bytes) : option (list bytes * list bytes) :=
  match List.rev argv with
  | [] => None
  | cnt :: rest =>
    match parse_N cnt with
    | None => None
    | Some n => let n := N.to_nat n in
                if (length rest <? n)%nat then None
                else Some (List.rev (skipn n rest), firstn n rest)
    end
  end.

(** replace ARGV[2] *)
Definition set_second (argv : list bytes) (v : bytes) : list bytes :=
  match argv with a1 :: _ :: r => a1 :: v :: r | _ => argv end.

(** the branch [if (ARGV[1] == '') then … return ARGV[2] end] *)
Definition script_verless (now : Z) (st : option hrec) (argv dels : list bytes) (a2 : bytes) : option hrec * sreply :=
  let '(argv', e) := split_exat argv in
  match write_tail now st argv' dels e with
  | Some st' => (st', SStr a2)
  | None => (st, SErr)
  end.

(** the version-checking branch *)
Definition script_ver (now : Z) (st : option hrec) (argv dels : list bytes) (a1 a2 : bytes) : option hrec * sreply :=
  let v := match st with Some r => hget (h_fields r) a1 | None => None end in
  let pass := match v with None => true | Some s => bytes_eqb s a2 end in
  if pass then
    match lua_incr a2 with
    | None => (st, SOutOfRange)
    | Some a2' =>
      let '(argv', e) := split_exat (set_second argv a2') in
      match write_tail now st argv' dels e with
      | Some st' => (st', SStr a2')
      | None => (st, SErr)
      end
    end
  else (st, SNil).

(** hashSaveScript (om/hash.go) executed at server time [now] on the key's state *)
Definition hash_save_script (now : Z) (st0 : option hrec) (argv0 : list bytes) : option hrec * sreply :=
  let st := live now st0 in
  match split_dels argv0 with
  | None => (st, SErr)
  | Some (argv, dels) =>
    match argv with
    | a1 :: a2 :: _ =>
      match a1 with
      | [] => script_verless now st argv dels a2
      | _ => script_ver now st argv dels a1 a2
      end
    | _ => (st, SErr)
    end
  end.

(** ---- the client: field conversion (om/conv.go) ---- *)

Inductive kind := KInt | KStr | KBool | KPInt | KPStr | KPBool | KBytes | KVec32 | KVec64 | KJson.

Definition kind_eqb (a b : kind) : bool :=
  match a, b with
  | KInt, KInt | KStr, KStr | KBool, KBool | KPInt, KPInt | KPStr, KPStr | KPBool, KPBool
  | KBytes, KBytes | KVec32, KVec32 | KVec64, KVec64 | KJson, KJson => true
  | _, _ => false
  end.

Definition str_t : bytes := [116].   (* "t" *)
Definition str_f : bytes := [102].   (* "f" *)

Section Conv.
  (** struct-like field kinds go through encoding/json *)
  Variable J : Type.
  Variable jprint : J -> bytes.            (* json.Marshal *)
  Variable jparse : bytes -> option J.     (* json.Unmarshal into the zero value; None = error *)
  Variable jzero : bytes -> J.             (* the zero value of the struct-like field with that name *)

  Inductive fval :=
  | VInt (z : Z) | VStr (s : bytes) | VBool (b : bool)
  | VPInt (o : option Z) | VPStr (o : option bytes) | VPBool (o : option bool)
  | VBytes (s : bytes)
  | VVec32 (ws : list N) | VVec64 (ws : list N)     (* IEEE bit patterns, as in Model.Binary *)
  | VJson (j : J).

  Definition kind_of (v : fval) : kind :=
    match v with
    | VInt _ => KInt | VStr _ => KStr | VBool _ => KBool | VPInt _ => KPInt | VPStr _ => KPStr
    | VPBool _ => KPBool | VBytes _ => KBytes | VVec32 _ => KVec32 | VVec64 _ => KVec64 | VJson _ => KJson
    end.

  Definition bool_str (b : bool) : bytes := if b then str_t else str_f.

  (** converter.ValueToString: [None] = (_, false): the field is left out of the HSET *)
  Definition to_string (v : fval) : option bytes :=
    match v with
    | VInt z => Some (print_Z z)
    | VStr s => Some s
    | VBool b => Some (bool_str b)
    | VPInt (Some z) => Some (print_Z z)
    | VPStr (Some s) => Some s
    | VPBool (Some b) => Some (bool_str b)
    | VPInt None | VPStr None | VPBool None => None
    | VBytes s => Some s
    | VVec32 ws => Some (vector_string 4 ws)
    | VVec64 ws => Some (vector_string 8 ws)
    | VJson j => Some (jprint j)
    end.

  (** converter.StringToValue; error 2 = conversion error, [Panic] = ToVectorNN slicing out of range *)
  Definition of_string (k : kind) (s : bytes) : result fval :=
    match k with
    | KInt => match parse_int64 s with Some z => Ok (VInt z) | None => Err 2 end
    | KStr => Ok (VStr s)
    | KBool => Ok (VBool (bytes_eqb s str_t))
    | KPInt => match parse_int64 s with Some z => Ok (VPInt (Some z)) | None => Err 2 end
    | KPStr => Ok (VPStr (Some s))
    | KPBool => Ok (VPBool (Some (bytes_eqb s str_t)))
    | KBytes => Ok (VBytes s)
    | KVec32 => match to_vector_top 4 s with Ok ws => Ok (VVec32 ws) | Err e => Err e | Panic => Panic end
    | KVec64 => match to_vector_top 8 s with Ok ws => Ok (VVec64 ws) | Err e => Err e | Panic => Panic end
    | KJson => match jparse s with Some j => Ok (VJson j) | None => Err 2 end
    end.

  (** the Go zero value a field keeps when the hash has no such field *)
  Definition zero_of (n : bytes) (k : kind) : fval :=
    match k with
    | KInt => VInt 0 | KStr => VStr [] | KBool => VBool false
    | KPInt => VPInt None | KPStr => VPStr None | KPBool => VPBool None
    | KBytes => VBytes [] | KVec32 => VVec32 [] | KVec64 => VVec64 []
    | KJson => VJson (jzero n)
    end.

  (** schema: name of the key field, name of the version field (None = verless), the other fields *)
  Record schema := { s_key : bytes; s_ver : option bytes; s_fields : list (bytes * kind) }.

  Record entity := { e_key : bytes; e_ver : Z; e_fields : list (bytes * fval); e_ext : Z (* exat, unix ms; 0 = none *) }.

  Definition with_ver (e : entity) (v : Z) : entity :=
    {| e_key := e_key e; e_ver := v; e_fields := e_fields e; e_ext := e_ext e |}.

  Definition ver_name (sc : schema) : bytes := match s_ver sc with Some n => n | None => [] end.

  Fixpoint field_pairs (fs : list (bytes * fval)) : list bytes :=
    match fs with
    | [] => []
    | (n, v) :: r => match to_string v with
                     | Some s => n :: s :: field_pairs r
                     | None => field_pairs r
                     end
    end.

  (** schema fields that got no string form (nil pointers): cleared by the script *)
  Fixpoint field_dels (fs : list (bytes * fval)) : list bytes :=
    match fs with
    | [] => []
    | (n, v) :: r => match to_string v with
                     | Some _ => field_dels r
                     | None => n :: field_dels r
                     end
    end.

  (** HashRepository.toExec: ARGV (the version pair first, then the key field, the other pairs,
      the optional exat, the names to clear and their count) *)
  Definition exec_args (sc : schema) (e : entity) : list bytes :=
    let vv := match s_ver sc with Some _ => print_Z (e_ver e) | None => [] end in
    ver_name sc :: vv :: (s_key sc :: e_key e :: field_pairs (e_fields e))
      ++ (if (e_ext e =? 0)%Z then [] else [print_Z (e_ext e)])
      ++ field_dels (e_fields e) ++ [print_N (N.of_nat (length (field_dels (e_fields e))))].

  Inductive save_res :=
  | SaveOk (newver : Z)      (* nil error; the entity's version field now holds newver (verless: unchanged 0) *)
  | SaveMismatch             (* ErrVersionMismatch *)
  | SaveErr                  (* another error *)
  | SaveOutOfRange.

  (** HashRepository.Save: script + reply handling ([ver, _ := strconv.ParseInt(str)]: 0 on error) *)
  Definition save (sc : schema) (now : Z) (st : option hrec) (e : entity) : option hrec * save_res :=
    let '(st', r) := hash_save_script now st (exec_args sc e) in
    match r with
    | SNil => (st', SaveMismatch)
    | SErr => (st', SaveErr)
    | SOutOfRange => (st', SaveOutOfRange)
    | SStr s => match s_ver sc with
                | None => (st', SaveOk (e_ver e))
                | Some _ => (st', SaveOk (match parse_int64 s with Some z => z | None => 0%Z end))
                end
    end.

  (** hashConv.FromHash over the schema's fields *)
  Fixpoint from_fields (h : hash) (fs : list (bytes * kind)) : result (list (bytes * fval)) :=
    match fs with
    | [] => Ok []
    | (n, k) :: r =>
      match (match hget h n with Some s => of_string k s | None => Ok (zero_of n k) end) with
      | Ok v => match from_fields h r with
                | Ok vs => Ok ((n, v) :: vs)
                | Err e => Err e
                | Panic => Panic
                end
      | Err e => Err e
      | Panic => Panic
      end
    end.

  (** HashRepository.Fetch: HGETALL + fromHash.  Error 1 = ErrEmptyHashRecord, 2 = conversion error.
      The fetched entity's exat is whatever its JSON field decodes to; the model reports 0 there
      (the tie compares keys, versions and fields). *)
  Definition fetch (sc : schema) (now : Z) (st : option hrec) : result entity :=
    match live now st with
    | None => Err 1
    | Some r =>
      let h := h_fields r in
      match h with
      | [] => Err 1
      | _ =>
        let key := match hget h (s_key sc) with Some s => s | None => [] end in
        match (match s_ver sc with
               | None => Ok 0%Z
               | Some n => match hget h n with
                           | None => Ok 0%Z
                           | Some s => match parse_int64 s with Some z => Ok z | None => Err 2 end
                           end
               end) with
        | Ok ver => match from_fields h (s_fields sc) with
                    | Ok fs => Ok {| e_key := key; e_ver := ver; e_fields := fs; e_ext := 0 |}
                    | Err e => Err e
                    | Panic => Panic
                    end
        | Err e => Err e
        | Panic => Panic
        end
      end
    end.

  (** a history of operations on the key; every op carries the server time at which it executes *)
  Inductive op :=
  | OSave (now : Z) (e : entity)
  | OFetch (now : Z)
  | ORemove
  | ORawHSet (now : Z) (f v : bytes).  (* another application writes a field (HSET key f v) *)

  Inductive obs :=
  | BSave (r : save_res)
  | BFetch (r : result entity)
  | BNone.

  Definition step (sc : schema) (st : option hrec) (o : op) : option hrec * obs :=
    match o with
    | OSave now e => let '(st', r) := save sc now st e in (st', BSave r)
    | OFetch now => (st, BFetch (fetch sc now st))
    | ORemove => (None, BNone)
    | ORawHSet now f v => (match do_hset (live now st) [f; v] with Some st' => st' | None => live now st end, BNone)
    end.

  Fixpoint run (sc : schema) (st : option hrec) (ops : list op) : option hrec * list obs :=
    match ops with
    | [] => (st, [])
    | o :: r => let '(st1, b) := step sc st o in
                let '(st2, bs) := run sc st1 r in (st2, b :: bs)
    end.

  (** well-formed entity for a schema: same field names in the same order, kinds as declared *)
  Fixpoint fields_ok (fs : list (bytes * fval)) (ks : list (bytes * kind)) : bool :=
    match fs, ks with
    | [], [] => true
    | (n, v) :: r, (n', k) :: r' => bytes_eqb n n' && kind_eqb (kind_of v) k && fields_ok r r'
    | _, _ => false
    end.

  (** values a Go entity can hold *)
  Definition val_ok (v : fval) : Prop :=
    match v with
    | VInt z | VPInt (Some z) => int64_ok z = true
    | VVec32 ws => Forall (fun w => w < 2 ^ 32) ws
    | VVec64 ws => Forall (fun w => w < 2 ^ 64) ws
    | _ => True
    end.

  (** an entity of the schema's Go type: field names as declared (distinct, non-empty, as Go
      identifiers / json tags are), values within their Go types *)
  Record wf (sc : schema) (e : entity) : Prop := {
    wf_fields : fields_ok (e_fields e) (s_fields sc) = true;
    wf_names : NoDup (s_key sc :: ver_name sc :: map fst (s_fields sc));
    wf_key_name : s_key sc <> [];
    wf_field_names : Forall (fun n => n <> []) (map fst (s_fields sc));
    wf_ver_name : s_ver sc <> Some [];
    wf_vals : Forall (fun p => val_ok (snd p)) (e_fields e);
    wf_ver : int64_ok (e_ver e) = true;
    wf_ext : int64_ok (e_ext e) = true }.

  (** the save does not write an already expired object *)
  Definition ext_future (now : Z) (e : entity) : Prop := (e_ext e = 0 \/ now < e_ext e)%Z.

  (** the key neither expires nor is removed / written by another application during the history,
      and no save writes an already expired object *)
  Fixpoint quiet (sc : schema) (st : option hrec) (ops : list op) : Prop :=
    match ops with
    | [] => True
    | OSave now e :: r => live now st = st /\ ext_future now e /\ quiet sc (fst (save sc now st e)) r
    | OFetch now :: r => quiet sc st r
    | _ => False
    end.

  (** number of successful saves that carried version v *)
  Fixpoint wins (v : Z) (ops : list op) (bs : list obs) : nat :=
    match ops, bs with
    | OSave _ e :: r, BSave (SaveOk _) :: r' => (if (e_ver e =? v)%Z then 1 else 0) + wins v r r'
    | _ :: r, _ :: r' => wins v r r'
    | _, _ => O
    end.

  (** every save of the history carries a well-formed entity with a version Lua prints as an integer *)
  Definition saves_wf (sc : schema) (ops : list op) : Prop :=
    Forall (fun o => match o with OSave _ e => wf sc e /\ lua_ver_ok (e_ver e) = true | _ => True end) ops.
End Conv.

Arguments VInt {J}. Arguments VStr {J}. Arguments VBool {J}. Arguments VPInt {J}. Arguments VPStr {J}.
Arguments VPBool {J}. Arguments VBytes {J}. Arguments VVec32 {J}. Arguments VVec64 {J}. Arguments VJson {J}.
Arguments Build_entity {J}.

(** ---- the JSON repository (om/json.go): the document store is abstract ---- *)

Section JsonRepo.
  Variable doc : Type.                            (* a stored JSON document *)
  Variable jset : bytes -> option doc.            (* JSON.SET key $ text; None = syntax error *)
  Variable jget : doc -> bytes -> option bytes.   (* JSON.GET key path: text of the value at a top-level path *)
  Variable jincr : doc -> bytes -> option (doc * bytes). (* JSON.NUMINCRBY key path 1: new document, new value as text *)
  Variable jroot : doc -> bytes.                  (* JSON.GET key . *)

  Record jrec := { j_doc : doc; j_pxat : Z }.

  Definition jlive (now : Z) (st : option jrec) : option jrec :=
    match st with
    | Some r => if ((j_pxat r =? 0) || (now <? j_pxat r))%Z then Some r else None
    | None => None
    end.

  Definition jexpire (now : Z) (st : option jrec) (e : option bytes) : option (option jrec) :=
    match e with
    | None => Some st
    | Some t => match parse_int64 t with
                | None => None
                | Some t => match st with
                            | None => Some None
                            | Some r => if (t <=? now)%Z then Some None
                                        else Some (Some {| j_doc := j_doc r; j_pxat := t |})
                            end
                end
    end.

  Definition jscript_verless (now : Z) (st : option jrec) (a2 a3 : bytes) (e : option bytes) : option jrec * sreply :=
    let px := match st with Some r => j_pxat r | None => 0%Z end in
    match jset a3 with
    | None => (st, SErr)
    | Some d => match jexpire now (Some {| j_doc := d; j_pxat := px |}) e with
                | Some st' => (st', SStr a2)
                | None => (Some {| j_doc := d; j_pxat := px |}, SErr)
                end
    end.

  Definition jscript_ver (now : Z) (st : option jrec) (a1 a2 a3 : bytes) (e : option bytes) : option jrec * sreply :=
    let px := match st with Some r => j_pxat r | None => 0%Z end in
    (* JSON.GET of a missing key is nil; of a missing path inside an existing document an error *)
    match (match st with
           | None => Some None
           | Some r => match jget (j_doc r) a1 with Some s => Some (Some s) | None => None end
           end) with
    | None => (st, SErr)
    | Some v =>
      let pass := match v with None => true | Some s => bytes_eqb s a2 end in
      if pass then
        match jset a3 with
        | None => (st, SErr)
        | Some d =>
          match jincr d a1 with
          | None => (Some {| j_doc := d; j_pxat := px |}, SErr)
          | Some (d', nv) =>
            match jexpire now (Some {| j_doc := d'; j_pxat := px |}) e with
            | Some st' => (st', SStr nv)
            | None => (Some {| j_doc := d'; j_pxat := px |}, SErr)
            end
          end
        end
      else (st, SNil)
    end.

  (** jsonSaveScript; ARGV = [verfield; ver; document; (exat)] *)
  Definition json_save_script (now : Z) (st0 : option jrec) (argv : list bytes) : option jrec * sreply :=
    let st := jlive now st0 in
    match argv with
    | a1 :: a2 :: a3 :: rest =>
      let e := match rest with [t] => Some t | _ => None end in
      match a1 with
      | [] => jscript_verless now st a2 a3 e
      | _ => jscript_ver now st a1 a2 a3 e
      end
    | _ => (st, SErr)
    end.

  Variable ent : Type.                     (* the Go entity *)
  Variable jenc : ent -> bytes.            (* rueidis.JSON(entity) *)
  Variable jdec : bytes -> option ent.     (* json.Unmarshal *)
  Variable ent_ver : ent -> Z.
  Variable ent_set_ver : ent -> Z -> ent.
  Variable ent_ext : ent -> Z.

  Inductive jsave_res := JSaveOk (newver : Z) | JSaveMismatch | JSaveErr.

  (** JSONRepository.Save with a version field named [vn] ([[]] = verless) *)
  Definition jsave (vn : bytes) (now : Z) (st : option jrec) (e : ent) : option jrec * jsave_res :=
    let args := vn :: print_Z (ent_ver e) :: jenc e ::
                (if (ent_ext e =? 0)%Z then [] else [print_Z (ent_ext e)]) in
    let '(st', r) := json_save_script now st args in
    match r with
    | SNil => (st', JSaveMismatch)
    | SErr | SOutOfRange => (st', JSaveErr)
    | SStr s => match vn with
                | [] => (st', JSaveOk (ent_ver e))
                | _ => (st', JSaveOk (match parse_int64 s with Some z => z | None => 0%Z end))
                end
    end.

  (** JSONRepository.Fetch: JSON.GET key . + json.Unmarshal; error 1 = redis nil, 2 = decode error *)
  Definition jfetch (now : Z) (st : option jrec) : result ent :=
    match jlive now st with
    | None => Err 1
    | Some r => match jdec (jroot (j_doc r)) with Some e => Ok e | None => Err 2 end
    end.
End JsonRepo.

Arguments Build_jrec {doc}.


(** ---- the instances used by the tie ----
    Hash repository: a struct-like value is its canonical JSON text (print = identity).
    JSON repository: a document is (version, body) where body is the canonical JSON text of the entity
    with its version field zeroed; the observer checks separately that the real encoder/decoder pair
    has this shape. *)

Definition tJ := bytes.
Definition tjprint (j : tJ) : bytes := j.
Definition tjparse (s : bytes) : option tJ := Some s.
(* zero values of the observer's struct-like fields: "St" is a struct value, every other one a pointer / slice *)
Definition tjzero (n : bytes) : tJ :=
  if bytes_eqb n [83; 116] then [123; 34; 97; 34; 58; 48; 44; 34; 98; 34; 58; 34; 34; 125] (* {"a":0,"b":""} *)
  else if bytes_eqb n [69; 120; 112] then [34; 48; 48; 48; 49; 45; 48; 49; 45; 48; 49; 84; 48; 48; 58; 48; 48; 58; 48; 48; 90; 34] (* "0001-01-01T00:00:00Z" *)
  else [110; 117; 108; 108] (* null *).

Definition tfval := fval tJ.
Definition tentity := entity tJ.

Definition option_Z_eqb := option_eqb Z.eqb.

Definition fval_eqb (a b : tfval) : bool :=
  match a, b with
  | VInt x, VInt y => Z.eqb x y
  | VStr x, VStr y => bytes_eqb x y
  | VBool x, VBool y => Bool.eqb x y
  | VPInt x, VPInt y => option_eqb Z.eqb x y
  | VPStr x, VPStr y => option_eqb bytes_eqb x y
  | VPBool x, VPBool y => option_eqb Bool.eqb x y
  | VBytes x, VBytes y => bytes_eqb x y
  | VVec32 x, VVec32 y => list_eqb N.eqb x y
  | VVec64 x, VVec64 y => list_eqb N.eqb x y
  | VJson x, VJson y => bytes_eqb x y
  | _, _ => false
  end.

Definition field_eqb (a b : bytes * tfval) : bool := bytes_eqb (fst a) (fst b) && fval_eqb (snd a) (snd b).

(** equality of what the tie observes of an entity: key, version, fields *)
Definition entity_eqb (a b : tentity) : bool :=
  bytes_eqb (e_key _ a) (e_key _ b) && Z.eqb (e_ver _ a) (e_ver _ b) && list_eqb field_eqb (e_fields _ a) (e_fields _ b).

Definition save_res_eqb (a b : save_res) : bool :=
  match a, b with
  | SaveOk x, SaveOk y => Z.eqb x y
  | SaveMismatch, SaveMismatch | SaveErr, SaveErr | SaveOutOfRange, SaveOutOfRange => true
  | _, _ => false
  end.

Definition obs_eqb (a b : obs tJ) : bool :=
  match a, b with
  | BSave _ x, BSave _ y => save_res_eqb x y
  | BFetch _ x, BFetch _ y => result_eqb entity_eqb x y
  | BNone _, BNone _ => true
  | _, _ => false
  end.

(** toy document store for the JSON repository tie: (version, body) *)
Definition tdoc := (Z * bytes)%type.
Record tent := { t_ver : Z; t_body : bytes; t_ext : Z }.
(* wire form used only inside the model: decimal version, ';', body *)
Definition tjenc (e : tent) : bytes := print_Z (t_ver e) ++ 59 :: t_body e.
Fixpoint split_semi (bs acc : bytes) : option (bytes * bytes) :=
  match bs with
  | [] => None
  | b :: r => if b =? 59 then Some (List.rev acc, r) else split_semi r (b :: acc)
  end.
Definition tjset (s : bytes) : option tdoc :=
  match split_semi s [] with
  | Some (v, body) => match parse_int64 v with Some z => Some (z, body) | None => None end
  | None => None
  end.
Definition tjget (d : tdoc) (_ : bytes) : option bytes := Some (print_Z (fst d)).
Definition tjincr (d : tdoc) (_ : bytes) : option (tdoc * bytes) :=
  Some ((fst d + 1, snd d)%Z, print_Z (fst d + 1)).
Definition tjroot (d : tdoc) : bytes := print_Z (fst d) ++ 59 :: snd d.
Definition tjdec (s : bytes) : option tent :=
  match tjset s with Some (z, b) => Some {| t_ver := z; t_body := b; t_ext := 0 |} | None => None end.
Definition tent_set_ver (e : tent) (v : Z) : tent := {| t_ver := v; t_body := t_body e; t_ext := t_ext e |}.

Inductive jop :=
| JSave (now : Z) (e : tent)
| JFetch (now : Z)
| JRemove.

Inductive jobs :=
| JBSave (r : jsave_res)
| JBFetch (r : result (Z * bytes))
| JBNone.

Definition jstep (vn : bytes) (st : option (jrec tdoc)) (o : jop) : option (jrec tdoc) * jobs :=
  match o with
  | JSave now e => let '(st', r) := jsave tdoc tjset tjget tjincr tent tjenc t_ver t_ext vn now st e in (st', JBSave r)
  | JFetch now => (st, JBFetch (match jfetch tdoc tjroot tent tjdec now st with
                                | Ok e => Ok (t_ver e, t_body e) | Err x => Err x | Panic => Panic end))
  | JRemove => (None, JBNone)
  end.

Fixpoint jrun (vn : bytes) (st : option (jrec tdoc)) (ops : list jop) : list jobs :=
  match ops with
  | [] => []
  | o :: r => let '(st1, b) := jstep vn st o in b :: jrun vn st1 r
  end.

Definition jsave_res_eqb (a b : jsave_res) : bool :=
  match a, b with
  | JSaveOk x, JSaveOk y => Z.eqb x y
  | JSaveMismatch, JSaveMismatch | JSaveErr, JSaveErr => true
  | _, _ => false
  end.

Definition jobs_eqb (a b : jobs) : bool :=
  match a, b with
  | JBSave x, JBSave y => jsave_res_eqb x y
  | JBFetch x, JBFetch y => result_eqb (fun p q => Z.eqb (fst p) (fst q) && bytes_eqb (snd p) (snd q)) x y
  | JBNone, JBNone => true
  | _, _ => false
  end.

(** ---- correspondence cases (printed by harness/cmd/obs_om) ---- *)
Inductive case :=
(* a history on one key of a hash repository, from an empty server, with the implementation's observations *)
| CHash (sc : schema) (ops : list (op tJ)) (impl : list (obs tJ))
(* the ARGV the implementation sent for an entity (the order of the pairs / of the cleared names is Go map order) *)
| CArgs (sc : schema) (e : tentity) (impl : list bytes)
(* a history on one key of a JSON repository; vn = version field name ([] = verless) *)
| CJson (vn : bytes) (ops : list jop) (impl : list jobs)
(* decimal printing / parsing against strconv *)
| CDec (z : Z) (impl : bytes)
| CParse (s : bytes) (impl : option Z).

Fixpoint pairs_of (l : list bytes) : list (bytes * bytes) :=
  match l with
  | k :: v :: r => (k, v) :: pairs_of r
  | _ => []
  end.

Fixpoint lookup_all (m : list (bytes * bytes)) (ps : list (bytes * bytes)) : bool :=
  match ps with
  | [] => true
  | (k, v) :: r => option_eqb bytes_eqb (hget m k) (Some v) && lookup_all m r
  end.

Definition same_pairs (a b : list (bytes * bytes)) : bool :=
  Nat.eqb (length a) (length b) && lookup_all a b && lookup_all b a.

Fixpoint mem_bytes (x : bytes) (l : list bytes) : bool :=
  match l with [] => false | y :: r => bytes_eqb x y || mem_bytes x r end.

Definition same_set (a b : list bytes) : bool :=
  Nat.eqb (length a) (length b) && forallb (fun x => mem_bytes x b) a && forallb (fun x => mem_bytes x a) b.

Definition check_args (sc : schema) (e : tentity) (impl : list bytes) : bool :=
  let vv := match s_ver sc with Some _ => print_Z (e_ver _ e) | None => [] end in
  let mp := s_key sc :: e_key _ e :: field_pairs tJ tjprint (e_fields _ e) in
  let mext := if (e_ext _ e =? 0)%Z then [] else [print_Z (e_ext _ e)] in
  let md := field_dels tJ tjprint (e_fields _ e) in
  let np := length mp in
  list_eqb bytes_eqb (firstn 2 impl) [ver_name sc; vv]
  && same_pairs (pairs_of (firstn np (skipn 2 impl))) (pairs_of mp)
  && list_eqb bytes_eqb (firstn (length mext) (skipn (2 + np) impl)) mext
  && same_set (firstn (length md) (skipn (2 + np + length mext) impl)) md
  && list_eqb bytes_eqb (skipn (2 + np + length mext + length md) impl) [print_N (N.of_nat (length md))]
  && list_eqb bytes_eqb (exec_args tJ tjprint sc e)
       (ver_name sc :: vv :: mp ++ mext ++ md ++ [print_N (N.of_nat (length md))]).

Definition check_case (c : case) : bool :=
  match c with
  | CHash sc ops impl => list_eqb obs_eqb (snd (run tJ tjprint tjparse tjzero sc None ops)) impl
  | CArgs sc e impl => check_args sc e impl
  | CJson vn ops impl => list_eqb jobs_eqb (jrun vn None ops) impl
  | CDec z o => bytes_eqb (print_Z z) o
  | CParse s o => option_eqb Z.eqb (parse_int64 s) o
  end.
