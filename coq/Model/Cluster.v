(** Correspondence cases of the cluster family (printed by harness/cmd/obs_cluster): every executable
    definition of ClusterTopo / ClusterDo / ClusterBatch that a theorem talks about is evaluated here
    on the inputs the real client saw, and compared with what the real client did. *)
From Coq Require Import List Arith NArith ZArith Bool.
Require Export RV.Model.Base RV.Model.ClusterTopo RV.Model.ClusterSpec RV.Model.ClusterShardSpec RV.Model.Retry RV.Model.ClusterDo RV.Model.ClusterBatch.
Import ListNotations.
Open Scope Z_scope.

Definition zpair_eqb (a b : Z * Z) : bool := (fst a =? fst b) && (snd a =? snd b).

Definition igroup := (addr * list addr * list (Z * Z))%type.    (* master, nodes, slots as the implementation reports them *)

Definition group_matches (gs : groups) (ig : igroup) : bool :=
  let '(m, ns, sl) := ig in
  match assoc_get m gs with
  | Some g => list_eqb addr_eqb (g_nodes g) ns && list_eqb zpair_eqb (g_slots g) sl
  | None => false
  end.

Definition groups_match (r : result groups) (impl : result (list igroup)) : bool :=
  match r, impl with
  | Ok gs, Ok igs => (length gs =? length igs)%nat && forallb (group_matches gs) igs
  | Panic, Panic => true
  | _, _ => false
  end.

(** a selector given as a table indexed by slot (mod the table length) *)
Definition tab_sel (tab : list Z) : Z -> list addr -> Z :=
  fun s _ => match tab with [] => 0 | _ => nth (Z.to_nat (s mod Z.of_nat (length tab))) tab 0 end.

(** one probe of the implementation's tables: slot, wslots[slot], rslots[slot] *)
Definition probe := (Z * option addr * list addr)%type.

Definition probe_ok_group (c : tcfg) (g : group) (p : probe) : bool :=
  let '(s, w, r) := p in
  let w_ok :=
      match t_kind c, g_nodes g with
      | CfgReplicaOnly, _ :: (x :: rest) =>
        match w with Some a => mem_addr a (x :: rest) | None => false end
      | _, _ => option_eqb addr_eqb (wslot c [g] s) w
      end in
  w_ok && list_eqb addr_eqb (rslot c [g] s) r.

Definition probe_ok (c : tcfg) (gs : list group) (p : probe) : bool :=
  let '(s, w, r) := p in
  match filter (fun g => lists g s) gs with
  | [] => match w, r with None, [] => true | _, _ => false end
  | cands => existsb (fun g => probe_ok_group c g p) cands
  end.

Definition sendobs := (addr * bool)%type.     (* destination, carried ASKING *)
Definition sendobs_eqb (a b : sendobs) : bool := addr_eqb (fst a) (fst b) && Bool.eqb (snd a) (snd b).

Definition plain_tick (r : reply) (executed : bool) : tick := mkTick r executed false false false None.

Definition delays_fn (ds : list Z) : nat -> reply -> Z := fun a _ => nth (a - 1) ds (-1).

Definition one_slot_table (slot : Z) (w : option addr) : table :=
  mkTable (fun s => if s =? slot then w else None) (fun _ => []) false false.

Definition assoc_table (wt : list (Z * addr)) : table :=
  mkTable (fun s => match find (fun kv => fst kv =? s) wt with Some kv => Some (snd kv) | None => None end)
          (fun _ => []) false false.

Definition srv_of (tab : list (N * addr * list reply)) : servers :=
  fun c a k => match find (fun kv => (fst (fst kv) =? b_id c)%N && addr_eqb (snd (fst kv)) a) tab with
               | Some kv => nth k (snd kv) RTransport
               | None => RTransport
               end.

Definition idask := (N * bool)%type.
Definition idask_eqb (a b : idask) : bool := (fst a =? fst b)%N && Bool.eqb (snd a) (snd b).

Fixpoint remove_one {A} (eqb : A -> A -> bool) (x : A) (l : list A) : option (list A) :=
  match l with
  | [] => None
  | y :: r => if eqb x y then Some r else match remove_one eqb x r with Some r' => Some (y :: r') | None => None end
  end.
Fixpoint multiset_eqb {A} (eqb : A -> A -> bool) (l1 l2 : list A) : bool :=
  match l1 with
  | [] => match l2 with [] => true | _ => false end
  | x :: r => match remove_one eqb x l2 with Some l2' => multiset_eqb eqb r l2' | None => false end
  end.

(** what one wire exchange carried, as (command id, ASKING in force) *)
Fixpoint wire_ids (w : list (option ipair)) (asking : bool) : list idask :=
  match w with
  | [] => []
  | None :: r => wire_ids r asking
  | Some (_, c) :: r => (b_id c, asking) :: wire_ids r asking
  end.

Definition sends_of_node (sends : list (nat * wsend)) (a : addr) : list idask :=
  flat_map (fun kw => let w := snd kw in if addr_eqb (w_to w) a then wire_ids (w_wire w) (w_asking w) else []) sends.

Fixpoint msg_eqb (a b : msg) {struct a} : bool :=
  match a, b with
  | MStr t s, MStr t' s' => (t =? t')%N && bytes_eqb s s'
  | MInt t i, MInt t' i' => (t =? t')%N && (i =? i')
  | MAgg t vs, MAgg t' vs' =>
    (t =? t')%N &&
    (fix go (l1 l2 : list msg) : bool :=
       match l1, l2 with
       | [], [] => true
       | x :: r1, y :: r2 => msg_eqb x y && go r1 r2
       | _, _ => false
       end) vs vs'
  | MNil, MNil => true
  | _, _ => false
  end.

Inductive case :=
| CEncSlots (dh : bytes) (es : list sentry) (m : msg) (impl : result (list igroup))
| CEncShards (dh : bytes) (tls : bool) (l : list shard) (m : msg) (impl : result (list igroup))
| CParseEndpoint (dh ep : bytes) (port : Z) (impl : option addr)
| CParseSlots (dh : bytes) (m : msg) (impl : result (list igroup))
| CParseShards (dh : bytes) (tls : bool) (m : msg) (impl : result (list igroup))
| CTable (kind : cfgkind) (shards tls : bool) (dh : bytes) (m : msg) (rsel : list Z) (rinit : bool) (probes : list probe)
| CPick (readsel : bool) (w : option addr) (r : list addr) (rinit to_replica : bool) (nsel : Z) (impl : option addr)
| CDo (max : Z) (retry : bool) (delays : list Z) (slot : Z) (retryable : bool)
      (w0 : option addr) (known : list addr) (env : list (reply * bool))
      (impl_sends : list sendobs) (impl_final : reply) (impl_w_after : option addr)
| CMulti (max : Z) (retry : bool) (delays : list Z) (cmds : list bcmd) (wt : list (Z * addr)) (first_conn : option addr)
         (srv : list (N * addr * list reply))
         (impl : result (list reply)) (impl_sends : list (addr * list idask)).

Definition check_case (c : case) : bool :=
  match c with
  | CEncSlots dh es m impl => msg_eqb (enc_slots es) m && groups_match (parse_slots dh (enc_slots es)) impl
  | CEncShards dh tls l m impl => msg_eqb (enc_shards l) m && groups_match (parse_shards dh tls (enc_shards l)) impl
  | CParseEndpoint dh ep port impl => option_eqb addr_eqb (parse_endpoint dh ep port) impl
  | CParseSlots dh m impl => groups_match (parse_slots dh m) impl
  | CParseShards dh tls m impl => groups_match (parse_shards dh tls m) impl
  | CTable kind shards tls dh m rsel rinit probes =>
    match (if shards then parse_shards dh tls m else parse_slots dh m) with
    | Ok gs =>
      let cfg := mkTcfg kind (tab_sel rsel) (fun _ => O) in
      let gl := map snd gs in
      match rebuild cfg gl with
      | Ok t => Bool.eqb (tb_rinit t) rinit && forallb (probe_ok cfg gl) probes
      | _ => false
      end
    | _ => false
    end
  | CPick readsel w r rinit to_replica nsel impl =>
    option_eqb addr_eqb (pick_slot (mkTable (fun _ => w) (fun _ => r) rinit readsel) 0 to_replica nsel) impl
  | CDo max retry delays slot retryable w0 known env impl_sends impl_final impl_w_after =>
    let cfg := mkCcfg (mkPolicy retry (delays_fn delays) false) max in
    let st := mkCstate (one_slot_table slot w0) known in
    let ticks := map (fun re => mkCtick (plain_tick (fst re) (snd re)) None 0) env in
    let '(tr, out, st') := cluster_do cfg slot retryable false st ticks in
    list_eqb sendobs_eqb (map (fun s => (s_to s, match s_kind s with SAsking => true | SPlain => false end)) tr) impl_sends
    && match out with CDone r => reply_eqb r impl_final | _ => false end
    && option_eqb addr_eqb (tb_w (cs_table st') slot) impl_w_after
  | CMulti max retry delays cmds wt first_conn srv impl impl_sends =>
    let pol := mkPolicy retry (delays_fn delays) false in
    let cfg := mkBcfg pol max (fun _ => mkRflags false false) (fun _ a => a) in
    match pick_multi (assoc_table wt) false (fun _ => 0) first_conn cmds with
    | PickPanic => match impl with Panic => true | _ => false end
    | PickNone => match impl with Err _ => true | _ => false end
    | PickOk m init =>
      let '(asg, sends, out) := cluster_domulti 64 cfg (srv_of srv) init m in
      match out, impl with
      | BDone, Ok rs =>
        list_eqb (option_eqb reply_eqb) (map (result_at asg) (seq 0 (length cmds))) (map Some rs)
        && forallb (fun an => multiset_eqb idask_eqb (sends_of_node sends (fst an)) (snd an)) impl_sends
        && (length (flat_map (fun kw => wire_ids (w_wire (snd kw)) false) sends)
            =? length (flat_map snd impl_sends))%nat
      | _, _ => false
      end
    end
  end.
