(** Model of the replica routing decisions: [standalone.pick / Do / DoMulti] (standalone.go),
    [sentinelClient.pick / pickMulti / sendAllToReplica] (sentinel.go); the cluster tables and
    [_pick] are in ClusterTopo.v ([rebuild], [pick_slot]).  Selector results and random draws are
    inputs.  Definitions only. *)
From Coq Require Import List Arith NArith ZArith Bool.
Require Export RV.Model.Base RV.Model.ClusterTopo RV.Model.Retry RV.Model.ClusterDo RV.Model.ClusterBatch.
Import ListNotations.
Open Scope Z_scope.

Inductive dest := DPrimary | DReplica (i : nat).

Definition dest_eqb (a b : dest) : bool :=
  match a, b with
  | DPrimary, DPrimary => true
  | DReplica i, DReplica j => (i =? j)%nat
  | _, _ => false
  end.

(** standalone.pick: [sel] = what ReadNodeSelector answered (when configured), [nnodes] = len(s.nodes)
    (0 unless EnableReplicaAZInfo filled it: then replicas + 1), [nrep] = len(s.replicas),
    [rnd] = the rand.IntN draw.  rand.IntN(0) and an index past the replicas panic. *)
Definition standalone_pick (has_sel : bool) (sel : Z) (nnodes nrep rnd : nat) : result dest :=
  if has_sel then
    let r := if (sel <? 0) || (Z.of_nat nnodes <=? sel) then 0 else sel in
    if r =? 0 then Ok DPrimary
    else if (Z.to_nat r - 1 <? nrep)%nat then Ok (DReplica (Z.to_nat r - 1)) else Panic
  else match nrep with
       | O => Panic
       | S O => Ok (DReplica 0)
       | _ => Ok (DReplica (rnd mod nrep))
       end.

(** standalone.Do / DoStream / Receive: [has_str] = SendToReplicas configured, [optin] = its answer *)
Definition standalone_route (has_str optin has_sel : bool) (sel : Z) (nnodes nrep rnd : nat) : result dest :=
  if has_str && optin then standalone_pick has_sel sel nnodes nrep rnd else Ok DPrimary.

(** standalone.DoMulti / DoMultiStream: every command of the batch must opt in *)
Definition standalone_route_multi (has_str : bool) (optins : list bool) (has_sel : bool) (sel : Z) (nnodes nrep rnd : nat) : result dest :=
  if has_str && forallb (fun b => b) optins && negb (match optins with [] => true | _ => false end)
  then standalone_pick has_sel sel nnodes nrep rnd else Ok DPrimary.

Inductive sdest := SMaster | SReplica.
Definition sdest_eqb (a b : sdest) : bool := match a, b with SMaster, SMaster | SReplica, SReplica => true | _, _ => false end.

(** sentinelClient.pick *)
Definition sentinel_pick (replica_only has_str optin : bool) : sdest :=
  if replica_only then SReplica
  else if has_str then (if optin then SReplica else SMaster)
  else SMaster.

(** sentinelClient.sendAllToReplica + pickMulti *)
Definition sentinel_pick_multi (replica_only has_str : bool) (optins : list bool) : sdest :=
  if replica_only then SReplica
  else if has_str then (if forallb (fun b => b) optins then SReplica else SMaster)
  else SMaster.

(** ---- every entry point of the Client interface ---- *)
Inductive entry := EDo | EDoMulti | EDoCache | EDoMultiCache | EDoStream | EDoMultiStream | EReceive | EDedicated.

(** standalone.go: Do, DoStream and Receive ask SendToReplicas for the command; DoMulti and
    DoMultiStream for every command of the batch; DoCache, DoMultiCache and Dedicated always use the
    primary *)
Definition standalone_entry (e : entry) (has_str : bool) (optins : list bool) (has_sel : bool) (sel : Z) (nnodes nrep rnd : nat)
  : result dest :=
  match e with
  | EDo | EDoStream | EReceive => standalone_route has_str (hd false optins) has_sel sel nnodes nrep rnd
  | EDoMulti | EDoMultiStream => standalone_route_multi has_str optins has_sel sel nnodes nrep rnd
  | EDoCache | EDoMultiCache | EDedicated => Ok DPrimary
  end.

(** sentinel.go: Do, DoCache, DoStream, Receive use [pick]; DoMulti, DoMultiCache, DoMultiStream use
    [pickMulti (sendAllToReplica…)]; Dedicated takes rConn only on a ReplicaOnly client *)
Definition sentinel_entry (e : entry) (replica_only has_str : bool) (optins : list bool) : sdest :=
  match e with
  | EDo | EDoCache | EDoStream | EReceive => sentinel_pick replica_only has_str (hd false optins)
  | EDoMulti | EDoMultiCache | EDoMultiStream => sentinel_pick_multi replica_only has_str optins
  | EDedicated => if replica_only then SReplica else SMaster
  end.

(** cluster.go.  A command without key slot ([b_slot = None], InitSlot) is sent to an arbitrary
    connection of [c.conns] by [_pick]: [CAny]. *)
Inductive cdest := CAny | CNode (a : option addr).

Definition cluster_pick (t : table) (slot : option Z) (to_replica : bool) (nsel : Z) : cdest :=
  match slot with
  | None => CAny
  | Some s => CNode (pick_slot t s to_replica nsel)
  end.

(** DoMultiStream: the slot is the first key slot of the batch (two different ones panic), the batch
    goes to a replica only if SendToReplicas holds for every command, with or without key slot *)
Fixpoint stream_slot (cs : list bcmd) (slot : option Z) : result (option Z) :=
  match cs with
  | [] => Ok slot
  | c :: r =>
    match b_slot c, slot with
    | None, _ => stream_slot r slot
    | Some s, None => stream_slot r (Some s)
    | Some s, Some s0 => if s =? s0 then stream_slot r slot else Panic
    end
  end.

Definition cluster_multistream (t : table) (has_str : bool) (cs : list bcmd) (nsel : Z) : result cdest :=
  match cs with
  | [] => Err 1
  | c0 :: r =>
    match stream_slot r (b_slot c0) with
    | Ok slot => Ok (cluster_pick t slot (has_str && forallb b_replica cs) nsel)
    | Err e => Err e
    | Panic => Panic
    end
  end.

(** the other entry points: Do / DoCache / DoStream / Receive pick by the command's own answer,
    Dedicated never asks *)
Definition cluster_entry_single (e : entry) (t : table) (has_str : bool) (c : bcmd) (nsel : Z) : cdest :=
  match e with
  | EDedicated => cluster_pick t (b_slot c) false nsel
  | _ => cluster_pick t (b_slot c) (has_str && b_replica c) nsel
  end.

(** ---- correspondence cases (printed by harness/cmd/obs_replica) ---- *)
Definition tabsel (tab : list Z) : Z -> list addr -> Z :=
  fun s _ => match tab with [] => 0 | _ => nth (Z.to_nat (s mod Z.of_nat (length tab))) tab 0 end.

Definition lenient_replica (m impl : result dest) (has_sel : bool) (nrep : nat) : bool :=
  match m, impl with
  | Ok (DReplica _), Ok (DReplica j) =>
    (* the random draw is not observable: any replica index is accepted when no selector decides *)
    if has_sel then result_eqb dest_eqb m impl else (j <? nrep)%nat
  | _, _ => result_eqb dest_eqb m impl
  end.

Definition first_of (l : list addr) : option addr := hd_error l.

Inductive case :=
| CStandaloneE (e : entry) (has_str : bool) (optins : list bool) (has_sel : bool) (sel : Z) (nnodes nrep : nat) (impl : result dest)
| CSentinelE (e : entry) (replica_only has_str : bool) (optins : list bool) (impl : sdest)
| CClusterE (e : entry) (kind : cfgkind) (gs : list (list addr * list (Z * Z))) (rsel : list Z) (nsel : Z) (has_str : bool)
            (cmds : list bcmd) (conns : list addr) (impl : result (list (list addr)))
| CStandalone (has_str : bool) (optins : list bool) (batch : bool) (has_sel : bool) (sel : Z) (nnodes nrep : nat)
              (impl : result dest)
| CSentinel (replica_only has_str : bool) (optins : list bool) (batch : bool) (impl : sdest)
| CCluster (kind : cfgkind) (gs : list (list addr * list (Z * Z))) (rsel : list Z) (slot : Z) (to_replica : bool) (nsel : Z)
           (impl : list addr).     (* the nodes of the shard that received the command, in order *)

(** the node a command was first sent to agrees with a model destination; ReplicaOnly draws at random *)
Definition cdest_ok (kind : cfgkind) (groups : list group) (slot : option Z) (conns : list addr) (d : cdest) (got : list addr) : bool :=
  match d, first_of got with
  | CAny, Some a => mem_addr a conns
  | CAny, None => true
  | CNode (Some a), Some first =>
    match kind, slot with
    | CfgReplicaOnly, Some s =>
      match last_owner groups s with
      | Some g => match g_nodes g with
                  | _ :: ((_ :: _) as reps) => mem_addr first reps
                  | _ => addr_eqb a first
                  end
      | None => false
      end
    | _, _ => addr_eqb a first
    end
  | CNode None, None => true
  | _, _ => false
  end.

Definition check_case (c : case) : bool :=
  match c with
  | CStandaloneE e has_str optins has_sel sel nnodes nrep impl =>
    lenient_replica (standalone_entry e has_str optins has_sel sel nnodes nrep 0) impl has_sel nrep
  | CSentinelE e replica_only has_str optins impl => sdest_eqb (sentinel_entry e replica_only has_str optins) impl
  | CClusterE e kind gs rsel nsel has_str cmds conns impl =>
    let groups := map (fun g => mkGroup (fst g) (snd g)) gs in
    let cfg := mkTcfg kind (tabsel rsel) (fun _ => O) in
    match rebuild cfg groups with
    | Ok t =>
      match e with
      | EDoMultiStream =>
        match cluster_multistream t has_str cmds nsel, impl with
        | Panic, Panic => true
        | Ok d, Ok got =>
          let slot := match cmds with c0 :: r => match stream_slot r (b_slot c0) with Ok sl => sl | _ => None end | [] => None end in
          forallb (cdest_ok kind groups slot conns d) got
        | _, _ => false
        end
      | EDoMulti | EDoMultiCache =>
        match pick_multi t has_str (fun _ => nsel) (hd_error conns) cmds, impl with
        | PickPanic, Panic => true
        | PickOk m _, Ok got =>
          if forallb (fun c => match b_slot c with None => true | Some _ => false end) cmds
          then forallb (fun g => match first_of g with Some a => mem_addr a conns | None => true end) got
          else
            (* a command without key slot travels with the batch's slot (the first keyed command's); under
               ReplicaOnly the replica of that shard is a random draw *)
            let bslot := hd_error (flat_map (fun c => match b_slot c with Some s => [s] | None => [] end) cmds) in
            let slot_of c := match b_slot c with Some s => Some s | None => bslot end in
            forallb (fun ag => forallb (fun ic => match nth_error got (fst ic) with
                                                      | Some g => cdest_ok kind groups (slot_of (snd ic)) conns (CNode (Some (fst ag))) g
                                                      | None => false
                                                      end) (rg_cmds (snd ag))) m
        | PickNone, Ok got => forallb (fun g => match g with [] => true | _ => false end) got
        | _, _ => false
        end
      | _ =>
        match cmds, impl with
        | [c0], Ok [got] => cdest_ok kind groups (b_slot c0) conns (cluster_entry_single e t has_str c0 nsel) got
        | _, _ => false
        end
      end
    | _ => false
    end
  | CStandalone has_str optins batch has_sel sel nnodes nrep impl =>
    let m := if batch then standalone_route_multi has_str optins has_sel sel nnodes nrep 0
             else standalone_route has_str (hd false optins) has_sel sel nnodes nrep 0 in
    match m, impl with
    | Ok (DReplica _), Ok (DReplica j) =>
      (* the random draw is not observable: any replica index is accepted when no selector decides *)
      if has_sel then result_eqb dest_eqb m impl else (j <? nrep)%nat
    | _, _ => result_eqb dest_eqb m impl
    end
  | CSentinel replica_only has_str optins batch impl =>
    sdest_eqb (if batch then sentinel_pick_multi replica_only has_str optins
               else sentinel_pick replica_only has_str (hd false optins)) impl
  | CCluster kind gs rsel slot to_replica nsel impl =>
    let groups := map (fun g => mkGroup (fst g) (snd g)) gs in
    let cfg := mkTcfg kind (tabsel rsel) (fun _ => O) in
    match rebuild cfg groups with
    | Ok t =>
      match pick_slot t slot to_replica nsel, impl with
      | Some a, first :: _ =>
        match kind, last_owner groups slot with
        | CfgReplicaOnly, Some g =>
          (* FastRand draw: any replica of the shard (the primary when there is none) *)
          match g_nodes g with
          | _ :: ((_ :: _) as reps) => mem_addr first reps
          | _ => addr_eqb a first
          end
        | _, _ => addr_eqb a first
        end
      | None, [] => true
      | _, _ => false
      end
    | _ => false
    end
  end.
