(** Model of the replica routing decisions: [standalone.pick / Do / DoMulti] (standalone.go),
    [sentinelClient.pick / pickMulti / sendAllToReplica] (sentinel.go); the cluster tables and
    [_pick] are in ClusterTopo.v ([rebuild], [pick_slot]).  Selector results and random draws are
    inputs.  Definitions only. *)
From Coq Require Import List Arith NArith ZArith Bool.
Require Export RV.Model.Base RV.Model.ClusterTopo.
Import ListNotations.
Open Scope Z_scope.

Inductive dest := DPrimary | DReplica (i : nat).

Definition dest_eqb (a b : dest) : bool :=
  match a, b with
  | DPrimary, DPrimary => true
  | DReplica i, DReplica j => (i =? j)%nat
  | _, _ => false
  end.

(** standalone.pick: [sel] = what ReadNodeSelector answered (when configured), [nnodes] = len(s.nodes)
    (0 unless EnableReplicaAZInfo filled it: then replicas + 1), [nrep] = len(s.replicas),
    [rnd] = the rand.IntN draw.  rand.IntN(0) and an index past the replicas panic. *)
Definition standalone_pick (has_sel : bool) (sel : Z) (nnodes nrep rnd : nat) : result dest :=
  if has_sel then
    let r := if (sel <? 0) || (Z.of_nat nnodes <=? sel) then 0 else sel in
    if r =? 0 then Ok DPrimary
    else if (Z.to_nat r - 1 <? nrep)%nat then Ok (DReplica (Z.to_nat r - 1)) else Panic
  else match nrep with
       | O => Panic
       | S O => Ok (DReplica 0)
       | _ => Ok (DReplica (rnd mod nrep))
       end.

(** standalone.Do / DoStream / Receive: [has_str] = SendToReplicas configured, [optin] = its answer *)
Definition standalone_route (has_str optin has_sel : bool) (sel : Z) (nnodes nrep rnd : nat) : result dest :=
  if has_str && optin then standalone_pick has_sel sel nnodes nrep rnd else Ok DPrimary.

(** standalone.DoMulti / DoMultiStream: every command of the batch must opt in *)
Definition standalone_route_multi (has_str : bool) (optins : list bool) (has_sel : bool) (sel : Z) (nnodes nrep rnd : nat) : result dest :=
  if has_str && forallb (fun b => b) optins && negb (match optins with [] => true | _ => false end)
  then standalone_pick has_sel sel nnodes nrep rnd else Ok DPrimary.

Inductive sdest := SMaster | SReplica.
Definition sdest_eqb (a b : sdest) : bool := match a, b with SMaster, SMaster | SReplica, SReplica => true | _, _ => false end.

(** sentinelClient.pick *)
Definition sentinel_pick (replica_only has_str optin : bool) : sdest :=
  if replica_only then SReplica
  else if has_str then (if optin then SReplica else SMaster)
  else SMaster.

(** sentinelClient.sendAllToReplica + pickMulti *)
Definition sentinel_pick_multi (replica_only has_str : bool) (optins : list bool) : sdest :=
  if replica_only then SReplica
  else if has_str then (if forallb (fun b => b) optins then SReplica else SMaster)
  else SMaster.

(** ---- correspondence cases (printed by harness/cmd/obs_replica) ---- *)
Definition tabsel (tab : list Z) : Z -> list addr -> Z :=
  fun s _ => match tab with [] => 0 | _ => nth (Z.to_nat (s mod Z.of_nat (length tab))) tab 0 end.

Inductive case :=
| CStandalone (has_str : bool) (optins : list bool) (batch : bool) (has_sel : bool) (sel : Z) (nnodes nrep : nat)
              (impl : result dest)
| CSentinel (replica_only has_str : bool) (optins : list bool) (batch : bool) (impl : sdest)
| CCluster (kind : cfgkind) (gs : list (list addr * list (Z * Z))) (rsel : list Z) (slot : Z) (to_replica : bool) (nsel : Z)
           (impl : list addr).     (* the nodes of the shard that received the command, in order *)

Definition check_case (c : case) : bool :=
  match c with
  | CStandalone has_str optins batch has_sel sel nnodes nrep impl =>
    let m := if batch then standalone_route_multi has_str optins has_sel sel nnodes nrep 0
             else standalone_route has_str (hd false optins) has_sel sel nnodes nrep 0 in
    match m, impl with
    | Ok (DReplica _), Ok (DReplica j) =>
      (* the random draw is not observable: any replica index is accepted when no selector decides *)
      if has_sel then result_eqb dest_eqb m impl else (j <? nrep)%nat
    | _, _ => result_eqb dest_eqb m impl
    end
  | CSentinel replica_only has_str optins batch impl =>
    sdest_eqb (if batch then sentinel_pick_multi replica_only has_str optins
               else sentinel_pick replica_only has_str (hd false optins)) impl
  | CCluster kind gs rsel slot to_replica nsel impl =>
    let groups := map (fun g => mkGroup (fst g) (snd g)) gs in
    let cfg := mkTcfg kind (tabsel rsel) (fun _ => O) in
    match rebuild cfg groups with
    | Ok t =>
      match pick_slot t slot to_replica nsel, impl with
      | Some a, first :: _ =>
        match kind, last_owner groups slot with
        | CfgReplicaOnly, Some g =>
          (* FastRand draw: any replica of the shard (the primary when there is none) *)
          match g_nodes g with
          | _ :: ((_ :: _) as reps) => mem_addr first reps
          | _ => addr_eqb a first
          end
        | _, _ => addr_eqb a first
        end
      | None, [] => true
      | _, _ => false
      end
    | _ => false
    end
  end.
