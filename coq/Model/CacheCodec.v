(** Model of message.go: cachesize / serialize / unmarshalView / CacheSize / CacheMarshal /
    CacheUnmarshalView and the 7-byte expiry field (setExpireAt / getExpireAt).  Definitions only.

    Offsets are Go's int64 values ([Z], with the wrap-around of [c+size] written out); every slice
    expression / make() that can panic is an explicit [Panic]:
      - make([]RedisMessage, size) panics for size < 0 or size*sizeof > maxAlloc (runtime.makeslice);
      - buf[c : c+size] panics when c+size < c (negative or wrapped size).
    For prefixes of buffers produced by CacheMarshal neither can happen (C17); for arbitrary buffers
    both can (design note S1), see [C17_untrusted_buffer_can_panic]. *)
From Coq Require Import List Arith NArith ZArith Bool.
Require Import RV.Model.Base RV.Model.Binary.
Require Export RV.Model.RespBase RV.Model.RespMsg.
Import ListNotations.
Open Scope N_scope.

Definition eCacheUnmarshal : N := 1.   (* ErrCacheUnmarshal *)
Definition eOutOfFuel : N := 99.       (* not a Go outcome: the model's recursion ran out of fuel *)

(** the [switch m.typ] of cachesize / serialize / unmarshalView *)
Definition is_intlike (t : N) : bool := (t =? tInteger) || (t =? tNull) || (t =? tBool).
Definition is_agg (t : N) : bool := (t =? tArray) || (t =? tMap) || (t =? tSet).

(** binary.BigEndian.PutUint64 / Uint64 *)
Fixpoint be_bytes (k : nat) (w : N) : bytes :=
  match k with
  | O => []
  | S k' => ((w / 256 ^ N.of_nat k') mod 256) :: be_bytes k' w
  end.

Definition of_be (bs : bytes) : N := fold_left (fun a b => a * 256 + b) bs 0.


(** cachesize() *)
Fixpoint cachesize (m : msg) : N :=
  match m with
  | Msg t s i a _ =>
    9 + (if is_intlike t then 0
         else if is_agg t then fold_right (fun x acc => cachesize x + acc) 0 a
         else blen s)
  end.

(** serialize(o) *)
Fixpoint serialize (m : msg) : bytes :=
  match m with
  | Msg t s i a _ =>
    t :: (if is_intlike t then be_bytes 8 (to_u64 i)
          else if is_agg t then be_bytes 8 (N.of_nat (length a)) ++ flat_map serialize a
          else be_bytes 8 (blen s) ++ s)
  end.

(** setExpireAt(pttl): byte(pttl >> 8k), k = 0..6 ; getExpireAt() *)
Definition two56 : Z := 72057594037927936%Z.
Definition set_expire_at (pxat : Z) : bytes := le_bytes 7 (Z.to_N (pxat mod two56)%Z).
Definition get_expire_at (ttl : bytes) : Z := Z.of_N (of_le ttl).

(** CacheSize() / CacheMarshal(nil) *)
Definition cache_size (m : msg) : N := cachesize m + 7.
Definition cache_marshal (m : msg) (ttl : bytes) : bytes := ttl ++ serialize m.

(** runtime.makeslice: len*40 must not exceed maxAlloc = 2^48 (linux/amd64; sizeof(RedisMessage) = 40) *)
Definition msg_struct_size : Z := 40%Z.
Definition max_msgs : Z := (281474976710656 / 40)%Z.

Definition slice (buf : bytes) (c : Z) (n : nat) : bytes := firstn n (skipn (Z.to_nat c) buf).

(** unmarshalView(c, buf) -> (c', err); on success also the filled message.
    [um] and [um_list] (the [for i := range m.values()] loop) recurse on fuel; [length buf + 2] is
    always enough because every call that does not fail at once consumes at least 9 bytes. *)
Fixpoint um (fuel : nat) (c : Z) (buf : bytes) {struct fuel} : result (msg * Z) :=
  match fuel with
  | O => Err eOutOfFuel
  | S f =>
    if (zlen buf <? c + 9)%Z then Err eCacheUnmarshal
    else
      let typ := nth (Z.to_nat c) buf 0 in
      let size := wrap64 (Z.of_N (of_be (slice buf (c + 1) 8))) in
      let c := (c + 9)%Z in
      if is_intlike typ then Ok (Msg typ [] size [] None, c)
      else if is_agg typ then
        if ((size <? 0) || (max_msgs <? size))%Z then Panic
        else
          match um_list f (Z.to_N size) c buf with
          | Ok (l, c') => Ok (Msg typ [] size l None, c')
          | Err e => Err e
          | Panic => Panic
          end
      else
        let e := wrap64 (c + size) in
        if (zlen buf <? e)%Z then Err eCacheUnmarshal
        else if (e <? c)%Z then Panic
        else Ok (Msg typ (slice buf c (Z.to_nat size)) size [] None, e)
  end
with um_list (fuel : nat) (n : N) (c : Z) (buf : bytes) {struct fuel} : result (list msg * Z) :=
  match fuel with
  | O => Err eOutOfFuel
  | S f =>
    if n =? 0 then Ok ([], c)
    else
      match um f c buf with
      | Ok (m, c1) =>
        match um_list f (n - 1) c1 buf with
        | Ok (l, c2) => Ok (m :: l, c2)
        | Err e => Err e
        | Panic => Panic
        end
      | Err e => Err e
      | Panic => Panic
      end
  end.

(** CacheUnmarshalView(buf): the message (attrs = cacheMark, i.e. IsCacheHit) and its expiry *)
Definition cache_unmarshal_view (buf : bytes) : result (msg * Z) :=
  if (length buf <? 7)%nat then Err eCacheUnmarshal
  else
    match um (length buf + 2) 7%Z buf with
    | Ok (m, _) => Ok (m, get_expire_at (firstn 7 buf))
    | Err e => Err e
    | Panic => Panic
    end.

(** ---- what the property calls a cacheable reply value ----
    integer / null / bool carry an int64; array / map / set carry their children; every other type
    byte is treated by the codec as a string (blob, simple, error, double, big number, verbatim …).
    [ival] is the length the readers store next to the payload.  Attributes are not serialized. *)
Fixpoint cacheable (m : msg) : bool :=
  match m with
  | Msg t s i a at' =>
    match at' with Some _ => false | None => true end &&
    (if is_intlike t then in_i64b i && match s with [] => true | _ => false end && match a with [] => true | _ => false end
     else if is_agg t then (i =? zlen a)%Z && match s with [] => true | _ => false end && forallb cacheable a
     else (i =? zlen s)%Z && match a with [] => true | _ => false end)
  end.

Fixpoint strip_attrs (m : msg) : msg :=
  match m with Msg t s i a _ => Msg t s i (map strip_attrs a) None end.

(** ---- correspondence cases (printed by harness/cmd/obs_cachecodec) ---- *)
Definition status {A} (r : result A) : result unit :=
  match r with Ok _ => Ok tt | Err e => Err e | Panic => Panic end.
Definition unit_eqb (a b : unit) : bool := true.
Definition pair_eqb (a b : msg * Z) : bool := msg_eqb (fst a) (fst b) && Z.eqb (snd a) (snd b).

Inductive case :=
(* CacheMarshal of m with setExpireAt(pxat) gave [out], CacheSize gave [size], CacheUnmarshalView(out) gave [back],
   and CacheUnmarshalView of the prefix of length k gave r for every (k, r) in [trunc] *)
| CCodec (m : msg) (pxat : Z) (out : bytes) (size : N) (back : result (msg * Z)) (trunc : list (nat * result unit))
(* CacheUnmarshalView on an arbitrary (mutated) buffer *)
| CUnm (buf : bytes) (back : result (msg * Z))
| CExpire (pxat : Z) (ttl : bytes) (back : Z).

Definition check_case (c : case) : bool :=
  match c with
  | CCodec m pxat out size back trunc =>
      bytes_eqb (cache_marshal m (set_expire_at pxat)) out &&
      (cache_size m =? size) &&
      result_eqb pair_eqb (cache_unmarshal_view out) back &&
      forallb (fun p => result_eqb unit_eqb (status (cache_unmarshal_view (firstn (fst p) out))) (snd p)) trunc
  | CUnm buf back => result_eqb pair_eqb (cache_unmarshal_view buf) back
  | CExpire pxat ttl back => bytes_eqb (set_expire_at pxat) ttl && Z.eqb (get_expire_at ttl) back
  end.
