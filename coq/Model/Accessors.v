(** Model of message.go: the typed accessors of RedisMessage / RedisResult, the RedisError classifiers
    and helper.go DecodeSliceOfJSON (C15, C16) — after the repairs of the accessor guards
    (the original behaviour of the repaired places is kept in the [_before_fix] definitions).

    A reply is a tree [msg] mirroring RedisMessage: type byte, and exactly one of an integer
    ([intlen] alone), a string ([bytes] + [intlen]) or children ([array] + [intlen]); plus attributes.
    [mintlen] gives back the [intlen] field (integer, or length of string / children), [has_arr] is
    [m.array != nil].  Every message the decoder, the cache codec or the mock package can build
    is such a tree (a superset: type byte and payload kind are independent here).

    Outcomes are [ROk v | RErr e | RPanic]; [RPanic] stands wherever the Go code indexes or slices
    without a guard of its own.  Errors carry what a caller can observe: redis nil, the redis error
    (type byte and text), a parse error (errors.Is errParse), a shape error (a plain fmt.Errorf),
    a strconv number error, a JSON error, or the non-redis error of a RedisResult.

    External functions are parameters ([env]): strconv.ParseFloat (value AND ok flag: the value is
    kept by callers that drop the error), the conversion float64(int64), json.Unmarshal succeeding.
    Integers in strings are read in base ten by every accessor ([parse_int10]; AsIntMap used base 0 before
    its repair, see [as_int_map_before_fix]).  Floats are IEEE bit patterns.  Go maps are modelled as association
    lists sorted by key ([mset] = assignment), which is also the canonical form the observer prints. *)
From Coq Require Import String List NArith ZArith Bool.
Require Import RV.Model.Base RV.Model.AccBase.
Import ListNotations.
Open Scope N_scope.

(** ---- replies ---- *)
Inductive msg :=
| MInt (typ : N) (i : Z) (attrs : option msg)
| MStr (typ : N) (s : bytes) (attrs : option msg)
| MArr (typ : N) (l : list msg) (attrs : option msg).

Definition tBlobString : N := 36.   (* $ *)
Definition tSimpleString : N := 43. (* + *)
Definition tSimpleErr : N := 45.    (* - *)
Definition tInteger : N := 58.      (* : *)
Definition tNull : N := 95.         (* _ *)
Definition tEnd : N := 46.          (* . *)
Definition tFloat : N := 44.        (* , *)
Definition tBool : N := 35.         (* # *)
Definition tBlobErr : N := 33.      (* ! *)
Definition tVerbatim : N := 61.     (* = *)
Definition tBigNumber : N := 40.    (* ( *)
Definition tArray : N := 42.        (* * *)
Definition tMap : N := 37.          (* % *)
Definition tSet : N := 126.         (* ~ *)
Definition tAttribute : N := 124.   (* | *)
Definition tPush : N := 62.         (* > *)

Definition mtyp (m : msg) : N := match m with MInt t _ _ | MStr t _ _ | MArr t _ _ => t end.
Definition mstr (m : msg) : bytes := match m with MStr _ s _ => s | _ => [] end.             (* m.string() *)
Definition mvals (m : msg) : list msg := match m with MArr _ l _ => l | _ => [] end.          (* m.values() *)
Definition mintlen (m : msg) : Z :=                                                           (* m.intlen *)
  match m with MInt _ i _ => i | MStr _ s _ => Z.of_nat (length s) | MArr _ l _ => Z.of_nat (length l) end.
Definition has_arr (m : msg) : bool := match m with MArr _ _ _ => true | _ => false end.     (* m.array != nil *)
Definition mattrs (m : msg) : option msg := match m with MInt _ _ a | MStr _ _ a | MArr _ _ a => a end.

Definition is_nil m := mtyp m =? tNull.
Definition is_int64 m := mtyp m =? tInteger.
Definition is_float64 m := mtyp m =? tFloat.
Definition is_string m := (mtyp m =? tBlobString) || (mtyp m =? tSimpleString).
Definition is_bool m := mtyp m =? tBool.
Definition is_array m := (mtyp m =? tArray) || (mtyp m =? tSet).
Definition is_map m := mtyp m =? tMap.

(** ---- outcomes ---- *)
Inductive aerr :=
| ENil                               (* the Nil error (redis nil reply) *)
| ERedis (typ : N) (text : bytes)    (* *RedisError: type byte and text *)
| EParse                             (* wraps errParse *)
| EShape                             (* fmt.Errorf without errParse: "got %d, wanted 2" … *)
| ENum                               (* *strconv.NumError *)
| EJson                              (* json.Unmarshal failed *)
| EOther (k : N).                    (* RedisResult.err (non-redis error) *)

Inductive res (A : Type) : Type :=
| ROk (a : A)
| RErr (e : aerr)
| RPanic.
Arguments ROk {A} a.
Arguments RErr {A} e.
Arguments RPanic {A}.

Definition rbind {A B : Type} (r : res A) (f : A -> res B) : res B :=
  match r with ROk a => f a | RErr e => RErr e | RPanic => RPanic end.
Notation "x <- e ;; f" := (rbind e (fun x => f)) (at level 61, e at next level, right associativity).

Fixpoint mapM {A B : Type} (f : A -> res B) (l : list A) : res (list B) :=
  match l with
  | [] => ROk []
  | x :: r => y <- f x ;; ys <- mapM f r ;; ROk (y :: ys)
  end.

(** Go index expression [l[i]] *)
Definition idx {A : Type} (l : list A) (i : nat) : res A :=
  match nth_error l i with Some x => ROk x | None => RPanic end.

(** ---- environment ---- *)
Record env := mkEnv {
  pf : bytes -> N * bool;        (* strconv.ParseFloat(s, 64): bits of the value, err == nil *)
  f_of_int : Z -> N;             (* float64(int64) as bits *)
  json_ok : bytes -> bool        (* json.Unmarshal(s, &v) == nil for the destination used *)
}.

Definition nan_bits : N := 9221120237041090561.   (* math.NaN() = 0x7FF8000000000001 *)

(** util.ToFloat64: strconv.ParseFloat, plus "-nan" *)
Definition to_float64_s (e : env) (s : bytes) : N * bool :=
  let '(v, ok) := pf e s in
  if ok then (v, true) else if bytes_eqb s (b "-nan") then (nan_bits, true) else (v, false).

(** ---- maps ---- *)
Definition smap (V : Type) := list (bytes * V).

Fixpoint mset {V : Type} (k : bytes) (v : V) (m : smap V) : smap V :=
  match m with
  | [] => [(k, v)]
  | (k', v') :: r =>
    if bytes_eqb k k' then (k, v) :: r
    else if bytes_ltb k k' then (k, v) :: (k', v') :: r
    else (k', v') :: mset k v r
  end.

Definition mget {V : Type} (k : bytes) (m : smap V) : option V := assoc k m.

(** ---- Error() ---- *)
Definition trim_prefix (p s : bytes) : bytes :=
  if has_prefix s p then skipn (length p) s else s.

Definition msg_error (m : msg) : option aerr :=
  if mtyp m =? tNull then Some ENil
  else if (mtyp m =? tSimpleErr) || (mtyp m =? tBlobErr) then Some (ERedis (mtyp m) (trim_prefix (b "ERR ") (mstr m)))
  else None.

(** [if err := m.Error(); err != nil { return err }; return errParse-wrapped] *)
Definition error_or_parse {A : Type} (m : msg) : res A :=
  match msg_error m with Some e => RErr e | None => RErr EParse end.

(** ---- scalar accessors ---- *)
Definition to_string (m : msg) : res bytes :=
  if is_string m then ROk (mstr m)
  else if is_int64 m || has_arr m then RErr EParse
  else match msg_error m with Some e => RErr e | None => ROk (mstr m) end.

Definition as_bytes := to_string.
Definition as_reader := to_string.

Definition decode_json (e : env) (m : msg) : res unit :=
  s <- to_string m ;; if json_ok e s then ROk tt else RErr EJson.

Definition as_int64 (m : msg) : res Z :=
  if is_int64 m then ROk (mintlen m)
  else v <- to_string m ;; match parse_int10 v with Some z => ROk z | None => RErr ENum end.

Definition two64 : Z := 18446744073709551616%Z.

Definition as_uint64 (m : msg) : res N :=
  if is_int64 m then ROk (Z.to_N (mintlen m mod two64))       (* uint64(m.intlen) *)
  else v <- to_string m ;; match parse_uint10 v with Some n => ROk n | None => RErr ENum end.

Definition as_bool (m : msg) : res bool :=
  match msg_error m with
  | Some e => RErr e
  | None =>
    if is_string m then ROk (bytes_eqb (mstr m) (b "OK"))
    else if is_int64 m then ROk (negb (mintlen m =? 0)%Z)
    else if is_bool m then ROk (mintlen m =? 1)%Z
    else RErr EParse
  end.

(** AsFloat64 as the pair Go returns: the value survives an error (range errors give +-Inf) *)
Definition as_float64_raw (e : env) (m : msg) : N * option aerr :=
  let conv s := let '(v, ok) := to_float64_s e s in (v, if ok then None else Some ENum) in
  if is_float64 m then conv (mstr m)
  else match to_string m with
       | ROk v => conv v
       | RErr er => (0, Some er)
       | RPanic => (0, Some EParse)
       end.

Definition of_raw {A : Type} (r : A * option aerr) : res A :=
  match r with (v, None) => ROk v | (_, Some er) => RErr er end.

Definition as_float64 (e : env) (m : msg) : res N := of_raw (as_float64_raw e m).

Definition to_int64 (m : msg) : res Z := if is_int64 m then ROk (mintlen m) else error_or_parse m.
Definition to_bool (m : msg) : res bool := if is_bool m then ROk (mintlen m =? 1)%Z else error_or_parse m.
Definition to_float64 (e : env) (m : msg) : res N :=
  if is_float64 m then of_raw (let '(v, ok) := to_float64_s e (mstr m) in (v, if ok then None else Some ENum))
  else error_or_parse m.
Definition to_array (m : msg) : res (list msg) := if is_array m then ROk (mvals m) else error_or_parse m.

(** ---- slices ---- *)
Definition as_str_slice (m : msg) : res (list bytes) := vs <- to_array m ;; ROk (map mstr vs).

Definition as_int_slice (m : msg) : res (list Z) :=
  vs <- to_array m ;;
  mapM (fun v => match mstr v with
                 | [] => ROk (mintlen v)
                 | s => match parse_int10 s with Some z => ROk z | None => RErr ENum end
                 end) vs.

Definition as_float_slice (e : env) (m : msg) : res (list N) :=
  vs <- to_array m ;;
  mapM (fun v => match mstr v with
                 | [] => ROk (f_of_int e (mintlen v))
                 | s => let '(x, ok) := to_float64_s e s in if ok then ROk x else RErr ENum
                 end) vs.

Definition as_bool_slice (m : msg) : res (list bool) :=
  vs <- to_array m ;; ROk (map (fun v => match as_bool v with ROk x => x | _ => false end) vs).

(** ---- maps ---- *)
Definition even_len {A : Type} (l : list A) : bool := Nat.even (length l).
Definition map_or_array m := is_map m || is_array m.

(** the pair loop [for i := 0; i < len(vs); i += 2 { k := vs[i]; v := vs[i+1]; … }]: [vs[i+1]] is not guarded by the loop *)
Fixpoint pair_loop {S : Type} (body : msg -> msg -> S -> res S) (vs : list msg) (st : S) : res S :=
  match vs with
  | [] => ROk st
  | [_] => RPanic
  | k :: v :: r => st' <- body k v st ;; pair_loop body r st'
  end.

(** the guarded pair loop [for i := 0; i+1 < len(vs); i += 2] (the repaired FT loops) *)
Fixpoint pair_loop_guarded {S : Type} (body : msg -> msg -> S -> res S) (vs : list msg) (st : S) : res S :=
  match vs with
  | k :: v :: r => st' <- body k v st ;; pair_loop_guarded body r st'
  | _ => ROk st
  end.

Definition is_str_typ (m : msg) : bool := (mtyp m =? tBlobString) || (mtyp m =? tSimpleString).

(** toMap(values): the key type is tested before [values[i+1]] is read *)
Fixpoint to_map_vals (vs : list msg) (acc : smap msg) : res (smap msg) :=
  match vs with
  | [] => ROk acc
  | k :: rest =>
    if is_str_typ k then
      match rest with
      | v :: r => to_map_vals r (mset (mstr k) v acc)
      | [] => RPanic
      end
    else RErr EParse
  end.

Definition as_map (m : msg) : res (smap msg) :=
  match msg_error m with
  | Some e => RErr e
  | None => if map_or_array m && even_len (mvals m) then to_map_vals (mvals m) [] else RErr EParse
  end.

(** ToMap (repaired: a map with an odd number of elements is a parse error) *)
Definition to_map (m : msg) : res (smap msg) :=
  if is_map m then (if even_len (mvals m) then to_map_vals (mvals m) [] else RErr EParse)
  else error_or_parse m.

Definition to_map_before_fix (m : msg) : res (smap msg) :=
  if is_map m then to_map_vals (mvals m) [] else error_or_parse m.

Definition as_str_map (m : msg) : res (smap bytes) :=
  match msg_error m with
  | Some e => RErr e
  | None =>
    if map_or_array m && even_len (mvals m)
    then pair_loop (fun k v r => ROk (mset (mstr k) (mstr v) r)) (mvals m) []
    else RErr EParse
  end.

Definition as_int_map_with (parse : bytes -> option Z) (m : msg) : res (smap Z) :=
  match msg_error m with
  | Some er => RErr er
  | None =>
    if map_or_array m && even_len (mvals m)
    then pair_loop (fun k v r =>
           if is_str_typ k then
             match mstr v with
             | [] => if (mtyp v =? tInteger) || (mtyp v =? tNull) then ROk (mset (mstr k) (mintlen v) r) else ROk r
             | s => match parse s with Some z => ROk (mset (mstr k) z r) | None => RErr ENum end
             end
           else ROk r) (mvals m) []
    else RErr EParse
  end.

(** AsIntMap (repaired: strconv.ParseInt(s, 10, 64) like AsInt64 and AsIntSlice) *)
Definition as_int_map (m : msg) : res (smap Z) := as_int_map_with parse_int10 m.

(** before the repair it called strconv.ParseInt(s, 0, 64): base prefixes, a leading 0 as octal, '_' separators;
    [pi0] stands for that function *)
Definition as_int_map_before_fix (pi0 : bytes -> option Z) (m : msg) : res (smap Z) := as_int_map_with pi0 m.

(** ---- streams ---- *)
Record xentry := mkXEntry { xe_id : bytes; xe_fields : option (smap bytes) }.

Definition as_xrange_entry (m : msg) : res xentry :=
  vs <- to_array m ;;
  if negb (length vs =? 2)%nat then RErr EShape else
  v0 <- idx vs 0 ;; id <- to_string v0 ;;
  v1 <- idx vs 1 ;;
  match as_str_map v1 with
  | ROk fv => ROk (mkXEntry id (Some fv))
  | RErr ENil => ROk (mkXEntry id None)
  | RErr er => RErr er
  | RPanic => RPanic
  end.

Definition as_xrange (m : msg) : res (list xentry) := vs <- to_array m ;; mapM as_xrange_entry vs.

(** the two shapes of XREAD: RESP3 map stream -> entries, RESP2 array of [stream, entries] *)
Definition xread_generic {E : Type} (conv : msg -> res (list E)) (m : msg) : res (smap (list E)) :=
  match msg_error m with
  | Some er => RErr er
  | None =>
    if is_map m then
      if even_len (mvals m)                                   (* repair: odd map = parse error *)
      then pair_loop (fun k v r => x <- conv v ;; ROk (mset (mstr k) x r)) (mvals m) []
      else RErr EParse
    else if is_array m then
      (fix go (vs : list msg) (r : smap (list E)) : res (smap (list E)) :=
         match vs with
         | [] => ROk r
         | v :: rest =>
           if negb (is_array v) || negb (length (mvals v) =? 2)%nat then RErr EShape
           else k <- idx (mvals v) 0 ;; es <- idx (mvals v) 1 ;; x <- conv es ;; go rest (mset (mstr k) x r)
         end) (mvals m) []
    else RErr EParse
  end.

Definition as_xread := xread_generic as_xrange.

Record xslice := mkXSlice { xs_id : bytes; xs_fields : option (list (bytes * bytes)) }.

(** [for i := 0; i < cap; i++ { fieldArray[i*2], fieldArray[i*2+1] }] with cap = len/2 *)
Fixpoint slice_pairs (fa : list msg) (n : nat) (i : nat) : res (list (bytes * bytes)) :=
  match n with
  | O => ROk []
  | S n' =>
    f <- idx fa (i * 2) ;; v <- idx fa (i * 2 + 1) ;; r <- slice_pairs fa n' (S i) ;; ROk ((mstr f, mstr v) :: r)
  end.

Definition as_xrange_slice (m : msg) : res xslice :=
  vs <- to_array m ;;
  if negb (length vs =? 2)%nat then RErr EShape else
  v0 <- idx vs 0 ;; id <- to_string v0 ;;
  v1 <- idx vs 1 ;;
  match to_array v1 with
  | ROk fa => fv <- slice_pairs fa (Nat.div2 (length fa)) 0 ;; ROk (mkXSlice id (Some fv))
  | RErr ENil => ROk (mkXSlice id None)
  | RErr er => RErr er
  | RPanic => RPanic
  end.

Definition as_xrange_slices (m : msg) : res (list xslice) := vs <- to_array m ;; mapM as_xrange_slice vs.
Definition as_xread_slices := xread_generic as_xrange_slices.

(** ---- sorted sets ---- *)
Definition to_zscore (e : env) (vs : list msg) : res (bytes * N) :=
  if (length vs =? 2)%nat then
    v0 <- idx vs 0 ;; mem <- to_string v0 ;; v1 <- idx vs 1 ;; sc <- as_float64 e v1 ;; ROk (mem, sc)
  else RErr EShape.

Definition as_zscore (e : env) (m : msg) : res (bytes * N) := arr <- to_array m ;; to_zscore e arr.

(** [arr[j : j+2]] for j = 2i, i < len/2 *)
Fixpoint zscore_chunks (e : env) (arr : list msg) (n : nat) (i : nat) : res (list (bytes * N)) :=
  match n with
  | O => ROk []
  | S n' =>
    let j := (i * 2)%nat in
    if (length arr <? j + 2)%nat then RPanic else
    z <- to_zscore e (firstn 2 (skipn j arr)) ;; r <- zscore_chunks e arr n' (S i) ;; ROk (z :: r)
  end.

Definition as_zscores (e : env) (m : msg) : res (list (bytes * N)) :=
  arr <- to_array m ;;
  if match arr with a0 :: _ => is_array a0 | [] => false end
  then mapM (fun v => to_zscore e (mvals v)) arr
  else zscore_chunks e arr (Nat.div2 (length arr)) 0.

(** ---- scan / pops ---- *)
Definition as_scan_entry (m : msg) : res (N * list bytes) :=
  msgs <- to_array m ;;
  if (2 <=? length msgs)%nat then
    m0 <- idx msgs 0 ;; c <- as_uint64 m0 ;; m1 <- idx msgs 1 ;; el <- as_str_slice m1 ;; ROk (c, el)
  else RErr EParse.

Definition as_lmpop (m : msg) : res (bytes * list bytes) :=
  match msg_error m with
  | Some er => RErr er
  | None =>
    if (2 <=? length (mvals m))%nat then
      k <- idx (mvals m) 0 ;; v <- idx (mvals m) 1 ;; vs <- as_str_slice v ;; ROk (mstr k, vs)
    else RErr EParse
  end.

Definition as_zmpop (e : env) (m : msg) : res (bytes * list (bytes * N)) :=
  match msg_error m with
  | Some er => RErr er
  | None =>
    if (2 <=? length (mvals m))%nat then
      k <- idx (mvals m) 0 ;; v <- idx (mvals m) 1 ;; vs <- as_zscores e v ;; ROk (mstr k, vs)
    else RErr EParse
  end.

(** ---- search ---- *)
Record ftdoc := mkDoc { d_key : bytes; d_doc : option (smap bytes); d_score : N }.

Definition str_map_opt (m : msg) : option (smap bytes) := match as_str_map m with ROk x => Some x | _ => None end.

(** the RESP3 record loop of AsFtSearch (repaired: [j+1 < len]) *)
Definition fts_record (e : env) (record : msg) : res ftdoc :=
  pair_loop_guarded (fun k v d =>
    if bytes_eqb (mstr k) (b "id") then ROk (mkDoc (mstr v) (d_doc d) (d_score d))
    else if bytes_eqb (mstr k) (b "extra_attributes") then ROk (mkDoc (d_key d) (str_map_opt v) (d_score d))
    else if bytes_eqb (mstr k) (b "score") then ROk (mkDoc (d_key d) (d_doc d) (fst (pf e (mstr v))))
    else ROk d) (mvals record) (mkDoc [] None 0).

(** [for _, e := range v.values() { return 0, nil, RedisError(e) }] *)
Definition first_as_error {A : Type} (v : msg) (k : res A) : res A :=
  match mvals v with
  | er :: _ => RErr (ERedis (mtyp er) (mstr er))
  | [] => k
  end.

(** the RESP2 document loop of AsFtSearch (repaired: [i+1 < len] before each [i++]) *)
Fixpoint fts_docs (e : env) (wscore wattrs : bool) (l : list msg) : list ftdoc :=
  match l with
  | [] => []
  | k :: r =>
    match wscore, wattrs with
    | false, false => mkDoc (mstr k) None 0 :: fts_docs e wscore wattrs r
    | true, false =>
      match r with
      | s :: r' => mkDoc (mstr k) None (fst (pf e (mstr s))) :: fts_docs e wscore wattrs r'
      | [] => [mkDoc (mstr k) None 0]
      end
    | false, true =>
      match r with
      | a :: r' => mkDoc (mstr k) (str_map_opt a) 0 :: fts_docs e wscore wattrs r'
      | [] => [mkDoc (mstr k) None 0]
      end
    | true, true =>
      match r with
      | s :: a :: r' => mkDoc (mstr k) (str_map_opt a) (fst (pf e (mstr s))) :: fts_docs e wscore wattrs r'
      | [s] => [mkDoc (mstr k) None (fst (pf e (mstr s)))]
      | [] => [mkDoc (mstr k) None 0]
      end
    end
  end.

Definition as_ft_search (e : env) (m : msg) : res (Z * list ftdoc) :=
  match msg_error m with
  | Some er => RErr er
  | None =>
    if is_map m then
      pair_loop_guarded (fun k v st =>
        if bytes_eqb (mstr k) (b "total_results") then ROk (mintlen v, snd st)
        else if bytes_eqb (mstr k) (b "results") then docs <- mapM (fts_record e) (mvals v) ;; ROk (fst st, docs)
        else if bytes_eqb (mstr k) (b "error") then first_as_error v (ROk st)
        else ROk st) (mvals m) (0%Z, [])
    else
      match mvals m with
      | [] => RErr EParse
      | v0 :: rest =>
        let vs := mvals m in
        let n := length vs in
        (* wattrs / wscore / offset *)
        f2 <- (if (2 <? n)%nat then
                 v2 <- idx vs 2 ;;
                 match mstr v2 with
                 | [] => ROk (false, true)
                 | _ => v1 <- idx vs 1 ;;
                        ROk (negb (snd (pf e (mstr v1))) && snd (pf e (mstr v2)), false)
                 end
               else ROk (false, false)) ;;
        let '(wscore, wattrs0) := f2 in
        wattrs <- (if (3 <? n)%nat then v3 <- idx vs 3 ;; ROk (match mstr v3 with [] => true | _ => wattrs0 end)
                   else ROk wattrs0) ;;
        ROk (mintlen v0, fts_docs e wscore wattrs rest)
      end
  end.

(** the RESP3 record loop of AsFtAggregate (repaired: [j+1 < len]) *)
Definition fta_record (record : msg) : res (option (smap bytes)) :=
  pair_loop_guarded (fun k v d =>
    if bytes_eqb (mstr k) (b "extra_attributes") then ROk (str_map_opt v) else ROk d) (mvals record) None.

Definition as_ft_aggregate (m : msg) : res (Z * list (option (smap bytes))) :=
  match msg_error m with
  | Some er => RErr er
  | None =>
    if is_map m then
      pair_loop_guarded (fun k v st =>
        if bytes_eqb (mstr k) (b "total_results") then ROk (mintlen v, snd st)
        else if bytes_eqb (mstr k) (b "results") then docs <- mapM fta_record (mvals v) ;; ROk (fst st, docs)
        else if bytes_eqb (mstr k) (b "error") then first_as_error v (ROk st)
        else ROk st) (mvals m) (0%Z, [])
    else
      match mvals m with
      | [] => RErr EParse
      | v0 :: rest => ROk (mintlen v0, map str_map_opt rest)
      end
  end.

Definition as_ft_aggregate_cursor (m : msg) : res (Z * Z * list (option (smap bytes))) :=
  if is_array m && (length (mvals m) =? 2)%nat &&
     match mvals m with v0 :: _ => is_array v0 || is_map v0 | [] => false end
  then v0 <- idx (mvals m) 0 ;; td <- as_ft_aggregate v0 ;; v1 <- idx (mvals m) 1 ;; ROk (mintlen v1, fst td, snd td)
  else td <- as_ft_aggregate m ;; ROk (0%Z, fst td, snd td).

(** ---- geo ---- *)
Record geoloc := mkGeo { g_name : bytes; g_long : N; g_lat : N; g_dist : N; g_hash : Z }.

Definition geo_one (e : env) (v : msg) : res geoloc :=
  if is_string v then ROk (mkGeo (mstr v) 0 0 0 0%Z)
  else
    let info := mvals v in
    match info with
    | [] => RErr EParse                                       (* repair: was info[0] on an empty slice *)
    | _ =>
      i0 <- idx info 0 ;;
      let name := mstr i0 in
      (* distance *)
      st1 <- match nth_error info 1 with
             | Some x => match mstr x with
                         | [] => ROk (0, 1%nat)
                         | s => let '(d, ok) := to_float64_s e s in if ok then ROk (d, 2%nat) else RErr ENum
                         end
             | None => ROk (0, 1%nat)
             end ;;
      let '(dist, i) := st1 in
      (* hash *)
      let '(hash, i) := match nth_error info i with
                        | Some x => if is_int64 x then (mintlen x, S i) else (0%Z, i)
                        | None => (0%Z, i)
                        end in
      (* coordinates *)
      match nth_error info i with
      | Some x =>
        if has_arr x then
          let cord := mvals x in
          if (length cord <? 2)%nat then RErr EShape
          else c0 <- idx cord 0 ;; c1 <- idx cord 1 ;;
               ROk (mkGeo name (fst (as_float64_raw e c0)) (fst (as_float64_raw e c1)) dist hash)
        else ROk (mkGeo name 0 0 dist hash)
      | None => ROk (mkGeo name 0 0 dist hash)
      end
    end.

Definition as_geosearch (e : env) (m : msg) : res (list geoloc) := arr <- to_array m ;; mapM (geo_one e) arr.

(** ---- ToAny ---- *)
Inductive any :=
| ANil
| AFloat (f : N) | AStr (s : bytes) | ABool (x : bool) | AInt (z : Z)
| AMap (l : list (bytes * any))
| AList (l : list any)
| AErr (er : aerr).

(** [if v, err := x.ToAny(); err != nil && !IsRedisNil(err) { vs[..] = err } else { vs[..] = v }] *)
Definition any_elem (r : res any) : res any :=
  match r with
  | ROk v => ROk v
  | RErr ENil => ROk ANil
  | RErr er => ROk (AErr er)
  | RPanic => RPanic
  end.

Fixpoint to_any (e : env) (m : msg) : res any :=
  match msg_error m with
  | Some er => RErr er
  | None =>
    let t := mtyp m in
    if t =? tFloat then (let '(v, ok) := to_float64_s e (mstr m) in if ok then ROk (AFloat v) else RErr ENum)
    else if (t =? tBlobString) || (t =? tSimpleString) || (t =? tVerbatim) || (t =? tBigNumber) then ROk (AStr (mstr m))
    else if t =? tBool then ROk (ABool (mintlen m =? 1)%Z)
    else if t =? tInteger then ROk (AInt (mintlen m))
    else if t =? tMap then
      match m with
      | MArr _ l _ =>
        if even_len l then                                     (* repair: odd map = parse error *)
          r <- (fix go (vs : list msg) (acc : smap any) : res (smap any) :=
                  match vs with
                  | [] => ROk acc
                  | [_] => RPanic
                  | k :: v :: r => x <- any_elem (to_any e v) ;; go r (mset (mstr k) x acc)
                  end) l [] ;;
          ROk (AMap r)
        else RErr EParse
      | _ => ROk (AMap [])
      end
    else if (t =? tSet) || (t =? tArray) then
      match m with
      | MArr _ l _ =>
        r <- (fix go (vs : list msg) : res (list any) :=
                match vs with
                | [] => ROk []
                | v :: r => x <- any_elem (to_any e v) ;; xs <- go r ;; ROk (x :: xs)
                end) l ;;
        ROk (AList r)
      | _ => ROk (AList [])
      end
    else RErr EParse
  end.

(** ---- DecodeSliceOfJSON ---- *)
Definition decode_slice_of_json (e : env) (m : msg) : res nat :=
  vs <- to_array m ;;
  r <- mapM (fun v => match decode_json e v with
                      | ROk _ => ROk tt
                      | RErr ENil => ROk tt
                      | RErr er => RErr er
                      | RPanic => RPanic
                      end) vs ;;
  ROk (length r).

(** ---- RedisError classifiers (repaired: the address field must exist) ---- *)
Definition last_index_byte (c : N) (s : bytes) : option nat :=
  (fix go (s : bytes) (i : nat) (found : option nat) : option nat :=
     match s with [] => found | x :: r => go r (S i) (if x =? c then Some i else found) end) s O None.

Definition join_host_port (h p : bytes) : bytes :=
  if contains_byte 58 h then (91 :: h) ++ (93 :: 58 :: p) else h ++ (58 :: p).

Definition fix_ipv6_host_port (addr : bytes) : bytes :=
  if negb (contains_byte 46 addr) && (0 <? length addr)%nat && negb (match addr with c :: _ => c =? 91 | [] => false end)
  then match last_index_byte 58 addr with
       | Some i => join_host_port (firstn i addr) (skipn (S i) addr)
       | None => addr
       end
  else addr.

(** IsMoved / IsAsk take field 2, IsRedirect field 1 of the text split at blanks *)
Definition redirect_addr (prefix : bytes) (field : nat) (text : bytes) : res (bytes * bool) :=
  if has_prefix text prefix then
    let parts := split_byte 32 text in
    if (field <? length parts)%nat then a <- idx parts field ;; ROk (fix_ipv6_host_port a, true)
    else ROk ([], false)
  else ROk ([], false).

Definition redirect_addr_before_fix (prefix : bytes) (field : nat) (text : bytes) : res (bytes * bool) :=
  if has_prefix text prefix then a <- idx (split_byte 32 text) field ;; ROk (fix_ipv6_host_port a, true)
  else ROk ([], false).

Definition is_moved := redirect_addr (b "MOVED") 2.
Definition is_ask := redirect_addr (b "ASK") 2.
Definition is_redirect := redirect_addr (b "REDIRECT") 1.
Definition is_try_again (t : bytes) := has_prefix t (b "TRYAGAIN").
Definition is_loading (t : bytes) := has_prefix t (b "LOADING").
Definition is_cluster_down (t : bytes) := has_prefix t (b "CLUSTERDOWN").
Definition is_no_script (t : bytes) := has_prefix t (b "NOSCRIPT").
Definition is_busy_group (t : bytes) := has_prefix t (b "BUSYGROUP").

(** ---- uniform view of all accessors: canonical values ---- *)
Inductive val :=
| VNil                                  (* Go nil: nil map, nil any *)
| VUnit
| VInt (z : Z) | VUint (n : N) | VBool (x : bool) | VFloat (f : N) | VStr (s : bytes)
| VMsg (m : msg)
| VList (l : list val)                  (* slices (nil and empty are not distinguished) *)
| VMap (l : list (bytes * val))         (* maps, sorted by key *)
| VTup (l : list val)                   (* structs / multiple results *)
| VErr (e : aerr).                      (* an error stored as a value (ToAny) *)

Definition vmap {V : Type} (f : V -> val) (m : smap V) : val := VMap (map (fun kv => (fst kv, f (snd kv))) m).
Definition vopt {V : Type} (f : V -> val) (o : option V) : val := match o with Some x => f x | None => VNil end.
Definition vlist {V : Type} (f : V -> val) (l : list V) : val := VList (map f l).

Definition v_xentry (x : xentry) : val := VTup [VStr (xe_id x); vopt (vmap VStr) (xe_fields x)].
Definition v_xslice (x : xslice) : val :=
  VTup [VStr (xs_id x); vopt (vlist (fun fv => VTup [VStr (fst fv); VStr (snd fv)])) (xs_fields x)].
Definition v_zscore (z : bytes * N) : val := VTup [VStr (fst z); VFloat (snd z)].
Definition v_doc (d : ftdoc) : val := VTup [VStr (d_key d); vopt (vmap VStr) (d_doc d); VFloat (d_score d)].
Definition v_geo (g : geoloc) : val :=
  VTup [VStr (g_name g); VFloat (g_long g); VFloat (g_lat g); VFloat (g_dist g); VInt (g_hash g)].

Fixpoint v_any (a : any) : val :=
  match a with
  | ANil => VNil
  | AFloat f => VFloat f
  | AStr s => VStr s
  | ABool x => VBool x
  | AInt z => VInt z
  | AMap l => VMap ((fix go (l : list (bytes * any)) : list (bytes * val) :=
                       match l with [] => [] | (k, v) :: r => (k, v_any v) :: go r end) l)
  | AList l => VList (map v_any l)
  | AErr er => VErr er
  end.

Definition rmap {A B : Type} (f : A -> B) (r : res A) : res B :=
  match r with ROk a => ROk (f a) | RErr e => RErr e | RPanic => RPanic end.

Inductive accessor :=
| AError | AToInt64 | AToBool | AToFloat64 | AToString | AAsReader | AAsBytes | ADecodeJSON
| AAsInt64 | AAsUint64 | AAsBool | AAsFloat64 | AToArray
| AAsStrSlice | AAsIntSlice | AAsFloatSlice | AAsBoolSlice
| AAsXRangeEntry | AAsXRange | AAsXRead | AAsXRangeSlice | AAsXRangeSlices | AAsXReadSlices
| AAsZScore | AAsZScores | AAsScanEntry | AAsMap | AAsStrMap | AAsIntMap | AAsLMPop | AAsZMPop
| AAsFtSearch | AAsFtAggregate | AAsFtAggregateCursor | AAsGeosearch | AToMap | AToAny | ADecodeSliceOfJSON.

Definition all_accessors : list accessor :=
  [AError; AToInt64; AToBool; AToFloat64; AToString; AAsReader; AAsBytes; ADecodeJSON;
   AAsInt64; AAsUint64; AAsBool; AAsFloat64; AToArray;
   AAsStrSlice; AAsIntSlice; AAsFloatSlice; AAsBoolSlice;
   AAsXRangeEntry; AAsXRange; AAsXRead; AAsXRangeSlice; AAsXRangeSlices; AAsXReadSlices;
   AAsZScore; AAsZScores; AAsScanEntry; AAsMap; AAsStrMap; AAsIntMap; AAsLMPop; AAsZMPop;
   AAsFtSearch; AAsFtAggregate; AAsFtAggregateCursor; AAsGeosearch; AToMap; AToAny; ADecodeSliceOfJSON].

Definition run (e : env) (a : accessor) (m : msg) : res val :=
  match a with
  | AError => match msg_error m with Some er => RErr er | None => ROk VNil end
  | AToInt64 => rmap VInt (to_int64 m)
  | AToBool => rmap VBool (to_bool m)
  | AToFloat64 => rmap VFloat (to_float64 e m)
  | AToString => rmap VStr (to_string m)
  | AAsReader => rmap VStr (as_reader m)
  | AAsBytes => rmap VStr (as_bytes m)
  | ADecodeJSON => rmap (fun _ => VUnit) (decode_json e m)
  | AAsInt64 => rmap VInt (as_int64 m)
  | AAsUint64 => rmap VUint (as_uint64 m)
  | AAsBool => rmap VBool (as_bool m)
  | AAsFloat64 => rmap VFloat (as_float64 e m)
  | AToArray => rmap (vlist VMsg) (to_array m)
  | AAsStrSlice => rmap (vlist VStr) (as_str_slice m)
  | AAsIntSlice => rmap (vlist VInt) (as_int_slice m)
  | AAsFloatSlice => rmap (vlist VFloat) (as_float_slice e m)
  | AAsBoolSlice => rmap (vlist VBool) (as_bool_slice m)
  | AAsXRangeEntry => rmap v_xentry (as_xrange_entry m)
  | AAsXRange => rmap (vlist v_xentry) (as_xrange m)
  | AAsXRead => rmap (vmap (vlist v_xentry)) (as_xread m)
  | AAsXRangeSlice => rmap v_xslice (as_xrange_slice m)
  | AAsXRangeSlices => rmap (vlist v_xslice) (as_xrange_slices m)
  | AAsXReadSlices => rmap (vmap (vlist v_xslice)) (as_xread_slices m)
  | AAsZScore => rmap v_zscore (as_zscore e m)
  | AAsZScores => rmap (vlist v_zscore) (as_zscores e m)
  | AAsScanEntry => rmap (fun ce => VTup [VUint (fst ce); vlist VStr (snd ce)]) (as_scan_entry m)
  | AAsMap => rmap (vmap VMsg) (as_map m)
  | AAsStrMap => rmap (vmap VStr) (as_str_map m)
  | AAsIntMap => rmap (vmap VInt) (as_int_map m)
  | AAsLMPop => rmap (fun kv => VTup [VStr (fst kv); vlist VStr (snd kv)]) (as_lmpop m)
  | AAsZMPop => rmap (fun kv => VTup [VStr (fst kv); vlist v_zscore (snd kv)]) (as_zmpop e m)
  | AAsFtSearch => rmap (fun td => VTup [VInt (fst td); vlist v_doc (snd td)]) (as_ft_search e m)
  | AAsFtAggregate => rmap (fun td => VTup [VInt (fst td); vlist (vopt (vmap VStr)) (snd td)]) (as_ft_aggregate m)
  | AAsFtAggregateCursor =>
    rmap (fun ctd => VTup [VInt (fst (fst ctd)); VInt (snd (fst ctd)); vlist (vopt (vmap VStr)) (snd ctd)]) (as_ft_aggregate_cursor m)
  | AAsGeosearch => rmap (vlist v_geo) (as_geosearch e m)
  | AToMap => rmap (vmap VMsg) (to_map m)
  | AToAny => rmap v_any (to_any e m)
  | ADecodeSliceOfJSON => rmap (fun n => VUint (N.of_nat n)) (decode_slice_of_json e m)
  end.

(** RedisResult: [if r.err != nil { err = r.err } else { v, err = r.val.X() }] *)
Definition run_result (e : env) (a : accessor) (rerr : option N) (m : msg) : res val :=
  match rerr with
  | Some k => RErr (EOther k)
  | None => run e a m
  end.

(** classifiers *)
Inductive classifier := KMoved | KAsk | KRedirect | KTryAgain | KLoading | KClusterDown | KNoScript | KBusyGroup.

Definition classify (k : classifier) (text : bytes) : res val :=
  let addr r := rmap (fun ao => VTup [VStr (fst ao); VBool (snd ao)]) r in
  match k with
  | KMoved => addr (is_moved text)
  | KAsk => addr (is_ask text)
  | KRedirect => addr (is_redirect text)
  | KTryAgain => ROk (VBool (is_try_again text))
  | KLoading => ROk (VBool (is_loading text))
  | KClusterDown => ROk (VBool (is_cluster_down text))
  | KNoScript => ROk (VBool (is_no_script text))
  | KBusyGroup => ROk (VBool (is_busy_group text))
  end.

(** ---- equality of canonical values ---- *)
Fixpoint msg_eqb (a c : msg) : bool :=
  let oeq x y := match x, y with
                 | Some p, Some q => msg_eqb p q
                 | None, None => true
                 | _, _ => false
                 end in
  match a, c with
  | MInt t i x, MInt t' i' x' => (t =? t') && (i =? i')%Z && oeq x x'
  | MStr t s x, MStr t' s' x' => (t =? t') && bytes_eqb s s' && oeq x x'
  | MArr t l x, MArr t' l' x' =>
    (t =? t') &&
    (fix go (l l' : list msg) : bool :=
       match l, l' with
       | [], [] => true
       | p :: r, q :: r' => msg_eqb p q && go r r'
       | _, _ => false
       end) l l' && oeq x x'
  | _, _ => false
  end.

Definition aerr_eqb (a c : aerr) : bool :=
  match a, c with
  | ENil, ENil | EParse, EParse | EShape, EShape | ENum, ENum | EJson, EJson => true
  | ERedis t s, ERedis t' s' => (t =? t') && bytes_eqb s s'
  | EOther k, EOther k' => k =? k'
  | _, _ => false
  end.

Fixpoint val_eqb (a c : val) : bool :=
  let leq := (fix go (l l' : list val) : bool :=
                match l, l' with
                | [], [] => true
                | p :: r, q :: r' => val_eqb p q && go r r'
                | _, _ => false
                end) in
  match a, c with
  | VNil, VNil | VUnit, VUnit => true
  | VInt z, VInt z' => (z =? z')%Z
  | VUint n, VUint n' => n =? n'
  | VBool x, VBool x' => Bool.eqb x x'
  | VFloat f, VFloat f' => f =? f'
  | VStr s, VStr s' => bytes_eqb s s'
  | VMsg m, VMsg m' => msg_eqb m m'
  | VList l, VList l' => leq l l'
  | VTup l, VTup l' => leq l l'
  | VMap l, VMap l' =>
    (fix go (l l' : list (bytes * val)) : bool :=
       match l, l' with
       | [], [] => true
       | (k, p) :: r, (k', q) :: r' => bytes_eqb k k' && val_eqb p q && go r r'
       | _, _ => false
       end) l l'
  | VErr e, VErr e' => aerr_eqb e e'
  | _, _ => false
  end.

Definition res_eqb (a c : res val) : bool :=
  match a, c with
  | ROk x, ROk y => val_eqb x y
  | RErr e, RErr e' => aerr_eqb e e'
  | RPanic, RPanic => true
  | _, _ => false
  end.

(** ---- correspondence cases (printed by harness/cmd/obs_acc) ---- *)

(** what the Go library answered on one string: ParseFloat (bits, ok), json.Unmarshal ok *)
Definition lib_row := (bytes * ((N * bool) * bool))%type.

Definition env_of (tbl : list lib_row) (fi : list (Z * N)) : env :=
  mkEnv (fun s => match assoc s tbl with Some (p, _) => p | None => (0, false) end)
        (fun z => match find (fun r => (fst r =? z)%Z) fi with Some r => snd r | None => 0 end)
        (fun s => match assoc s tbl with Some (_, j) => j | None => false end).

(** every string / intlen of the tree must be in the tables (fail closed) *)
Fixpoint all_strs (m : msg) : list bytes :=
  match m with
  | MInt _ _ _ => [[]]
  | MStr _ s _ => [s]
  | MArr _ l _ => [] :: flat_map all_strs l
  end.
Fixpoint all_ints (m : msg) : list Z :=
  match m with
  | MArr _ l _ => Z.of_nat (length l) :: flat_map all_ints l
  | other => [mintlen other]
  end.

Definition covered (tbl : list lib_row) (fi : list (Z * N)) (m : msg) : bool :=
  forallb (fun s => match assoc s tbl with Some _ => true | None => false end) (all_strs m) &&
  forallb (fun z => existsb (fun r => (fst r =? z)%Z) fi) (all_ints m).

Inductive case :=
| CTree (m : msg) (tbl : list lib_row) (fi : list (Z * N)) (obs : list (accessor * res val))
  (* every listed accessor applied to RedisResult{val: m} *)
| CTrees (ts : list (msg * list lib_row * list (Z * N) * list (accessor * res val)))
  (* several trees at once: sampled deformations of one seed reply (the observer sweeps all of them through its oracles) *)
| CResErr (k : N) (m : msg) (obs : list (accessor * res val))
  (* every listed accessor applied to RedisResult{err: non-redis error k, val: m} *)
| CCls (k : classifier) (text : bytes) (impl : res val)
| CFixAddr (addr : bytes) (impl : bytes).

Definition check_tree (m : msg) (tbl : list lib_row) (fi : list (Z * N)) (obs : list (accessor * res val)) : bool :=
  covered tbl fi m && forallb (fun ao => res_eqb (run (env_of tbl fi) (fst ao) m) (snd ao)) obs.

Definition check_case (c : case) : bool :=
  match c with
  | CTree m tbl fi obs => check_tree m tbl fi obs
  | CTrees ts => forallb (fun t => let '(m, tbl, fi, obs) := t in check_tree m tbl fi obs) ts
  | CResErr k m obs =>
    forallb (fun ao => res_eqb (run_result (env_of [] []) (fst ao) (Some k) m) (snd ao)) obs
  | CCls k text impl => res_eqb (classify k text) impl
  | CFixAddr addr impl => bytes_eqb (fix_ipv6_host_port addr) impl
  end.
