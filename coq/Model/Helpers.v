(** Model of the multi-key helpers (property C31): helper.go
      MGet / JsonMGet          [client_mget] (single, standalone, sentinel clients), [cluster_mget] (slot grouping)
      MSet / MSetNX / JsonMSet [client_mset] / [client_json_mset], cluster: [do_multi_set] over SET / SET NX / JSON.SET
      MDel                     [client_mdel], cluster: [do_multi_set] over DEL
      arrayToKV, doMultiSet, DecodeSliceOfJSON
    and the slot-grouping builders of internal/cmds/cmds.go (MGets, MDels, MSets, MSetNXs, JsonMGets, JsonMSets):
      [slot_mcmds], [slot_msets], [json_mgets], [json_msets].
    (MGetCache / JsonMGetCache = helper doMultiCache over DoMultiCache: Model/CacheBatch.v.)

    The server is an abstract function [srv : argv -> msg]; the client's DoMulti is positional
    (cluster.DoMulti's regrouping is the scatter/gather identity of C11 and the routing of C20).
    Go map iteration order is an input: the helpers that range over a [map[string]string] take the
    pairs as a list in the order of iteration; theorems hold for every such list.
    Go maps that are built are association lists with unique keys ([kv_set] = [m[k] = v]). *)
From Coq Require Import String Ascii.
From Coq Require Import List Arith NArith ZArith Bool.
Require Import RV.Model.Base RV.Model.CacheBatch.
Import ListNotations.
Open Scope N_scope.

(** arrayToKV: [for i, resp := range arr { m[keys[i]] = resp }]; keys[i] panics when arr is longer *)
Fixpoint array_to_kv (m : list (key * msg)) (arr : list msg) (keys : list key) : result (list (key * msg)) :=
  match arr with
  | [] => Ok m
  | v :: at_ =>
    match keys with
    | [] => Panic
    | k :: kt => array_to_kv (kv_set k v m) at_ kt
    end
  end.

(** RedisMessage.AsBool *)
Definition tBool : N := 35.  (* '#' *)
Definition as_bool (m : msg) : bool + err :=
  match msg_error m with
  | Some e => inr e
  | None =>
    if (m_typ m =? tStr) || (m_typ m =? tSimple) then inl (bytes_eqb (m_str m) (bs "OK"))
    else if m_typ m =? tInt then inl (negb (Z.eqb (m_int m) 0))
    else if m_typ m =? tBool then inl (Z.eqb (m_int m) 1)
    else inr EParse
  end.

Definition e_msetnx_not_set : err := EOther 7.   (* ErrMSetNXNotSet *)

Section Helpers.
  Variable srv : argv -> msg.

  (** Client.Do / Client.DoMulti on a healthy client: positional *)
  Definition do_cmd (a : argv) : rres := new_result (srv a).
  Definition do_multi (cs : list argv) : list rres := map do_cmd cs.

  (** clientMGet (MGet / JsonMGet on a non-cluster client): [cmd] = MGET keys… or JSON.MGET keys… path *)
  Definition client_mget (cmd : argv) (keys : list key) : result (list (key * msg) + err) :=
    match to_array (do_cmd cmd) with
    | inr e => Ok (inr e)
    | inl arr => match array_to_kv [] arr keys with
                 | Ok m => Ok (inl m)
                 | Err e => Err e
                 | Panic => Panic
                 end
    end.

  Definition mget_cmd (keys : list key) : argv := bs "MGET" :: keys.
  Definition json_mget_cmd (keys : list key) (path : bytes) : argv := (bs "JSON.MGET" :: keys) ++ [path].

  (** clusterMGet / clusterJsonMGet: [slotIdx] maps a slot to the index of its command in [cmds];
      a key of a new slot starts a command, other keys are appended (AppendCompleted) *)
  Fixpoint slot_find (s : N) (idx : list (N * nat)) : option nat :=
    match idx with
    | [] => None
    | (t, i) :: r => if s =? t then Some i else slot_find s r
    end.

  Definition group_by_slot (slot_of : key -> N) (head : bytes) (keys : list key) : result (list argv) :=
    let step := fun (acc : result (list (N * nat) * list argv)) (k : key) =>
      match acc with
      | Ok (idx, cmds) =>
        match slot_find (slot_of k) idx with
        | None => Ok ((slot_of k, length cmds) :: idx, cmds ++ [[head; k]])
        | Some i =>
          match nth_error cmds i with
          | None => Panic                                  (* cmds.s[idx] out of range *)
          | Some c => Ok (idx, upd i (c ++ [k]) cmds)
          end
        end
      | other => other
      end in
    match fold_left step keys (Ok ([], [])) with
    | Ok (_, cmds) => Ok cmds
    | Err e => Err e
    | Panic => Panic
    end.

  (** [for i, resp := range resps { arr := resp.ToArray(); for j, val := range arr { ret[cmds[i].Commands()[j+1]] = val } }] *)
  Fixpoint collect_one (ret : list (key * msg)) (cmd : argv) (j : nat) (arr : list msg) : result (list (key * msg)) :=
    match arr with
    | [] => Ok ret
    | v :: at_ =>
      match nth_error cmd (S j) with
      | None => Panic
      | Some k => collect_one (kv_set k v ret) cmd (S j) at_
      end
    end.

  Fixpoint collect (ret : list (key * msg)) (cmds : list argv) (resps : list rres) : result (list (key * msg) + err) :=
    match resps with
    | [] => Ok (inl ret)
    | r :: rt =>
      match cmds with
      | [] => Panic
      | c :: ct =>
        match to_array r with
        | inr e => Ok (inr e)
        | inl arr => match collect_one ret c 0 arr with
                     | Ok ret' => collect ret' ct rt
                     | Err e => Err e
                     | Panic => Panic
                     end
        end
      end
    end.

  Definition cluster_mget (slot_of : key -> N) (keys : list key) : result (list (key * msg) + err) :=
    match keys with
    | [] => Ok (inl [])
    | _ =>
      match group_by_slot slot_of (bs "MGET") keys with
      | Ok cmds => collect [] cmds (do_multi cmds)
      | Err e => Err e
      | Panic => Panic
      end
    end.

  Definition cluster_json_mget (slot_of : key -> N) (keys : list key) (path : bytes) : result (list (key * msg) + err) :=
    match keys with
    | [] => Ok (inl [])
    | _ =>
      match group_by_slot slot_of (bs "JSON.MGET") keys with
      | Ok cmds0 => let cmds := map (fun c => c ++ [path]) cmds0 in collect [] cmds (do_multi cmds)
      | Err e => Err e
      | Panic => Panic
      end
    end.

  (** MGet / JsonMGet *)
  Definition mget (cluster : bool) (slot_of : key -> N) (keys : list key) : result (list (key * msg) + err) :=
    match keys with
    | [] => Ok (inl [])
    | _ => if cluster then cluster_mget slot_of keys else client_mget (mget_cmd keys) keys
    end.

  Definition json_mget (cluster : bool) (slot_of : key -> N) (keys : list key) (path : bytes) : result (list (key * msg) + err) :=
    match keys with
    | [] => Ok (inl [])
    | _ => if cluster then cluster_json_mget slot_of keys path else client_mget (json_mget_cmd keys path) keys
    end.

  (** clientMSet: one MSET / MSETNX over the pairs in map order; the same error for every key *)
  Definition set_all {B : Type} (ks : list key) (v : B) : list (key * B) := fold_left (fun m k => kv_set k v m) ks [].

  Definition client_mset (nx : bool) (kvs : list (key * bytes)) : list (key * option err) :=
    let cmd := (if nx then bs "MSETNX" else bs "MSET") :: flat_map (fun kv => [fst kv; snd kv]) kvs in
    let e := match as_bool (srv cmd) with
             | inr e => Some e
             | inl true => None
             | inl false => Some e_msetnx_not_set
             end in
    set_all (map fst kvs) e.

  (** clientJSONMSet *)
  Definition client_json_mset (kvs : list (key * bytes)) (path : bytes) : list (key * option err) :=
    let cmd := bs "JSON.MSET" :: flat_map (fun kv => [fst kv; path; snd kv]) kvs in
    set_all (map fst kvs) (msg_error (srv cmd)).

  (** clientMDel *)
  Definition client_mdel (keys : list key) : list (key * option err) :=
    set_all keys (msg_error (srv (bs "DEL" :: keys))).

  (** doMultiSet: [ret[cmds[i].Commands()[1]] = resp.Error()]; cmds[i] panics when there are more results *)
  Fixpoint do_multi_set_go (ret : list (key * option err)) (cmds : list argv) (resps : list rres)
    : result (list (key * option err)) :=
    match resps with
    | [] => Ok ret
    | r :: rt =>
      match cmds with
      | [] => Panic
      | c :: ct =>
        match nth_error c 1 with
        | None => Panic
        | Some k => do_multi_set_go (kv_set k (res_error r) ret) ct rt
        end
      end
    end.

  Definition do_multi_set (cmds : list argv) : result (list (key * option err)) :=
    do_multi_set_go [] cmds (do_multi cmds).

  (** MSet / MSetNX / MDel / JsonMSet *)
  Definition mset (cluster nx : bool) (kvs : list (key * bytes)) : result (list (key * option err)) :=
    match kvs with
    | [] => Ok []
    | _ =>
      if cluster
      then do_multi_set (map (fun kv => [bs "SET"; fst kv; snd kv] ++ (if nx then [bs "NX"] else [])) kvs)
      else Ok (client_mset nx kvs)
    end.

  Definition mdel (cluster : bool) (keys : list key) : result (list (key * option err)) :=
    match keys with
    | [] => Ok []
    | _ => if cluster then do_multi_set (map (fun k => [bs "DEL"; k]) keys) else Ok (client_mdel keys)
    end.

  Definition json_mset (cluster : bool) (kvs : list (key * bytes)) (path : bytes) : result (list (key * option err)) :=
    match kvs with
    | [] => Ok []
    | _ =>
      if cluster
      then do_multi_set (map (fun kv => [bs "JSON.SET"; fst kv; path; snd kv]) kvs)
      else Ok (client_json_mset kvs path)
    end.
End Helpers.

(** DecodeSliceOfJSON: element i of the destination is the decoding of element i; a nil element leaves
    the zero value; any other error aborts.  [dec] is json.Unmarshal on the element's bytes. *)
Section Decode.
  Variable T : Type.
  Variable zero : T.
  Variable dec : msg -> T + err.

  Fixpoint decode_elems (vs : list msg) : list T + err :=
    match vs with
    | [] => inl []
    | v :: r =>
      match (if m_typ v =? tNull then inr ENil else dec v) with
      | inr ENil => match decode_elems r with inl ts => inl (zero :: ts) | inr e => inr e end
      | inr e => inr e
      | inl t => match decode_elems r with inl ts => inl (t :: ts) | inr e => inr e end
      end
    end.

  Definition decode_slice_of_json (r : rres) : list T + err :=
    match to_array r with
    | inr e => inr e
    | inl vs => decode_elems vs
    end.
End Decode.

(** * internal/cmds: slotMCMDs / slotMSets / JsonMGets / JsonMSets - a map slot -> command *)

Fixpoint cmd_append (s : N) (head : bytes) (args : list bytes) (m : list (N * argv)) : list (N * argv) :=
  match m with
  | [] => [(s, head :: args)]
  | (t, c) :: r => if s =? t then (t, c ++ args) :: r else (t, c) :: cmd_append s head args r
  end.

Definition slot_mcmds (slot_of : key -> N) (head : bytes) (keys : list key) : list (N * argv) :=
  fold_left (fun m k => cmd_append (slot_of k) head [k] m) keys [].

Definition slot_msets (slot_of : key -> N) (head : bytes) (kvs : list (key * bytes)) : list (N * argv) :=
  fold_left (fun m kv => cmd_append (slot_of (fst kv)) head [fst kv; snd kv] m) kvs [].

Definition json_mgets (slot_of : key -> N) (keys : list key) (path : bytes) : list (N * argv) :=
  map (fun sc => (fst sc, snd sc ++ [path])) (slot_mcmds slot_of (bs "JSON.MGET") keys).

Definition json_msets (slot_of : key -> N) (kvs : list (key * bytes)) (path : bytes) : list (N * argv) :=
  fold_left (fun m kv => cmd_append (slot_of (fst kv)) (bs "JSON.MSET") [fst kv; path; snd kv] m) kvs [].

(** * correspondence cases (printed by harness/cmd/obs_helpers) *)

Definition opt_err_eqb : option err -> option err -> bool := option_eqb err_eqb.

(** equality of two maps given as association lists with unique keys *)
Definition kvmap_eqb {B : Type} (eqb : B -> B -> bool) (a b : list (key * B)) : bool :=
  (length a =? length b)%nat &&
  forallb (fun kv => match kv_get (fst kv) b with Some v => eqb (snd kv) v | None => false end) a.

Fixpoint assoc_key {B : Type} (k : key) (t : list (key * B)) : option B :=
  match t with
  | [] => None
  | (x, b) :: r => if bytes_eqb k x then Some b else assoc_key k r
  end.

Definition slot_tab (t : list (key * N)) (k : key) : N := match assoc_key k t with Some s => s | None => 0 end.

Definition smap_eqb (a b : list (N * argv)) : bool :=
  (length a =? length b)%nat &&
  forallb (fun sc => match assoc_N (fst sc) b with Some c => argv_eqb (snd sc) c | None => false end) a.

Inductive hcase :=
| HMGet (cluster json : bool) (keys : list key) (path : bytes) (slots : list (key * N)) (srvt : list (argv * msg))
        (obs : result (list (key * msg) + err))
| HMSet (cluster nx : bool) (kvs : list (key * bytes)) (srvt : list (argv * msg)) (obs : result (list (key * option err)))
| HJsonMSet (cluster : bool) (kvs : list (key * bytes)) (path : bytes) (srvt : list (argv * msg)) (obs : result (list (key * option err)))
| HMDel (cluster : bool) (keys : list key) (srvt : list (argv * msg)) (obs : result (list (key * option err)))
| HArr (arr : list msg) (keys : list key) (obs : result (list (key * msg)))
| HSlotM (head : bytes) (keys : list key) (slots : list (key * N)) (obs : list (N * argv))
| HSlotS (head : bytes) (kvs : list (key * bytes)) (slots : list (key * N)) (obs : list (N * argv))
| HJsonMGets (keys : list key) (path : bytes) (slots : list (key * N)) (obs : list (N * argv))
| HJsonMSets (kvs : list (key * bytes)) (path : bytes) (slots : list (key * N)) (obs : list (N * argv))
| HDecode (r : rres) (dect : list (bytes * (msg + err))) (obs : list msg + err).

Definition check_hcase (c : hcase) : bool :=
  match c with
  | HMGet cluster json keys path slots srvt obs =>
    result_eqb (sum_eqb (kvmap_eqb msg_eqb) err_eqb)
      (if json then json_mget (tab_srv srvt) cluster (slot_tab slots) keys path
       else mget (tab_srv srvt) cluster (slot_tab slots) keys) obs
  | HMSet cluster nx kvs srvt obs => result_eqb (kvmap_eqb opt_err_eqb) (mset (tab_srv srvt) cluster nx kvs) obs
  | HJsonMSet cluster kvs path srvt obs => result_eqb (kvmap_eqb opt_err_eqb) (json_mset (tab_srv srvt) cluster kvs path) obs
  | HMDel cluster keys srvt obs => result_eqb (kvmap_eqb opt_err_eqb) (mdel (tab_srv srvt) cluster keys) obs
  | HArr arr keys obs => result_eqb (kvmap_eqb msg_eqb) (array_to_kv [] arr keys) obs
  | HSlotM head keys slots obs => smap_eqb (slot_mcmds (slot_tab slots) head keys) obs
  | HSlotS head kvs slots obs => smap_eqb (slot_msets (slot_tab slots) head kvs) obs
  | HJsonMGets keys path slots obs => smap_eqb (json_mgets (slot_tab slots) keys path) obs
  | HJsonMSets kvs path slots obs => smap_eqb (json_msets (slot_tab slots) kvs path) obs
  | HDecode r dect obs =>
    sum_eqb (list_eqb msg_eqb) err_eqb
      (decode_slice_of_json msg zero_msg
         (fun v => match assoc_key (m_str v) dect with Some x => x | None => inr EParse end) r) obs
  end.
