(** Model of resp.go streamTo (after the two repairs: discard what is really left of the payload; a
    streamed string that ends with an error is not clean),
    over the reader operations of RespIO plus the caller's io.Writer.

    The writer is modelled with a budget: it accepts that many bytes and then fails with a short write
    ([None] = never fails) -- which is how "failure at every byte of the output" is quantified.
    io.Copy hands the payload to the writer in pieces and may have read a piece more than it managed to
    write; streamTo then discards [lr.N + 2] bytes, i.e. whatever is left of the payload however much was
    read.  The model lets the copy read exactly what it writes; the state after the following Discard is
    the same.  Definitions only. *)
From Coq Require Import List Arith NArith ZArith Bool.
Require Import RV.Model.Base.
Require Export RV.Model.Resp.
Import ListNotations.
Open Scope N_scope.

Definition eUnsupported : N := 20.    (* "unsupported redis %q response for streaming read" *)
Definition eWriter : N := 21.         (* the error returned by the caller's writer *)

(** the error result of streamTo *)
Inductive serr : Type :=
| SNone                 (* nil *)
| SNil                  (* rueidis.Nil *)
| SRedis (m : msg)      (* the message as a RedisError *)
| SErr (e : N)          (* any other error *)
| SPanic.

(** (n, err, clean) *)
Definition sout : Type := (Z * serr * bool)%type.

Definition k_stream_blob (t : N) : bool := (t =? tBlobString) || (t =? tVerbatim) || (t =? tChunk).

Definition werr (r : result bytes) : serr := match r with Ok _ => SNone | Err e => SErr e | Panic => SPanic end.

(** w.Write(d) followed by "return int64(n), err, true" *)
Definition write_out (d : bytes) : prog sout :=
  bind (do_op (OWrite d)) (fun r =>
  bind (do_op OWriterErr) (fun e =>
    Ret (match r with Ok w => zlen w | _ => 0%Z end, werr e, true))).

(** the part of streamTo after a length n was read for type byte [typ] *)
Definition stream_blob (typ : N) (n : Z) : prog sout :=
  if (n =? -1)%Z then Ret (0%Z, SNil, true)
  else
    let finish (written : Z) (e : serr) (left : Z) : prog sout :=
      bind (do_op (ODiscard left)) (fun r =>
        match r with
        | Ok _ => Ret (written, e, true)
        | Err e2 => Ret (written, match e with SNone => SErr e2 | _ => e end, false)
        | Panic => Ret (written, SPanic, false)
        end) in
    if negb (n =? 0)%Z then
      (* lr.N = n; n, err = io.Copy(w, lr); left = lr.N + 2 *)
      bind (do_op (OCopyOut (Z.to_N n))) (fun r =>
      bind (do_op OWriterErr) (fun e =>
        let written := match r with Ok d => zlen d | _ => 0%Z end in
        finish written (werr e) (wrap64 (n - written + 2))))      (* lr.N + 2 in int64: wraps for n >= 2^63 - 2 *)
    else if typ =? tChunk then Ret (0%Z, SNone, true)
    else finish 0%Z SNone 2%Z.

(** what streamTo does with the message readNextMessage returned; [again] = goto next *)
Definition stream_msg (again : prog sout) (r : result msg) : prog sout :=
  match r with
  | Err e => Ret (0%Z, SErr e, false)
  | Panic => Ret (0%Z, SPanic, false)
  | Ok m =>
    let t := m_typ m in
    if (t =? tSimpleString) || (t =? tFloat) || (t =? tBigNumber) then write_out (m_str m)
    else if t =? tNull then Ret (0%Z, SNil, true)
    else if (t =? tSimpleErr) || (t =? tBlobErr) then Ret (0%Z, SRedis m, true)
    else if (t =? tInteger) || (t =? tBool) then write_out (decZ (m_ival m))
    else if t =? tPush then again
    else Ret (0%Z, SErr eUnsupported, true)
  end.

Fixpoint stream_to (fuel : nat) : prog sout :=
  match fuel with
  | O => Ret (0%Z, SErr eOutOfFuel, false)
  | S f =>
    bind (do_op OReadByte) (fun tb =>
      match tb with
      | Err e => Ret (0%Z, SErr e, false)
      | Panic => Ret (0%Z, SPanic, false)
      | Ok tb =>
        let typ := hd 0 tb in
        if k_stream_blob typ then
          bind read_i (fun r =>
            match r with
            | Ok n => stream_blob typ n
            | Err e =>
              if e =? eChunked then
                bind (stream_to f) (fun o => let '(nn, err, clean) := o in stream_chunks f 0%Z nn err clean)
              else Ret (0%Z, SErr e, false)
            | Panic => Ret (0%Z, SPanic, false)
            end)
        else
          (* _ = i.UnreadByte(); m, err := readNextMessage(i): the same type byte is read again *)
          bind (dispatch typ (read_next f) (read_a_loop f) (read_e_loop f) f None) (stream_msg (stream_to f))
      end)
  end
(** for n += nn; nn != 0 && clean && err == nil; n += nn { nn, err, clean = streamTo(i, w) } *)
with stream_chunks (fuel : nat) (n nn : Z) (err : serr) (clean : bool) : prog sout :=
  match fuel with
  | O => Ret (n, SErr eOutOfFuel, false)
  | S f =>
    let n := (n + nn)%Z in
    if negb (nn =? 0)%Z && clean && match err with SNone => true | _ => false end then
      bind (stream_to f) (fun o => let '(nn', err', clean') := o in stream_chunks f n nn' err' clean')
    else
      (* if err != nil { clean = false }: the chunks that follow are still on the connection *)
      Ret (n, err, clean && match err with SNone => true | _ => false end)
  end.

(** ---- the interpretation with a writer ---- *)
Record wstate : Type := { w_budget : option N; w_out : bytes; w_failed : bool }.

Definition w_init (budget : option N) : wstate := {| w_budget := budget; w_out := []; w_failed := false |}.

(** Write(d): the bytes accepted *)
Definition w_write (w : wstate) (d : bytes) : bytes * wstate :=
  match w_budget w with
  | None => (d, {| w_budget := None; w_out := w_out w ++ d; w_failed := false |})
  | Some k =>
    if blen d <=? k then (d, {| w_budget := Some (k - blen d); w_out := w_out w ++ d; w_failed := false |})
    else (firstn (N.to_nat k) d, {| w_budget := Some 0; w_out := w_out w ++ firstn (N.to_nat k) d; w_failed := true |})
  end.

Definition flatw_step (B : nat) (o : op) (s : bytes) (w : wstate) : result bytes * bytes * wstate :=
  match o with
  | OCopyOut n =>
      let avail := if n <=? blen s then firstn (N.to_nat n) s else s in
      match avail with
      | [] => (Ok [], s, {| w_budget := w_budget w; w_out := w_out w; w_failed := false |})   (* nothing to write *)
      | _ => let '(d, w') := w_write w avail in (Ok d, skipn (length d) s, w')
      end
  | OWrite d => let '(d', w') := w_write w d in (Ok d', s, w')
  | OWriterErr => (if w_failed w then Err eWriter else Ok [], s, w)
  | _ => let '(r, s') := flat_step B o s in (r, s', w)
  end.

Fixpoint runw {A : Type} (B : nat) (p : prog A) (s : bytes) (w : wstate) : A * bytes * wstate :=
  match p with
  | Ret a => (a, s, w)
  | Op o k => let '(r, s', w') := flatw_step B o s w in runw B (k r) s' w'
  end.

(** streamTo on a flat stream with a writer that fails after [budget] bytes:
    ((n, err, clean), what is left on the connection, what the writer received) *)
Definition stream (B : nat) (budget : option N) (input : bytes) : sout * bytes * bytes :=
  let '(o, rest, w) := runw B (stream_to (fuel_for (length input))) input (w_init budget) in (o, rest, w_out w).

(** what a streaming read is supposed to deliver for a reply value: the string payload, or the decimal
    numeral of an integer / boolean *)
Definition payload (v : rv) : option bytes :=
  match v with
  | VBlob t s => if (t =? tBlobString) || (t =? tVerbatim) then Some s else None
  | VBlobStream t cs => if (t =? tBlobString) || (t =? tVerbatim) then Some (concat cs) else None
  | VLine t s => if (t =? tSimpleString) || (t =? tFloat) || (t =? tBigNumber) then Some s else None
  | VInt i => Some (decZ i)
  | VBool b => Some (if b then [49] else [48])
  | _ => None
  end.

(** ---- correspondence cases (printed by harness/cmd/obs_respstream) ---- *)
Definition serr_eqb (a b : serr) : bool :=
  match a, b with
  | SNone, SNone | SNil, SNil | SPanic, SPanic => true
  | SRedis x, SRedis y => msg_eqb x y
  | SErr e, SErr f => e =? f
  | _, _ => false
  end.

Inductive case :=
(* streamTo on [input] (bufio size B, writer budget) returned (n, err, clean), wrote [written], and a
   following read on the connection saw [after] *)
| CStream (B : N) (budget : option N) (input : bytes) (n : Z) (err : serr) (clean : bool) (written after : bytes)
(* the same (with the given writer budget) for the prefixes of [input] of the listed lengths: (k, n, err, clean) *)
| CStreamTrunc (B : N) (budget : option N) (input : bytes) (samples : list (nat * Z * serr * bool)).

Definition check_stream (B : nat) (budget : option N) (input : bytes) (n : Z) (err : serr) (clean : bool)
    (written : option bytes) (after : option bytes) : bool :=
  let '(o, rest, out) := stream B budget input in
  let '(n', err', clean') := o in
  (n' =? n)%Z && serr_eqb err' err && Bool.eqb clean' clean &&
  match written with Some x => bytes_eqb out x | None => true end &&
  match after with Some x => bytes_eqb rest x | None => true end.

Definition check_case (c : case) : bool :=
  match c with
  | CStream B budget input n err clean written after =>
      check_stream (N.to_nat B) budget input n err clean (Some written) (Some after)
  | CStreamTrunc B budget input samples =>
      forallb (fun s => let '(k, n, err, clean) := s in
                        check_stream (N.to_nat B) budget (firstn k input) n err clean None None) samples
  end.
