(** Model of rueidiscompat/pipeline.go (Pipeline) and tx.go (TxPipeline, Watch/Tx).

    A pipeline is two parallel slices: [proxy.cmds] (the captured commands) and [Pipeline.rets]
    (the Cmd objects handed to the caller).  Every adapter method called on a pipeline captures
    exactly one command through [proxy.Do] and appends exactly one Cmd (that this holds for
    every wrapper of pipeline.go is checked method by method by the observer's method sweep);
    [Pipeline.Do] with no argument (and BitCount with an invalid unit) hands out a Cmd carrying an
    error and captures nothing.

    Cmd objects are mutable and shared with the caller, hence a store indexed by creation
    number ([cid]); [rets] holds ids.  The replies of the server are an input of [Exec]
    ([list res], what [DoMulti] returned), so the theorems quantify over all reply lists.
    Every Go panic the code can reach (indexing [rets] / [resp] out of range) is [Panic]. *)
From Coq Require Import List Arith NArith ZArith Bool.
Require Import RV.Model.Base.
Import ListNotations.

Definition argv := list bytes.

(** RESP replies as far as the pipeline code distinguishes them *)
Inductive reply :=
| RNil
| RStr (s : bytes)
| RInt (z : Z)
| RErr (m : bytes)
| RArr (l : list reply).

(** rueidis.RedisResult: a message, or a non-redis error (connection closed, context …) *)
Inductive res :=
| RMsg (r : reply)
| RNet.

(** the error a Cmd (or Exec) carries, projected to a small enum + the redis error text *)
Inductive cerr :=
| ENone
| ENotExecuted          (* errPipelineNotExecuted *)
| EEmptyDo              (* "redis: please enter the command to be executed" *)
| EInvalidArg           (* "redis: invalid bitcount index" *)
| ERedis (m : bytes)    (* *rueidis.RedisError, text after TrimPrefix "ERR " *)
| ENil                  (* rueidis.Nil *)
| ENet                  (* the non-redis error of the result *)
| EParse                (* conversion errors: wrong message type, strconv failures *)
| ETxFailed.            (* TxFailedErr *)

(** the Cmd types exercised: StringCmd/StatusCmd, IntCmd, BoolCmd, Cmd, SliceCmd *)
Inductive kind := KString | KInt | KBool | KAny | KSlice.

Record cmdobj := mkCmd { ckind : kind; cerror : cerr; cval : option reply }.

(** ---------- byte helpers ---------- *)
Definition b_E := 69%N. Definition b_R := 82%N. Definition b_sp := 32%N.

(** strings.TrimPrefix(s, "ERR ") *)
Definition trim_err (m : bytes) : bytes :=
  match m with
  | 69%N :: 82%N :: 82%N :: 32%N :: r => r
  | _ => m
  end.

(** strconv.ParseInt(s, 10, 64): optional sign, at least one digit, digits only, int64 range *)
Fixpoint digits_val (acc : Z) (s : bytes) : option Z :=
  match s with
  | [] => Some acc
  | c :: r => if ((48 <=? c) && (c <=? 57))%N then digits_val (acc * 10 + Z.of_N (c - 48)) r else None
  end.

Definition parse_int64 (s : bytes) : option Z :=
  let (neg, ds) := match s with
                   | 45%N :: r => (true, r)
                   | 43%N :: r => (false, r)
                   | _ => (false, s)
                   end in
  match ds with
  | [] => None
  | _ => match digits_val 0 ds with
         | None => None
         | Some v => let z := if neg then (- v)%Z else v in
                     if ((- 2 ^ 63 <=? z) && (z <? 2 ^ 63))%Z then Some z else None
         end
  end.

(** ---------- message accessors (message.go) ---------- *)
(** RedisMessage.Error() *)
Definition msg_error (r : reply) : cerr :=
  match r with
  | RNil => ENil
  | RErr m => ERedis (trim_err m)
  | _ => ENone
  end.

(** RedisMessage.ToString() *)
Definition msg_to_string (r : reply) : cerr * option reply :=
  match r with
  | RStr s => (ENone, Some (RStr s))
  | RInt _ | RArr _ => (EParse, None)
  | _ => (msg_error r, None)
  end.

(** RedisMessage.AsInt64() *)
Definition msg_as_int64 (r : reply) : cerr * option reply :=
  match r with
  | RInt z => (ENone, Some (RInt z))
  | RStr s => match parse_int64 s with Some z => (ENone, Some (RInt z)) | None => (EParse, None) end
  | _ => msg_to_string r
  end.

Definition is_OK (s : bytes) : bool := bytes_eqb s [79; 75]%N.

(** RedisMessage.AsBool(); a boolean is shown as RInt 0 / RInt 1 *)
Definition msg_as_bool (r : reply) : cerr * option reply :=
  match r with
  | RNil | RErr _ => (msg_error r, None)
  | RStr s => (ENone, Some (RInt (if is_OK s then 1 else 0)))
  | RInt z => (ENone, Some (RInt (if (z =? 0)%Z then 0 else 1)))
  | RArr _ => (EParse, None)
  end.

(** RedisMessage.ToAny(): strings and integers as they are; inside arrays errors become values
    and nil stays nil, i.e. the tree itself (error texts trimmed). *)
Fixpoint any_elem (r : reply) : reply :=
  match r with
  | RErr m => RErr (trim_err m)
  | RArr l => RArr (map any_elem l)
  | _ => r
  end.

Definition msg_to_any (r : reply) : cerr * option reply :=
  match r with
  | RNil | RErr _ => (msg_error r, None)
  | _ => (ENone, Some (any_elem r))
  end.

(** SliceCmd.from (non-JSON): ToArray, then every element that is a string, others nil *)
Definition slice_elem (r : reply) : reply :=
  match r with RStr s => RStr s | _ => RNil end.

Definition msg_to_slice (r : reply) : cerr * option reply :=
  match r with
  | RArr l => (ENone, Some (RArr (map slice_elem l)))
  | RNil | RErr _ => (msg_error r, None)
  | _ => (EParse, None)
  end.

(** Cmder.from(result): what the Cmd holds afterwards (error, value shown only without error).
    BoolCmd maps redis nil to (false, no error). *)
Definition from_msg (k : kind) (r : reply) : cerr * option reply :=
  match k with
  | KString => msg_to_string r
  | KInt => msg_as_int64 r
  | KBool => match msg_as_bool r with
             | (ENil, _) => (ENone, Some (RInt 0))
             | x => x
             end
  | KAny => msg_to_any r
  | KSlice => msg_to_slice r
  end.

Definition from_res (k : kind) (r : res) : cerr * option reply :=
  match r with
  | RNet => (ENet, None)
  | RMsg m => from_msg k m
  end.

(** SetErr(nil); from(r).  Cmd.from and SliceCmd.from return early on error without touching
    val; the value is only observed when there is no error, so [None] stands for "not shown". *)
Definition apply_from (c : cmdobj) (r : res) : cmdobj :=
  let (e, v) := from_res (ckind c) r in mkCmd (ckind c) e v.

(** ---------- pipeline state ---------- *)
Record pstate := mkP {
  store : list cmdobj;      (* every Cmd ever handed out, index = creation number *)
  queue : list argv;        (* proxy.cmds *)
  rets  : list nat;         (* Pipeline.rets (ids into store) *)
}.

Definition pinit : pstate := mkP [] [] [].

Fixpoint set_nth {A} (n : nat) (x : A) (l : list A) : list A :=
  match l, n with
  | [], _ => []
  | _ :: r, O => x :: r
  | y :: r, S m => y :: set_nth m x r
  end.

Inductive op :=
| OQueue (k : kind) (a : argv)   (* a typed method: one command captured through proxy.Do, one Cmd appended;
                                    the Cmd is built from the errPipelineNotExecuted result *)
| ODo (a : argv)                 (* Pipeline.Do(args…) with at least one argument: one command, one fresh &Cmd{}
                                    (no error, nil value until Exec) *)
| OReject (k : kind) (e : cerr)  (* a call rejected on the client side — Do() without arguments (KAny, EEmptyDo),
                                    BitCount with a Unit other than BYTE/BIT (KInt, EInvalidArg): a Cmd carrying
                                    the error is handed out, nothing is captured *)
| OLen
| ODiscard
| OExec (resp : list res).       (* Exec; resp = what DoMulti returns (unused when nothing is queued) *)

Inductive ev :=
| EvCmd (id : nat)                                  (* a Cmd was handed out *)
| EvLen (n : nat)
| EvSent (batch : list argv)                        (* one DoMulti call with exactly these commands *)
| EvRet (ids : option (list nat)) (err : cerr)      (* Exec returned (Cmders or nil, error) *)
| EvPanic.

Definition s_MULTI : argv := [[77; 85; 76; 84; 73]%N].
Definition s_EXEC : argv := [[69; 88; 69; 67]%N].

(** Pipeline.Exec loop: for i, r := range resp { rets[i].SetErr(nil); rets[i].from(r); first error }.
    [rets[i]] out of range panics ([None]); assignments made before the panic stay. *)
Fixpoint assign (st : list cmdobj) (rs : list nat) (resp : list res) (err : cerr) {struct resp}
  : list cmdobj * option cerr :=
  match resp with
  | [] => (st, Some err)
  | r :: resp' =>
    match rs with
    | [] => (st, None)
    | id :: rs' =>
      match nth_error st id with
      | None => (st, None)
      | Some c =>
        let c' := apply_from c r in
        assign (set_nth id c' st) rs' resp' (match err with ENone => cerror c' | _ => err end)
      end
    end
  end.

(** RedisResult.ToArray() of the EXEC reply, with IsRedisNil -> TxFailedErr *)
Definition exec_array (r : option res) : option (list reply * cerr) :=
  match r with
  | None => None                                   (* resp[len(resp)-1] on an empty slice *)
  | Some RNet => Some ([], ENet)
  | Some (RMsg (RArr l)) => Some (l, ENone)
  | Some (RMsg RNil) => Some ([], ETxFailed)
  | Some (RMsg (RErr m)) => Some ([], ERedis (trim_err m))
  | Some (RMsg _) => Some ([], EParse)
  end.

(** rueidis.NewResult(r, resp[i+1].NonRedisError()) *)
Definition tx_result (r : reply) (queued : res) : res :=
  match queued with RNet => RNet | RMsg _ => RMsg r end.

(** TxPipeline.Exec loop over the EXEC array; [i] is the current index, [resp1] = resp[i+1:] *)
Fixpoint tx_assign (st : list cmdobj) (rs : list nat) (results : list reply) (resp1 : list res) (err : cerr)
  {struct results} : list cmdobj * option cerr :=
  match results with
  | [] => (st, Some err)
  | r :: results' =>
    match rs, resp1 with
    | id :: rs', q :: resp1' =>
      match nth_error st id with
      | None => (st, None)
      | Some c =>
        let c' := apply_from c (tx_result r q) in
        tx_assign (set_nth id c' st) rs' results' resp1' (match err with ENone => cerror c' | _ => err end)
      end
    | _, _ => (st, None)
    end
  end.

Definition step (tx : bool) (s : pstate) (o : op) : pstate * list ev :=
  match o with
  | OQueue k a =>
    let id := length (store s) in
    (mkP (store s ++ [mkCmd k ENotExecuted None]) (queue s ++ [a]) (rets s ++ [id]), [EvCmd id])
  | ODo a =>
    let id := length (store s) in
    (mkP (store s ++ [mkCmd KAny ENone (Some RNil)]) (queue s ++ [a]) (rets s ++ [id]), [EvCmd id])
  | OReject k e =>
    let id := length (store s) in
    (mkP (store s ++ [mkCmd k e None]) (queue s) (rets s), [EvCmd id])
  | OLen => (s, [EvLen (length (queue s))])
  | ODiscard => (mkP (store s) [] [], [])
  | OExec resp =>
    match queue s with
    | [] => (s, [EvRet None ENone])        (* rets is NOT cleared on this path *)
    | _ =>
      if tx then
        let sent := s_MULTI :: queue s ++ [s_EXEC] in
        match exec_array (nth_error resp (length resp - 1)) with
        | None => (mkP (store s) [] [], [EvSent sent; EvPanic])
        | Some (results, err) =>
          match tx_assign (store s) (rets s) results (tl resp) err with
          | (st', None) => (mkP st' [] [], [EvSent sent; EvPanic])
          | (st', Some err') => (mkP st' [] [], [EvSent sent; EvRet (Some (rets s)) err'])
          end
        end
      else
        match assign (store s) (rets s) resp ENone with
        | (st', None) => (mkP st' [] [], [EvSent (queue s); EvPanic])
        | (st', Some err') => (mkP st' [] [], [EvSent (queue s); EvRet (Some (rets s)) err'])
        end
    end
  end.

Fixpoint run (tx : bool) (s : pstate) (ops : list op) : pstate * list ev :=
  match ops with
  | [] => (s, [])
  | o :: r => let (s1, e1) := step tx s o in
              let (s2, e2) := run tx s1 r in (s2, e1 ++ e2)
  end.

(** ---------- Watch (adapter.go Compat.Watch, tx.go tx.Watch) ----------
    Watch(fn, keys…): WATCH keys on the dedicated connection when keys is non-empty; its error
    is returned and fn is not run; otherwise fn runs (here: [ops] on one TxPipeline of the Tx). *)
Definition s_WATCH : bytes := [87; 65; 84; 67; 72]%N.

Inductive wev :=
| WDo (a : argv)                 (* single command sent with Do *)
| WErr (e : cerr)                (* Watch returned this error before running fn *)
| WBody (evs : list ev).

Definition watch_err (r : res) : cerr := fst (from_res KString r).

Definition watch (keys : list bytes) (wres : res) (ops : list op) : list cmdobj * list wev :=
  match keys with
  | [] => let (s, e) := run true pinit ops in (store s, [WBody e])
  | _ =>
    match watch_err wres with
    | ENone => let (s, e) := run true pinit ops in (store s, [WDo (s_WATCH :: keys); WBody e])
    | err => ([], [WDo (s_WATCH :: keys); WErr err])
    end
  end.

(** ---------- correspondence cases (printed by harness/cmd/obs_compatpipe) ---------- *)
Fixpoint reply_eqb (a b : reply) : bool :=
  match a, b with
  | RNil, RNil => true
  | RStr x, RStr y => bytes_eqb x y
  | RInt x, RInt y => (x =? y)%Z
  | RErr x, RErr y => bytes_eqb x y
  | RArr x, RArr y =>
    (fix go (l1 l2 : list reply) : bool :=
       match l1, l2 with
       | [], [] => true
       | p :: r1, q :: r2 => reply_eqb p q && go r1 r2
       | _, _ => false
       end) x y
  | _, _ => false
  end.

Definition cerr_eqb (a b : cerr) : bool :=
  match a, b with
  | ENone, ENone | ENotExecuted, ENotExecuted | EEmptyDo, EEmptyDo | EInvalidArg, EInvalidArg | ENil, ENil
  | ENet, ENet | EParse, EParse | ETxFailed, ETxFailed => true
  | ERedis x, ERedis y => bytes_eqb x y
  | _, _ => false
  end.

Definition argv_eqb : argv -> argv -> bool := list_eqb bytes_eqb.

Definition ev_eqb (a b : ev) : bool :=
  match a, b with
  | EvCmd x, EvCmd y => Nat.eqb x y
  | EvLen x, EvLen y => Nat.eqb x y
  | EvSent x, EvSent y => list_eqb argv_eqb x y
  | EvRet x e, EvRet y f => option_eqb (list_eqb Nat.eqb) x y && cerr_eqb e f
  | EvPanic, EvPanic => true
  | _, _ => false
  end.

Definition wev_eqb (a b : wev) : bool :=
  match a, b with
  | WDo x, WDo y => argv_eqb x y
  | WErr x, WErr y => cerr_eqb x y
  | WBody x, WBody y => list_eqb ev_eqb x y
  | _, _ => false
  end.

(** final state of a Cmd as the observer sees it: error, and the value when there is no error *)
Definition shown (c : cmdobj) : cerr * option reply :=
  match cerror c with
  | ENone => (ENone, cval c)
  | e => (e, None)
  end.

Definition shown_eqb (a b : cerr * option reply) : bool :=
  cerr_eqb (fst a) (fst b) && option_eqb reply_eqb (snd a) (snd b).

Inductive case :=
| CPipe (tx : bool) (ops : list op) (impl_evs : list ev) (impl_cmds : list (cerr * option reply))
| CWatch (keys : list bytes) (wres : res) (ops : list op) (impl_evs : list wev)
         (impl_cmds : list (cerr * option reply)).

Definition check_case (c : case) : bool :=
  match c with
  | CPipe tx ops ievs icmds =>
    let (s, evs) := run tx pinit ops in
    list_eqb ev_eqb evs ievs && list_eqb shown_eqb (map shown (store s)) icmds
  | CWatch keys wres ops ievs icmds =>
    let (st, evs) := watch keys wres ops in
    list_eqb wev_eqb evs ievs && list_eqb shown_eqb (map shown st) icmds
  end.
