(** Shared executable definitions of the accessor / url family: ASCII literals, decimal parsing as done by
    strconv.ParseInt(s, 10, 64) / strconv.Atoi (64-bit int) / strconv.ParseUint(s, 10, 64), decimal printing,
    strconv.ParseBool, prefix test, byte-string ordering.  No proofs here. *)
From Coq Require Import List NArith ZArith Bool String Ascii.
Require Import RV.Model.Base.
Import ListNotations.
Open Scope N_scope.

(** sequencing of outcomes: an error or a panic ends the computation *)
Definition bind {A B : Type} (r : result A) (f : A -> result B) : result B :=
  match r with
  | Ok a => f a
  | Err e => Err e
  | Panic => Panic
  end.

(** [b "text"] is the byte string of an ASCII literal *)
Fixpoint b (s : string) : bytes :=
  match s with
  | EmptyString => []
  | String a r => N_of_ascii a :: b r
  end.

Definition is_digit (c : N) : bool := (48 <=? c) && (c <=? 57).

(** value of a digit string (most significant first); [None] if a byte is not a digit *)
Fixpoint digits_val (acc : N) (s : bytes) : option N :=
  match s with
  | [] => Some acc
  | c :: r => if is_digit c then digits_val (acc * 10 + (c - 48)) r else None
  end.

Definition int64_min : Z := (-9223372036854775808)%Z.
Definition int64_max : Z := 9223372036854775807%Z.
Definition uint64_max : N := 18446744073709551615.

(** strconv.ParseInt(s, 10, 64) and strconv.Atoi on a 64-bit platform: optional sign, at least one digit,
    digits only, value in the int64 range; anything else is an error ([None]) *)
Definition parse_int10 (s : bytes) : option Z :=
  let '(neg, ds) :=
    match s with
    | [] => (false, s)
    | c :: r => if c =? 45 then (true, r)        (* '-' *)
                else if c =? 43 then (false, r)  (* '+' *)
                else (false, s)
    end in
  match ds with
  | [] => None
  | _ =>
    match digits_val 0 ds with
    | None => None
    | Some n =>
      let z := if neg then (- Z.of_N n)%Z else Z.of_N n in
      if (int64_min <=? z)%Z && (z <=? int64_max)%Z then Some z else None
    end
  end.

(** strconv.ParseUint(s, 10, 64): no sign, at least one digit, value below 2^64 *)
Definition parse_uint10 (s : bytes) : option N :=
  match s with
  | [] => None
  | _ =>
    match digits_val 0 s with
    | None => None
    | Some n => if n <=? uint64_max then Some n else None
    end
  end.

(** decimal printing (strconv.FormatInt / FormatUint), by fuel on the number of digits *)
Fixpoint print_nat_fuel (fuel : nat) (n : N) (acc : bytes) : bytes :=
  match fuel with
  | O => acc
  | S f =>
    let acc' := (48 + n mod 10) :: acc in
    if n <? 10 then acc' else print_nat_fuel f (n / 10) acc'
  end.

Definition print_N (n : N) : bytes := print_nat_fuel (S (N.to_nat (N.log2 n))) n [].

Definition print_Z (z : Z) : bytes :=
  match z with
  | Zneg p => 45 :: print_N (Npos p)
  | _ => print_N (Z.to_N z)
  end.

(** strconv.ParseBool *)
Definition parse_bool (s : bytes) : option bool :=
  if bytes_eqb s (b "1") || bytes_eqb s (b "t") || bytes_eqb s (b "T") || bytes_eqb s (b "TRUE")
     || bytes_eqb s (b "true") || bytes_eqb s (b "True") then Some true
  else if bytes_eqb s (b "0") || bytes_eqb s (b "f") || bytes_eqb s (b "F") || bytes_eqb s (b "FALSE")
     || bytes_eqb s (b "false") || bytes_eqb s (b "False") then Some false
  else None.

(** strings.HasPrefix *)
Fixpoint has_prefix (s p : bytes) : bool :=
  match p, s with
  | [], _ => true
  | x :: p', y :: s' => (x =? y) && has_prefix s' p'
  | _ :: _, [] => false
  end.

(** strings.Split(s, sep) for a one byte separator: always at least one piece *)
Fixpoint split_byte (sep : N) (s : bytes) : list bytes :=
  match s with
  | [] => [[]]
  | c :: r =>
    if c =? sep then [] :: split_byte sep r
    else match split_byte sep r with
         | [] => [[c]]
         | p :: ps => (c :: p) :: ps
         end
  end.

(** strings.IndexByte(s, c) >= 0 *)
Definition contains_byte (c : N) (s : bytes) : bool := existsb (N.eqb c) s.

(** lexicographic order on byte strings (Go's string comparison): s < t *)
Fixpoint bytes_ltb (s t : bytes) : bool :=
  match s, t with
  | [], [] => false
  | [], _ :: _ => true
  | _ :: _, [] => false
  | x :: s', y :: t' => if x <? y then true else if y <? x then false else bytes_ltb s' t'
  end.

(** lookup in an association list keyed by byte strings *)
Fixpoint assoc {V : Type} (k : bytes) (l : list (bytes * V)) : option V :=
  match l with
  | [] => None
  | (k', v) :: r => if bytes_eqb k k' then Some v else assoc k r
  end.
