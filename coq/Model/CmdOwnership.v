(** C33, second half: who may still read a command's pooled slice, and when the clients give it back.

    One command handed to Do / DoMulti / DoCache / DoMultiCache of a single, cluster or sentinel client
    goes through a sequence of *attempts* (conn.Do on some pipe).  The clients' decision is the same
    everywhere (client.go:66, cluster.go:606/994/1059/1412, sentinel.go:96/154/177/224):

        if resp.NonRedisError() == nil [|| == ErrDoCacheAborted] { cmds.PutCompleted(cmd) }

    and PutCompleted itself returns the slice to the pool only when it is not pinned (cs.r == 0).
    The model transcribes the retry / redirect loops around that decision and records a trace.

    What an attempt's outcome says about the pipe (pipe.go Do/DoMulti, queue hand-off):
      OutReply            a reply arrived (a value or a Redis error reply)  => the command was written completely;
      OutRedirect         a MOVED/ASK reply (cluster)                       => a reply, hence written;
      OutCacheAborted     DoCache: EXEC was refused by the server (a reply) or the call only waited on another
                          caller's fetch and was never queued                => the pipe holds no reference;
      OutCtxBeforeQueue   ctx was already done on entry                     => never queued in this attempt;
      OutQueueRefused     the pipe was closing, PutOne refused              => never queued in this attempt;
      OutAbandoned        queued, then the caller's ctx ended while waiting => the writer may STILL write it later;
      OutTransportError   the connection broke; the error is handed out by the pipe's shutdown, after its writer
                          goroutine has exited (pipe-level fact, assumed here; it belongs to the pipeline family)
                          => that pipe will not read the slice again;
      OutConnExpired      errConnExpired                                   => re-sent immediately.
    Definitions only. *)
From Coq Require Import List Arith Bool.
Import ListNotations.

(** [KPipeInternal]: the commands a pipe builds itself from the pool on the cached MGET / JSON.MGET path
    (pipe.go doCacheMGet: one PTTL per missing key and the rewritten MGET).  They live inside one
    p.DoMulti(OPT-IN, MULTI, PTTL…, MGET, EXEC); the pipe recycles them only after EXEC answered with an array,
    i.e. after the whole block was written and answered — never on an error return (abandoned, transport error,
    EXEC refused), because the writer goroutine may still hold the block. *)
Inductive kind := KSingle | KCluster | KSentinel | KPipeInternal.

Inductive outcome :=
| OutReply | OutRedirect | OutCacheAborted | OutCtxBeforeQueue | OutQueueRefused | OutAbandoned
| OutTransportError | OutConnExpired.

(** after this outcome, may the pipe of that attempt still read the command's slice? *)
Definition leaves_in_flight (o : outcome) : bool := match o with OutAbandoned => true | _ => false end.

(** does resp.NonRedisError() == nil (or ErrDoCacheAborted on the cache paths) hold for this outcome? *)
Definition recyclable_result (o : outcome) : bool :=
  match o with OutReply | OutRedirect | OutCacheAborted => true | _ => false end.

(** the decision per kind: the clients recycle on every recyclable result; a pipe recycles its internally built
    commands only when EXEC delivered the array ([OutReply]); an EXEC refusal ([OutCacheAborted]) leaves them to the GC *)
Definition recycles (k : kind) (o : outcome) : bool :=
  match k with
  | KPipeInternal => match o with OutReply => true | _ => false end
  | _ => recyclable_result o
  end.

(** is the error of this outcome one the retry loops may act on?  (isRetryable / shouldRefreshRetry: a non-Redis
    error while ctx.Err() == nil; ctx errors are never retried.)  LOADING / TRYAGAIN / CLUSTERDOWN replies are
    [OutReply] with [again = true]. *)
Definition retry_candidate (o : outcome) : bool :=
  match o with OutTransportError | OutQueueRefused | OutReply => true | _ => false end.

(** input: one attempt, with the environment's choices: the outcome, and whether the retry machinery goes
    round again (retry enabled && cmd.IsRetryable() && WaitOrSkipRetry(...); redirect budget not exhausted) *)
Inductive event := EvAttempt (o : outcome) | EvAttemptAgain (o : outcome).

Inductive lifeev := LAttempt (o : outcome) | LReturn | LRecycle.

Definition redirect_allowed (k : kind) : bool := match k with KCluster => true | _ => false end.

(** does the client loop go round again after this attempt? *)
Definition goes_again (k : kind) (e : event) : bool :=
  match k with
  | KPipeInternal => false      (* one p.DoMulti; a retry by the client builds new internal commands *)
  | _ =>
    match e with
    | EvAttempt OutConnExpired | EvAttemptAgain OutConnExpired => true      (* goto retry, unconditionally *)
    | EvAttemptAgain OutRedirect => redirect_allowed k                      (* MOVED / ASK, budget left *)
    | EvAttemptAgain o => retry_candidate o
    | EvAttempt _ => false
    end
  end.

Definition outcome_of (e : event) : outcome := match e with EvAttempt o | EvAttemptAgain o => o end.

(** the client's Do: attempts until one is final, then the PutCompleted decision *)
Fixpoint run_life_aux (k : kind) (pinned : bool) (evs : list event) : option (list lifeev) :=
  match evs with
  | [] => None                                   (* the call has not returned yet: not a complete life *)
  | e :: r =>
    let o := outcome_of e in
    if goes_again k e then
      match run_life_aux k pinned r with
      | Some tr => Some (LAttempt o :: tr)
      | None => None
      end
    else
      match r with
      | _ :: _ => None                           (* nothing happens after the call returned *)
      | [] =>
        if recycles k o && negb pinned           (* PutCompleted: if c.cs.r == 0 { Put(c.cs) } *)
        then Some [LAttempt o; LRecycle; LReturn]
        else Some [LAttempt o; LReturn]
      end
  end.

Definition run_life := run_life_aux.

(** * The property on traces *)

Definition recycled (tr : list lifeev) : bool := existsb (fun e => match e with LRecycle => true | _ => false end) tr.

Definition count_recycles (tr : list lifeev) : nat :=
  length (filter (fun e => match e with LRecycle => true | _ => false end) tr).

(** every Recycle comes directly after an attempt that ended with a reply (or that never queued the command),
    and no earlier attempt left the command with a pipe that may still write it *)
Fixpoint no_early_recycle_aux (in_flight : bool) (last : option outcome) (tr : list lifeev) : bool :=
  match tr with
  | [] => true
  | LAttempt o :: r => no_early_recycle_aux (in_flight || leaves_in_flight o) (Some o) r
  | LReturn :: r => no_early_recycle_aux in_flight last r
  | LRecycle :: r =>
    negb in_flight
    && match last with Some o => recyclable_result o | None => false end
    && no_early_recycle_aux in_flight last r
  end.

Definition no_early_recycle (tr : list lifeev) : bool := no_early_recycle_aux false None tr.

(** * The pooled batch buffer of the cluster client

    clusterClient.DoMulti / DoMultiCache group the commands per node into a pooled [*retry] buffer
    (cluster.go: retryp / retrycachep); doretry hands [re.commands] — the buffer's array itself — to
    cc.DoMulti, so the pipe's ring slot points INTO the buffer until the batch has been written.  After
    doresultfn / resultcachefn the buffer goes back to the pool only when [clean]: every member's result
    satisfies resp.NonRedisError() == nil, i.e. every member got a reply (value, Redis error or redirect).
    One buffer serves one cc.DoMulti; members to be re-sent are put into other buffers. *)

Definition member_replied (o : outcome) : bool := match o with OutReply | OutRedirect => true | _ => false end.

(** [clean] of doresultfn / resultcachefn *)
Definition batch_clean (members : list outcome) : bool := forallb member_replied members.

Definition run_batch (members : list outcome) : list lifeev :=
  map LAttempt members ++ (if batch_clean members then [LRecycle; LReturn] else [LReturn]).

(** every Recycle of a batch buffer comes after attempts that ALL ended with a reply, none of which left the buffer
    with a pipe that may still read it *)
Fixpoint batch_no_early_aux (in_flight all_replied : bool) (tr : list lifeev) : bool :=
  match tr with
  | [] => true
  | LAttempt o :: r => batch_no_early_aux (in_flight || leaves_in_flight o) (all_replied && member_replied o) r
  | LReturn :: r => batch_no_early_aux in_flight all_replied r
  | LRecycle :: r => negb in_flight && all_replied && batch_no_early_aux in_flight all_replied r
  end.

Definition batch_no_early_recycle (tr : list lifeev) : bool := batch_no_early_aux false true tr.

(** ---- correspondence cases (printed by harness/cmd/obs_recycle) ---- *)
Inductive case :=
| CLife (k : kind) (pinned : bool) (evs : list event) (impl_recycled : bool)
| CBatch (members : list outcome) (impl_recycled : bool).

Definition check_case (c : case) : bool :=
  match c with
  | CLife k pinned evs r =>
    match run_life k pinned evs with
    | Some tr => Bool.eqb (recycled tr) r
    | None => false
    end
  | CBatch members r => Bool.eqb (recycled (run_batch members)) r
  end.
