(** The flow-buffer queue ([flowbuffer.go]) as a labelled transition system.  Definitions only.

    Three buffered Go channels [f] (free tokens), [w] (to be written), [r] (written, waiting for
    the reply), each of capacity N = 2^factor, and N tokens; a token is the reply channel
    [queuedCmd.ch] (numbered 0..N-1).  A Go channel is a FIFO; a send on a full channel and a
    receive on an empty one block (the transition is disabled).  Every channel operation is one
    step.  Putters are numbered in the order they receive their token from [f]; the command of
    putter p is item p.  A PutOne / PutMulti whose context is done before a token is free returns
    the context error without touching the queue (no transition).
    [nt], [sent], [wseq], [rseq], [recv] are ghost history. *)
From Coq Require Import List NArith ZArith Bool Arith.
Require Import RV.Model.Base.
Import ListNotations.
Local Open Scope nat_scope.

Record state := {
  f : list nat;                      (* free tokens, head = next to be received *)
  w : list (nat * nat);              (* (token, item) *)
  r : list (nat * nat);
  ph : list (nat * nat);             (* (putter, token): between [<-b.f] and [b.w <- cmd] *)
  wh : option (nat * nat);           (* the writer between [<-b.w] and [b.r <- cmd] *)
  rh : option (nat * nat * bool);    (* the reader's b.c: (token, item, result handed over) *)
  wt : list (nat * nat);             (* (putter, token): returned the token's channel, waits for the result *)
  nt : nat;                          (* tokens handed to putters so far *)
  sent : list nat;                   (* ghost: items in the order they were sent to w *)
  wseq : list nat; rseq : list nat;
  recv : list (nat * nat)
}.

Definition init (n : nat) : state :=
  {| f := seq 0 n; w := []; r := []; ph := []; wh := None; rh := None; wt := []; nt := 0; sent := []; wseq := []; rseq := []; recv := [] |}.

Inductive label :=
| FTake                    (* a putter receives a token from f *)
| FPutW (p : nat)          (* b.w <- cmd; return cmd.ch *)
| FWTake                   (* NextWriteCmd / WaitForWrite: receive from w *)
| FPutR                    (* b.r <- cmd *)
| FRTake                   (* NextResultCh: receive from r, remember the channel *)
| FDeliver (p : nat)       (* ch <- result, received by p *)
| FPutF.                   (* FinishResult: the token goes back to f *)

Fixpoint find_tok (p : nat) (l : list (nat * nat)) : option nat :=
  match l with [] => None | (q, t) :: rest => if Nat.eqb p q then Some t else find_tok p rest end.

Fixpoint remove_key (p : nat) (l : list (nat * nat)) : list (nat * nat) :=
  match l with [] => [] | (q, t) :: rest => if Nat.eqb p q then rest else (q, t) :: remove_key p rest end.

Definition lstep (n : nat) (st : state) (l : label) : option state :=
  match l with
  | FTake =>
      match f st with
      | t :: rest =>
          Some {| f := rest; w := w st; r := r st; ph := ph st ++ [(S (nt st), t)]; wh := wh st; rh := rh st; wt := wt st;
                  nt := S (nt st); sent := sent st; wseq := wseq st; rseq := rseq st; recv := recv st |}
      | [] => None
      end
  | FPutW p =>
      match find_tok p (ph st) with
      | Some t =>
          if length (w st) <? n then
            Some {| f := f st; w := w st ++ [(t, p)]; r := r st; ph := remove_key p (ph st); wh := wh st; rh := rh st;
                    wt := wt st ++ [(p, t)]; nt := nt st; sent := sent st ++ [p]; wseq := wseq st; rseq := rseq st; recv := recv st |}
          else None
      | None => None
      end
  | FWTake =>
      match w st, wh st with
      | c :: rest, None =>
          Some {| f := f st; w := rest; r := r st; ph := ph st; wh := Some c; rh := rh st; wt := wt st;
                  nt := nt st; sent := sent st; wseq := wseq st ++ [snd c]; rseq := rseq st; recv := recv st |}
      | _, _ => None
      end
  | FPutR =>
      match wh st with
      | Some c =>
          if length (r st) <? n then
            Some {| f := f st; w := w st; r := r st ++ [c]; ph := ph st; wh := None; rh := rh st; wt := wt st;
                    nt := nt st; sent := sent st; wseq := wseq st; rseq := rseq st; recv := recv st |}
          else None
      | None => None
      end
  | FRTake =>
      match r st, rh st with
      | (t, i) :: rest, None =>
          Some {| f := f st; w := w st; r := rest; ph := ph st; wh := wh st; rh := Some (t, i, false); wt := wt st;
                  nt := nt st; sent := sent st; wseq := wseq st; rseq := rseq st ++ [i]; recv := recv st |}
      | _, _ => None
      end
  | FDeliver p =>
      match rh st with
      | Some (t, i, false) =>
          match find_tok p (wt st) with
          | Some t' =>
              if Nat.eqb t t' then
                Some {| f := f st; w := w st; r := r st; ph := ph st; wh := wh st; rh := Some (t, i, true);
                        wt := remove_key p (wt st); nt := nt st; sent := sent st; wseq := wseq st; rseq := rseq st; recv := (p, i) :: recv st |}
              else None
          | None => None
          end
      | _ => None
      end
  | FPutF =>
      match rh st with
      | Some (t, i, true) =>
          if length (f st) <? n then
            Some {| f := f st ++ [t]; w := w st; r := r st; ph := ph st; wh := wh st; rh := None; wt := wt st;
                    nt := nt st; sent := sent st; wseq := wseq st; rseq := rseq st; recv := recv st |}
          else None
      | _ => None
      end
  end.

Fixpoint run (n : nat) (ls : list label) (st : state) : option state :=
  match ls with
  | [] => Some st
  | l :: rest => match lstep n st l with Some st' => run n rest st' | None => None end
  end.

(** tokens in the system *)
Definition opt_len {A} (o : option A) : nat := match o with Some _ => 1 | None => 0 end.
Definition tokens (st : state) : nat :=
  length (f st) + length (ph st) + length (w st) + opt_len (wh st) + length (r st) + opt_len (rh st).

(** ---- trace validation ---- *)

Record tstep := { t_label : label; t_tok : option nat; t_item : option nat }.

Definition opt_nat_eqb (a b : option nat) : bool :=
  match a, b with Some x, Some y => Nat.eqb x y | None, None => true | _, _ => false end.

(** (token, item) the step moved *)
Definition observe (st st' : state) (l : label) : option nat * option nat :=
  match l with
  | FTake => match f st with t :: _ => (Some t, Some (nt st')) | [] => (None, None) end
  | FPutW p => (find_tok p (ph st), Some p)
  | FWTake => match wh st' with Some (t, i) => (Some t, Some i) | None => (None, None) end
  | FPutR => match wh st with Some (t, i) => (Some t, Some i) | None => (None, None) end
  | FRTake => match rh st' with Some (t, i, _) => (Some t, Some i) | None => (None, None) end
  | FDeliver p => match rh st' with Some (t, i, _) => (Some t, Some i) | None => (None, None) end
  | FPutF => match rh st with Some (t, i, _) => (Some t, Some i) | None => (None, None) end
  end.

Definition obs_ok (st st' : state) (x : tstep) : bool :=
  let '(t, i) := observe st st' (t_label x) in
  match t_tok x with None => true | Some a => opt_nat_eqb (Some a) t end &&
  match t_item x with None => true | Some a => opt_nat_eqb (Some a) i end.

Fixpoint replay (n : nat) (ts : list tstep) (st : state) : option state :=
  match ts with
  | [] => Some st
  | x :: rest =>
      match lstep n st (t_label x) with
      | Some st' => if obs_ok st st' x then replay n rest st' else None
      | None => None
      end
  end.

Fixpoint first_bad (n : nat) (ts : list tstep) (st : state) (i : nat) : option nat :=
  match ts with
  | [] => None
  | x :: rest =>
      match lstep n st (t_label x) with
      | Some st' => if obs_ok st st' x then first_bad n rest st' (S i) else Some i
      | None => Some i
      end
  end.

Fixpoint own_results (l : list (nat * nat)) : bool :=
  match l with [] => true | (p, i) :: rest => Nat.eqb p i && own_results rest end.

Fixpoint nat_list_eqb (a b : list nat) : bool :=
  match a, b with
  | [], [] => true
  | x :: p, y :: q => Nat.eqb x y && nat_list_eqb p q
  | _, _ => false
  end.

(** A recorded execution of the real flow buffer with 2^k tokens in which [np] commands were put,
    written and completed. *)
Inductive case :=
| FlowTrace (k : nat) (ts : list tstep) (np : nat)
| FlowEnc (k : nat) (ds : list N) (np : nat).

(** compact encoding, one number per step: kind (4 bits), p (12), token+1 or 0 (6), item+1 or 0 (13) *)
Definition dec_label (kind p : nat) : label :=
  match kind with
  | 0 => FTake | 1 => FPutW p | 2 => FWTake | 3 => FPutR | 4 => FRTake | 5 => FDeliver p | _ => FPutF
  end.

Definition dec_opt (x : N) : option nat := if N.eqb x 0 then None else Some (N.to_nat (x - 1)).

Definition dec_step (x : N) : tstep :=
  {| t_label := dec_label (N.to_nat (x mod 16)) (N.to_nat ((x / 16) mod 4096));
     t_tok := dec_opt ((x / 65536) mod 64);
     t_item := dec_opt ((x / 4194304) mod 8192) |}.

Definition dec_steps (ds : list N) : list tstep := map dec_step ds.

Definition check_case (c : case) : bool :=
  match c with
  | FlowEnc k ds np =>
      match replay (2 ^ k) (dec_steps ds) (init (2 ^ k)) with
      | Some st =>
          Nat.eqb (length (f st)) (2 ^ k) && Nat.eqb (nt st) np && Nat.eqb (length (wseq st)) np &&
          nat_list_eqb (rseq st) (wseq st) && Nat.eqb (length (recv st)) np && own_results (recv st) &&
          match wt st with [] => true | _ => false end
      | None => false
      end
  | FlowTrace k ts np =>
      match replay (2 ^ k) ts (init (2 ^ k)) with
      | Some st =>
          Nat.eqb (length (f st)) (2 ^ k) && Nat.eqb (nt st) np && Nat.eqb (length (wseq st)) np &&
          nat_list_eqb (rseq st) (wseq st) && Nat.eqb (length (recv st)) np && own_results (recv st) &&
          match wt st with [] => true | _ => false end
      | None => false
      end
  end.

Definition mk (l : label) : tstep := {| t_label := l; t_tok := None; t_item := None |}.
Definition mkt (l : label) (t i : nat) : tstep := {| t_label := l; t_tok := Some t; t_item := Some i |}.
