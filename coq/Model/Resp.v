(** Model of resp.go (after the C13 repair): readNextMessage and every reader it dispatches to, as
    programs over the reader operations of RespIO.  One definition per Go function, same control flow,
    including the quirks (the CR of a line terminator is never checked, Discard(1) skips the chunk
    marker unseen, attributes are dropped from RESP2 nulls, int64 wrap-around in readI, …).

    Every Go operation that can panic is a partial primitive here ([alloc_make] = make([]T, n):
    runtime.makeslice panics for n < 0 or n*size > 2^48; [grow] = strings.Builder.Grow: panics for n < 0);
    the length checks of the code are what keeps them from firing (C13_no_panic).
    [OAlloc] feeds the allocation meter: every make / Grow of resp.go, the line returned by ReadBytes,
    the bytes appended to the strings.Builder and 40 bytes per append in readE.  Definitions only. *)
From Coq Require Import List Arith NArith ZArith Bool.
Require Import RV.Model.Base.
Require Export RV.Model.RespIO RV.Model.RespSpec.
Import ListNotations.
Open Scope N_scope.

Definition max_alloc : Z := 281474976710656%Z.      (* 2^48, runtime maxAlloc on linux/amd64 *)
Definition msg_size : Z := 40%Z.                     (* unsafe.Sizeof(RedisMessage{}) *)
Definition max_prealloc_bytes : Z := 65536%Z.        (* maxPreallocBytes *)
Definition max_prealloc_msgs : Z := 16%Z.            (* maxPreallocMsgs *)

(** make([]T, n) with sizeof(T) = sz *)
Definition make_ok (sz n : Z) : bool := ((0 <=? n) && (n * sz <=? max_alloc))%Z.
Definition alloc_make (sz n : Z) : prog (result unit) :=
  if make_ok sz n then bind (alloc (Z.to_N (n * sz))) (fun _ => Ret (Ok tt)) else Ret Panic.

(** strings.Builder.Grow(n) *)
Definition grow (n : Z) : prog (result unit) :=
  if (n <? 0)%Z then Ret Panic else bind (alloc (Z.to_N n)) (fun _ => Ret (Ok tt)).

Definition is_dig (c : N) : bool := (48 <=? c) && (c <=? 57).

(** the digit loop of readI: v = v*10 + d in int64 *)
Fixpoint digits_loop (ds : bytes) (v : Z) : result Z :=
  match ds with
  | [] => Ok v
  | c :: r => if is_dig c then digits_loop r (wrap64 (v * 10 + Z.of_N (c - 48))) else Err eNumByte
  end.

(** readI after ReadSlice returned the line bs *)
Definition parse_int_line (bs : bytes) : result Z :=
  if (length bs <? 3)%nat then Err eNoCRLF
  else if hd 0 bs =? 63 then Err eChunked                       (* bs[0] == '?' *)
  else
    let s := if hd 0 bs =? 45 then (-1)%Z else 1%Z in           (* bs[0] == '-': s = -1; bs = bs[1:] *)
    let ds := if hd 0 bs =? 45 then tl bs else bs in
    match digits_loop (firstn (length ds - 2) ds) 0%Z with      (* range bs[:len(bs)-2] *)
    | Ok v => Ok (wrap64 (v * s))
    | Err e => Err e
    | Panic => Panic
    end.

Definition read_i : prog (result Z) :=
  bindr (do_op OReadSlice) (fun bs => Ret (parse_int_line bs)).

Definition OKs : bytes := [79; 75].
Definition OKrn : bytes := [79; 75; 13; 10].

Definition is_ok {A} (r : result A) (f : A -> bool) : bool := match r with Ok a => f a | _ => false end.

(** readS *)
Definition read_s : prog (result bytes) :=
  let slow :=
    bindr (do_op OReadBytes) (fun bs =>
      bind (alloc (blen bs)) (fun _ =>
        if (length bs <? 2)%nat then Ret (Err eNoCRLF) else Ret (Ok (firstn (length bs - 2) bs)))) in
  bind (do_op (OPeek 2)) (fun p2 =>
    if is_ok p2 (bytes_eqb OKs) then
      bind (do_op (OPeek 4)) (fun p4 =>
        if is_ok p4 (bytes_eqb OKrn) then bind (do_op (ODiscard 4)) (fun _ => Ret (Ok OKs)) else slow)
    else slow).

(** readN: exactly [length] bytes, buffer allocated up to maxPreallocBytes and then doubled as data arrives *)
Fixpoint read_n_loop (fuel : nat) (length n cap : Z) (acc : bytes) : prog (result bytes) :=
  match fuel with
  | O => Ret (Err eOutOfFuel)
  | S f =>
    bind (do_op (OReadFull (Z.to_N (cap - n)))) (fun r =>
      match r with
      | Ok d =>
        let acc := acc ++ d in
        if (cap =? length)%Z then Ret (Ok acc)
        else
          let cap' := Z.min length (cap * 2) in
          bindr (alloc_make 1 cap') (fun _ => read_n_loop f length cap cap' acc)
      | Err e => Ret (Err (if (e =? eEOF) && (0 <? n)%Z then eUnexpectedEOF else e))
      | Panic => Ret Panic
      end)
  end.

Definition read_n (length : Z) : prog (result bytes) :=
  if (length <? 0)%Z then Ret (Err eBadLength)
  else
    let cap := Z.min length max_prealloc_bytes in
    bindr (alloc_make 1 cap) (fun _ => read_n_loop 64 length 0 cap []).

(** readB *)
Definition read_b : prog (result bytes) :=
  bindr read_i (fun length =>
    if (length =? -1)%Z then Ret (Err eOldNull)
    else bindr (read_n length) (fun bs => bindr (do_op (ODiscard 2)) (fun _ => Ret (Ok bs)))).

(** the chunk loop of readBlobString *)
Fixpoint chunk_loop (fuel : nat) (acc : bytes) : prog (result bytes) :=
  match fuel with
  | O => Ret (Err eOutOfFuel)
  | S f =>
    bindr (do_op (ODiscard 1)) (fun _ =>
    bindr read_i (fun length =>
      if (length =? 0)%Z then Ret (Ok acc)
      else if (length <? 0)%Z then Ret (Err eBadLength)
      else
        bindr (grow (Z.min length max_prealloc_bytes)) (fun _ =>
        bindr (do_op (OCopyN (Z.to_N length))) (fun d =>
        bind (alloc (blen d)) (fun _ =>
        bindr (do_op (ODiscard 2)) (fun _ => chunk_loop f (acc ++ d)))))))
  end.

Definition read_blob_string (fuel : nat) : prog (result bytes) :=
  bind read_b (fun r =>
    match r with
    | Err e => if e =? eChunked then chunk_loop fuel [] else Ret (Err e)
    | _ => Ret r
    end).

Definition read_boolean : prog (result Z) :=
  bindr (do_op OReadByte) (fun b =>
    bindr (do_op (ODiscard 2)) (fun _ => Ret (Ok (if hd 0 b =? 116 then 1%Z else 0%Z)))).

Definition read_null : prog (result unit) :=
  bindr (do_op (ODiscard 2)) (fun _ => Ret (Ok tt)).

(** readers[typ] *)
Definition k_blob (t : N) : bool := (t =? tBlobString) || (t =? tBlobErr) || (t =? tVerbatim).
Definition k_line (t : N) : bool := (t =? tSimpleString) || (t =? tSimpleErr) || (t =? tFloat) || (t =? tBigNumber).
Definition k_null (t : N) : bool := (t =? tNull) || (t =? tEnd).
Definition k_array (t : N) : bool := (t =? tArray) || (t =? tSet) || (t =? tPush).
Definition k_map (t : N) : bool := (t =? tMap) || (t =? tAttribute).

Definition map_res {A B} (f : A -> B) (r : result A) : result B :=
  match r with Ok a => Ok (f a) | Err e => Err e | Panic => Panic end.

(** Pieces of readNextMessage's loop body.  [rn], [ral], [rel] stand for the recursive calls
    (readNextMessage itself for the attribute "continue", the loop of readA, the loop of readE), [cf] is
    the fuel of the chunk loop. *)

(** what happens with the (message, error) pair a reader returned for type byte [typ] *)
Definition fin_msg (typ : N) (rn : option msg -> prog (result msg)) (attrs : option msg)
    (r : result msg) : prog (result msg) :=
  match r with
  | Ok m =>
    if typ =? tAttribute then rn (Some m)              (* attrs = &a; continue *)
    else Ret (Ok (with_attrs m attrs))
  | Err e => if e =? eOldNull then Ret (Ok (Msg tNull [] 0%Z [] None)) else Ret (Err e)
  | Panic => Ret Panic
  end.

(** readA(i, length) *)
Definition read_a (ral : Z -> Z -> Z -> list msg -> prog (result (list msg))) (length : Z)
    : prog (result (list msg * Z)) :=
  if (length <? 0)%Z then Ret (Err eBadLength)
  else
    let cap := Z.min length max_prealloc_msgs in
    bindr (alloc_make msg_size cap) (fun _ =>
    bindr (ral length 0%Z cap []) (fun l => Ret (Ok (l, length)))).

(** readE(i) *)
Definition read_e (rel : list msg -> prog (result (list msg))) : prog (result (list msg * Z)) :=
  bindr (rel []) (fun l => Ret (Ok (l, zlen l))).

Definition agg_msg (typ : N) (r : result (list msg * Z)) : result msg :=
  map_res (fun p => Msg typ [] (snd p) (fst p) None) r.

Definition str_msg (typ : N) (r : result bytes) : result msg :=
  map_res (fun bs => Msg typ bs (zlen bs) [] None) r.

(** fn := readers[typ]; m, err = fn(i); m.typ = typ; … *)
Definition dispatch (typ : N) (rn : option msg -> prog (result msg))
    (ral : Z -> Z -> Z -> list msg -> prog (result (list msg)))
    (rel : list msg -> prog (result (list msg))) (cf : nat) (attrs : option msg) : prog (result msg) :=
  let fin := fin_msg typ rn attrs in
  if k_blob typ then bind (read_blob_string cf) (fun r => fin (str_msg typ r))
  else if k_line typ then bind read_s (fun r => fin (str_msg typ r))
  else if typ =? tInteger then bind read_i (fun r => fin (map_res (fun v => Msg typ [] v [] None) r))
  else if k_null typ then bind read_null (fun r => fin (map_res (fun _ => Msg typ [] 0%Z [] None) r))
  else if typ =? tBool then bind read_boolean (fun r => fin (map_res (fun v => Msg typ [] v [] None) r))
  else if k_array typ then
    bind read_i (fun r =>
      match r with
      | Ok length => if (length =? -1)%Z then fin (Err eOldNull) else bind (read_a ral length) (fun r => fin (agg_msg typ r))
      | Err e => if e =? eChunked then bind (read_e rel) (fun r => fin (agg_msg typ r)) else fin (Err e)
      | Panic => Ret Panic
      end)
  else if k_map typ then
    bind read_i (fun r =>
      match r with
      | Ok length => bind (read_a ral (wrap64 (length * 2))) (fun r => fin (agg_msg typ r))
      | Err e => if e =? eChunked then bind (read_e rel) (fun r => fin (agg_msg typ r)) else fin (Err e)
      | Panic => Ret Panic
      end)
  else Ret (Err eUnknownType).

Definition read_next_body (rn : option msg -> prog (result msg))
    (ral : Z -> Z -> Z -> list msg -> prog (result (list msg)))
    (rel : list msg -> prog (result (list msg))) (cf : nat) (attrs : option msg) : prog (result msg) :=
  bindr (do_op OReadByte) (fun tb => dispatch (hd 0 tb) rn ral rel cf attrs).

(** readNextMessage, the loop of readA ([n] elements read, buffer of [cap] elements) and the loop of readE *)
Fixpoint read_next (fuel : nat) (attrs : option msg) : prog (result msg) :=
  match fuel with
  | O => Ret (Err eOutOfFuel)
  | S f => read_next_body (read_next f) (read_a_loop f) (read_e_loop f) f attrs
  end
with read_a_loop (fuel : nat) (length n cap : Z) (acc : list msg) : prog (result (list msg)) :=
  match fuel with
  | O => Ret (Err eOutOfFuel)
  | S f =>
    if (n =? length)%Z then Ret (Ok acc)
    else
      (* msgs[n], err = readNextMessage(i): the index is checked when the call has returned *)
      let next (cap' : Z) :=
        bind (read_next f None) (fun r =>
          if (n <? cap')%Z then
            match r with
            | Ok m => read_a_loop f length (n + 1) cap' (acc ++ [m])
            | Err e => Ret (Err e)
            | Panic => Ret Panic
            end
          else Ret Panic) in
      if (n =? cap)%Z then
        let cap' := Z.min length (n * 2) in
        bindr (alloc_make msg_size cap') (fun _ => next cap')
      else next cap
  end
with read_e_loop (fuel : nat) (acc : list msg) : prog (result (list msg)) :=
  match fuel with
  | O => Ret (Err eOutOfFuel)
  | S f =>
    bindr (read_next f None) (fun m =>
      if m_typ m =? tEnd then Ret (Ok acc)
      else bind (alloc (Z.to_N msg_size)) (fun _ => read_e_loop f (acc ++ [m])))
  end.

(** enough fuel for any input: every nested call and every loop iteration but the last consumes a byte *)
Definition fuel_for (n : nat) : nat := 2 * n + 4.

(** one readNextMessage on a flat stream: (result, what is left, bytes requested from the allocator) *)
Definition decode (B : nat) (input : bytes) : result msg * bytes * N :=
  run B (read_next (fuel_for (length input)) None) input 0.

(** the same program on a connection that delivers the stream in arbitrary chunks *)
Definition decode_chunked (B : nat) (chunks : list bytes) : result msg * cstate * N :=
  run_chunked B (read_next (fuel_for (length (concat chunks))) None) ([], chunks) 0.

(** ---- correspondence cases (printed by harness/cmd/obs_resp) ---- *)
Definition res_msg_eqb : result msg -> result msg -> bool := result_eqb msg_eqb.

(** the measured allocation (runtime.MemStats.TotalAlloc delta) against the meter: size-class rounding,
    append's amortised growth, error values and bufio's own line buffer stay within this envelope *)
Definition alloc_envelope (meter : N) (consumed : N) : N := 3 * meter + 8 * consumed + 16384.

Inductive case :=
(* readNextMessage on [input] through a bufio.Reader of size B gave [impl], consumed [consumed] bytes and
   allocated [allocd] bytes; [v] (when given) is the generator's value with the bytes that follow it;
   [sizes] are chunkings under which the implementation gave the same outcome *)
| CDec (B : N) (v : option (rv * bytes)) (input : bytes) (sizes : list (list nat)) (impl : result msg) (consumed allocd : N)
(* readNextMessage on the prefixes of [input] of the listed lengths *)
| CTrunc (B : N) (input : bytes) (samples : list (nat * result msg * N))
(* readNextMessage on the long input [prefix ++ count copies of pat] (a declared length far above what follows, with
   a long real payload / many real elements): result, bytes consumed, bytes allocated *)
| CBig (B : N) (prefix pat : bytes) (count : N) (impl : result msg) (consumed allocd : N).

Definition check_dec (B : nat) (input : bytes) (impl : result msg) (consumed : N) : bool :=
  let '(r, rest, _) := decode B input in
  res_msg_eqb r impl && (blen input - blen rest =? consumed).

Definition check_case (c : case) : bool :=
  match c with
  | CDec B v input sizes impl consumed allocd =>
      let B := N.to_nat B in
      let '(r, rest, al) := decode B input in
      res_msg_eqb r impl && (blen input - blen rest =? consumed) &&
      (allocd <=? alloc_envelope al consumed) &&
      forallb (fun sz =>
                 let '(r', st, al') := decode_chunked B (split_by (S (length input)) sz sz input) in
                 res_msg_eqb r' impl && (blen input - blen (flat st) =? consumed) && (al' =? al)) sizes &&
      match v with
      | Some (v, rest0) => wf v && bytes_eqb (enc v ++ rest0) input && res_msg_eqb impl (Ok (abs v)) && bytes_eqb rest rest0
      | None => true
      end
  | CTrunc B input samples =>
      forallb (fun s => let '(k, impl, consumed) := s in check_dec (N.to_nat B) (firstn k input) impl consumed) samples
  | CBig B prefix pat count impl consumed allocd =>
      let input := prefix ++ rep_bytes pat count in
      let '(r, rest, al) := decode (N.to_nat B) input in
      res_msg_eqb r impl && (blen input - blen rest =? consumed) && (allocd <=? alloc_envelope al consumed)
  end.
