(** Small executable helpers shared by the session-level models (Setup, PubSub, Dedicated, Stream).
    Definitions only. *)
From Coq Require Import List NArith ZArith String Ascii Bool.
Require Import RV.Model.Base.
Import ListNotations.
Open Scope N_scope.

(** ASCII text literal as a byte string: [bs "HELLO"]. *)
Fixpoint bs (s : string) : bytes :=
  match s with
  | EmptyString => []
  | String a r => N_of_ascii a :: bs r
  end.

(** Compact byte-string literal used by the observers of this family: the big-endian base-256 number of
    the bytes behind a leading 1 ([nb 1] = empty, [nb 0x141] = "A").  Number literals cost coqc far less
    than string literals, which matters for the exhaustive configuration sweep of C47. *)
Fixpoint pos_bits (p : positive) : list bool :=   (* least significant first, without the leading 1 *)
  match p with
  | xH => []
  | xO q => false :: pos_bits q
  | xI q => true :: pos_bits q
  end.

Definition bit (b : bool) (w : N) : N := if b then w else 0.

Fixpoint bits_bytes (bits : list bool) (acc : bytes) : bytes :=
  match bits with
  | b0 :: b1 :: b2 :: b3 :: b4 :: b5 :: b6 :: b7 :: rest =>
    bits_bytes rest ((bit b0 1 + bit b1 2 + bit b2 4 + bit b3 8 + bit b4 16 + bit b5 32 + bit b6 64 + bit b7 128) :: acc)
  | _ => acc
  end.

Definition nb (n : N) : bytes :=
  match n with
  | N0 => []
  | Npos p => bits_bytes (pos_bits p) []
  end.

Definition argv := list bytes.

Definition argv_eqb : argv -> argv -> bool := list_eqb bytes_eqb.
Definition argvs_eqb : list argv -> list argv -> bool := list_eqb argv_eqb.

Definition is_empty (b : bytes) : bool := match b with [] => true | _ => false end.

(** strconv.Itoa: decimal digits, most significant first.  Fuel = number of binary digits + 1
    (always enough: a number has at most as many decimal as binary digits). *)
Fixpoint digits_fuel (fuel : nat) (n : N) (acc : bytes) : bytes :=
  match fuel with
  | O => acc
  | S f =>
    let acc' := (48 + n mod 10) :: acc in
    if n / 10 =? 0 then acc' else digits_fuel f (n / 10) acc'
  end.

Definition itoa_N (n : N) : bytes := digits_fuel (S (N.size_nat n)) n [].

Definition itoa (z : Z) : bytes :=
  if (z <? 0)%Z then 45 :: itoa_N (Z.abs_N z) else itoa_N (Z.to_N z).

(** head of an argv compared with a literal *)
Definition head_is (lit : bytes) (a : argv) : bool :=
  match a with
  | x :: _ => bytes_eqb x lit
  | [] => false
  end.

Fixpoint mem_bytes (x : bytes) (l : list bytes) : bool :=
  match l with
  | [] => false
  | y :: r => bytes_eqb x y || mem_bytes x r
  end.

Fixpoint mem_argv (x : argv) (l : list argv) : bool :=
  match l with
  | [] => false
  | y :: r => argv_eqb x y || mem_argv x r
  end.
