(** Model of rueidisprob/bloomfilter.go + index.go (C35).

    Server side: the Redis bitmap [{name}] is the list of bit positions that were ever SET
    ([testbit] = membership), the counter key [{name}:c] is a number (a missing key reads as 0, which
    is what [Count] reports for a missing key).  The three scripts are transcribed loop for loop:
    [i] is Lua's loop variable (1-based), [one] is [oneBits], the test [i % hashIterations == 0] is
    [boundary] (in Lua 5.1 [i % 0] is NaN, never equal to 0).

    Client side: [indexes] is bloomFilter.indexes ([h1 + i*h2] wraps at 2^64, then [% size]);
    murmur3 ([hash]) is a Section variable.  The decimal printing of indexes in Go and [tonumber] in
    Lua are inverse to each other for values below 2^53 and are not modelled (indexes are [N]).
    The float sizing functions (numberOfBloomFilterBits / …HashFunctions) are not modelled: [size]
    and [k] are parameters; the observer checks "accepted configuration => 1 <= k, 0 < size <= 2^32"
    on a grid on every run. *)
From Coq Require Import List NArith Bool.
Require Import RV.Model.Base.
Import ListNotations.
Open Scope N_scope.

Definition bitmap := list N.

Definition testbit (b : bitmap) (i : N) : bool := existsb (N.eqb i) b.
Definition setbit (b : bitmap) (i : N) : bitmap := i :: b.

(** [i % hashIterations == 0] *)
Definition boundary (kk i : N) : bool := if kk =? 0 then false else (i mod kk =? 0).

Definition bit_of (x : bool) : N := if x then 1 else 0.

(** bloomFilterAddMultiScript, the [for i=1, numElements] loop:
    BITFIELD SET u1 idx 1 returns the old bit; an item is counted when not all of its bits were set. *)
Fixpoint add_loop (kk i one cnt : N) (idxs : list N) (b : bitmap) : bitmap * N :=
  match idxs with
  | [] => (b, cnt)
  | ix :: r =>
    let one' := one + bit_of (testbit b ix) in
    let b' := setbit b ix in
    if boundary kk i
    then add_loop kk (i + 1) 0 (if one' =? kk then cnt else cnt + 1) r b'
    else add_loop kk (i + 1) one' cnt r b'
  end.

(** bloomFilterExistsMultiScript (and the _RO variant: same text with BITFIELD_RO):
    [table.insert(result, oneBits == hashIterations)] at every boundary. *)
Fixpoint exists_loop (kk i one : N) (idxs : list N) (b : bitmap) : list bool :=
  match idxs with
  | [] => []
  | ix :: r =>
    let one' := one + bit_of (testbit b ix) in
    if boundary kk i
    then (one' =? kk) :: exists_loop kk (i + 1) 0 r b
    else exists_loop kk (i + 1) one' r b
  end.

Record filter := { bits : bitmap; count : N }.

Definition empty_filter : filter := {| bits := []; count := 0 |}.

(** ARGV = hashIterations :: indexes; KEYS = filter key, counter key; ends with INCRBY counter *)
Definition add_script (kk : N) (idxs : list N) (f : filter) : filter :=
  let '(b, c) := add_loop kk 1 0 0 idxs (bits f) in
  {| bits := b; count := count f + c |}.

Definition exists_script (kk : N) (idxs : list N) (f : filter) : list bool :=
  exists_loop kk 1 0 idxs (bits f).

(** bloomFilterResetScript: SET filter "" ; SET counter 0.  bloomFilterDeleteScript: DEL both. *)
Definition reset_script (f : filter) : filter := empty_filter.
Definition delete_script (f : filter) : filter := empty_filter.

(** ExistsMulti's conversion loop: [result := make([]bool, len(keys)); for i, el := range arr { result[i] = … }]
    (a Lua [false] arrives as nil and is stored as false); indexing beyond [len(keys)] would panic. *)
Fixpoint fill_results (n : nat) (arr : list bool) : result (list bool) :=
  match arr, n with
  | [], _ => Ok (repeat_n false n)
  | _ :: _, O => Panic
  | x :: r, S n' =>
    match fill_results n' r with
    | Ok l => Ok (x :: l)
    | Err e => Err e
    | Panic => Panic
    end
  end.

Section Client.
  Variable K : Type.
  Variable hash : K -> N * N.      (* murmur3.Sum128 *)
  Variable size : N.               (* bloomFilter.size *)
  Variable k : N.                  (* bloomFilter.hashIterations *)

  (** index.go: [offset := h1 + uint64(i)*h2; return offset % maxSize] *)
  Definition index (h1 h2 i : N) : N := ((h1 + i * h2) mod 2 ^ 64) mod size.

  Definition indexes_of (x : K) : list N :=
    let '(h1, h2) := hash x in
    map (fun i => index h1 h2 (N.of_nat i)) (seq 0 (N.to_nat k)).

  (** bloomFilter.indexes: k indexes per key, keys in order.  [% size] with size = 0 is a Go panic
      (integer divide by zero) as soon as one index is computed. *)
  Definition indexes (keys : list K) : result (list N) :=
    if (size =? 0) && negb (k =? 0) && negb (match keys with [] => true | _ => false end) then Panic
    else Ok (flat_map indexes_of keys).

  Inductive op :=
  | OAdd (keys : list K)      (* Add = AddMulti [key] *)
  | OExists (keys : list K)   (* Exists = ExistsMulti [key] *)
  | OCount
  | OReset
  | ODelete.

  Inductive obs :=
  | VDone                               (* nil error *)
  | VBools (r : result (list bool))     (* ExistsMulti's slice, or a panic *)
  | VCount (n : N)
  | VPanic.

  Definition step (f : filter) (o : op) : filter * obs :=
    match o with
    | OAdd [] => (f, VDone)                        (* len(keys) == 0: no round trip *)
    | OAdd keys =>
      match indexes keys with
      | Ok idxs => (add_script k idxs f, VDone)
      | _ => (f, VPanic)
      end
    | OExists [] => (f, VBools (Ok []))
    | OExists keys =>
      match indexes keys with
      | Ok idxs => (f, VBools (fill_results (length keys) (exists_script k idxs f)))
      | _ => (f, VPanic)
      end
    | OCount => (f, VCount (count f))
    | OReset => (reset_script f, VDone)
    | ODelete => (delete_script f, VDone)
    end.

  Fixpoint run (f : filter) (ops : list op) : filter * list obs :=
    match ops with
    | [] => (f, [])
    | o :: r =>
      let '(f1, v) := step f o in
      let '(f2, vs) := run f1 r in
      (f2, v :: vs)
    end.

  Definition final (f : filter) (ops : list op) : filter := fst (run f ops).

  (** the specification-side notion: all of the item's bits are set *)
  Definition member (f : filter) (x : K) : bool := forallb (testbit (bits f)) (indexes_of x).

  Definition destructive (o : op) : bool :=
    match o with OReset | ODelete => true | _ => false end.
End Client.

Arguments OAdd {K} keys.
Arguments OExists {K} keys.
Arguments OCount {K}.
Arguments OReset {K}.
Arguments ODelete {K}.

(** ---- correspondence cases (printed by harness/cmd/obs_bloom) ----
    One case is one history on a fresh filter.  [table] gives murmur3's (h1, h2) for every key of
    the history (computed by the real hash function); each step carries what the implementation
    showed: the index list it sent to the server (ARGV without the leading hashIterations, read
    from the fake server's script log) and the value it returned. *)
Fixpoint lookup_hash (table : list (bytes * (N * N))) (x : bytes) : N * N :=
  match table with
  | [] => (0, 0)
  | (y, v) :: r => if bytes_eqb x y then v else lookup_hash r x
  end.

Inductive impl_obs :=
| IDone (sent : list N)                  (* Add/AddMulti returned nil; indexes sent *)
| IBools (sent : list N) (r : list bool) (* ExistsMulti result *)
| ICount (n : N)
| INoTrip                                (* no command was sent (empty key list) and nil was returned *)
| IPanic.

Inductive case :=
| CHist (size k : N) (table : list (bytes * (N * N))) (steps : list (op bytes * impl_obs)).

Definition obs_agree (size k : N) (hash : bytes -> N * N) (o : op bytes) (v : obs) (i : impl_obs) : bool :=
  match o, v, i with
  | OAdd [], VDone, INoTrip => true
  | OAdd keys, VDone, IDone sent =>
    result_eqb (list_eqb N.eqb) (indexes bytes hash size k keys) (Ok sent)
  | OExists [], VBools (Ok []), INoTrip => true
  | OExists keys, VBools (Ok r), IBools sent r' =>
    result_eqb (list_eqb N.eqb) (indexes bytes hash size k keys) (Ok sent) && list_eqb Bool.eqb r r'
  | OCount, VCount n, ICount n' => n =? n'
  | OReset, VDone, IDone [] => true
  | ODelete, VDone, IDone [] => true
  | _, VPanic, IPanic => true
  | _, VBools Panic, IPanic => true
  | _, _, _ => false
  end.

Fixpoint check_steps (size k : N) (hash : bytes -> N * N) (f : filter) (steps : list (op bytes * impl_obs)) : bool :=
  match steps with
  | [] => true
  | (o, i) :: r =>
    let '(f1, v) := step bytes hash size k f o in
    obs_agree size k hash o v i && check_steps size k hash f1 r
  end.

Definition check_case (c : case) : bool :=
  match c with
  | CHist size k table steps => check_steps size k (lookup_hash table) empty_filter steps
  end.
