(** Model of the sentinel client's view of the deployment (sentinel.go): [_refresh] (rotation over
    the sentinel list), [listWatch] (SENTINEL sentinels / get-master-addr-by-name / replicas, with the
    unguarded [m[0]], [m[1]]), [pickReplica], [_switchTarget] (ROLE check, unguarded [resp[0]]) and
    the pub/sub event handler (+sentinel, +switch-master, +reboot, +slave, +sdown, -sdown with the
    unguarded [strings.SplitN] indexing).

    The world (which sentinels answer what, which nodes are up, what they answer to ROLE) is an input
    of every step; theorems quantify over all sequences of worlds and events.  Ghost fields record
    the ROLE answer and the source of the announcement at the moment an address was adopted.

    [_switchTarget] REUSES the installed connection when it is asked to switch to the address it already
    uses and that connection is healthy, and dials a FRESH one otherwise ([target_of]).  A failed ROLE
    check closes the probed connection in both cases: on the reuse path that is the connection installed
    in mConn / rConn, which stays installed but closed ([ss_m_open] / [ss_r_open] = false: [pick] hands
    out a closed connection, no user command reaches the node) until a later switch succeeds.
    Definitions only. *)
From Coq Require Import List Arith NArith ZArith Bool.
Require Import RV.Model.Base RV.Model.ClusterTopo.
Import ListNotations.
Open Scope Z_scope.

(** net.JoinHostPort(host, port) with both parts strings *)
Definition saddr := (bytes * bytes)%type.
Definition saddr_eqb (a b : saddr) : bool := bytes_eqb (fst a) (fst b) && bytes_eqb (snd a) (snd b).
Fixpoint mem_saddr (a : saddr) (l : list saddr) : bool :=
  match l with [] => false | x :: r => saddr_eqb a x || mem_saddr a r end.

Definition s_master_b : bytes := [109; 97; 115; 116; 101; 114]%N.     (* "master" *)
Definition s_slave_b : bytes := [115; 108; 97; 118; 101]%N.            (* "slave" *)

(** a ROLE reply: an error / non-array, or the strings of the array elements *)
Inductive role_reply := RoleErr | RoleArr (items : list bytes).
(** SENTINEL get-master-addr-by-name: AsStrSlice failed, or the strings *)
Inductive master_reply := MErr | MList (items : list bytes).
(** SENTINEL replicas after pickReplica's filter: ToArray failed, or the eligible ip/port pairs *)
Inductive replicas_reply := RpErr | RpList (eligible : list saddr).
(** SENTINEL sentinels: ToArray failed, or the ip/port pairs of the entries AsStrMap accepted *)
Inductive sentinels_reply := SnErr | SnList (others : list saddr).

Record world := mkWorld {
  w_sup : saddr -> bool;                         (* dialling the sentinel works *)
  w_sentinels : saddr -> sentinels_reply;
  w_master : saddr -> master_reply;
  w_replicas : saddr -> replicas_reply;
  w_nup : saddr -> bool;                         (* dialling the data node works / its connection is healthy *)
  w_role : saddr -> role_reply;
  w_rnd : nat;                                   (* FastRand draw of pickReplica *)
}.

Record scfg := mkScfg {
  sc_replica_only : bool;       (* opt.ReplicaOnly *)
  sc_has_str : bool;            (* opt.SendToReplicas != nil *)
  sc_set : bytes;               (* Sentinel.MasterSet *)
}.

Inductive source := SrcNone | SrcSentinel (s : saddr) | SrcEvent.

Record sstate := mkSstate {
  ss_list : list saddr;         (* c.sentinels, front first *)
  ss_saddr : option saddr;      (* c.sAddr *)
  ss_m : option saddr;          (* c.mAddr *)
  ss_r : option saddr;          (* c.rAddr *)
  (* ghost: what ROLE said and who announced the address when it was adopted *)
  ss_m_role : bytes; ss_m_src : source;
  ss_r_role : bytes; ss_r_src : source;
  (* the connection installed in mConn / rConn has not been closed by the client *)
  ss_m_open : bool; ss_r_open : bool;
}.

Definition set_list (st : sstate) (l : list saddr) : sstate :=
  mkSstate l (ss_saddr st) (ss_m st) (ss_r st) (ss_m_role st) (ss_m_src st) (ss_r_role st) (ss_r_src st) (ss_m_open st) (ss_r_open st).
Definition set_saddr (st : sstate) (a : saddr) : sstate :=
  mkSstate (ss_list st) (Some a) (ss_m st) (ss_r st) (ss_m_role st) (ss_m_src st) (ss_r_role st) (ss_r_src st) (ss_m_open st) (ss_r_open st).

(** where user traffic for the master / for the replica can actually arrive *)
Definition live_m (st : sstate) : option saddr := if ss_m_open st then ss_m st else None.
Definition live_r (st : sstate) : option saddr := if ss_r_open st then ss_r st else None.

(** _addSentinel: PushFront unless present *)
Definition add_sentinel (l : list saddr) (a : saddr) : list saddr := if mem_saddr a l then l else a :: l.

(** errors: 1 dial of a data node failed, 2 ROLE failed, 3 not master, 4 not slave, 5 sentinel reply
    error, 6 not enough ready replicas, 7 sentinel dial failed, 8 no sentinel left *)
Inductive tgt := TReused | TFresh.

Definition osaddr_is (o : option saddr) (a : saddr) : bool := match o with Some b => saddr_eqb b a | None => false end.

(** the connection _switchTarget probes: the installed one when the address is the current one and that
    connection is usable (not closed by the client, node reachable: [target.Error() == nil]), else a new one *)
Definition target_of (w : world) (st : sstate) (a : saddr) (is_master : bool) : tgt :=
  if (if is_master then osaddr_is (ss_m st) a && ss_m_open st else osaddr_is (ss_r st) a && ss_r_open st) && w_nup w a
  then TReused else TFresh.

Definition switch_target (w : world) (st : sstate) (a : saddr) (is_master : bool) (src : source) : result sstate :=
  if negb (w_nup w a) then Err 1      (* fresh: Dial fails; an unreachable node's installed connection is not reused *)
  else match w_role w a with
       | RoleErr => Err 2
       | RoleArr items =>
         match items with
         | [] => Panic                                  (* resp[0] *)
         | first :: _ =>
           if is_master then
             if bytes_eqb first s_master_b
             then Ok (mkSstate (ss_list st) (ss_saddr st) (Some a) (ss_r st) first src (ss_r_role st) (ss_r_src st) true (ss_r_open st))
             else Err 3
           else
             if bytes_eqb first s_slave_b
             then Ok (mkSstate (ss_list st) (ss_saddr st) (ss_m st) (Some a) (ss_m_role st) (ss_m_src st) first src (ss_m_open st) true)
             else Err 4
         end
       end.

(** the state a FAILED switch leaves behind ([target.Close()] on every failure after the probe): closing a
    fresh connection changes nothing, closing the reused one closes the installed connection *)
Definition close_installed (st : sstate) (is_master : bool) : sstate :=
  if is_master
  then mkSstate (ss_list st) (ss_saddr st) (ss_m st) (ss_r st) (ss_m_role st) (ss_m_src st) (ss_r_role st) (ss_r_src st) false (ss_r_open st)
  else mkSstate (ss_list st) (ss_saddr st) (ss_m st) (ss_r st) (ss_m_role st) (ss_m_src st) (ss_r_role st) (ss_r_src st) (ss_m_open st) false.

Definition switch_fail (w : world) (st : sstate) (a : saddr) (is_master : bool) : sstate :=
  match target_of w st a is_master with
  | TReused => close_installed st is_master
  | TFresh => st
  end.

Definition switch_or_fail (w : world) (st : sstate) (a : saddr) (is_master : bool) (src : source) : sstate :=
  match switch_target w st a is_master src with Ok x => x | _ => switch_fail w st a is_master end.

Definition pick_replica (w : world) (s : saddr) : result saddr :=
  match w_replicas w s with
  | RpErr => Err 5
  | RpList [] => Err 6
  | RpList el => match nth_error el (w_rnd w mod length el) with Some a => Ok a | None => Err 6 end
  end.

(** listWatch: (master, replica, other sentinels); only the fields the configuration uses are filled *)
Definition list_watch (c : scfg) (w : world) (s : saddr) : result (option saddr * option saddr * list saddr) :=
  match w_sentinels w s with
  | SnErr => Err 5
  | SnList others =>
    if sc_replica_only c then
      match pick_replica w s with
      | Ok r => Ok (None, Some r, others)
      | Err e => Err e
      | Panic => Panic
      end
    else
      let rr := if sc_has_str c then match pick_replica w s with Ok r => Ok (Some r) | Err e => Err e | Panic => Panic end
                else Ok None in
      match rr with
      | Err e => Err e
      | Panic => Panic
      | Ok r =>
        match w_master w s with
        | MErr => Err 5
        | MList (h :: p :: _) => Ok (Some (h, p), r, others)
        | MList _ => Panic                              (* m[0], m[1] *)
        end
      end
  end.

(** the switches of one successful listWatch, in the order the code commits them (the two goroutines
    of the SendToReplicas case both run; an error of either is reported) *)
Definition switch_all (c : scfg) (w : world) (st : sstate) (s : saddr) (m r : option saddr) : result sstate :=
  if sc_replica_only c then
    match r with Some ra => switch_target w st ra false (SrcSentinel s) | None => Err 6 end
  else if sc_has_str c then
    match m, r with
    | Some ma, Some ra =>
      match switch_target w st ma true (SrcSentinel s) with
      | Ok st1 =>
        match switch_target w st1 ra false (SrcSentinel s) with
        | Ok st2 => Ok st2
        | Err e => Err e      (* the master was switched nevertheless: see [switch_all_partial] *)
        | Panic => Panic
        end
      | Err e =>
        match switch_target w st ra false (SrcSentinel s) with
        | Panic => Panic
        | _ => Err e
        end
      | Panic => Panic
      end
    | _, _ => Err 6
    end
  else
    match m with Some ma => switch_target w st ma true (SrcSentinel s) | None => Err 5 end.

(** the state left behind when the SendToReplicas case fails half way *)
Definition switch_all_partial (c : scfg) (w : world) (st : sstate) (s : saddr) (m r : option saddr) : sstate :=
  if sc_replica_only c then
    match r with Some ra => switch_or_fail w st ra false (SrcSentinel s) | None => st end
  else if sc_has_str c then
    match m, r with
    | Some ma, Some ra =>
      let st1 := switch_or_fail w st ma true (SrcSentinel s) in
      switch_or_fail w st1 ra false (SrcSentinel s)
    | _, _ => st
    end
  else
    match m with Some ma => switch_or_fail w st ma true (SrcSentinel s) | None => st end.

Fixpoint move_to_back (l : list saddr) (a : saddr) : list saddr :=
  match l with
  | [] => []
  | x :: r => if saddr_eqb x a then r ++ [x] else x :: move_to_back r a
  end.

Inductive rout := ROk | RFail (e : N) | ROutOfFuel.

(** the loop of _refresh; [head] is the element that was at the front when it started *)
Fixpoint refresh_loop (fuel : nat) (c : scfg) (w : world) (st : sstate) (head : saddr) (last : N)
  : result (sstate * rout) :=
  match fuel with
  | O => Ok (st, ROutOfFuel)
  | S f =>
    match ss_list st with
    | [] => Ok (st, RFail 8%N)
    | s :: _ =>
      let st1 := set_saddr st s in
      let continue (st2 : sstate) (e : N) :=
          let l' := move_to_back (ss_list st2) s in
          let st3 := set_list st2 l' in
          match l' with
          | x :: _ => if saddr_eqb x head then Ok (st3, RFail e) else refresh_loop f c w st3 head e
          | [] => Ok (st3, RFail e)
          end in
      if negb (w_sup w s) then continue st1 7%N
      else match list_watch c w s with
           | Panic => Panic
           | Err e => continue st1 e
           | Ok (m, r, others) =>
             let st2 := set_list st1 (fold_left add_sentinel others (ss_list st1)) in
             match switch_all c w st2 s m r with
             | Panic => Panic
             | Ok st3 => Ok (st3, ROk)
             | Err e => continue (switch_all_partial c w st2 s m r) e
             end
           end
    end
  end.

Definition refresh (fuel : nat) (c : scfg) (w : world) (st : sstate) : result (sstate * rout) :=
  match ss_list st with
  | [] => Ok (st, RFail 8%N)
  | head :: _ => refresh_loop fuel c w st head 0%N
  end.

(** ---- events ---- *)
(** the message split at spaces, at most n parts (strings.SplitN) is done by the observer / is an
    input; the handler indexes the parts *)
Inductive event :=
| EvSentinel (parts : list bytes)
| EvSwitchMaster (parts : list bytes)
| EvReboot (parts : list bytes)
| EvSlaveOrSdown (parts : list bytes).

Definition part (l : list bytes) (i : nat) : result bytes := idx l i.

Definition uses_replica (c : scfg) : bool := sc_replica_only c || sc_has_str c.

(** [refresh_fuel]: the refreshRetry loop is cut after that many refreshes (it has no bound of its own) *)
Fixpoint refresh_retry (n fuel : nat) (c : scfg) (w : world) (st : sstate) : result sstate :=
  match n with
  | O => Ok st
  | S k => match refresh fuel c w st with
           | Panic => Panic
           | Err e => Err e
           | Ok (st', ROk) => Ok st'
           | Ok (st', _) => refresh_retry k fuel c w st'
           end
  end.

Definition handle_event (n fuel : nat) (c : scfg) (w : world) (st : sstate) (ev : event) : result sstate :=
  match ev with
  | EvSentinel m =>
    do h <- part m 2; do p <- part m 3;
    Ok (set_list st (add_sentinel (ss_list st) (h, p)))
  | EvSwitchMaster m =>
    do m0 <- part m 0;
    if bytes_eqb m0 (sc_set c) then
      do h <- part m 3; do p <- part m 4;
      match switch_target w st (h, p) true SrcEvent with
      | Ok st' => Ok st'
      | Panic => Panic
      | Err _ => refresh_retry n fuel c w (switch_fail w st (h, p) true)
      end
    else Ok st
  | EvReboot m =>
    do m0 <- part m 0;
    if bytes_eqb m0 s_master_b then
      do m1 <- part m 1;
      if bytes_eqb m1 (sc_set c) then
        do h <- part m 2; do p <- part m 3;
        match switch_target w st (h, p) true SrcEvent with
        | Ok st' => Ok st'
        | Panic => Panic
        | Err _ => refresh_retry n fuel c w (switch_fail w st (h, p) true)
        end
      else
        if uses_replica c && bytes_eqb m0 s_slave_b then
          do m5 <- part m 5; if bytes_eqb m5 (sc_set c) then refresh_retry n fuel c w st else Ok st
        else Ok st
    else
      if uses_replica c && bytes_eqb m0 s_slave_b then
        do m5 <- part m 5; if bytes_eqb m5 (sc_set c) then refresh_retry n fuel c w st else Ok st
      else Ok st
  | EvSlaveOrSdown m =>
    if uses_replica c then
      do m0 <- part m 0;
      if bytes_eqb m0 s_slave_b then
        do m5 <- part m 5; if bytes_eqb m5 (sc_set c) then refresh_retry n fuel c w st else Ok st
      else Ok st
    else Ok st
  end.

(** a history: refreshes and events, each under its own world *)
Inductive sop := OpRefresh (w : world) | OpEvent (w : world) (ev : event).

Definition sstep (n fuel : nat) (c : scfg) (st : sstate) (op : sop) : result sstate :=
  match op with
  | OpRefresh w => match refresh fuel c w st with
                   | Ok (st', _) => Ok st'
                   | Err e => Err e
                   | Panic => Panic
                   end
  | OpEvent w ev => handle_event n fuel c w st ev
  end.

Fixpoint srun (n fuel : nat) (c : scfg) (st : sstate) (ops : list sop) : result sstate :=
  match ops with
  | [] => Ok st
  | op :: r => match sstep n fuel c st op with
               | Ok st' => srun n fuel c st' r
               | Err e => Err e
               | Panic => Panic
               end
  end.

Definition sinit (sentinels : list saddr) : sstate :=
  mkSstate sentinels None None None [] SrcNone [] SrcNone false false.

(** ---- correspondence cases (printed by harness/cmd/obs_sentinel) ---- *)
Definition tab {A} (d : A) (t : list (saddr * A)) : saddr -> A :=
  fun a => match find (fun kv => saddr_eqb (fst kv) a) t with Some kv => snd kv | None => d end.

Definition osaddr_eqb := option_eqb saddr_eqb.

Inductive outcome3 := OOk | OErr | OPanic.

Inductive rop := RopRefresh | RopEvent (ev : event).

Inductive case :=
| CRefresh (c : scfg) (sentinels : list saddr)
           (sup : list (saddr * bool)) (sn : list (saddr * sentinels_reply)) (ms : list (saddr * master_reply))
           (rp : list (saddr * replicas_reply)) (nup : list (saddr * bool)) (role : list (saddr * role_reply))
           (impl : outcome3) (impl_m impl_r : option saddr) (impl_list : list saddr)
| CSwitch (c : scfg) (st_list : list saddr) (m0 : option saddr) (parts : list bytes)
          (nup : list (saddr * bool)) (role : list (saddr * role_reply)) (impl_m : option saddr)
(** same-address re-validation: NewClient under the first ROLE table, then one step (a refresh after the
    subscription dropped, or an event) under the second one; where master / replica traffic arrives afterwards *)
| CReval (c : scfg) (sentinels : list saddr)
         (sup : list (saddr * bool)) (sn : list (saddr * sentinels_reply)) (ms : list (saddr * master_reply))
         (rp : list (saddr * replicas_reply)) (nup : list (saddr * bool)) (role0 role1 : list (saddr * role_reply))
         (op : rop) (impl_m impl_r : option saddr).

Definition mk_world sup sn ms rp nup role : world :=
  mkWorld (tab false sup) (tab SnErr sn) (tab MErr ms) (tab RpErr rp) (tab false nup) (tab RoleErr role) 0.

Definition check_case (c : case) : bool :=
  match c with
  | CRefresh cfg sentinels sup sn ms rp nup role impl impl_m impl_r impl_list =>
    let w := mk_world sup sn ms rp nup role in
    match refresh 64 cfg w (sinit sentinels), impl with
    | Panic, OPanic => true
    | Ok (st, ROk), OOk =>
      osaddr_eqb (ss_m st) impl_m
      && (if sc_replica_only cfg || sc_has_str cfg
          then match ss_r st, impl_r with
               | Some a, Some b => match w_replicas w (match ss_saddr st with Some s => s | None => ([], []) end) with
                                   | RpList el => mem_saddr b el      (* the random draw is not observable *)
                                   | RpErr => false
                                   end
               | None, None => true
               | _, _ => false
               end
          else true)
      && list_eqb saddr_eqb (ss_list st) impl_list
    | Ok (st, RFail _), OErr => true
    | _, _ => false
    end
  | CSwitch cfg st_list m0 parts nup role impl_m =>
    let w := mk_world [] [] [] [] nup role in
    let st := mkSstate st_list None m0 None s_master_b SrcNone [] SrcNone true false in
    match handle_event 0 0 cfg w st (EvSwitchMaster parts) with
    | Ok st' => osaddr_eqb (ss_m st') impl_m
    | _ => false
    end
  | CReval cfg sentinels sup sn ms rp nup role0 role1 op impl_m impl_r =>
    let w0 := mk_world sup sn ms rp nup role0 in
    let w1 := mk_world sup sn ms rp nup role1 in
    match refresh 64 cfg w0 (sinit sentinels) with
    | Ok (st0, ROk) =>
      match (match op with
             | RopRefresh => sstep 3 64 cfg st0 (OpRefresh w1)
             | RopEvent ev => handle_event 3 64 cfg w1 st0 ev
             end) with
      | Ok st1 => osaddr_eqb (live_m st1) impl_m && osaddr_eqb (live_r st1) impl_r
      | _ => false
      end
    | _ => false
    end
  end.
