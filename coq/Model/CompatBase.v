(** Shared by the rueidiscompat argument models (C42): byte-string literals, decimal printing
    (strconv.FormatInt / FormatUint), tagged tokens and the normal form [norm] under which two
    commands "have the same meaning".  No proofs here. *)
From Coq Require Import List NArith ZArith String Ascii Bool Decimal.
Require Import RV.Model.Base.
Import ListNotations.

(** [bs "SET"] is the byte string of an ASCII literal *)
Fixpoint bs (s : string) : bytes :=
  match s with
  | EmptyString => []
  | String a r => N_of_ascii a :: bs r
  end.

(** ASCII upper-casing (Redis compares keywords with strcasecmp) *)
Definition up_byte (b : N) : N := if ((97 <=? b) && (b <=? 122))%N then (b - 32)%N else b.
Definition upper (s : bytes) : bytes := map up_byte s.
(** strings.ToLower *)
Definition low_byte (b : N) : N := if ((65 <=? b) && (b <=? 90))%N then (b + 32)%N else b.
Definition lower (s : bytes) : bytes := map low_byte s.

(** strconv.FormatUint(n, 10) *)
Fixpoint uint_bytes (u : Decimal.uint) : bytes :=
  match u with
  | Nil => []
  | D0 r => 48%N :: uint_bytes r | D1 r => 49%N :: uint_bytes r | D2 r => 50%N :: uint_bytes r
  | D3 r => 51%N :: uint_bytes r | D4 r => 52%N :: uint_bytes r | D5 r => 53%N :: uint_bytes r
  | D6 r => 54%N :: uint_bytes r | D7 r => 55%N :: uint_bytes r | D8 r => 56%N :: uint_bytes r
  | D9 r => 57%N :: uint_bytes r
  end.
Definition print_N (n : N) : bytes := uint_bytes (N.to_uint n).
(** strconv.FormatInt(z, 10) *)
Definition print_Z (z : Z) : bytes :=
  match z with
  | Z0 => [48%N]
  | Zpos p => print_N (Npos p)
  | Zneg p => 45%N :: print_N (Npos p)
  end.

(** int64(x) of a uint64 (two's complement reinterpretation) *)
Definition int64_of_uint64 (n : N) : Z :=
  if (n <? 2 ^ 63)%N then Z.of_N n else (Z.of_N n - 2 ^ 64)%Z.

(** A command is a list of tagged tokens.
    [K]: a token Redis reads case-insensitively (command name, option keyword, unit, direction …)
    [D]: data (key, value, number, id): compared byte for byte
    [O]: an optional token that only spells out the server's default ("=" after MAXLEN / MINID) *)
Inductive tok := K (s : bytes) | D (s : bytes) | O (s : bytes).

Definition render_tok (t : tok) : bytes := match t with K s | D s | O s => s end.
Definition render (l : list tok) : list bytes := map render_tok l.

Definition tok_eqb (a b : tok) : bool :=
  match a, b with
  | K x, K y | D x, D y | O x, O y => bytes_eqb x y
  | _, _ => false
  end.

Definition norm_tok (t : tok) : list tok :=
  match t with K s => [K (upper s)] | D s => [D s] | O _ => [] end.
Definition norm_toks (l : list tok) : list tok := flat_map norm_tok l.

(** The options of SET may come in any order: canonical order NX XX KEEPTTL <expiry> GET, then
    whatever else was given (in the order given). Input: normalised tokens after key and value. *)
Record setopts := mkSO {
  so_nx : bool; so_xx : bool; so_keep : bool; so_get : bool;
  so_exp : option (bytes * bytes); so_rest : list tok }.

Definition kw (s : string) : bytes := bs s.
Definition is_kw (s : bytes) (w : string) : bool := bytes_eqb s (bs w).

Fixpoint parse_set (l : list tok) (o : setopts) : setopts :=
  match l with
  | [] => o
  | K s :: r =>
    if is_kw s "NX" then parse_set r (mkSO true (so_xx o) (so_keep o) (so_get o) (so_exp o) (so_rest o))
    else if is_kw s "XX" then parse_set r (mkSO (so_nx o) true (so_keep o) (so_get o) (so_exp o) (so_rest o))
    else if is_kw s "KEEPTTL" then parse_set r (mkSO (so_nx o) (so_xx o) true (so_get o) (so_exp o) (so_rest o))
    else if is_kw s "GET" then parse_set r (mkSO (so_nx o) (so_xx o) (so_keep o) true (so_exp o) (so_rest o))
    else if (is_kw s "EX" || is_kw s "PX" || is_kw s "EXAT" || is_kw s "PXAT") then
      match r, so_exp o with
      | D n :: r', None => parse_set r' (mkSO (so_nx o) (so_xx o) (so_keep o) (so_get o) (Some (s, n)) (so_rest o))
      | _, _ => parse_set r (mkSO (so_nx o) (so_xx o) (so_keep o) (so_get o) (so_exp o) (so_rest o ++ [K s]))
      end
    else parse_set r (mkSO (so_nx o) (so_xx o) (so_keep o) (so_get o) (so_exp o) (so_rest o ++ [K s]))
  | t :: r => parse_set r (mkSO (so_nx o) (so_xx o) (so_keep o) (so_get o) (so_exp o) (so_rest o ++ [t]))
  end.

Definition print_set (o : setopts) : list tok :=
  (if so_nx o then [K (kw "NX")] else []) ++ (if so_xx o then [K (kw "XX")] else []) ++
  (if so_keep o then [K (kw "KEEPTTL")] else []) ++
  (match so_exp o with Some (k, n) => [K k; D n] | None => [] end) ++
  (if so_get o then [K (kw "GET")] else []) ++ so_rest o.

Definition canon (l : list tok) : list tok :=
  match l with
  | K c :: D k :: D v :: opts =>
    if is_kw c "SET" then K c :: D k :: D v :: print_set (parse_set opts (mkSO false false false false None []))
    else l
  | _ => l
  end.

(** the normal form: keywords upper-cased, default-only tokens dropped, SET options in canonical order *)
Definition norm (l : list tok) : list tok := canon (norm_toks l).

(** what reaches the server, up to [norm]; [None] = nothing is sent (error returned or panic) *)
Definition wire (r : result (list tok)) : option (list tok) :=
  match r with Ok l => Some (norm l) | _ => None end.

(** exact argv (for the correspondence with the implementation) *)
Definition argv_of (r : result (list tok)) : result (list bytes) :=
  match r with Ok l => Ok (render l) | Err e => Err e | Panic => Panic end.
