(** The connection pipeline as a labelled transition system — C01 / C04 / C05.  Definitions only.

    Threads: any number of callers (Do / DoMulti, one call per thread id), any number of Close() calls,
    the writer goroutine (_backgroundWrite), the reader / clean-up goroutine (_background,
    _backgroundRead), the server at the other end of the wire, and the environment (context
    cancellation, connection failure, an _exit from the keep-alive watchdog).  A schedule is a list of
    labels; [prun] runs it.  Every blocking operation of the Go code is a step whose guard is the
    condition under which it can complete.

    What is transcribed (pipe.go): Do / DoMulti around the waits counter and the state word
    (0 sync, 1 background, 2 closing, 4 closed), syncDo / syncDoMulti, background(), _exit,
    _backgroundWrite (with its buffered writes), _backgroundRead through [reader_step] and its deferred
    function [reader_exit], the tail of _background (sacrificial PING, clean-up loop, state 4), Close.
    The queue is the abstract FIFO of [PipeQueue]; for the ring, NextWriteCmd needs the lock of the
    position it inspects, which the reader holds from NextResultCh to FinishResult ([wnext_blocked]).

    The server ([ServerProto]): answers the commands it receives in order — one non-push reply per
    ordinary command, the n confirmation pushes of an n-channel subscribe contiguously, the PONG of the
    PING that the writer appends to an unsubscribe — and may send out-of-band pushes between commands
    (messages, invalidations, unsubscribe notifications: its own confirmations of an unsubscribe are of
    that kind, the reader ignores all of them).

    Not modelled: blcksig (Close's "is a blocking command running" test is an input of the Close label),
    recvs (upper half of the counter, only read by the watchdog), timers, the contents of the cache and
    of the pub/sub registry ([cache_closed] is a flag), SetPubSubHooks, r2p (the RESP2 pub/sub side
    pipe is another instance of this LTS with [g_r2ps = true]), DoStream. *)
From Coq Require Import List NArith ZArith Bool Arith String.
Require Import RV.Model.Base RV.Model.PipeQueue RV.Model.Pipe.
Import ListNotations.
Open Scope N_scope.

(** * Server protocol *)

(** What the writer put on the wire and the server has to answer: one item per command of a slot.
    (For an unsubscribe command the item stands for the PING written right after it; the
    UNSUBSCRIBE itself is answered by unsubscribe notifications only, which are out-of-band pushes.) *)
Inductive witem := WReply (c : cmd) | WSub (c : cmd) | WPing (c : cmd).

Definition witem_of (c : cmd) : witem :=
  if c_unsub c then WPing c else if c_noreply c then WSub c else WReply c.

Record server := mkSrv {
  sv_reply : cmd -> msg;            (* reply to an ordinary command *)
  sv_confirm : cmd -> list msg;     (* confirmation pushes of a subscribe command *)
  sv_pong : cmd -> msg              (* reply to the PING appended to an unsubscribe command *)
}.

Definition frames_of (sv : server) (w : witem) : list msg :=
  match w with
  | WReply c => [sv_reply sv c]
  | WSub c => sv_confirm sv c
  | WPing c => [sv_pong sv c]
  end.

(** The result the caller must be handed for command c. *)
Definition result_of (sv : server) (c : cmd) : msg :=
  if c_unsub c then snd (is_unsub_reply (sv_pong sv c))
  else if c_noreply c then empty_msg
  else sv_reply sv c.

Definition push_class (m : msg) : bool * bool := fst (handle_push (m_vals m)).

(** Out-of-band push: handlePush does not call it a reply, or calls it an unsubscribe notification. *)
Definition free_push (r2ps : bool) (m : msg) : bool :=
  is_push_frame r2ps m && (negb (fst (push_class m)) || snd (push_class m)).

Definition sub_confirm (r2ps : bool) (m : msg) : bool :=
  is_push_frame r2ps m && fst (push_class m) && negb (snd (push_class m)).

(** ServerProto: well-formedness of the server's answers for command c. *)
Definition cmd_served_ok (r2ps : bool) (sv : server) (c : cmd) : bool :=
  if c_unsub c then
    negb (is_push_frame r2ps (sv_pong sv c)) && fst (is_unsub_reply (sv_pong sv c)) &&
    negb (bytes_eqb (m_str (sv_pong sv c)) (b "QUEUED"%string))
  else if c_noreply c then
    forallb (sub_confirm r2ps) (sv_confirm sv c) &&
    Nat.eqb (S (List.length (sv_confirm sv c))) (c_argc c) && Nat.leb 2 (c_argc c)
  else negb (is_push_frame r2ps (sv_reply sv c)).

(** * State *)

Inductive qkind := Ring | Flow.

Inductive err := ECtx | EClosing | EConn | EWatchdog.

Inductive result := RMsg (m : msg) | RErr (e : err).

Inductive ctxk := CtxBg | CtxCancel | CtxDeadline.   (* Done()==nil | cancellable without deadline | with deadline *)

Record config := mkCfg {
  g_kind : qkind;
  g_cap : nat;
  g_r2ps : bool;
  g_ver : Z;
  g_srv : server
}.

(** Program counter of a caller (Do / DoMulti). *)
Inductive pc :=
| PIdle
| PIncr                 (* ctx.Err() was nil; about to incrWaits *)
| PLoad (w : nat)       (* incrWaits returned w; about to load p.state *)
| PBg                   (* state 0, w = 1, must not run synchronously: about to call background(), then queue *)
| PSyncW                (* about to write its commands itself (syncDo / syncDoMulti) *)
| PSyncR (k : nat)      (* k replies still to read *)
| PErr                  (* state >= 2: about to fill in p.Error() *)
| PDecr (st0 : bool)    (* leaveSync: st0 = the state it loaded was 0 (and there is a queue): about to try the
                           compare-and-swap waits 1 -> 0; otherwise about to decrWaitsAndIncrRecvs *)
| PBgAfter              (* state == 0 and others are counted: about to call background(), its own count still held *)
| PPut                  (* about to PutOne / PutMulti *)
| PWait                 (* select on the result channel and ctx.Done *)
| PGot                  (* received from the channel; about to decrWaitsAndIncrRecvs *)
| PRet.                 (* returned *)

(** The goroutine an abandoning caller leaves behind: `<-ch; decrWaitsAndIncrRecvs()`. *)
Inductive dpc := DNone | DWait | DGot | DDone.

Record crec := mkC {
  k_cmds : list cmd;
  k_multi : bool;
  k_ctx : ctxk;
  k_ctxput : bool;        (* PutOne observes the context (false for the PINGs of Close / _background) *)
  k_done : bool;          (* ctx.Done() is closed *)
  k_donestart : bool;     (* ghost: the context was already done when the call started *)
  k_pc : pc;
  k_res : list result;    (* resps (PutMulti) / the value sent on the channel (PutOne), in index order *)
  k_comp : bool;          (* a value is ready on the slot's channel *)
  k_ret : option (list result);
  k_drain : dpc
}.

Definition c_idle : crec := mkC [] false CtxBg true false false PIdle [] false None DNone.

Definition ping_cmd : cmd := mkCmd 0 1 false false false false false false.

(** Close() *)
Inductive kpc :=
| KIdle
| K1 (w : nat)                    (* error latched, waits incremented (returned w) *)
| K2 (bg ping : bool)             (* CAS done: must still call background() / must still PutOne(PING) *)
| KWait (t' : N)                  (* waiting for the PING (or 1 s) *)
| K5                              (* about to decrWaits and close the connection *)
| KDone.

(** _backgroundWrite *)
Inductive wpc := WOff | WRun | WDone.

(** _background: reader loop, then the tail *)
Inductive bpc :=
| BOff
| BRead (r : rstate)
| BPost            (* reader returned, _exit done; about to decide on the sacrificial PING *)
| BClean           (* clean-up loop *)
| BWaitClose       (* loop left with waits = 0; <-p.close *)
| BDone.           (* state = 4 *)

Record pstate := mkP {
  p_st : N;
  p_bg : bool;                    (* bgState *)
  p_waits : nat;
  p_err : option err;
  p_q : queue slot;
  p_w : wpc;
  p_wbuf : list witem;            (* written into the bufio.Writer, not flushed *)
  p_wclosed : bool;               (* p.close is closed *)
  p_conn : bool;                  (* connection open *)
  p_c2s : list witem;
  p_s2c : list msg;
  p_b : bpc;
  p_cache_closed : bool;
  p_calls : N -> crec;
  p_tids : list N;
  p_closers : N -> kpc;
  p_ktids : list N;
  (* ghost history *)
  p_wlog : list slot;             (* slots handed to the writer, in order *)
  p_dlog : list (N * nat * msg);  (* replies handed out by the reader: (owner, index, message) in order *)
  p_sent : list N                 (* owners whose commands were put on the wire (by themselves or by the writer) *)
}.

Definition p_init (g : config) : pstate :=
  mkP 0 false 0 None (q_empty (g_cap g)) WOff [] false true [] [] BOff false (fun _ => c_idle) [] (fun _ => KIdle) [] [] [] [].

(** record updates *)
Definition upd {A} (f : N -> A) (t : N) (x : A) : N -> A := fun u => if N.eqb u t then x else f u.

Definition set_calls (s : pstate) (c : N -> crec) : pstate :=
  mkP (p_st s) (p_bg s) (p_waits s) (p_err s) (p_q s) (p_w s) (p_wbuf s) (p_wclosed s) (p_conn s) (p_c2s s) (p_s2c s)
      (p_b s) (p_cache_closed s) c (p_tids s) (p_closers s) (p_ktids s) (p_wlog s) (p_dlog s) (p_sent s).
Definition set_call (s : pstate) (t : N) (c : crec) : pstate := set_calls s (upd (p_calls s) t c).
Definition set_waits (s : pstate) (n : nat) : pstate :=
  mkP (p_st s) (p_bg s) n (p_err s) (p_q s) (p_w s) (p_wbuf s) (p_wclosed s) (p_conn s) (p_c2s s) (p_s2c s)
      (p_b s) (p_cache_closed s) (p_calls s) (p_tids s) (p_closers s) (p_ktids s) (p_wlog s) (p_dlog s) (p_sent s).
Definition set_q (s : pstate) (q : queue slot) : pstate :=
  mkP (p_st s) (p_bg s) (p_waits s) (p_err s) q (p_w s) (p_wbuf s) (p_wclosed s) (p_conn s) (p_c2s s) (p_s2c s)
      (p_b s) (p_cache_closed s) (p_calls s) (p_tids s) (p_closers s) (p_ktids s) (p_wlog s) (p_dlog s) (p_sent s).
Definition set_b (s : pstate) (x : bpc) : pstate :=
  mkP (p_st s) (p_bg s) (p_waits s) (p_err s) (p_q s) (p_w s) (p_wbuf s) (p_wclosed s) (p_conn s) (p_c2s s) (p_s2c s)
      x (p_cache_closed s) (p_calls s) (p_tids s) (p_closers s) (p_ktids s) (p_wlog s) (p_dlog s) (p_sent s).
Definition set_wire (s : pstate) (c2s : list witem) (s2c : list msg) : pstate :=
  mkP (p_st s) (p_bg s) (p_waits s) (p_err s) (p_q s) (p_w s) (p_wbuf s) (p_wclosed s) (p_conn s) c2s s2c
      (p_b s) (p_cache_closed s) (p_calls s) (p_tids s) (p_closers s) (p_ktids s) (p_wlog s) (p_dlog s) (p_sent s).
Definition set_wbuf (s : pstate) (x : list witem) : pstate :=
  mkP (p_st s) (p_bg s) (p_waits s) (p_err s) (p_q s) (p_w s) x (p_wclosed s) (p_conn s) (p_c2s s) (p_s2c s)
      (p_b s) (p_cache_closed s) (p_calls s) (p_tids s) (p_closers s) (p_ktids s) (p_wlog s) (p_dlog s) (p_sent s).
Definition set_closer (s : pstate) (t : N) (k : kpc) : pstate :=
  mkP (p_st s) (p_bg s) (p_waits s) (p_err s) (p_q s) (p_w s) (p_wbuf s) (p_wclosed s) (p_conn s) (p_c2s s) (p_s2c s)
      (p_b s) (p_cache_closed s) (p_calls s) (p_tids s) (upd (p_closers s) t k) (p_ktids s) (p_wlog s) (p_dlog s) (p_sent s).
Definition set_sent (s : pstate) (x : list N) : pstate :=
  mkP (p_st s) (p_bg s) (p_waits s) (p_err s) (p_q s) (p_w s) (p_wbuf s) (p_wclosed s) (p_conn s) (p_c2s s) (p_s2c s)
      (p_b s) (p_cache_closed s) (p_calls s) (p_tids s) (p_closers s) (p_ktids s) (p_wlog s) (p_dlog s) x.

Definition with_pc (c : crec) (x : pc) : crec :=
  mkC (k_cmds c) (k_multi c) (k_ctx c) (k_ctxput c) (k_done c) (k_donestart c) x (k_res c) (k_comp c) (k_ret c) (k_drain c).
Definition with_res (c : crec) (r : list result) : crec :=
  mkC (k_cmds c) (k_multi c) (k_ctx c) (k_ctxput c) (k_done c) (k_donestart c) (k_pc c) r (k_comp c) (k_ret c) (k_drain c).
Definition with_comp (c : crec) (x : bool) : crec :=
  mkC (k_cmds c) (k_multi c) (k_ctx c) (k_ctxput c) (k_done c) (k_donestart c) (k_pc c) (k_res c) x (k_ret c) (k_drain c).
Definition with_ret (c : crec) (r : list result) : crec :=
  mkC (k_cmds c) (k_multi c) (k_ctx c) (k_ctxput c) (k_done c) (k_donestart c) PRet (k_res c) (k_comp c) (Some r) (k_drain c).
Definition with_drain (c : crec) (d : dpc) : crec :=
  mkC (k_cmds c) (k_multi c) (k_ctx c) (k_ctxput c) (k_done c) (k_donestart c) (k_pc c) (k_res c) (k_comp c) (k_ret c) d.
Definition with_done (c : crec) : crec :=
  mkC (k_cmds c) (k_multi c) (k_ctx c) (k_ctxput c) true (k_donestart c) (k_pc c) (k_res c) (k_comp c) (k_ret c) (k_drain c).

Definition errs_for (c : crec) (e : err) : list result := map (fun _ => RErr e) (k_cmds c).

(** background(): CAS(state,0,1); CAS(bgState,0,1) and start the two goroutines.
    (Callers only reach it on a pipe that has a queue.) *)
Definition do_background (s : pstate) : pstate :=
  let st' := if N.eqb (p_st s) 0 then 1 else p_st s in
  if p_bg s then
    mkP st' true (p_waits s) (p_err s) (p_q s) (p_w s) (p_wbuf s) (p_wclosed s) (p_conn s) (p_c2s s) (p_s2c s)
        (p_b s) (p_cache_closed s) (p_calls s) (p_tids s) (p_closers s) (p_ktids s) (p_wlog s) (p_dlog s) (p_sent s)
  else
    mkP st' true (p_waits s) (p_err s) (p_q s) WRun (p_wbuf s) (p_wclosed s) (p_conn s) (p_c2s s) (p_s2c s)
        (BRead r_init) (p_cache_closed s) (p_calls s) (p_tids s) (p_closers s) (p_ktids s) (p_wlog s) (p_dlog s) (p_sent s).

(** _exit(err): latch the first error, CAS(state,1,2), close the connection. *)
Definition do_exit (s : pstate) (e : err) : pstate :=
  mkP (if N.eqb (p_st s) 1 then 2 else p_st s) (p_bg s) (p_waits s)
      (match p_err s with None => Some e | x => x end)
      (p_q s) (p_w s) (p_wbuf s) (p_wclosed s) false (p_c2s s) (p_s2c s)
      (p_b s) (p_cache_closed s) (p_calls s) (p_tids s) (p_closers s) (p_ktids s) (p_wlog s) (p_dlog s) (p_sent s).

(** Error latch without _exit (syncDo failure path and Close): CompareAndSwap(nil, e). *)
Definition latch (s : pstate) (e : err) (close_conn : bool) : pstate :=
  mkP (p_st s) (p_bg s) (p_waits s)
      (match p_err s with None => Some e | x => x end)
      (p_q s) (p_w s) (p_wbuf s) (p_wclosed s) (if close_conn then false else p_conn s) (p_c2s s) (p_s2c s)
      (p_b s) (p_cache_closed s) (p_calls s) (p_tids s) (p_closers s) (p_ktids s) (p_wlog s) (p_dlog s) (p_sent s).

Definition the_err (s : pstate) : err := match p_err s with Some e => e | None => EConn end.

Definition slot_of (t : N) (c : crec) : slot := mkSlot t (k_multi c) (k_cmds c).

(** NextWriteCmd of the ring locks the position it inspects; the reader keeps the lock of the position
    it took from NextResultCh until FinishResult.  The two coincide exactly when every other position
    is in the written state. *)
Definition wnext_blocked (g : config) (q : queue slot) : bool :=
  match g_kind g with
  | Ring => q_held q && Nat.eqb (S (List.length (q_wr q))) (q_cap q)
  | Flow => false
  end.

(** Effects of the reader's actions on the call records and on the delivery log. *)
Definition apply_act (owner : N) (multi : bool) (s : pstate) (a : action) : pstate :=
  let c := p_calls s owner in
  match a with
  | AStore i m =>
    let s1 := set_call s owner (with_res c (k_res c ++ [RMsg m])) in
    mkP (p_st s1) (p_bg s1) (p_waits s1) (p_err s1) (p_q s1) (p_w s1) (p_wbuf s1) (p_wclosed s1) (p_conn s1) (p_c2s s1) (p_s2c s1)
        (p_b s1) (p_cache_closed s1) (p_calls s1) (p_tids s1) (p_closers s1) (p_ktids s1) (p_wlog s1) (p_dlog s1 ++ [(owner, i, m)]) (p_sent s1)
  | AComplete m =>
    if multi then set_q (set_call s owner (with_comp c true)) (q_finish (p_q s))
    else
      let s1 := set_q (set_call s owner (with_comp (with_res c (k_res c ++ [RMsg m])) true)) (q_finish (p_q s)) in
      mkP (p_st s1) (p_bg s1) (p_waits s1) (p_err s1) (p_q s1) (p_w s1) (p_wbuf s1) (p_wclosed s1) (p_conn s1) (p_c2s s1) (p_s2c s1)
          (p_b s1) (p_cache_closed s1) (p_calls s1) (p_tids s1) (p_closers s1) (p_ktids s1) (p_wlog s1) (p_dlog s1 ++ [(owner, 0%nat, m)]) (p_sent s1)
  | ATakeNext true =>
    match q_next_result (p_q s) with
    | Some (_, q') => set_q s q'
    | None => s
    end
  | _ => s
  end.

(** IsUnsub() implies NoReply(): unsubTag contains noRetTag (internal/cmds/cmds.go) *)
Definition wf_cmd (c : cmd) : bool := implb (c_unsub c) (c_noreply c).

(** * Labels *)
Inductive label :=
(* callers *)
| LCall (t : N) (cmds : list cmd) (multi : bool) (ck : ctxk)
| LIncr (t : N) | LLoad (t : N) | LBg (t : N)
| LSyncW (t : N) | LSyncR (t : N) | LSyncFail (t : N) (ctxerr : bool)
| LErr (t : N) | LDecr (t : N) | LBgAfter (t : N)
| LPut (t : N) | LPutFail (t : N)
| LRecv (t : N) | LAbort (t : N) | LFin (t : N)
| LDrainRecv (t : N) | LDrainFin (t : N)
| LCtxDone (t : N)
(* writer, server, reader *)
| LWNext | LWFlush | LWExit
| LSrv | LSrvPush (m : msg)
| LRStep | LRFail
(* tail of _background *)
| LPostSkip | LPostPing (t' : N)
| LCleanNW | LCleanNR | LCleanSpin | LCleanExit | LFinal
(* environment *)
| LFail | LExtExit
(* Close *)
| LClose1 (t : N) | LClose2 (t : N) (block1 : bool) | LClose3 (t : N) | LClose4 (t t' : N) | LCloseJoin (t : N) | LClose5 (t : N).

Definition fresh (s : pstate) (t : N) : bool :=
  negb (existsb (N.eqb t) (p_tids s)) && negb (existsb (N.eqb t) (p_ktids s)).

Definition add_tid (s : pstate) (t : N) : pstate :=
  mkP (p_st s) (p_bg s) (p_waits s) (p_err s) (p_q s) (p_w s) (p_wbuf s) (p_wclosed s) (p_conn s) (p_c2s s) (p_s2c s)
      (p_b s) (p_cache_closed s) (p_calls s) (t :: p_tids s) (p_closers s) (p_ktids s) (p_wlog s) (p_dlog s) (p_sent s).
Definition add_ktid (s : pstate) (t : N) : pstate :=
  mkP (p_st s) (p_bg s) (p_waits s) (p_err s) (p_q s) (p_w s) (p_wbuf s) (p_wclosed s) (p_conn s) (p_c2s s) (p_s2c s)
      (p_b s) (p_cache_closed s) (p_calls s) (p_tids s) (p_closers s) (t :: p_ktids s) (p_wlog s) (p_dlog s) (p_sent s).

(** A pseudo-call that starts at PutOne(ctx.Background(), PING) with its count already taken. *)
Definition ping_call : crec := mkC [ping_cmd] false CtxCancel false false false PPut [] false None DNone.

(** does the call have to leave the synchronous path?  (Do: cmd.NoReply(); DoMulti: isOptIn || noReply != 0;
    both: a cancellable context without deadline) *)
Definition needs_bg (c : crec) : bool :=
  existsb c_noreply (k_cmds c) ||
  (k_multi c && match k_cmds c with c0 :: _ => c_optin c0 | [] => false end) ||
  match k_ctx c with CtxCancel => true | _ => false end.

(** * The step function *)
Definition pstep (g : config) (s : pstate) (l : label) : option pstate :=
  match l with
  (* ---- Do / DoMulti ---- *)
  | LCall t cmds multi ck =>
    (* a new call (its context may be cancelled before it looks at it: [LCtxDone] at [PIncr]) *)
    if fresh s t && negb (match cmds with [] => true | _ => false end) && (multi || Nat.eqb (List.length cmds) 1)
       && forallb wf_cmd cmds then
      Some (add_tid (set_call s t (mkC cmds multi ck true false false PIncr [] false None DNone)) t)
    else None
  | LCtxDone t =>
    (* the environment cancels the context / its deadline passes *)
    let c := p_calls s t in
    match k_ctx c, k_pc c with
    | CtxBg, _ => None
    | _, PIdle => None
    | _, _ => if k_done c then None else Some (set_call s t (with_done c))
    end
  | LIncr t =>
    (* `if err := ctx.Err(); err != nil { return err }` ... `waits := p.incrWaits()` *)
    let c := p_calls s t in
    match k_pc c with
    | PIncr =>
      if k_done c then
        Some (set_call s t (mkC (k_cmds c) (k_multi c) (k_ctx c) (k_ctxput c) true true PRet [] false
                                (Some (errs_for c ECtx)) DNone))
      else Some (set_call (set_waits s (S (p_waits s))) t (with_pc c (PLoad (S (p_waits s)))))
    | _ => None
    end
  | LLoad t =>
    let c := p_calls s t in
    match k_pc c with
    | PLoad w =>
      if N.eqb (p_st s) 1 then Some (set_call s t (with_pc c PPut))
      else if N.eqb (p_st s) 0 then
        if negb (Nat.eqb w 1) then Some (set_call s t (with_pc c PPut))
        else if needs_bg c then Some (set_call s t (with_pc c PBg))
        else Some (set_call s t (with_pc c PSyncW))
      else Some (set_call s t (with_pc c PErr))
    | _ => None
    end
  | LBg t =>
    let c := p_calls s t in
    match k_pc c with
    | PBg => Some (set_call (do_background s) t (with_pc c PPut))
    | _ => None
    end
  | LSyncW t =>
    (* flushCmd / writeCmd* + Flush on an open connection *)
    let c := p_calls s t in
    match k_pc c with
    | PSyncW =>
      if p_conn s then
        Some (set_sent (set_call (set_wire s (p_c2s s ++ map witem_of (k_cmds c)) (p_s2c s)) t
                                 (with_pc c (PSyncR (List.length (k_cmds c))))) (t :: p_sent s))
      else None
    | _ => None
    end
  | LSyncR t =>
    (* syncRead: one frame; RESP3 pushes are skipped *)
    let c := p_calls s t in
    match k_pc c, p_s2c s with
    | PSyncR (S k), f :: r =>
      if N.eqb (m_typ f) t_push then Some (set_wire s (p_c2s s) r)
      else
        let c1 := with_res c (k_res c ++ [RMsg f]) in
        Some (set_call (set_wire s (p_c2s s) r) t
                       (match k with O => with_pc c1 (PDecr true) | _ => with_pc c1 (PSyncR k) end))
    | _, _ => None
    end
  | LSyncFail t ctxerr =>
    (* write or read error (connection closed, deadline): latch, close, background(), all results = err.
       ctxerr: the failure is the connection deadline derived from the context's deadline. *)
    let c := p_calls s t in
    let failing := match k_pc c with PSyncW | PSyncR _ => true | _ => false end in
    let cause_ok := if ctxerr then (match k_ctx c with CtxDeadline => k_done c | _ => false end) else true in
    if failing && cause_ok then
      let e := if ctxerr then ECtx else EConn in
      (* the connection is closed: what was in flight is lost, and the failed read left no complete
         frame in the bufio.Reader for the background reader to find *)
      let s1 := do_background (set_wire (latch s e true) [] []) in
      Some (set_call s1 t (with_pc (with_res c (errs_for c e)) (PDecr true)))
    else None
  | LErr t =>
    let c := p_calls s t in
    match k_pc c with
    | PErr => Some (set_call s t (with_pc (with_res c (errs_for c (the_err s))) (PDecr false)))
    | _ => None
    end
  | LDecr t =>
    let c := p_calls s t in
    match k_pc c with
    | PDecr st0 =>
      (* leaveSync: `if state == 0 && p.queue != nil { if p.decrWaitsAndIncrRecvsIfLast() { return }; p.background() }
         p.decrWaitsAndIncrRecvs()` *)
      if st0 && negb (Nat.eqb (p_waits s) 1) then Some (set_call s t (with_pc c PBgAfter))
      else Some (set_call (set_waits s (pred (p_waits s))) t (with_ret c (k_res c)))
    | _ => None
    end
  | LBgAfter t =>
    let c := p_calls s t in
    match k_pc c with
    | PBgAfter => Some (set_call (do_background s) t (with_pc c (PDecr false)))
    | _ => None
    end
  | LPut t =>
    let c := p_calls s t in
    match k_pc c with
    | PPut =>
      match q_put (p_q s) (slot_of t c) with
      | Some q' => Some (set_call (set_q s q') t (with_pc c PWait))
      | None => None
      end
    | _ => None
    end
  | LPutFail t =>
    (* flow buffer only: `case <-ctx.Done(): return nil, ctx.Err()`; then decrWaits and return *)
    let c := p_calls s t in
    match k_pc c, g_kind g with
    | PPut, Flow =>
      if k_done c && k_ctxput c then
        Some (set_call (set_waits s (pred (p_waits s))) t (with_ret c (errs_for c ECtx)))
      else None
    | _, _ => None
    end
  | LRecv t =>
    let c := p_calls s t in
    match k_pc c with
    | PWait => if k_comp c then Some (set_call s t (with_pc (with_comp c false) PGot)) else None
    | _ => None
    end
  | LAbort t =>
    (* `case <-ctxCh: goto abort`: the call returns the context error, a goroutine keeps draining *)
    let c := p_calls s t in
    match k_pc c with
    | PWait => if k_done c then Some (set_call s t (with_drain (with_ret c (errs_for c ECtx)) DWait)) else None
    | _ => None
    end
  | LFin t =>
    let c := p_calls s t in
    match k_pc c with
    | PGot => Some (set_call (set_waits s (pred (p_waits s))) t (with_ret c (k_res c)))
    | _ => None
    end
  | LDrainRecv t =>
    let c := p_calls s t in
    match k_drain c with
    | DWait => if k_comp c then Some (set_call s t (with_drain (with_comp c false) DGot)) else None
    | _ => None
    end
  | LDrainFin t =>
    let c := p_calls s t in
    match k_drain c with
    | DGot => Some (set_call (set_waits s (pred (p_waits s))) t (with_drain c DDone))
    | _ => None
    end
  (* ---- _backgroundWrite ---- *)
  | LWNext =>
    (* NextWriteCmd / WaitForWrite handed over the oldest pending slot; its commands go into the buffer *)
    match p_w s with
    | WRun =>
      if wnext_blocked g (p_q s) then None
      else
        match q_next_write (p_q s) with
        | Some (sl, q') =>
          let s1 := set_wbuf (set_q s q') (p_wbuf s ++ map witem_of (s_cmds sl)) in
          Some (mkP (p_st s1) (p_bg s1) (p_waits s1) (p_err s1) (p_q s1) (p_w s1) (p_wbuf s1) (p_wclosed s1) (p_conn s1) (p_c2s s1) (p_s2c s1)
                    (p_b s1) (p_cache_closed s1) (p_calls s1) (p_tids s1) (p_closers s1) (p_ktids s1) (p_wlog s1 ++ [sl]) (p_dlog s1) (s_owner sl :: p_sent s1))
        | None => None
        end
    | _ => None
    end
  | LWFlush =>
    (* bufio flush (explicit when the queue is empty, implicit when the buffer is full) on an open connection *)
    match p_w s with
    | WRun => if p_conn s && negb (match p_wbuf s with [] => true | _ => false end)
              then Some (set_wbuf (set_wire s (p_c2s s ++ p_wbuf s) (p_s2c s)) []) else None
    | _ => None
    end
  | LWExit =>
    (* a write / flush failed: _backgroundWrite returns, _exit(err), close(p.close) *)
    match p_w s with
    | WRun =>
      if negb (p_conn s) && negb (match p_wbuf s with [] => true | _ => false end) then
        let s1 := do_exit s EConn in
        Some (mkP (p_st s1) (p_bg s1) (p_waits s1) (p_err s1) (p_q s1) WDone (p_wbuf s1) true (p_conn s1) (p_c2s s1) (p_s2c s1)
                  (p_b s1) (p_cache_closed s1) (p_calls s1) (p_tids s1) (p_closers s1) (p_ktids s1) (p_wlog s1) (p_dlog s1) (p_sent s1))
      else None
    | _ => None
    end
  (* ---- server ---- *)
  | LSrv =>
    match p_c2s s with
    | w :: r => if p_conn s then Some (set_wire s r (p_s2c s ++ frames_of (g_srv g) w)) else None
    | [] => None
    end
  | LSrvPush m =>
    (* an out-of-band push; the RESP2 array form only exists on a subscribed connection, i.e. after
       the background loops were started *)
    if p_conn s && free_push (g_r2ps g) m && (N.eqb (m_typ m) t_push || p_bg s)
    then Some (set_wire s (p_c2s s) (p_s2c s ++ [m])) else None
  (* ---- _backgroundRead ---- *)
  | LRStep =>
    match p_b s, p_s2c s with
    | BRead r, f :: rest =>
      let '(r', acts) := reader_step (g_r2ps g) (g_ver g) (hd_error (q_wr (p_q s))) r f in
      if existsb is_bad acts then None     (* a Go panic / the unmodelled workaround: no successor state *)
      else
        let s1 := set_wire s (p_c2s s) rest in
        let s2 := fold_left (apply_act (r_owner r') (r_resps r')) acts s1 in
        Some (set_b s2 (BRead r'))
    | _, _ => None
    end
  | LRFail =>
    (* readNextMessage failed (connection closed, malformed frame): deferred function, then _exit(err) *)
    match p_b s with
    | BRead r =>
        let e := match p_err s with Some e => e | None => EConn end in
        let '(idx, complete) := reader_exit r in
        let c := p_calls s (r_owner r) in
        let s1 := if complete then
                    set_q (set_call s (r_owner r)
                                    (with_comp (with_res c (k_res c ++ map (fun _ => RErr e)
                                                  (if r_resps r then idx else [0%nat]))) true))
                          (q_finish (p_q s))
                  else s in
        Some (set_b (do_exit s1 e) BPost)
    | _ => None
    end
  (* ---- tail of _background ---- *)
  | LPostSkip =>
    match p_b s with
    | BPost => if p_wclosed s then
                 let s1 := set_b s BClean in
                 Some (mkP (p_st s1) (p_bg s1) (p_waits s1) (p_err s1) (p_q s1) (p_w s1) (p_wbuf s1) (p_wclosed s1) (p_conn s1) (p_c2s s1) (p_s2c s1)
                           (p_b s1) true (p_calls s1) (p_tids s1) (p_closers s1) (p_ktids s1) (p_wlog s1) (p_dlog s1) (p_sent s1))
               else None
    | _ => None
    end
  | LPostPing t' =>
    match p_b s with
    | BPost => if negb (p_wclosed s) && fresh s t' then
                 let s1 := add_tid (set_call (set_waits (set_b s BClean) (S (p_waits s))) t' ping_call) t' in
                 Some (mkP (p_st s1) (p_bg s1) (p_waits s1) (p_err s1) (p_q s1) (p_w s1) (p_wbuf s1) (p_wclosed s1) (p_conn s1) (p_c2s s1) (p_s2c s1)
                           (p_b s1) true (p_calls s1) (p_tids s1) (p_closers s1) (p_ktids s1) (p_wlog s1) (p_dlog s1) (p_sent s1))
               else None
    | _ => None
    end
  | LCleanNW =>
    (* `case <-p.close: p.queue.NextWriteCmd()` *)
    match p_b s with
    | BClean =>
      if p_wclosed s && negb (Nat.eqb (p_waits s) 0) then
        match q_next_write (p_q s) with
        | Some (_, q') => Some (set_q s q')
        | None => None
        end
      else None
    | _ => None
    end
  | LCleanNR =>
    (* NextResultCh returned a slot: every result = the latched error, send on its channel, FinishResult *)
    match p_b s with
    | BClean =>
      if negb (Nat.eqb (p_waits s) 0) then
        match q_next_result (p_q s) with
        | Some (sl, q') =>
          let c := p_calls s (s_owner sl) in
          Some (set_q (set_call s (s_owner sl) (with_comp (with_res c (errs_for c (the_err s))) true)) (q_finish q'))
        | None => None
        end
      else None
    | _ => None
    end
  | LCleanSpin =>
    (* nothing to hand out: FinishResult, runtime.Gosched() *)
    match p_b s with
    | BClean => if negb (Nat.eqb (p_waits s) 0) then Some s else None
    | _ => None
    end
  | LCleanExit =>
    match p_b s with
    | BClean => if Nat.eqb (p_waits s) 0 then Some (set_b s BWaitClose) else None
    | _ => None
    end
  | LFinal =>
    match p_b s with
    | BWaitClose =>
      if p_wclosed s then
        let s1 := set_b s BDone in
        Some (mkP 4 (p_bg s1) (p_waits s1) (p_err s1) (p_q s1) (p_w s1) (p_wbuf s1) (p_wclosed s1) (p_conn s1) (p_c2s s1) (p_s2c s1)
                  (p_b s1) (p_cache_closed s1) (p_calls s1) (p_tids s1) (p_closers s1) (p_ktids s1) (p_wlog s1) (p_dlog s1) (p_sent s1))
      else None
    | _ => None
    end
  (* ---- environment ---- *)
  | LFail =>
    (* the peer or the network closed the connection *)
    if p_conn s then
      Some (mkP (p_st s) (p_bg s) (p_waits s) (p_err s) (p_q s) (p_w s) (p_wbuf s) (p_wclosed s) false (p_c2s s) (p_s2c s)
                (p_b s) (p_cache_closed s) (p_calls s) (p_tids s) (p_closers s) (p_ktids s) (p_wlog s) (p_dlog s) (p_sent s))
    else None
  | LExtExit => Some (do_exit s EWatchdog)
  (* ---- Close ---- *)
  | LClose1 t =>
    if fresh s t then
      let s1 := latch s EClosing false in
      Some (add_ktid (set_closer (set_waits s1 (S (p_waits s1))) t (K1 (S (p_waits s1)))) t)
    else None
  | LClose2 t block1 =>
    match p_closers s t with
    | K1 w =>
      let stopping1 := N.eqb (p_st s) 0 in
      let stopping2 := N.eqb (p_st s) 1 in
      let s1 := mkP (if stopping1 || stopping2 then 2 else p_st s) (p_bg s) (p_waits s) (p_err s) (p_q s) (p_w s) (p_wbuf s) (p_wclosed s) (p_conn s) (p_c2s s) (p_s2c s)
                    (p_b s) (p_cache_closed s) (p_calls s) (p_tids s) (p_closers s) (p_ktids s) (p_wlog s) (p_dlog s) (p_sent s) in
      Some (set_closer s1 t (K2 (stopping1 && Nat.eqb w 1) (block1 && (stopping1 || stopping2))))
    | _ => None
    end
  | LClose3 t =>
    match p_closers s t with
    | K2 true ping => Some (set_closer (do_background s) t (K2 false ping))
    | K2 false false => Some (set_closer s t K5)
    | _ => None
    end
  | LClose4 t t' =>
    match p_closers s t with
    | K2 false true =>
      if fresh s t' then
        Some (set_closer (add_tid (set_call (set_waits s (S (p_waits s))) t' ping_call) t') t (KWait t'))
      else None
    | _ => None
    end
  | LCloseJoin t =>
    match p_closers s t with
    | KWait t' => match k_pc (p_calls s t') with PRet => Some (set_closer s t K5) | _ => None end
    | _ => None
    end
  | LClose5 t =>
    match p_closers s t with
    | K5 =>
      let s1 := set_closer (set_waits s (pred (p_waits s))) t KDone in
      Some (mkP (p_st s1) (p_bg s1) (p_waits s1) (p_err s1) (p_q s1) (p_w s1) (p_wbuf s1) (p_wclosed s1) false (p_c2s s1) (p_s2c s1)
                (p_b s1) (p_cache_closed s1) (p_calls s1) (p_tids s1) (p_closers s1) (p_ktids s1) (p_wlog s1) (p_dlog s1) (p_sent s1))
    | _ => None
    end
  end.

Fixpoint prun (g : config) (sched : list label) (s : pstate) : option pstate :=
  match sched with
  | [] => Some s
  | l :: r => match pstep g s l with Some s' => prun g r s' | None => None end
  end.

(** * Observables used by the theorems *)

(** the connection is being read or written by ... *)
Definition sync_user (c : crec) : bool := match k_pc c with PSyncW | PSyncR _ => true | _ => false end.
Definition bg_user (s : pstate) : bool :=
  (match p_w s with WRun => true | _ => false end) || (match p_b s with BRead _ => true | _ => false end).
Definition users (s : pstate) : nat :=
  List.length (filter (fun t => sync_user (p_calls s t)) (p_tids s)) + (if bg_user s then 1 else 0).

Inductive owner := Nobody | SyncCaller (t : N) | Background.

(** counts held on p.wrCounter *)
Definition holds (c : crec) : nat :=
  (match k_pc c with
   | PLoad _ | PBg | PSyncW | PSyncR _ | PErr | PDecr _ | PBgAfter | PPut | PWait | PGot => 1
   | _ => 0
   end +
   match k_drain c with DWait | DGot => 1 | _ => 0 end)%nat.
Definition kholds (k : kpc) : nat :=
  match k with K1 _ | K2 _ _ | KWait _ | K5 => 1 | _ => 0 end.
