(** Model of rueidislimiter/limiter.go (C38).

    Server side, per identifier: the counter key [prefix:{id}] and the window key [prefix:{id}:ex],
    both integers with an optional expiry instant ([rkey]); a key is visible while [now_s < pxat]
    (now_s = server clock when the script runs).  [script] is rateLimitScript statement by statement;
    its three arguments are computed by the caller from ITS clock ([now_c]): increment, now_c + window,
    now_c.  Client side: [allow_n] is AllowN (Check = AllowN 0, Allow = AllowN 1).

    Different identifiers use different keys ("prefix:{id}" / "prefix:{id}:ex" never coincide for
    different ids), so the store is a map from identifiers to the pair of keys.

    Not modelled: int64 overflow of INCRBY and the precision of Lua numbers above 2^53; SET … PXAT with a
    non-positive instant (a Redis error; instants are unix milliseconds). *)
From Coq Require Import List NArith ZArith Bool.
Require Import RV.Model.Base.
Import ListNotations.
Open Scope Z_scope.

(** a string key holding an integer: value and expiry instant (None = no expiry); None = no key *)
Definition rkey := option (Z * option Z).

Definition live (k : rkey) (now_s : Z) : option (Z * option Z) :=
  match k with
  | Some (v, Some p) => if now_s <? p then Some (v, Some p) else None
  | Some (v, None) => Some (v, None)
  | None => None
  end.

Record lstate := { cnt : rkey; ex : rkey }.
Definition lempty : lstate := {| cnt := None; ex := None |}.

(** INCRBY keeps the expiry of a visible key, creates a key without expiry otherwise *)
Definition incrby (k : rkey) (now_s d : Z) : rkey * Z :=
  match live k now_s with
  | Some (v, p) => (Some (v + d, p), v + d)
  | None => (Some (d, None), d)
  end.

(** rateLimitScript: KEYS = counter key, window key; ARGV = increment, next_expires_at, current_time *)
Definition script (s : lstate) (inc next now_c now_s : Z) : lstate * (Z * Z) :=
  let expires_at := match live (ex s) now_s with Some (v, _) => Some v | None => None end in   (* tonumber(GET) *)
  let fresh := match expires_at with None => true | Some e => e <? now_c end in
  let s1 := if fresh
            then {| cnt := Some (0, Some (next + 1000)); ex := Some (next, Some (next + 1000)) |}
            else s in
  let e1 := if fresh then next else match expires_at with Some e => e | None => next end in
  let '(c', current) := incrby (cnt s1) now_s inc in
  ({| cnt := c'; ex := ex s1 |}, (current, e1)).

Record lcall := { n : Z; limit : Z; window : Z; now_c : Z; now_s : Z }.
Record lres := { allowed : bool; remaining : Z; reset : Z; current : Z }.

(** AllowN *)
Definition allow_n (s : lstate) (c : lcall) : lstate * result lres :=
  if n c <? 0 then (s, Err 1)                                  (* ErrInvalidTokens, nothing is sent *)
  else
    let '(s', (cur, e)) := script s (n c) (now_c c + window c) (now_c c) (now_s c) in
    (s', Ok {| allowed := (cur <=? limit c) && ((0 <? n c) || (cur <? limit c));
               remaining := Z.max (limit c - cur) 0;
               reset := e;
               current := cur |}).

(** a history of one identifier: the calls in the order in which the server ran their scripts *)
Fixpoint lrun (s : lstate) (tr : list (lcall * result lres)) (calls : list lcall) : lstate * list (lcall * result lres) :=
  match calls with
  | [] => (s, tr)
  | c :: r => let '(s', o) := allow_n s c in lrun s' (tr ++ [(c, o)]) r
  end.

(** units requested / admitted in the window identified by ResetAtMs = R *)
Fixpoint requested (tr : list (lcall * result lres)) (R : Z) : Z :=
  match tr with
  | [] => 0
  | (c, Ok r) :: t => (if reset r =? R then n c else 0) + requested t R
  | _ :: t => requested t R
  end.

Fixpoint admitted (tr : list (lcall * result lres)) (R : Z) : Z :=
  match tr with
  | [] => 0
  | (c, Ok r) :: t => (if (reset r =? R) && allowed r && (0 <? n c) then n c else 0) + admitted t R
  | _ :: t => admitted t R
  end.

(** ---- several identifiers ---- *)
Record call := { cid : N; body : lcall }.
Definition store := N -> lstate.
Definition sempty_store : store := fun _ => lempty.
Definition upd (st : store) (i : N) (s : lstate) : store := fun j => if N.eqb j i then s else st j.

Fixpoint run (st : store) (tr : list (call * result lres)) (calls : list call) : store * list (call * result lres) :=
  match calls with
  | [] => (st, tr)
  | c :: r => let '(s', o) := allow_n (st (cid c)) (body c) in run (upd st (cid c) s') (tr ++ [(c, o)]) r
  end.

(** the part of a trace that belongs to one identifier *)
Fixpoint proj (id : N) (tr : list (call * result lres)) : list (lcall * result lres) :=
  match tr with
  | [] => []
  | (c, o) :: t => if N.eqb (cid c) id then (body c, o) :: proj id t else proj id t
  end.

Definition admitted_sum (tr : list (call * result lres)) (id : N) (R : Z) : Z := admitted (proj id tr) R.
Definition requested_sum (tr : list (call * result lres)) (id : N) (R : Z) : Z := requested (proj id tr) R.

(** hypotheses of the theorems: a positive window, and a server clock that is less than one second
    ahead of the caller's clock (the script keeps both keys for 1000 ms past the window's end) *)
Definition good (c : lcall) : Prop := 0 < window c /\ now_s c < now_c c + 1000.

(** ---- correspondence cases (printed by harness/cmd/obs_limiter) ----
    calls in the server's execution order, each with what the caller got back *)
Inductive limpl :=
| LRes (allowed : bool) (remaining reset current : Z)
| LErr.

Inductive case :=
| CLim (steps : list (N * Z * Z * Z * Z * Z * limpl)).   (* id, n, limit, window, now_c, now_s, observation *)

Definition res_agree (o : result lres) (i : limpl) : bool :=
  match o, i with
  | Ok r, LRes a rem rs cur => Bool.eqb (allowed r) a && (remaining r =? rem) && (reset r =? rs) && (current r =? cur)
  | Err _, LErr => true
  | _, _ => false
  end.

Fixpoint check_steps (st : store) (steps : list (N * Z * Z * Z * Z * Z * limpl)) : bool :=
  match steps with
  | [] => true
  | (id, cn, cl, cw, cc, cs, i) :: r =>
    let '(s', o) := allow_n (st id) {| n := cn; limit := cl; window := cw; now_c := cc; now_s := cs |} in
    res_agree o i && check_steps (upd st id s') r
  end.

Definition check_case (c : case) : bool :=
  match c with
  | CLim steps => check_steps sempty_store steps
  end.
