(** The reader abstraction under resp.go: the operations of [*bufio.Reader] (and io.ReadFull / io.CopyN
    on it) that the decoder uses, decoder programs as trees over these operations, and two
    interpretations:

      - the FLAT reader: the state is the byte stream still to come; every operation is given by what
        bufio documents (ReadSlice fails with ErrBufferFull when no LF occurs within the first B bytes,
        ReadBytes is unbounded, Peek returns what exists, Discard / ReadFull / CopyN report EOF kinds);
      - the CHUNKED reader: the state is (bytes already buffered, chunks the connection will still
        deliver, in order); every operation loops "use what is buffered, otherwise wait for the next
        chunk" exactly until it can answer.  A chunk that does not fit the free space of the real buffer is
        delivered by the real io.Reader in several pieces, i.e. as a different chunk list; all chunk lists
        are quantified over, so a chunk is never split here.

    [run] also carries the allocation meter: [OAlloc n] records that the decoder requested n bytes.
    Definitions only. *)
From Coq Require Import List Arith NArith ZArith Bool.
Require Import RV.Model.Base.
Require Export RV.Model.RespBase RV.Model.RespMsg.
Import ListNotations.
Open Scope N_scope.

(** error kinds (observers map Go errors to the same numbers, harness/resp/run.go) *)
Definition eEOF : N := 1.             (* io.EOF *)
Definition eUnexpectedEOF : N := 2.   (* io.ErrUnexpectedEOF *)
Definition eBufferFull : N := 3.      (* bufio.ErrBufferFull *)
Definition eNoCRLF : N := 4.          (* unexpectedNoCRLF *)
Definition eNumByte : N := 5.         (* unexpectedNumByte + byte *)
Definition eUnknownType : N := 6.     (* unknownMessageType + byte *)
Definition eChunked : N := 7.         (* errChunked (internal; escapes on ":?" and ";?") *)
Definition eNegativeCount : N := 8.   (* bufio.ErrNegativeCount *)
Definition eBadLength : N := 9.       (* unexpectedLength + n   (added by the fix for C13) *)
Definition eOldNull : N := 10.        (* errOldNull (internal, never returned by readNextMessage) *)
Definition eOutOfFuel : N := 99.      (* not a Go outcome *)

Inductive op : Type :=
| OReadByte                 (* ReadByte() *)
| OPeek (n : nat)           (* Peek(n), error ignored by the caller *)
| ODiscard (n : Z)          (* Discard(n) *)
| OReadSlice                (* ReadSlice('\n') *)
| OReadBytes                (* ReadBytes('\n') *)
| OReadFull (n : N)         (* io.ReadFull(i, buf) with len(buf) = n *)
| OCopyN (n : N)            (* io.CopyN(dst, i, n), n >= 0: the bytes handed to dst *)
| OAlloc (n : N)            (* allocation meter: n bytes requested *)
(* streamTo only: the caller's io.Writer.  In [run] / [run_chunked] the writer never fails; Model/RespStream.v
   interprets the same operations with a writer that fails after a budget of bytes. *)
| OCopyOut (n : N)          (* io.Copy(w, &io.LimitedReader{R: i, N: n}): answers the bytes written *)
| OWrite (d : bytes)        (* w.Write(d): answers the bytes written *)
| OWriterErr.               (* the error of the last OCopyOut / OWrite: Ok [] = nil *)

(** every operation answers with a byte string (possibly empty) or an error *)
Inductive prog (A : Type) : Type :=
| Ret (a : A)
| Op (o : op) (k : result bytes -> prog A).
Arguments Ret {A} a.
Arguments Op {A} o k.

Fixpoint bind {A B : Type} (p : prog A) (f : A -> prog B) : prog B :=
  match p with
  | Ret a => f a
  | Op o k => Op o (fun r => bind (k r) f)
  end.

Definition do_op (o : op) : prog (result bytes) := Op o Ret.

(** continue only on [Ok] *)
Definition bindr {A B : Type} (p : prog (result A)) (f : A -> prog (result B)) : prog (result B) :=
  bind p (fun r => match r with Ok a => f a | Err e => Ret (Err e) | Panic => Ret Panic end).

Definition alloc (n : N) : prog unit := Op (OAlloc n) (fun _ => Ret tt).

(** ---- the flat reader ---- *)

Definition LFb : N := 10.

(** index of the first LF *)
Fixpoint find_lf (s : bytes) : option nat :=
  match s with
  | [] => None
  | b :: r => if b =? LFb then Some O else match find_lf r with Some i => Some (S i) | None => None end
  end.

Definition flat_step (B : nat) (o : op) (s : bytes) : result bytes * bytes :=
  match o with
  | OReadByte => match s with [] => (Err eEOF, []) | b :: r => (Ok [b], r) end
  | OPeek n => (Ok (firstn n s), s)
  | ODiscard n =>
      if (n <? 0)%Z then (Err eNegativeCount, s)
      else if Z.to_N n <=? blen s then (Ok [], skipn (Z.to_nat n) s)
      else (Err eEOF, [])
  | OReadSlice =>
      match find_lf (firstn B s) with
      | Some i => (Ok (firstn (S i) s), skipn (S i) s)
      | None => if (B <=? length s)%nat then (Err eBufferFull, skipn B s) else (Err eEOF, [])
      end
  | OReadBytes =>
      match find_lf s with
      | Some i => (Ok (firstn (S i) s), skipn (S i) s)
      | None => (Err eEOF, [])
      end
  | OReadFull n =>
      if n =? 0 then (Ok [], s)
      else if n <=? blen s then (Ok (firstn (N.to_nat n) s), skipn (N.to_nat n) s)
      else match s with [] => (Err eEOF, []) | _ => (Err eUnexpectedEOF, []) end
  | OCopyN n =>
      if n <=? blen s then (Ok (firstn (N.to_nat n) s), skipn (N.to_nat n) s)
      else (Err eEOF, [])
  | OAlloc _ => (Ok [], s)
  | OCopyOut n => if n <=? blen s then (Ok (firstn (N.to_nat n) s), skipn (N.to_nat n) s) else (Ok s, [])
  | OWrite d => (Ok d, s)
  | OWriterErr => (Ok [], s)
  end.

Definition meter (o : op) (al : N) : N := match o with OAlloc n => al + n | _ => al end.

(** run a program on a flat stream: result, remaining stream, allocation meter *)
Fixpoint run {A : Type} (B : nat) (p : prog A) (s : bytes) (al : N) : A * bytes * N :=
  match p with
  | Ret a => (a, s, al)
  | Op o k => let '(r, s') := flat_step B o s in run B (k r) s' (meter o al)
  end.

(** ---- the chunked reader ---- *)

Definition cstate : Type := (bytes * list bytes)%type.   (* buffered, chunks still to arrive *)

Definition flat (st : cstate) : bytes := fst st ++ concat (snd st).

(** wait until at least n bytes are buffered or the stream has ended *)
Fixpoint ensure (n : N) (buf : bytes) (chunks : list bytes) : cstate :=
  if n <=? blen buf then (buf, chunks)
  else match chunks with
       | [] => (buf, [])
       | c :: cs => ensure n (buf ++ c) cs
       end.

(** wait until a LF is buffered, or (when [limit] is given) that many bytes are buffered, or the end *)
Fixpoint ensure_lf (limit : option nat) (buf : bytes) (chunks : list bytes) : cstate :=
  match find_lf (match limit with Some B => firstn B buf | None => buf end) with
  | Some _ => (buf, chunks)
  | None =>
    if match limit with Some B => (B <=? length buf)%nat | None => false end then (buf, chunks)
    else match chunks with
         | [] => (buf, [])
         | c :: cs => ensure_lf limit (buf ++ c) cs
         end
  end.

Definition chunk_step (B : nat) (o : op) (st : cstate) : result bytes * cstate :=
  let '(buf, chunks) := st in
  match o with
  | OReadByte =>
      let '(buf, chunks) := ensure 1 buf chunks in
      match buf with [] => (Err eEOF, ([], chunks)) | b :: r => (Ok [b], (r, chunks)) end
  | OPeek n =>
      let '(buf, chunks) := ensure (N.of_nat n) buf chunks in (Ok (firstn n buf), (buf, chunks))
  | ODiscard n =>
      if (n <? 0)%Z then (Err eNegativeCount, (buf, chunks))
      else
        let '(buf, chunks) := ensure (Z.to_N n) buf chunks in
        if Z.to_N n <=? blen buf then (Ok [], (skipn (Z.to_nat n) buf, chunks))
        else (Err eEOF, ([], chunks))
  | OReadSlice =>
      let '(buf, chunks) := ensure_lf (Some B) buf chunks in
      match find_lf (firstn B buf) with
      | Some i => (Ok (firstn (S i) buf), (skipn (S i) buf, chunks))
      | None => if (B <=? length buf)%nat then (Err eBufferFull, (skipn B buf, chunks)) else (Err eEOF, ([], chunks))
      end
  | OReadBytes =>
      let '(buf, chunks) := ensure_lf None buf chunks in
      match find_lf buf with
      | Some i => (Ok (firstn (S i) buf), (skipn (S i) buf, chunks))
      | None => (Err eEOF, ([], chunks))
      end
  | OReadFull n =>
      if n =? 0 then (Ok [], (buf, chunks))
      else
        let '(buf, chunks) := ensure n buf chunks in
        if n <=? blen buf then (Ok (firstn (N.to_nat n) buf), (skipn (N.to_nat n) buf, chunks))
        else match buf with [] => (Err eEOF, ([], chunks)) | _ => (Err eUnexpectedEOF, ([], chunks)) end
  | OCopyN n =>
      let '(buf, chunks) := ensure n buf chunks in
      if n <=? blen buf then (Ok (firstn (N.to_nat n) buf), (skipn (N.to_nat n) buf, chunks))
      else (Err eEOF, ([], chunks))
  | OAlloc _ => (Ok [], (buf, chunks))
  | OCopyOut n =>
      let '(buf, chunks) := ensure n buf chunks in
      if n <=? blen buf then (Ok (firstn (N.to_nat n) buf), (skipn (N.to_nat n) buf, chunks))
      else (Ok buf, ([], chunks))
  | OWrite d => (Ok d, (buf, chunks))
  | OWriterErr => (Ok [], (buf, chunks))
  end.

Fixpoint run_chunked {A : Type} (B : nat) (p : prog A) (st : cstate) (al : N) : A * cstate * N :=
  match p with
  | Ret a => (a, st, al)
  | Op o k => let '(r, st') := chunk_step B o st in run_chunked B (k r) st' (meter o al)
  end.

(** split a stream into chunks of the given sizes (cycled; a size 0 is taken as 1), as the observers do *)
Fixpoint split_by (fuel : nat) (sizes cur : list nat) (s : bytes) : list bytes :=
  match fuel with
  | O => [s]
  | S f =>
    match s with
    | [] => []
    | _ =>
      match cur with
      | [] => match sizes with [] => [s] | _ => split_by f sizes sizes s end
      | n :: cur' => let n := match n with O => 1%nat | _ => n end in firstn n s :: split_by f sizes cur' (skipn n s)
      end
    end
  end.
