(** Model of cluster [DoMulti]: [_pickMulti] (grouping by destination with the original indices),
    one round of [doretry] per destination, [doresultfn] (scatter through the indices, next round's
    groups, transaction detection), [askingMulti] (ASKING once per transaction block), and the outer
    redirect / retry loop with MaxMovedRedirections.

    [retries.m] is a Go map filled from concurrently running goroutines under one mutex; the unit of
    atomicity is one append action (a single command, or a whole MULTI…EXEC block).  The model
    produces the actions of a round in list order; theorems that depend on the order quantify over
    every permutation of the actions ([round_perm]).  The servers are a function from (command, how
    many times this node received this command before) to the reply: a reply is the reply *to a command*.
    The expiry recovery inside [doretry] is the one of Retry.v ([recover_loop]) and is not repeated.
    Definitions only. *)
From Coq Require Import List Arith NArith ZArith Bool.
Require Import RV.Model.Base RV.Model.ClusterTopo RV.Model.Retry RV.Model.ClusterDo.
Import ListNotations.
Open Scope Z_scope.

Notation ipair := (nat * bcmd)%type (only parsing).   (* cIndexes[k], commands[k] *)

Record rgroup := mkRg { rg_cmds : list ipair; rg_asks : list ipair }.
Definition rmap := list (addr * rgroup).

Fixpoint rmap_get (a : addr) (m : rmap) : option rgroup :=
  match m with
  | [] => None
  | (k, g) :: r => if addr_eqb a k then Some g else rmap_get a r
  end.

(** append to the group of [a] (created at the end when missing) *)
Fixpoint rmap_add (a : addr) (ask : bool) (ps : list ipair) (m : rmap) : rmap :=
  match m with
  | [] => [(a, if ask then mkRg [] ps else mkRg ps [])]
  | (k, g) :: r =>
    if addr_eqb a k
    then (k, if ask then mkRg (rg_cmds g) (rg_asks g ++ ps) else mkRg (rg_cmds g ++ ps) (rg_asks g)) :: r
    else (k, g) :: rmap_add a ask ps r
  end.

(** ---- _pickMulti ---- *)
Inductive pickres :=
| PickOk (m : rmap) (init : bool)
| PickNone                 (* nil: a slot without connection (refresh, then ErrNoSlot) *)
| PickPanic.               (* panicMixCxSlot *)

Definition has_init (cs : list bcmd) : bool := existsb (fun c => match b_slot c with None => true | _ => false end) cs.

(** replica path: every command on its own; [nsel] is ReadNodeSelector's answer per index *)
Fixpoint pick_multi_repl (t : table) (nsel : nat -> Z) (i : nat) (cs : list bcmd) (acc : rmap) : option rmap :=
  match cs with
  | [] => Some acc
  | c :: r =>
    match b_slot c with
    | None => None
    | Some s =>
      match pick_slot t s (b_replica c) (nsel i) with
      | None => None
      | Some a => pick_multi_repl t nsel (S i) r (rmap_add a false [(i, c)] acc)
      end
    end
  end.

(** the first loop of the plain path: panics on mixed slots next to no-slot commands, gives up
    (nil) on a slot without connection — whichever comes first in batch order *)
Inductive scanres := ScanOk (last : option Z) | ScanNil | ScanPanic.

Fixpoint scan_plain (t : table) (init : bool) (cs : list bcmd) (last : option Z) : scanres :=
  match cs with
  | [] => ScanOk last
  | c :: r =>
    match b_slot c with
    | None => scan_plain t init r last
    | Some s =>
      let mixed := match last with Some l => init && negb (l =? s) | None => false end in
      if mixed then ScanPanic
      else match tb_w t s with
           | None => ScanNil
           | Some _ => scan_plain t init r (match last with None => Some s | _ => last end)
           end
    end
  end.

Fixpoint pick_multi_plain (t : table) (deflt : option addr) (i : nat) (cs : list bcmd) (acc : rmap) : option rmap :=
  match cs with
  | [] => Some acc
  | c :: r =>
    let dest := match b_slot c with Some s => tb_w t s | None => deflt end in
    match dest with
    | None => None
    | Some a => pick_multi_plain t deflt (S i) r (rmap_add a false [(i, c)] acc)
    end
  end.

(** [first_conn]: the first non-nil entry of wslots, used when no command has a slot *)
Definition pick_multi (t : table) (send_to_replicas : bool) (nsel : nat -> Z) (first_conn : option addr)
           (cs : list bcmd) : pickres :=
  let init := has_init cs in
  if negb init && tb_rinit t && send_to_replicas then
    match pick_multi_repl t nsel 0 cs [] with Some m => PickOk m init | None => PickNone end
  else
    match scan_plain t init cs None with
    | ScanPanic => PickPanic
    | ScanNil => PickNone
    | ScanOk last =>
      let deflt := match last with Some l => tb_w t l | None => first_conn end in
      match deflt with
      | None => PickNone
      | Some _ =>
        match pick_multi_plain t deflt 0 cs [] with Some m => PickOk m init | None => PickNone end
      end
    end.

(** ---- servers ---- *)
Definition ok_val : N := 1%N.          (* the payload id of "+OK" *)
Definition is_ok (r : reply) : bool := match r with RVal v => (v =? ok_val)%N | _ => false end.

(** the reply of node [a] to command [c] when it receives it for the k-th time (k from 0) *)
Definition servers := bcmd -> addr -> nat -> reply.
Definition counts := N -> addr -> nat.
Definition cnt_inc (cn : counts) (id : N) (a : addr) : counts :=
  fun x b => if (x =? id)%N && addr_eqb a b then S (cn x b) else cn x b.

Fixpoint exchange_on (srv : servers) (a : addr) (cn : counts) (ps : list ipair) : list reply * counts :=
  match ps with
  | [] => ([], cn)
  | (_, c) :: r =>
    let rp := srv c a (cn (b_id c) a) in
    let '(rs, cn') := exchange_on srv a (cnt_inc cn (b_id c) a) r in
    (rp :: rs, cn')
  end.

(** askingMulti: what goes on the wire ([None] = ASKING): once per command, once per MULTI…EXEC block *)
Fixpoint asking_wire (ps : list ipair) (in_tx : bool) : list (option ipair) :=
  match ps with
  | [] => []
  | p :: r =>
    if in_tx then Some p :: asking_wire r (negb (is_exec (snd p)))
    else None :: Some p :: asking_wire r (is_multi (snd p))
  end.

(** ---- doresultfn ---- *)
Record action := mkAct { a_to : addr; a_ask : bool; a_ps : list ipair }.

Fixpoint scan_down (cs : list bcmd) (i : nat) : Z :=
  match nth_error cs i with
  | Some c =>
    if is_multi c || is_exec c then Z.of_nat i
    else match i with O => -1 | S j => scan_down cs j end
  | None => match i with O => -1 | S j => scan_down cs j end
  end.

Fixpoint first_mark (cs : list bcmd) : nat :=
  match cs with
  | [] => O
  | c :: r => if is_multi c || is_exec c then O else S (first_mark r)
  end.
Definition scan_up (cs : list bcmd) (i : nat) : Z := Z.of_nat (i + first_mark (skipn i cs)).

Definition nth_cmd (cs : list bcmd) (z : Z) : option bcmd :=
  if z <? 0 then None else nth_error cs (Z.to_nat z).

(** the sub-list [lo..hi] of the (index, command) pairs *)
Definition block (ps : list ipair) (lo hi : Z) : list ipair :=
  firstn (Z.to_nat (hi - lo + 1)) (skipn (Z.to_nat lo) ps).

Record drs := mkDrs {
  d_mi : Z; d_ei : Z;
  d_acts : list action;
  d_redirects : nat;
  d_delay : Z;
  d_results : list (nat * reply);     (* assignments results.s[ii] = resp, in order *)
}.

Record rflags := mkRflags { rf_ctx : bool; rf_closed : bool }.

Definition dstep (pol : policy) (cc : addr) (hasinit : bool) (attempts : nat) (fl : rflags)
           (ps : list ipair) (resps : list reply) (st : drs) (i : nat) : drs :=
  match nth_error ps i, nth_error resps i with
  | Some (ii, cm), Some r =>
    let cs := map snd ps in
    let st1 := mkDrs (d_mi st) (d_ei st) (d_acts st) (d_redirects st) (d_delay st) (d_results st ++ [(ii, r)]) in
    match classify r (rf_ctx fl) (rf_closed fl) with
    | ModeNone => st1
    | mode =>
      let is_retry := match mode with ModeRetry => true | _ => false end in
      let delay := if is_retry then p_delay pol attempts r else -1 in
      if is_retry && (negb (p_retry pol && b_retryable cm) || (delay <? 0)) then st1
      else
        let nc := match mode with ModeMove a | ModeAsk a => a | _ => cc end in
        let ask := match mode with ModeAsk _ => true | _ => false end in
        let rescan := hasinit && (d_ei st <? Z.of_nat i) in
        (* a redirected EXEC closes the block that starts at the previous MULTI: the scan starts one below *)
        let mi := if rescan then
                    (if is_exec cm then match i with O => -1 | S j => scan_down cs j end else scan_down cs i)
                  else d_mi st in
        let ei := if rescan then scan_up cs i else d_ei st in
        let found := rescan && (0 <=? mi) && (ei <? Z.of_nat (length cs))
                     && match nth_cmd cs mi, nth_cmd cs ei with
                        | Some cm_mi, Some cm_ei => is_multi cm_mi && is_exec cm_ei
                        | _, _ => false
                        end
                     && match nth_error resps (Z.to_nat mi) with Some rm => is_ok rm | None => false end in
        if found then
          mkDrs mi ei (d_acts st1 ++ [mkAct nc ask (block ps mi ei)])
                (if is_retry then d_redirects st1 else S (d_redirects st1))
                (if is_retry then Z.max (d_delay st1) delay else d_delay st1) (d_results st1)
        else if hasinit && (mi <? Z.of_nat i) && (Z.of_nat i <=? ei) && (0 <=? mi)
                && match nth_cmd cs mi with Some cm_mi => is_multi cm_mi | None => false end
        then mkDrs mi ei (d_acts st1) (d_redirects st1) (d_delay st1) (d_results st1)
        else
          mkDrs mi ei (d_acts st1 ++ [mkAct nc ask [(ii, cm)]])
                (if is_retry then d_redirects st1 else S (d_redirects st1))
                (if is_retry && (0 <=? delay) then Z.max (d_delay st1) delay else d_delay st1)
                (d_results st1)
    end
  | _, _ => st
  end.

Definition doresultfn (pol : policy) (cc : addr) (hasinit : bool) (attempts : nat) (fl : rflags)
           (ps : list ipair) (resps : list reply) (acts : list action) (redirects : nat) (delay : Z)
           (results : list (nat * reply)) : drs :=
  fold_left (dstep pol cc hasinit attempts fl ps resps) (seq 0 (length resps))
            (mkDrs (-1) (-1) acts redirects delay results).

(** ---- one round ---- *)
(** what was written to one node in one exchange *)
Record wsend := mkWsend { w_to : addr; w_asking : bool; w_wire : list (option ipair) }.

Record rstate := mkRstate {
  r_acts : list action; r_redirects : nat; r_delay : Z;
  r_results : list (nat * reply); r_cnt : counts; r_sends : list wsend;
}.

Definition do_group (pol : policy) (srv : servers) (hasinit : bool) (attempts : nat) (fl : rflags)
           (st : rstate) (ag : addr * rgroup) : rstate :=
  let '(a, g) := ag in
  let st1 :=
      match rg_cmds g with
      | [] => st
      | ps =>
        let '(rs, cn) := exchange_on srv a (r_cnt st) ps in
        let d := doresultfn pol a hasinit attempts fl ps rs (r_acts st) (r_redirects st) (r_delay st) (r_results st) in
        mkRstate (d_acts d) (d_redirects d) (d_delay d) (d_results d) cn
                 (r_sends st ++ [mkWsend a false (map Some ps)])
      end in
  match rg_asks g with
  | [] => st1
  | ps =>
    let '(rs, cn) := exchange_on srv a (r_cnt st1) ps in
    let d := doresultfn pol a hasinit attempts fl ps rs (r_acts st1) (r_redirects st1) (r_delay st1) (r_results st1) in
    mkRstate (d_acts d) (d_redirects d) (d_delay d) (d_results d) cn
             (r_sends st1 ++ [mkWsend a true (asking_wire ps false)])
  end.

Definition apply_actions (acts : list action) : rmap :=
  fold_left (fun m a => rmap_add (a_to a) (a_ask a) (a_ps a) m) acts [].

(** results.s as a function of the assignments made so far: the last one wins *)
Fixpoint result_at (asg : list (nat * reply)) (i : nat) : option reply :=
  match asg with
  | [] => None
  | (j, r) :: rest => match result_at rest i with
                      | Some x => Some x
                      | None => if (j =? i)%nat then Some r else None
                      end
  end.

Record bcfg := mkBcfg {
  bc_policy : policy;
  bc_max : Z;
  bc_flags : nat -> rflags;                       (* context / closed state seen by round k *)
  bc_perm : nat -> list action -> list action;    (* the order in which round k's appends hit the mutex *)
}.

Inductive bout := BDone | BOutOfFuel.

Fixpoint rounds (fuel : nat) (c : bcfg) (srv : servers) (hasinit : bool) (k : nat) (m : rmap)
         (attempts : nat) (redirects : Z) (asg : list (nat * reply)) (cn : counts) (sends : list (nat * wsend))
  : list (nat * reply) * list (nat * wsend) * bout :=
  match fuel with
  | O => (asg, sends, BOutOfFuel)
  | S f =>
    let st := fold_left (do_group (bc_policy c) srv hasinit attempts (bc_flags c k))
                        m (mkRstate [] 0 (-1) asg cn []) in
    let sends' := sends ++ map (fun w => (k, w)) (r_sends st) in
    let m' := apply_actions (bc_perm c k (r_acts st)) in
    match m' with
    | [] => (r_results st, sends', BDone)
    | _ =>
      if (0 <? r_redirects st)%nat then
        let rd := redirects + 1 in
        if (0 <? bc_max c) && (bc_max c <? rd) then (r_results st, sends', BDone)
        else rounds f c srv hasinit (S k) m' attempts rd (r_results st) (r_cnt st) sends'
      else if 0 <=? r_delay st then
        rounds f c srv hasinit (S k) m' (S attempts) redirects (r_results st) (r_cnt st) sends'
      else (r_results st, sends', BDone)
    end
  end.

Definition cluster_domulti (fuel : nat) (c : bcfg) (srv : servers) (hasinit : bool) (m : rmap) :=
  rounds fuel c srv hasinit 0 m 1 0 [] (fun _ _ => O) [].
