(** Model of rueidislock/lock.go for ONE lock name, at round-trip granularity.

    Server: the 2m-1 keys of the name ([prefix:i:name]), each absent or (owner value, expiry on the
    server clock).  The six Lua scripts are the transformers [srv_acquire] (acqms/acqat: SET NX PX/PXAT,
    fcqms/fcqat: SET PX/PXAT), [srv_extend] (extend: PEXPIREAT if owner) and [srv_delete] (delkey:
    DEL if owner); their trailing GET only refreshes client-side-cache tracking.

    Clients: a list of lock attempts (one [try] call each: TryWithContext / ForceWithContext / one round
    of WithContext).  The owner value of an attempt ([random()]) is modelled by its index in the list,
    i.e. values are assumed distinct.  Atomic steps ([label]): a server round trip together with the
    calling goroutine's handling of the reply (acquire of the next key, extend, delete-if-owner), the
    return of [try], the validity timer, cancel / parent-context done, closing of the locker, a clock
    advance with expiry, a deletion by somebody else.  An invalidation delivered to a monitor and its
    ExtendInterval timer both lead to the same extend round trip, so [LExtend] may fire at any time.

    What the code does around one key (function [monitoring]):
      acquire result nil        -> monitor runs                              [MRun]
      acquire result ErrNotLocked (also for every later key, without a round trip: the error is sticky)
                                -> monitor exits at once, no delete script   [MExit]
      any other acquire error   -> monitor runs the delete script, exits     [MDel] -> [MExit]
      extend answers 0          -> ErrNotLocked: exits without delete script
      extend fails otherwise / locker closed / context done -> delete script, exit.
    [c_early] is the repaired order (fix "rueidislock: cancel the lock context before releasing the key
    that costs the majority"): the number of monitors that left their loop is counted ([a_exiting]) and
    the context is cancelled BEFORE the delete script once it reaches the majority; the original code
    ([c_early = false]) cancels only after the delete script returned ([a_released]).

    No proofs in this file. *)
From Coq Require Import List Arith NArith ZArith Bool.
Require Import RV.Model.Base RV.Model.ListUpd.
Import ListNotations.

Record cfg := { c_m : nat (* KeyMajority *); c_early : bool }.

Definition nkeys (c : cfg) : nat := 2 * c_m c - 1.

Inductive errk := ENone | ENotLocked | EOther.
Inductive mon := MNone | MRun | MDel | MExit.
Inductive retk := RPending | RHeld | RWait | RFailed.
Inductive tmk := TArmed | TStopped | TFired.

Record attempt := {
  a_force : bool;
  a_next : nat;             (* next key index [try] (or its background goroutine) will attempt *)
  a_acquired : nat;         (* counters of the loop in [try] *)
  a_failures : nat;
  a_loop_done : bool;       (* the loop in [try] has ended; later keys are tried by the background goroutine *)
  a_ret : retk;             (* RHeld: [try] returned nil, the caller holds the lock context *)
  a_tm : tmk;               (* canceltm = time.AfterFunc(duration, cancel) *)
  a_mon : list mon;         (* per key *)
  a_exiting : nat;          (* monitors that left their loop (or never entered it) *)
  a_released : nat;         (* monitors that finished ([released] in the code) *)
  a_cancelled : bool }.     (* the lock context is done *)

Record state := {
  s_now : Z;                                 (* server clock *)
  s_keys : list (option (nat * Z));          (* owner attempt, expiry *)
  s_att : list attempt }.

Definition init (c : cfg) (now : Z) : state :=
  {| s_now := now; s_keys := repeat_n None (nkeys c); s_att := [] |}.

Definition new_attempt (c : cfg) (force : bool) : attempt :=
  {| a_force := force; a_next := 0; a_acquired := 0; a_failures := 0; a_loop_done := false;
     a_ret := RPending; a_tm := TArmed; a_mon := repeat_n MNone (nkeys c);
     a_exiting := 0; a_released := 0; a_cancelled := false |}.

Definition owner (k : option (nat * Z)) : option nat := match k with Some (a, _) => Some a | None => None end.

Definition is_owner (a : nat) (k : option (nat * Z)) : bool :=
  match k with Some (b, _) => Nat.eqb a b | None => false end.

(** ---- the scripts ---- *)

(** a value written with an expiry that is not in the future is gone at once *)
Definition put (now : Z) (a : nat) (exp : Z) : option (nat * Z) :=
  if (exp <=? now)%Z then None else Some (a, exp).

(** acqms / acqat (force = false), fcqms / fcqat (force = true): did the SET happen? *)
Definition srv_acquire (now : Z) (force : bool) (a : nat) (exp : Z) (k : option (nat * Z)) : option (nat * Z) * bool :=
  if force then (put now a exp, true)
  else match k with
       | None => (put now a exp, true)
       | Some _ => (k, false)
       end.

(** extend: 1 = PEXPIREAT done by the owner, 0 = not the owner *)
Definition srv_extend (now : Z) (a : nat) (exp : Z) (k : option (nat * Z)) : option (nat * Z) * bool :=
  if is_owner a k then (put now a exp, true) else (k, false).

(** delkey *)
Definition srv_delete (a : nat) (k : option (nat * Z)) : option (nat * Z) * bool :=
  if is_owner a k then (None, true) else (k, false).

(** ---- client bookkeeping ---- *)

Definition set_mon (t : attempt) (i : nat) (x : mon) : attempt :=
  {| a_force := a_force t; a_next := a_next t; a_acquired := a_acquired t; a_failures := a_failures t;
     a_loop_done := a_loop_done t; a_ret := a_ret t; a_tm := a_tm t; a_mon := upd i x (a_mon t);
     a_exiting := a_exiting t; a_released := a_released t; a_cancelled := a_cancelled t |}.

Definition set_cancelled (t : attempt) : attempt :=
  {| a_force := a_force t; a_next := a_next t; a_acquired := a_acquired t; a_failures := a_failures t;
     a_loop_done := a_loop_done t; a_ret := a_ret t; a_tm := a_tm t; a_mon := a_mon t;
     a_exiting := a_exiting t; a_released := a_released t; a_cancelled := true |}.

(** one more monitor leaves its loop: [exiting++], and with the repaired order cancel at the majority *)
Definition leave (c : cfg) (t : attempt) : attempt :=
  let ex := S (a_exiting t) in
  {| a_force := a_force t; a_next := a_next t; a_acquired := a_acquired t; a_failures := a_failures t;
     a_loop_done := a_loop_done t; a_ret := a_ret t; a_tm := a_tm t; a_mon := a_mon t;
     a_exiting := ex; a_released := a_released t;
     a_cancelled := a_cancelled t || (c_early c && Nat.leb (c_m c) ex) |}.

(** [released++]; cancel at the majority *)
Definition release (c : cfg) (t : attempt) : attempt :=
  let re := S (a_released t) in
  {| a_force := a_force t; a_next := a_next t; a_acquired := a_acquired t; a_failures := a_failures t;
     a_loop_done := a_loop_done t; a_ret := a_ret t; a_tm := a_tm t; a_mon := a_mon t;
     a_exiting := a_exiting t; a_released := re;
     a_cancelled := a_cancelled t || Nat.leb (c_m c) re |}.

(** a monitor that never holds a key or learns it lost it: leaves and finishes without delete script *)
Definition exit_notlocked (c : cfg) (t : attempt) (i : nat) : attempt :=
  release c (leave c (set_mon t i MExit)).

(** after ErrNotLocked on key i every later key is skipped (sticky error): their monitors exit at once *)
Fixpoint skip_rest (c : cfg) (t : attempt) (i : nat) (n : nat) : attempt :=
  match n with
  | O => t
  | S k => skip_rest c (exit_notlocked c t i) (S i) k
  end.

(** counters of the loop in [try], only while the loop runs *)
Definition count_result (c : cfg) (t : attempt) (e : errk) : attempt :=
  if a_loop_done t then t else
  let acq := match e with ENone => S (a_acquired t) | _ => a_acquired t end in
  let fl := match e with
            | ENone => a_failures t
            | EOther => S (a_failures t)
            | ENotLocked => Nat.max (S (a_failures t)) (c_m c)   (* the sticky error fails every further iteration *)
            end in
  {| a_force := a_force t; a_next := a_next t; a_acquired := acq; a_failures := fl;
     a_loop_done := Nat.leb (c_m c) acq || Nat.leb (c_m c) fl;
     a_ret := a_ret t; a_tm := a_tm t; a_mon := a_mon t;
     a_exiting := a_exiting t; a_released := a_released t; a_cancelled := a_cancelled t |}.

Definition set_next (t : attempt) (n : nat) : attempt :=
  {| a_force := a_force t; a_next := n; a_acquired := a_acquired t; a_failures := a_failures t;
     a_loop_done := a_loop_done t; a_ret := a_ret t; a_tm := a_tm t; a_mon := a_mon t;
     a_exiting := a_exiting t; a_released := a_released t; a_cancelled := a_cancelled t |}.

Definition set_ret (t : attempt) (r : retk) (tm : tmk) (cancel : bool) : attempt :=
  {| a_force := a_force t; a_next := a_next t; a_acquired := a_acquired t; a_failures := a_failures t;
     a_loop_done := a_loop_done t; a_ret := r; a_tm := tm; a_mon := a_mon t;
     a_exiting := a_exiting t; a_released := a_released t; a_cancelled := a_cancelled t || cancel |}.

(** ---- labels ---- *)

Inductive label :=
| LStart (force : bool)                                   (* a new attempt; its id is its position *)
| LAcquire (a : nat) (exp : Z) (executed replied : bool)   (* acquire script on the attempt's next key *)
| LReturn (a : nat)                                        (* [try] passes canceltm.Stop() / returns after <-done *)
| LTimerFire (a : nat)                                     (* canceltm fires *)
| LCancel (a : nat)                                        (* the caller's cancel (unlock) or the parent context *)
| LExtend (a i : nat) (exp : Z) (executed replied : bool)  (* extend script by monitor i (timer or invalidation) *)
| LClosed (a i : nat)                                      (* Locker.Close: the monitor's channel is closed *)
| LDelkey (a i : nat) (executed : bool)                    (* delete script by a monitor that left its loop,
                                                              or that sees the context done *)
| LTick (dt : Z)                                           (* the server clock advances; expired keys vanish *)
| LEnvDel (i : nat).                                       (* somebody else deletes the key *)

(** what the step's caller observes (compared with the implementation by the tie) *)
Inductive robs :=
| RNone
| RAcq (e : errk)
| RExt (e : errk)
| RDel (deleted : bool)
| RRet (r : retk).

Definition expire_keys (now : Z) (ks : list (option (nat * Z))) : list (option (nat * Z)) :=
  map (fun k => match k with
                | Some (a, e) => if (e <=? now)%Z then None else Some (a, e)
                | None => None
                end) ks.

Definition with_att (s : state) (a : nat) (t : attempt) : state :=
  {| s_now := s_now s; s_keys := s_keys s; s_att := upd a t (s_att s) |}.

Definition with_key_att (s : state) (i : nat) (k : option (nat * Z)) (a : nat) (t : attempt) : state :=
  {| s_now := s_now s; s_keys := upd i k (s_keys s); s_att := upd a t (s_att s) |}.

Definition lstep_r (c : cfg) (s : state) (l : label) : option (state * robs) :=
  match l with
  | LStart force =>
    Some ({| s_now := s_now s; s_keys := s_keys s; s_att := s_att s ++ [new_attempt c force] |}, RNone)
  | LAcquire a exp executed replied =>
    match nth_error (s_att s) a with
    | None => None
    | Some t =>
      let i := a_next t in
      match nth_error (s_keys s) i with
      | None => None                                   (* all keys tried *)
      | Some k =>
        let '(k', ok) := if executed then srv_acquire (s_now s) (a_force t) a exp k else (k, false) in
        let e := if executed && replied then (if ok then ENone else ENotLocked) else EOther in
        let t1 := count_result c t e in
        let t2 := match e with
                  | ENone => set_next (set_mon t1 i MRun) (S i)
                  | EOther => set_next (leave c (set_mon t1 i MDel)) (S i)
                  | ENotLocked => set_next (skip_rest c t1 i (nkeys c - i)) (nkeys c)
                  end in
        Some (with_key_att s i k' a t2, RAcq e)
      end
    end
  | LReturn a =>
    match nth_error (s_att s) a with
    | None => None
    | Some t =>
      match a_ret t with
      | RPending =>
        if a_loop_done t then
          let stopped := match a_tm t with TArmed => true | _ => false end in
          let tm := match a_tm t with TArmed => TStopped | x => x end in
          let r := if stopped && Nat.ltb (a_failures t) (c_m c) then RHeld else RWait in
          Some (with_att s a (set_ret t r tm false), RRet r)
        else None
      | RWait =>
        if Nat.eqb (a_released t) (nkeys c)
        then Some (with_att s a (set_ret t RFailed (a_tm t) true), RRet RFailed)   (* the caller cancels *)
        else None
      | _ => None
      end
    end
  | LTimerFire a =>
    match nth_error (s_att s) a with
    | Some t => match a_tm t with
                | TArmed => Some (with_att s a (set_ret t (a_ret t) TFired true), RNone)
                | _ => None
                end
    | None => None
    end
  | LCancel a =>
    match nth_error (s_att s) a with
    | Some t => Some (with_att s a (set_cancelled t), RNone)
    | None => None
    end
  | LExtend a i exp executed replied =>
    match nth_error (s_att s) a, nth_error (s_keys s) i with
    | Some t, Some k =>
      match nth_error (a_mon t) i with
      | Some MRun =>
        let '(k', ok) := if executed then srv_extend (s_now s) a exp k else (k, false) in
        let e := if executed && replied then (if ok then ENone else ENotLocked) else EOther in
        let t' := match e with
                  | ENone => t
                  | ENotLocked => exit_notlocked c t i
                  | EOther => leave c (set_mon t i MDel)
                  end in
        Some (with_key_att s i k' a t', RExt e)
      | _ => None
      end
    | _, _ => None
    end
  | LClosed a i =>
    match nth_error (s_att s) a with
    | Some t => match nth_error (a_mon t) i with
                | Some MRun => Some (with_att s a (leave c (set_mon t i MDel)), RNone)
                | _ => None
                end
    | None => None
    end
  | LDelkey a i executed =>
    match nth_error (s_att s) a, nth_error (s_keys s) i with
    | Some t, Some k =>
      let go (t0 : attempt) :=
        let '(k', del) := if executed then srv_delete a k else (k, false) in
        Some (with_key_att s i k' a (release c (set_mon t0 i MExit)), RDel del) in
      match nth_error (a_mon t) i with
      | Some MDel => go t
      | Some MRun => if a_cancelled t then go (leave c t) else None   (* case <-ctx.Done() *)
      | _ => None
      end
    | _, _ => None
    end
  | LTick dt =>
    if (dt <? 0)%Z then None else
    let now := (s_now s + dt)%Z in
    Some ({| s_now := now; s_keys := expire_keys now (s_keys s); s_att := s_att s |}, RNone)
  | LEnvDel i =>
    match nth_error (s_keys s) i with
    | Some _ => Some ({| s_now := s_now s; s_keys := upd i None (s_keys s); s_att := s_att s |}, RNone)
    | None => None
    end
  end.

Definition lstep (c : cfg) (s : state) (l : label) : option state :=
  match lstep_r c s l with Some (s', _) => Some s' | None => None end.

Fixpoint run (c : cfg) (s : state) (ls : list label) : option state :=
  match ls with
  | [] => Some s
  | l :: r => match lstep c s l with Some s' => run c s' r | None => None end
  end.

(** ---- what the property talks about ---- *)

(** the caller holds the lock context and it is not done *)
Definition live_att (t : attempt) : bool :=
  match a_ret t with RHeld => negb (a_cancelled t) | _ => false end.

Definition live (s : state) (a : nat) : bool :=
  match nth_error (s_att s) a with Some t => live_att t | None => false end.

Fixpoint count_owner (a : nat) (ks : list (option (nat * Z))) : nat :=
  match ks with
  | [] => O
  | k :: r => (if is_owner a k then 1 else 0) + count_owner a r
  end.

(** number of the name's keys that carry the attempt's value *)
Definition owns (s : state) (a : nat) : nat := count_owner a (s_keys s).

Definition mon_eqb (x y : mon) : bool :=
  match x, y with MNone, MNone | MRun, MRun | MDel, MDel | MExit, MExit => true | _, _ => false end.

Fixpoint count_mon (x : mon) (l : list mon) : nat :=
  match l with
  | [] => O
  | y :: r => (if mon_eqb x y then 1 else 0) + count_mon x r
  end.

(** ---- hypotheses of the mutual-exclusion theorem, as a predicate on steps ----
    nobody forces, nobody else deletes, the locker is not closed, every extension of a running monitor
    reaches the server and is answered with a deadline in the future, acquisitions carry a deadline in
    the future, and the clock never passes the expiry of a key whose monitor is still running
    ("holders keep extending in time"). *)
Definition tick_ok (s : state) (dt : Z) : Prop :=
  forall i a e t, nth_error (s_keys s) i = Some (Some (a, e)) -> nth_error (s_att s) a = Some t ->
                  nth_error (a_mon t) i = Some MRun -> (s_now s + dt < e)%Z.

Definition good (s : state) (l : label) : Prop :=
  match l with
  | LStart force => force = false
  | LAcquire _ exp _ _ => (s_now s < exp)%Z
  | LExtend _ _ exp executed replied => executed = true /\ replied = true /\ (s_now s < exp)%Z
  | LClosed _ _ => False
  | LEnvDel _ => False
  | LTick dt => tick_ok s dt
  | _ => True
  end.

Fixpoint run_good (c : cfg) (s : state) (ls : list label) : Prop :=
  match ls with
  | [] => True
  | l :: r => good s l /\ match lstep c s l with Some s' => run_good c s' r | None => True end
  end.

(** ---- the gate of one locker: waiters and invalidation-driven wake-ups ----
    One locker process L with one WithContext waiter on the name.  [g_tracked i]: L's connection is
    tracking key i on the server (set by the GET at the end of its acquire script, cleared when the
    server sends the invalidation); [g_inflight]: invalidations on their way to L, in order;
    [g_token]: the gate channel [g.ch] holds a token; [g_w]: the waiter is registered ([g.w > 0]);
    the waiter is trying, or failed on key [i] and is about to block, or blocked. *)
Inductive wstate := WTrying | WFailed (i : nat) | WBlocked (i : nat) | WGone.

Record gate := {
  g_tracked : list bool;
  g_inflight : list nat;
  g_token : bool;
  g_wait : wstate }.

Inductive glabel :=
| GFail (i : nat)       (* the waiter's acquire script on key i found the key taken: SET NX fails, GET tracks it *)
| GWrite (i : nat)      (* any write to key i by anybody (release, expiry, acquisition, extension) *)
| GDeliver              (* the oldest invalidation reaches onInvalidations *)
| GConnLost             (* onInvalidations(nil) after a reconnect: every gate gets a token *)
| GBlock                (* the waiter enters the select on g.ch *)
| GWake                 (* … and receives the token: it tries again *)
| GGiveUp.              (* the caller's context is done *)

Definition gstep (g : gate) (l : glabel) : option gate :=
  match l with
  | GFail i =>
    match g_wait g, nth_error (g_tracked g) i with
    | WTrying, Some _ => Some {| g_tracked := upd i true (g_tracked g); g_inflight := g_inflight g;
                                 g_token := g_token g; g_wait := WFailed i |}
    | _, _ => None
    end
  | GWrite i =>
    match nth_error (g_tracked g) i with
    | Some true => Some {| g_tracked := upd i false (g_tracked g); g_inflight := g_inflight g ++ [i];
                           g_token := g_token g; g_wait := g_wait g |}
    | Some false => Some g
    | None => None
    end
  | GDeliver =>
    match g_inflight g with
    | [] => None
    | _ :: r => Some {| g_tracked := g_tracked g; g_inflight := r;
                        g_token := match g_wait g with WGone => g_token g | _ => true end;   (* the gate exists while a waiter is registered *)
                        g_wait := g_wait g |}
    end
  | GConnLost =>
    Some {| g_tracked := map (fun _ => false) (g_tracked g); g_inflight := [];
            g_token := match g_wait g with WGone => g_token g | _ => true end; g_wait := g_wait g |}
  | GBlock =>
    match g_wait g with
    | WFailed i => Some {| g_tracked := g_tracked g; g_inflight := g_inflight g; g_token := g_token g; g_wait := WBlocked i |}
    | _ => None
    end
  | GWake =>
    match g_wait g with
    | WBlocked _ => if g_token g
                    then Some {| g_tracked := g_tracked g; g_inflight := g_inflight g; g_token := false; g_wait := WTrying |}
                    else None
    | _ => None
    end
  | GGiveUp =>
    match g_wait g with
    | WGone => None
    | _ => Some {| g_tracked := g_tracked g; g_inflight := g_inflight g; g_token := g_token g; g_wait := WGone |}
    end
  end.

Fixpoint grun (g : gate) (ls : list glabel) : option gate :=
  match ls with
  | [] => Some g
  | l :: r => match gstep g l with Some g' => grun g' r | None => None end
  end.

Definition ginit (n : nat) : gate :=
  {| g_tracked := repeat_n false n; g_inflight := []; g_token := false; g_wait := WTrying |}.

(** ---- correspondence cases (printed by harness/cmd/obs_lock) ---- *)

Definition errk_eqb (x y : errk) : bool :=
  match x, y with ENone, ENone | ENotLocked, ENotLocked | EOther, EOther => true | _, _ => false end.

Definition retk_eqb (x y : retk) : bool :=
  match x, y with RPending, RPending | RHeld, RHeld | RWait, RWait | RFailed, RFailed => true | _, _ => false end.

Definition robs_eqb (x y : robs) : bool :=
  match x, y with
  | RNone, RNone => true
  | RAcq e, RAcq f => errk_eqb e f
  | RExt e, RExt f => errk_eqb e f
  | RDel a, RDel b => Bool.eqb a b
  | RRet a, RRet b => retk_eqb a b
  | _, _ => false
  end.

(** an observed step: the label, what the implementation saw, and (optionally) facts observed right
    after it: [Some (a, d)] = "attempt a's context was seen done (d = true) / seen live (d = false)" *)
Record ostep := { o_label : label; o_obs : robs; o_seen : option (nat * bool) }.

(** replay; the result is the final state, or the index of the first step that is not enabled /
    whose observation differs / whose seen-fact contradicts the model *)
Fixpoint replay (c : cfg) (s : state) (os : list ostep) (idx : N) : state + N :=
  match os with
  | [] => inl s
  | o :: r =>
    match lstep_r c s (o_label o) with
    | None => inr idx
    | Some (s', b) =>
      if robs_eqb b (o_obs o) then
        match o_seen o with
        | Some (a, true) =>   (* seen done: the model must have cancelled it *)
          match nth_error (s_att s') a with
          | Some t => if a_cancelled t then replay c s' r (idx + 1)%N else inr idx
          | None => inr idx
          end
        | _ => replay c s' r (idx + 1)%N
        end
      else inr idx
    end
  end.

Definition keys_eqb (a b : list (option (nat * Z))) : bool :=
  list_eqb (option_eqb (fun p q => Nat.eqb (fst p) (fst q) && Z.eqb (snd p) (snd q))) a b.

Inductive case :=
(* a whole run on one lock name: configuration, initial server clock, the observed steps in the server's
   total order (client events placed by their happens-before position), the server keys at the end and
   which attempts' contexts were done at the end *)
| CRun (m : nat) (now0 : Z) (steps : list ostep) (final_keys : list (option (nat * Z))) (final_done : list bool)
(* a run of the gate model: the labels and whether the waiter ended up awake *)
| CGate (n : nat) (steps : list glabel) (ok : bool).

Definition check_case (c : case) : bool :=
  match c with
  | CRun m now0 steps fk fd =>
    let cf := {| c_m := m; c_early := true |} in
    match replay cf (init cf now0) steps 0%N with
    | inl s => keys_eqb (s_keys s) fk && list_eqb Bool.eqb (map a_cancelled (s_att s)) fd
    | inr _ => false
    end
  | CGate n steps ok =>
    match grun (ginit n) steps with
    | Some _ => ok
    | None => negb ok
    end
  end.

(** for diagnosis: index of the first failing step *)
Definition first_bad (c : case) : option N :=
  match c with
  | CRun m now0 steps _ _ =>
    let cf := {| c_m := m; c_early := true |} in
    match replay cf (init cf now0) steps 0%N with inl _ => None | inr i => Some i end
  | _ => None
  end.
