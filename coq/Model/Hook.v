(** C43 — model of rueidishook: the wrapper types hookclient / dedicated / extended.

    The delegation table (which callee each method invokes, with which receiver, how it forwards its
    parameters, whether derived clients are wrapped again) is regenerated from rueidishook/hook.go on
    every run by harness/cmd/tr_hook (Gen/HookDeleg.v).  This file gives the table a semantics: calling a
    method on a wrapper value produces a list of events (hook invocations, calls into the underlying
    client) and possibly derived wrapper values.  Underlying clients are opaque identifiers.
    Method names are packed strings (Model/BuilderGraph.v).  Definitions only. *)
From Coq Require Import List NArith Bool.
Require Import RV.Model.Base RV.Model.BuilderGraph.
Import ListNotations.
Open Scope N_scope.

Inductive wtype := WHookclient | WDedicated | WExtended.
Inductive callee_obj := OHook | OInner.     (* c.hook / c.client  (d.hook / d.client) *)

(** the syntactic shape of a method body *)
Inductive body :=
| BDeleg (obj : callee_obj) (callee : N) (inner_first : bool) (params_forwarded : bool) (result_returned : bool)
    (* [return obj.callee([c.client,] p1, p2, …)] — inner_first: the wrapped client is passed as first argument;
       params_forwarded: every parameter, in order, exactly once (variadic spread); result_returned: the call is the
       operand of return (or the method has no result and the call is the only statement) *)
| BWrapCallback (callee : N) (wrapped : wtype) (via_extended : bool) (hook_kept : bool) (result_returned : bool)
    (* [return c.client.callee(func(client) error { return fn(&wrapped{client: &extended{client}, hook: c.hook}) })] *)
| BWrapResult (callee : N) (wrapped : wtype) (via_extended : bool) (hook_kept : bool) (others_returned : bool)
    (* [client, cancel := c.client.callee(); return &wrapped{client: &extended{client}, hook: c.hook}, cancel] *)
| BWrapMap (callee : N) (wrapped : wtype) (hook_kept : bool) (all_entries : bool)
    (* [nodes := c.client.callee(); for addr, client := range nodes { nodes[addr] = &wrapped{client, c.hook} }; return nodes] *)
| BPanic.
    (* [panic("… is not allowed with rueidis.DedicatedClient")] *)

Record entry := En { en_type : wtype; en_method : N; en_body : body }.

Definition wtype_eqb (a b : wtype) : bool :=
  match a, b with WHookclient, WHookclient | WDedicated, WDedicated | WExtended, WExtended => true | _, _ => false end.

Fixpoint lookup (tbl : list entry) (t : wtype) (m : N) : option body :=
  match tbl with
  | [] => None
  | e :: r => if wtype_eqb (en_type e) t && (en_method e =? m) then Some (en_body e) else lookup r t m
  end.

(** method names *)
Definition mDo : N := 0x01446f.  (* Do *)
Definition mDoMulti : N := 0x01446f4d756c7469.  (* DoMulti *)
Definition mDoCache : N := 0x01446f4361636865.  (* DoCache *)
Definition mDoMultiCache : N := 0x01446f4d756c74694361636865.  (* DoMultiCache *)
Definition mReceive : N := 0x0152656365697665.  (* Receive *)
Definition mDoStream : N := 0x01446f53747265616d.  (* DoStream *)
Definition mDoMultiStream : N := 0x01446f4d756c746953747265616d.  (* DoMultiStream *)
Definition mDedicated : N := 0x01446564696361746564.  (* Dedicated *)
Definition mDedicate : N := 0x014465646963617465.  (* Dedicate *)
Definition mNodes : N := 0x014e6f646573.  (* Nodes *)
Definition mB : N := 0x0142.  (* B *)
Definition mMode : N := 0x014d6f6465.  (* Mode *)
Definition mClose : N := 0x01436c6f7365.  (* Close *)
Definition mSetPubSubHooks : N := 0x01536574507562537562486f6f6b73.  (* SetPubSubHooks *)
Definition mSetOnInvalidations : N := 0x015365744f6e496e76616c69646174696f6e73.  (* SetOnInvalidations *)

(** the request entry points named by the property *)
Definition client_requests : list N := [mDo; mDoMulti; mDoCache; mDoMultiCache; mReceive; mDoStream; mDoMultiStream].
Definition dedicated_requests : list N := [mDo; mDoMulti; mReceive].
Definition client_passthrough : list N := [mB; mMode; mClose].
Definition dedicated_passthrough : list N := [mB; mSetPubSubHooks; mSetOnInvalidations; mClose].
Definition client_derivations : list N := [mDedicated; mDedicate; mNodes].

(** * Wrapper values and events *)

(** a wrapped value: its type and the identifier of the underlying (un-hooked) client it holds *)
Inductive wval := HC (inner : N) | HD (inner : N).

Inductive event :=
| EvHook (m : N) (client : N)      (* hook.m(client, …) where client is the underlying client handed to the hook *)
| EvInner (m : N) (client : N)     (* client.m(…) on the underlying client, not through the hook *)
| EvPanic.

(** how the underlying clients derive further underlying clients (the environment) *)
Record env := Env { env_dedicate : N -> N; env_nodes : N -> list N }.

Definition wtype_of (v : wval) : wtype := match v with HC _ => WHookclient | HD _ => WDedicated end.
Definition inner_of (v : wval) : N := match v with HC i | HD i => i end.

Definition wrap (t : wtype) (i : N) : option wval :=
  match t with WHookclient => Some (HC i) | WDedicated => Some (HD i) | WExtended => None end.

Fixpoint all_some_w (l : list (option wval)) : option (list wval) :=
  match l with
  | [] => Some []
  | Some x :: r => match all_some_w r with Some xs => Some (x :: xs) | None => None end
  | None :: _ => None
  end.

(** calling method m on wrapper value v: events, derived wrapper values, and whether the callee's result is
    what the caller receives *)
Definition call (tbl : list entry) (en : env) (v : wval) (m : N) : option (list event * list wval * bool) :=
  match lookup tbl (wtype_of v) m with
  | None => None
  | Some b =>
    let i := inner_of v in
    match b with
    | BDeleg OHook callee inner_first _ ret =>
      (* the hook is given the wrapped client (hookclient: c.client; dedicated: the extended view of it) *)
      Some ([if inner_first then EvHook callee i else EvHook callee 0], [], ret)
    | BDeleg OInner callee _ _ ret => Some ([EvInner callee i], [], ret)
    | BWrapCallback callee w _ hook_kept ret =>
      match wrap w (env_dedicate en i) with
      | Some d => Some ([EvInner callee i], (if hook_kept then [d] else []), ret)
      | None => None
      end
    | BWrapResult callee w _ hook_kept ret =>
      match wrap w (env_dedicate en i) with
      | Some d => Some ([EvInner callee i], (if hook_kept then [d] else []), ret)
      | None => None
      end
    | BWrapMap callee w hook_kept all =>
      match all_some_w (map (wrap w) (env_nodes en i)) with
      | Some ds => Some ([EvInner callee i], (if hook_kept && all then ds else []), true)
      | None => None
      end
    | BPanic => Some ([EvPanic], [], false)
    end
  end.

(** * The finite check over the regenerated table *)

Definition memN (x : N) (l : list N) : bool := existsb (N.eqb x) l.

Definition via_hook_ok (tbl : list entry) (t : wtype) (m : N) : bool :=
  match lookup tbl t m with
  | Some (BDeleg OHook c true true true) => c =? m
  | _ => false
  end.

Definition passthrough_ok (tbl : list entry) (t : wtype) (m : N) : bool :=
  match lookup tbl t m with
  | Some (BDeleg OInner c _ true true) => c =? m
  | _ => false
  end.

(** methods of rueidis.Client that a DedicatedClient does not have: [extended] must refuse them, and must not
    declare anything else (so that B, Do, DoMulti, Receive, Close, SetPubSubHooks, SetOnInvalidations are the methods
    promoted from the embedded underlying DedicatedClient, reached directly and not through the hook again) *)
Definition extended_refused : list N := [mDoCache; mDoMultiCache; mDoStream; mDoMultiStream; mDedicated; mDedicate; mNodes; mMode].

Definition table_ok (tbl : list entry) : bool :=
  forallb (via_hook_ok tbl WHookclient) client_requests
  && forallb (via_hook_ok tbl WDedicated) dedicated_requests
  && forallb (passthrough_ok tbl WHookclient) client_passthrough
  && forallb (passthrough_ok tbl WDedicated) dedicated_passthrough
  && match lookup tbl WHookclient mDedicated with Some (BWrapCallback c WDedicated true true true) => c =? mDedicated | _ => false end
  && match lookup tbl WHookclient mDedicate with Some (BWrapResult c WDedicated true true true) => c =? mDedicate | _ => false end
  && match lookup tbl WHookclient mNodes with Some (BWrapMap c WHookclient true true) => c =? mNodes | _ => false end
  && forallb (fun m => match lookup tbl WExtended m with Some BPanic => true | _ => false end) extended_refused
  && forallb (fun e =>
       match en_type e with
       | WHookclient => memN (en_method e) (client_requests ++ client_passthrough ++ client_derivations)
       | WDedicated => memN (en_method e) (dedicated_requests ++ dedicated_passthrough)
       | WExtended => memN (en_method e) extended_refused
       end) tbl.

(** * Derived clients *)

Inductive deriv := DDedicated | DDedicate | DNode (k : nat).

Definition derive1 (tbl : list entry) (en : env) (v : wval) (d : deriv) : option wval :=
  match d with
  | DDedicated => match call tbl en v mDedicated with Some (_, [x], _) => Some x | _ => None end
  | DDedicate => match call tbl en v mDedicate with Some (_, [x], _) => Some x | _ => None end
  | DNode k => match call tbl en v mNodes with Some (_, xs, _) => nth_error xs k | None => None end
  end.

Fixpoint derive (tbl : list entry) (en : env) (v : wval) (p : list deriv) : option wval :=
  match p with
  | [] => Some v
  | d :: r => match derive1 tbl en v d with Some v' => derive tbl en v' r | None => None end
  end.

Definition requests_of (v : wval) : list N :=
  match v with HC _ => client_requests | HD _ => dedicated_requests end.

(** * Stacked hooks: WithHook(WithHook(c, h1), h2) …

    The client wrapped by a hookclient may itself be a hookclient; the dedicated client wrapped (through [extended])
    by a [dedicated] may itself be a [dedicated] of an inner hook.  Hooks are identified by a level; each hook is
    assumed to perform the same call once on the client it is handed (that is what "passes the request on" means;
    the observer's counting hooks do exactly this). *)

Inductive sclient := SBase (i : N) | SHooked (l : N) (inner : sclient).
Inductive sded := SDBase (i : N) | SDHooked (l : N) (inner : sded).
Inductive sevent := SHook (l : N) (m : N) | SInner (m : N) (i : N) | SPanic.

Fixpoint scall (tbl : list entry) (c : sclient) (m : N) : option (list sevent) :=
  match c with
  | SBase i => Some [SInner m i]
  | SHooked l inner =>
    match lookup tbl WHookclient m with
    | Some (BDeleg OHook callee true _ _) => option_map (cons (SHook l callee)) (scall tbl inner callee)
    | Some (BDeleg OHook callee false _ _) => Some [SHook l callee]
    | Some (BDeleg OInner callee _ _ _) => scall tbl inner callee
    | Some BPanic => Some [SPanic]
    | _ => None
    end
  end.

(** a request on a hooked dedicated client: the hook is handed [extended{inner}], whose Do/DoMulti/Receive/… are the
    methods promoted from [inner] *)
Fixpoint sdcall (tbl : list entry) (d : sded) (m : N) : option (list sevent) :=
  match d with
  | SDBase i => Some [SInner m i]
  | SDHooked l inner =>
    match lookup tbl WDedicated m with
    | Some (BDeleg OHook callee true _ _) => option_map (cons (SHook l callee)) (sdcall tbl inner callee)
    | Some (BDeleg OHook callee false _ _) => Some [SHook l callee]
    | Some (BDeleg OInner callee _ _ _) => sdcall tbl inner callee
    | Some BPanic => Some [SPanic]
    | _ => None
    end
  end.

(** Dedicate() / Dedicated(fn) on a (possibly stacked) client *)
Fixpoint sdedicate (tbl : list entry) (en : env) (via : N) (c : sclient) : option sded :=
  match c with
  | SBase i => Some (SDBase (env_dedicate en i))
  | SHooked l inner =>
    match lookup tbl WHookclient via with
    | Some (BWrapResult callee WDedicated true true _) | Some (BWrapCallback callee WDedicated true true _) =>
      if callee =? via then option_map (SDHooked l) (sdedicate tbl en via inner) else None
    | Some (BDeleg OInner callee _ _ _) => if callee =? via then sdedicate tbl en via inner else None
    | _ => None
    end
  end.

Fixpoint snodes (tbl : list entry) (en : env) (c : sclient) : option (list sclient) :=
  match c with
  | SBase i => Some (map SBase (env_nodes en i))
  | SHooked l inner =>
    match lookup tbl WHookclient mNodes with
    | Some (BWrapMap callee WHookclient true true) =>
      if callee =? mNodes then option_map (map (SHooked l)) (snodes tbl en inner) else None
    | Some (BDeleg OInner callee _ _ _) => if callee =? mNodes then snodes tbl en inner else None
    | _ => None
    end
  end.

Fixpoint sderive (tbl : list entry) (en : env) (c : sclient) (p : list deriv) : option (sclient + sded) :=
  match p with
  | [] => Some (inl c)
  | DDedicated :: _ => option_map inr (sdedicate tbl en mDedicated c)
  | DDedicate :: _ => option_map inr (sdedicate tbl en mDedicate c)
  | DNode k :: r =>
    match snodes tbl en c with
    | Some ns => match nth_error ns k with Some c' => sderive tbl en c' r | None => None end
    | None => None
    end
  end.

(** hook levels, outermost first, over a base client *)
Definition stack (ls : list N) (i : N) : sclient := fold_right SHooked (SBase i) ls.
Definition dstack (ls : list N) (i : N) : sded := fold_right SDHooked (SDBase i) ls.

(** ---- correspondence cases (printed by harness/cmd/obs_hook) ----
    The observer's hook records its invocation and then performs the same call on the client it was given;
    the fake underlying clients record what reaches them, with their identifier. *)
Definition test_env : env := Env (fun i => i * 10 + 1) (fun i => [i * 10 + 2; i * 10 + 3]).

Definition through_test_hook (evs : list event) : list event :=
  flat_map (fun e => match e with EvHook m i => [EvHook m i; EvInner m i] | _ => [e] end) evs.

Inductive case :=
| CCall (root : N) (path : list deriv) (m : N) (impl_events : list event) (impl_result_unchanged : bool)
| CStack (levels : list N) (root : N) (path : list deriv) (m : N) (impl_events : list sevent).

Definition event_eqb (a b : event) : bool :=
  match a, b with
  | EvHook m i, EvHook m' i' | EvInner m i, EvInner m' i' => (m =? m') && (i =? i')
  | EvPanic, EvPanic => true
  | _, _ => false
  end.

Definition sevent_eqb (a b : sevent) : bool :=
  match a, b with
  | SHook l m, SHook l' m' => (l =? l') && (m =? m')
  | SInner m i, SInner m' i' => (m =? m') && (i =? i')
  | SPanic, SPanic => true
  | _, _ => false
  end.

Definition check_case_with (tbl : list entry) (c : case) : bool :=
  match c with
  | CStack ls root path m evs =>
    match sderive tbl test_env (stack ls root) path with
    | Some (inl c') => match scall tbl c' m with Some mevs => list_eqb sevent_eqb mevs evs | None => false end
    | Some (inr d) => match sdcall tbl d m with Some mevs => list_eqb sevent_eqb mevs evs | None => false end
    | None => false
    end
  | CCall root path m evs unchanged =>
    match derive tbl test_env (HC root) path with
    | Some v =>
      match call tbl test_env v m with
      | Some (mevs, _, ret) => list_eqb event_eqb (through_test_hook mevs) evs && Bool.eqb ret unchanged
      | None => false
      end
    | None => false
    end
  end.
