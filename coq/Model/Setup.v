(** Model of connection setup: pipe.go [_newPipe] (command lists, reply examination, RESP2 fallback)
    and sentinel.go [newSentinelOpt].  Definitions only.

    Go -> Gallina
      option.Username/Password (+ AuthCredentialsFn)  -> [o_user]/[o_pass]/[o_credfn], effective [creds]
      init (RESP3 list)                               -> [init3]
      init (RESP2 list, rebuilt after the fallback)   -> [init2]
      the two [for i, r := range resp.s[:count]] loops -> [loop3] / [loop2]
      the whole function                               -> [eval_setup]
    A reply is abstracted to the class that the examined accessors distinguish ([reply]);
    a missing reply (the server never answered / the connection broke) is [RIO].  The setup pipelines run
    through [syncDoMulti] (the context always carries a deadline), which on an I/O failure replaces
    *every* result of the pipeline, including those already received, by that failure ([norm]). *)
From Coq Require Import String List Arith NArith ZArith Bool.
Require Import RV.Model.Base RV.Model.PsBase.
Import ListNotations.
Open Scope N_scope.
Open Scope string_scope.
Open Scope list_scope.

(** ---- options ---- *)
Record opts := mkOpts {
  o_user : bytes;                               (* ClientOption.Username *)
  o_pass : bytes;                               (* ClientOption.Password *)
  o_credfn : option (option (bytes * bytes));   (* AuthCredentialsFn: None = nil; Some None = returns an error;
                                                   Some (Some (u,p)) = supplies (u,p) *)
  o_name : bytes;                               (* ClientName *)
  o_az : bool;                                  (* EnableReplicaAZInfo && AZFromInfo *)
  o_nocache : bool;                             (* DisableCache *)
  o_track : option (list bytes);                (* ClientTrackingOptions (None = nil slice) *)
  o_db : Z;                                     (* SelectDB *)
  o_replica : bool;                             (* ReplicaOnly *)
  o_sentinel : bool;                            (* Sentinel.MasterSet <> "" *)
  o_notouch : bool;                             (* ClientNoTouch *)
  o_noevict : bool;                             (* ClientNoEvict *)
  o_redirect : bool;                            (* Standalone.EnableRedirect *)
  o_setinfo : option (list bytes);              (* ClientSetInfo (None = nil slice) *)
  o_resp2 : bool;                               (* AlwaysRESP2 *)
  o_libname : bytes;                            (* const LibName *)
  o_libver : bytes;                             (* const LibVer *)
  (* Sentinel.{Username,Password,ClientName}: only used by [sentinel_opt] *)
  o_s_user : bytes; o_s_pass : bytes; o_s_name : bytes
}.

(** effective credentials; None = AuthCredentialsFn failed (nothing is sent, the connection is closed) *)
Definition creds (o : opts) : option (bytes * bytes) :=
  match o_credfn o with
  | None => Some (o_user o, o_pass o)
  | Some None => None
  | Some (Some up) => Some up
  end.

(** sentinel.go newSentinelOpt: the connection to a sentinel uses the sentinel credentials / name and never SELECTs *)
Definition sentinel_opt (o : opts) : opts :=
  mkOpts (o_s_user o) (o_s_pass o) (o_credfn o) (o_s_name o) (o_az o) (o_nocache o) (o_track o) 0%Z
         (o_replica o) (o_sentinel o) (o_notouch o) (o_noevict o) (o_redirect o) (o_setinfo o) (o_resp2 o)
         (o_libname o) (o_libver o) (o_s_user o) (o_s_pass o) (o_s_name o).

(** ---- command lists ---- *)
Definition auth_args (u p : bytes) : list bytes :=
  if negb (is_empty p) && is_empty u then [bs "AUTH"; bs "default"; p]
  else if negb (is_empty u) then [bs "AUTH"; u; p]
  else [].

Definition hello_cmd (u p name : bytes) : argv :=
  [bs "HELLO"; bs "3"] ++ auth_args u p ++ (if is_empty name then [] else [bs "SETNAME"; name]).

Definition opt_cmd (b : bool) (c : argv) : list argv := if b then [c] else [].

(** true when the two CLIENT SETINFO commands are appended (their replies are then not examined) *)
Definition add_setinfo (o : opts) : bool :=
  match o_setinfo o with
  | Some [_; _] => true
  | None => true
  | Some _ => false
  end.

Definition setinfo_cmds (o : opts) : list argv :=
  match o_setinfo o with
  | Some [n; v] => [[bs "CLIENT"; bs "SETINFO"; bs "LIB-NAME"; n]; [bs "CLIENT"; bs "SETINFO"; bs "LIB-VER"; v]]
  | None => [[bs "CLIENT"; bs "SETINFO"; bs "LIB-NAME"; o_libname o]; [bs "CLIENT"; bs "SETINFO"; bs "LIB-VER"; o_libver o]]
  | Some _ => []
  end.

(** the part that both lists share: SELECT, READONLY, NO-TOUCH, NO-EVICT, CAPA, SETINFO *)
Definition tail_cmds (o : opts) : list argv :=
  opt_cmd (negb (o_db o =? 0)%Z) [bs "SELECT"; itoa (o_db o)] ++
  opt_cmd (o_replica o && negb (o_sentinel o)) [bs "READONLY"] ++
  opt_cmd (o_notouch o) [bs "CLIENT"; bs "NO-TOUCH"; bs "ON"] ++
  opt_cmd (o_noevict o) [bs "CLIENT"; bs "NO-EVICT"; bs "ON"] ++
  opt_cmd (o_redirect o) [bs "CLIENT"; bs "CAPA"; bs "redirect"] ++
  setinfo_cmds o.

Definition tracking_cmd (o : opts) : argv :=
  match o_track o with
  | None => [bs "CLIENT"; bs "TRACKING"; bs "ON"; bs "OPTIN"]
  | Some l => [bs "CLIENT"; bs "TRACKING"; bs "ON"] ++ l
  end.

Definition init3_with (o : opts) (u p : bytes) : list argv :=
  [hello_cmd u p (o_name o)] ++
  opt_cmd (o_az o) [bs "INFO"; bs "SERVER"] ++
  opt_cmd (negb (o_nocache o)) (tracking_cmd o) ++
  tail_cmds o.

Definition auth2_cmds (u p : bytes) : list argv :=
  if negb (is_empty p) && is_empty u then [[bs "AUTH"; p]]
  else if negb (is_empty u) then [[bs "AUTH"; u; p]]
  else [].

Definition init2_with (o : opts) (u p : bytes) : list argv :=
  auth2_cmds u p ++
  [[bs "HELLO"; bs "2"]] ++
  opt_cmd (o_az o) [bs "INFO"; bs "SERVER"] ++
  opt_cmd (negb (is_empty (o_name o))) [bs "CLIENT"; bs "SETNAME"; o_name o] ++
  tail_cmds o.

(** the lists for the effective credentials ([] when AuthCredentialsFn fails) *)
Definition init3 (o : opts) : list argv :=
  match creds o with Some (u, p) => init3_with o u p | None => [] end.
Definition init2 (o : opts) : list argv :=
  match creds o with Some (u, p) => init2_with o u p | None => [] end.

(** command families (used to state what the lists contain) *)
Definition is_cmd (name : string) (a : argv) : bool := head_is (bs name) a.
Definition is_client (sub : string) (a : argv) : bool :=
  match a with
  | c :: s :: _ => bytes_eqb c (bs "CLIENT") && bytes_eqb s (bs sub)
  | _ => false
  end.

(** ---- replies ---- *)
Inductive reply :=
| RMapP (proto : Z)   (* map or even-length array/set (AsMap succeeds); the integer under "proto" (0 when absent) *)
| RStr                (* blob / simple string, e.g. +OK *)
| RInt
| RArr                (* aggregate on which AsMap fails *)
| RScalar             (* bool / double / big number … *)
| RNil                (* null: Error() is the *RedisError [Nil] with an empty text *)
| RErr (nohello : bool) (* error reply; flag = its text matches  unknown command .?(HELLO|hello).?  *)
| RIO.                (* no reply: I/O error, timeout, closed connection (a non-Redis error) *)

Inductive cerr := ENone | ERedis (nohello : bool) | EOther.

(** RedisResult.Error() *)
Definition err_of (r : reply) : cerr :=
  match r with
  | RNil => ERedis false
  | RErr nh => ERedis nh
  | RIO => EOther
  | _ => ENone
  end.

(** error of RedisResult.AsMap() *)
Definition as_map_err (r : reply) : cerr :=
  match r with
  | RMapP _ => ENone
  | RNil => ERedis false
  | RErr nh => ERedis nh
  | _ => EOther
  end.

(** error of RedisResult.ToString() *)
Definition to_string_err (r : reply) : cerr :=
  match r with
  | RStr | RScalar => ENone
  | RNil => ERedis false
  | RErr nh => ERedis nh
  | _ => EOther
  end.

Definition is_rio (r : reply) : bool := match r with RIO => true | _ => false end.

(** what was received before the connection failed *)
Fixpoint cut (rs : list reply) : list reply :=
  match rs with
  | [] => []
  | r :: rest => if is_rio r then [] else r :: cut rest
  end.

(** all [n] replies of a pipeline arrived *)
Definition complete (n : nat) (rs : list reply) : bool := (n <=? length (cut rs))%nat.

(** syncDoMulti: one result per command; if any reply is missing, every result is the I/O error *)
Definition norm (n : nat) (rs : list reply) : list reply :=
  if complete n rs then firstn n (cut rs) else repeat_n RIO n.

Inductive fail := FNoCache   (* errors.Is(err, ErrNoCache) *)
                | FRedis     (* a *RedisError (an error reply or a null) *)
                | FOther     (* parse error / I/O error *)
                | FCred.     (* AuthCredentialsFn failed *)

Inductive stage1 := S1Ok | S1Fallback | S1Fail (f : fail).

(** what the first loop examines of reply [i]: AsMap for HELLO, ToString for INFO, Error otherwise *)
Definition exam (az : bool) (i : nat) (r : reply) : cerr :=
  if (i =? 0)%nat then as_map_err r
  else if (i =? 1)%nat && az then to_string_err r
  else err_of r.

(** the RESP3 examination loop; [i] is the index of the head of [cs]; [r2] the fallback flag;
    [proto] is p.info["proto"] (0 while p.info is nil).  Returns the flag and proto or the failure. *)
Fixpoint loop3 (az : bool) (i : nat) (cs : list argv) (rs : list reply) (r2 : bool) (proto : Z)
  : fail + (bool * Z) :=
  match cs, rs with
  | c :: cs', r :: rs' =>
    let e := exam az i r in
    let proto' := if (i =? 0)%nat then match r with RMapP p => p | _ => 0%Z end else proto in
    match e with
    | ENone => loop3 az (S i) cs' rs' r2 proto'
    | ERedis nh =>
      if head_is (bs "READONLY") c then loop3 az (S i) cs' rs' r2 proto'
      else if negb r2 && nh then loop3 az (S i) cs' rs' true proto'
      else if head_is (bs "CLIENT") c then inl FNoCache
      else if r2 then loop3 az (S i) cs' rs' r2 proto'
      else inl FRedis
    | EOther =>
      if head_is (bs "READONLY") c then loop3 az (S i) cs' rs' r2 proto'
      else inl FOther
    end
  | _, _ => inr (r2, proto)
  end.

(** number of examined replies: all but the two trailing CLIENT SETINFO *)
Definition count_of (o : opts) (cs : list argv) : nat :=
  if add_setinfo o then (length cs - 2)%nat else length cs.

Definition eval3 (o : opts) (replies : list reply) : stage1 :=
  if o_resp2 o then S1Fallback
  else
    let cs := init3 o in
    let n := count_of o cs in
    match loop3 (o_az o) 0 (firstn n cs) (firstn n (norm (length cs) replies)) false 0%Z with
    | inl f => S1Fail f
    | inr (r2, proto) => if r2 || (proto <? 3)%Z then S1Fallback else S1Ok
    end.

(** the RESP2 examination loop *)
Fixpoint loop2 (cs : list argv) (rs : list reply) : option fail :=
  match cs, rs with
  | c :: cs', r :: rs' =>
    if head_is (bs "READONLY") c then loop2 cs' rs'
    else match err_of r with
         | ENone => loop2 cs' rs'
         | ERedis nh => if nh then loop2 cs' rs' else Some FRedis
         | EOther => Some FOther
         end
  | _, _ => None
  end.

Definition eval2 (o : opts) (replies : list reply) : option fail :=
  let cs := init2 o in
  let n := count_of o cs in
  loop2 (firstn n cs) (firstn n (norm (length cs) replies)).

Inductive outcome :=
| SetupOk (resp3 : bool)      (* the pipe is handed to the caller; resp3 = false after the fallback *)
| SetupFail (f : fail).

(** an I/O failure during the first pipeline leaves a dead connection: nothing is answered afterwards *)
Definition stage1_io (o : opts) (r3 : list reply) : bool :=
  negb (o_resp2 o) && negb (complete (length (init3 o)) r3).

Definition r2_eff (o : opts) (r3 r2 : list reply) : list reply := if stage1_io o r3 then [] else r2.

(** the whole of _newPipe after the dial: [r3] = replies to the first pipeline, [r2] to the second *)
Definition eval_setup (o : opts) (r3 r2 : list reply) : outcome :=
  match creds o with
  | None => SetupFail FCred
  | Some _ =>
    match eval3 o r3 with
    | S1Fail f => SetupFail f
    | S1Ok => SetupOk true
    | S1Fallback =>
      if negb (o_nocache o) then SetupFail FNoCache
      else match eval2 o (r2_eff o r3 r2) with
           | Some f => SetupFail f
           | None => SetupOk false
           end
    end
  end.

(** does the second (RESP2) pipeline run? *)
Definition runs_stage2 (o : opts) (r3 : list reply) : bool :=
  match creds o, eval3 o r3 with
  | Some _, S1Fallback => o_nocache o
  | _, _ => false
  end.

(** commands written during setup, in order *)
Definition setup_cmds (o : opts) (r3 : list reply) : list argv :=
  (if o_resp2 o then [] else init3 o) ++ (if runs_stage2 o r3 then init2 o else []).

(** the connection still works when setup ends *)
Definition alive (o : opts) (r3 r2 : list reply) : bool :=
  negb (stage1_io o r3) &&
  negb (runs_stage2 o r3 && negb (complete (length (init2 o)) (r2_eff o r3 r2))).

(** everything written to the connection: the setup, then user commands only when the setup succeeded *)
Definition conn_log (o : opts) (r3 r2 : list reply) (user : list argv) : list argv :=
  setup_cmds o r3 ++
  match eval_setup o r3 r2 with
  | SetupOk _ => user
  | SetupFail _ => []
  end.

(** the commands of a pipeline that the server answered (all of them unless the connection broke) *)
Definition answered (cs : list argv) (rs : list reply) : list argv := firstn (length (cut rs)) cs.

(** what the server logs for the setup *)
Definition logged_cmds (o : opts) (r3 r2 : list reply) : list argv :=
  (if o_resp2 o then [] else answered (init3 o) r3) ++
  (if runs_stage2 o r3 then answered (init2 o) (r2_eff o r3 r2) else []).

(** ---- the server-side session: effect of the commands the server accepted ---- *)
Record session := mkSession {
  s_proto : N;
  s_auth : option (bytes * bytes);   (* last accepted (user, password) *)
  s_name : bytes;
  s_db : bytes;                      (* decimal text given to the last accepted SELECT; "0" initially *)
  s_track : option (list bytes);     (* arguments of the last accepted CLIENT TRACKING ON *)
  s_readonly : bool;
  s_notouch : bool;
  s_noevict : bool;
  s_redirect : bool;
  s_libname : option bytes;
  s_libver : option bytes
}.

Definition session0 : session :=
  mkSession 2 None [] (bs "0") None false false false false None None.

Definition set_proto s v := mkSession v (s_auth s) (s_name s) (s_db s) (s_track s) (s_readonly s) (s_notouch s) (s_noevict s) (s_redirect s) (s_libname s) (s_libver s).
Definition set_auth s v := mkSession (s_proto s) v (s_name s) (s_db s) (s_track s) (s_readonly s) (s_notouch s) (s_noevict s) (s_redirect s) (s_libname s) (s_libver s).
Definition set_name s v := mkSession (s_proto s) (s_auth s) v (s_db s) (s_track s) (s_readonly s) (s_notouch s) (s_noevict s) (s_redirect s) (s_libname s) (s_libver s).
Definition set_db s v := mkSession (s_proto s) (s_auth s) (s_name s) v (s_track s) (s_readonly s) (s_notouch s) (s_noevict s) (s_redirect s) (s_libname s) (s_libver s).
Definition set_track s v := mkSession (s_proto s) (s_auth s) (s_name s) (s_db s) v (s_readonly s) (s_notouch s) (s_noevict s) (s_redirect s) (s_libname s) (s_libver s).
Definition set_readonly s v := mkSession (s_proto s) (s_auth s) (s_name s) (s_db s) (s_track s) v (s_notouch s) (s_noevict s) (s_redirect s) (s_libname s) (s_libver s).
Definition set_notouch s v := mkSession (s_proto s) (s_auth s) (s_name s) (s_db s) (s_track s) (s_readonly s) v (s_noevict s) (s_redirect s) (s_libname s) (s_libver s).
Definition set_noevict s v := mkSession (s_proto s) (s_auth s) (s_name s) (s_db s) (s_track s) (s_readonly s) (s_notouch s) v (s_redirect s) (s_libname s) (s_libver s).
Definition set_redirect s v := mkSession (s_proto s) (s_auth s) (s_name s) (s_db s) (s_track s) (s_readonly s) (s_notouch s) (s_noevict s) v (s_libname s) (s_libver s).
Definition set_libname s v := mkSession (s_proto s) (s_auth s) (s_name s) (s_db s) (s_track s) (s_readonly s) (s_notouch s) (s_noevict s) (s_redirect s) v (s_libver s).
Definition set_libver s v := mkSession (s_proto s) (s_auth s) (s_name s) (s_db s) (s_track s) (s_readonly s) (s_notouch s) (s_noevict s) (s_redirect s) (s_libname s) v.

(** options of HELLO: AUTH u p / SETNAME n *)
Fixpoint hello_opts (fuel : nat) (s : session) (a : list bytes) : session :=
  match fuel with
  | O => s
  | S f =>
    match a with
    | k :: u :: p :: rest =>
      if bytes_eqb k (bs "AUTH") then hello_opts f (set_auth s (Some (u, p))) rest
      else if bytes_eqb k (bs "SETNAME") then hello_opts f (set_name s u) (p :: rest)
      else s
    | [k; n] => if bytes_eqb k (bs "SETNAME") then set_name s n else s
    | _ => s
    end
  end.

(** effect of one accepted command *)
Definition apply_cmd (s : session) (a : argv) : session :=
  match a with
  | c :: rest =>
    if bytes_eqb c (bs "HELLO") then
      match rest with
      | v :: optsl =>
        let s' := hello_opts (S (length optsl)) s optsl in
        if bytes_eqb v (bs "3") then set_proto s' 3 else if bytes_eqb v (bs "2") then set_proto s' 2 else s'
      | [] => s
      end
    else if bytes_eqb c (bs "AUTH") then
      match rest with
      | [p] => set_auth s (Some (bs "default", p))
      | [u; p] => set_auth s (Some (u, p))
      | _ => s
      end
    else if bytes_eqb c (bs "SELECT") then
      match rest with [d] => set_db s d | _ => s end
    else if bytes_eqb c (bs "READONLY") then set_readonly s true
    else if bytes_eqb c (bs "CLIENT") then
      match rest with
      | sub :: args =>
        if bytes_eqb sub (bs "SETNAME") then match args with [n] => set_name s n | _ => s end
        else if bytes_eqb sub (bs "TRACKING") then
          match args with
          | on :: l => if bytes_eqb on (bs "ON") then set_track s (Some l) else set_track s None
          | [] => s
          end
        else if bytes_eqb sub (bs "NO-TOUCH") then set_notouch s true
        else if bytes_eqb sub (bs "NO-EVICT") then set_noevict s true
        else if bytes_eqb sub (bs "CAPA") then set_redirect s true
        else if bytes_eqb sub (bs "SETINFO") then
          match args with
          | [k; v] => if bytes_eqb k (bs "LIB-NAME") then set_libname s (Some v)
                      else if bytes_eqb k (bs "LIB-VER") then set_libver s (Some v) else s
          | _ => s
          end
        else s
      | [] => s
      end
    else s
  | [] => s
  end.

(** a command takes effect iff the server answered it with something that is not an error
    ([RIO]: the command may or may not have been executed; it is treated as not accepted) *)
Definition accepted (r : reply) : bool :=
  match r with
  | RErr _ | RIO => false
  | _ => true
  end.

Fixpoint serve (s : session) (cs : list argv) (rs : list reply) : session :=
  match cs, rs with
  | c :: cs', r :: rs' => serve (if accepted r then apply_cmd s c else s) cs' rs'
  | _, _ => s
  end.

(** the session at the server when setup ends *)
Definition final_session (o : opts) (r3 r2 : list reply) : session :=
  let s1 := if o_resp2 o then session0 else serve session0 (init3 o) (cut r3) in
  if runs_stage2 o r3 then serve s1 (init2 o) (cut (r2_eff o r3 r2)) else s1.


(** ---- vocabulary: names for the byte strings the observer uses, so that a generated case is made of
    identifiers only (number and string literals are what costs coqc time; see docs/ps.md) ---- *)
Definition k_HELLO : bytes := bs "HELLO".
Definition k_AUTH : bytes := bs "AUTH".
Definition k_SETNAME : bytes := bs "SETNAME".
Definition k_INFO : bytes := bs "INFO".
Definition k_SERVER : bytes := bs "SERVER".
Definition k_CLIENT : bytes := bs "CLIENT".
Definition k_TRACKING : bytes := bs "TRACKING".
Definition k_ON : bytes := bs "ON".
Definition k_OPTIN : bytes := bs "OPTIN".
Definition k_OPTOUT : bytes := bs "OPTOUT".
Definition k_BCAST : bytes := bs "BCAST".
Definition k_NOLOOP : bytes := bs "NOLOOP".
Definition k_PREFIX : bytes := bs "PREFIX".
Definition k_SELECT : bytes := bs "SELECT".
Definition k_READONLY : bytes := bs "READONLY".
Definition k_NO_2dTOUCH : bytes := bs "NO-TOUCH".
Definition k_NO_2dEVICT : bytes := bs "NO-EVICT".
Definition k_CAPA : bytes := bs "CAPA".
Definition k_redirect : bytes := bs "redirect".
Definition k_SETINFO : bytes := bs "SETINFO".
Definition k_LIB_2dNAME : bytes := bs "LIB-NAME".
Definition k_LIB_2dVER : bytes := bs "LIB-VER".
Definition k_default : bytes := bs "default".
Definition k_2 : bytes := bs "2".
Definition k_3 : bytes := bs "3".
Definition k_0 : bytes := bs "0".
Definition k_1 : bytes := bs "1".
Definition k_15 : bytes := bs "15".
Definition k_16 : bytes := bs "16".
Definition k__2d1 : bytes := bs "-1".
Definition k_9 : bytes := bs "9".
Definition k_12345 : bytes := bs "12345".
Definition k_alice : bytes := bs "alice".
Definition k_s3cret : bytes := bs "s3cret".
Definition k_dyn : bytes := bs "dyn".
Definition k_rotated : bytes := bs "rotated".
Definition k_verif_2dconn : bytes := bs "verif-conn".
Definition k_sent : bytes := bs "sent".
Definition k_sentpw : bytes := bs "sentpw".
Definition k_sent_2dname : bytes := bs "sent-name".
Definition k_p_3a : bytes := bs "p:".
Definition k_mylib : bytes := bs "mylib".
Definition k_9_2e9 : bytes := bs "9.9".
Definition k_only_2done : bytes := bs "only-one".
Definition k_rueidis : bytes := bs "rueidis".
Definition k_1_2e0_2e76 : bytes := bs "1.0.76".
Definition k_ : bytes := bs "".
Definition rmap3 : reply := RMapP 3%Z.
Definition rmap2 : reply := RMapP 2%Z.
Definition rmap0 : reply := RMapP 0%Z.
Definition z_0 := 0%Z. Definition z_1 := 1%Z. Definition z_3 := 3%Z. Definition z_9 := 9%Z. Definition z_15 := 15%Z.
Definition z_16 := 16%Z. Definition z_m1 := (-1)%Z. Definition z_12345 := 12345%Z.
Definition n_2 : N := 2. Definition n_3 : N := 3.

(** ---- correspondence cases (printed by harness/cmd/obs_setup) ---- *)
(** what the observer saw at the fake server / from NewClient *)
Record seen := mkSeen {
  v_cmds : list argv;           (* commands logged on the connection before the first user command *)
  v_out : option outcome;       (* NewClient / newPipe result (None: a connection made later, no visible result) *)
  v_user_served : bool;         (* the user command was executed on this connection *)
  v_cmp_session : bool;         (* false when a reply was replaced by a non-error without executing the command *)
  v_r2ps : bool;                (* the secondary connection a RESP2 pipe opens for Pub/Sub: _newPipe with r2ps = true *)
  v_proto : N; v_name : bytes; v_db : bytes;
  v_track : option (bool * bool * bool * bool * list bytes);   (* OPTIN, OPTOUT, BCAST, NOLOOP, prefixes *)
  v_readonly : bool; v_notouch : bool; v_noevict : bool; v_redirect : bool;
  v_libname : option bytes; v_libver : option bytes
}.

Definition outcome_eqb (a b : outcome) : bool :=
  match a, b with
  | SetupOk x, SetupOk y => Bool.eqb x y
  | SetupFail FNoCache, SetupFail FNoCache => true
  | SetupFail FRedis, SetupFail FRedis => true
  | SetupFail FOther, SetupFail FOther => true
  | SetupFail FCred, SetupFail FCred => true
  | _, _ => false
  end.

Definition is_ok (x : outcome) : bool := match x with SetupOk _ => true | _ => false end.

(** how the server reads the arguments of CLIENT TRACKING ON *)
Fixpoint track_view (fuel : nat) (l : list bytes) (acc : bool * bool * bool * bool * list bytes)
  : bool * bool * bool * bool * list bytes :=
  match fuel with
  | O => acc
  | S f =>
    let '(oi, oo, bc, nl, pf) := acc in
    match l with
    | [] => acc
    | x :: rest =>
      if bytes_eqb x (bs "OPTIN") then track_view f rest (true, oo, bc, nl, pf)
      else if bytes_eqb x (bs "OPTOUT") then track_view f rest (oi, true, bc, nl, pf)
      else if bytes_eqb x (bs "BCAST") then track_view f rest (oi, oo, true, nl, pf)
      else if bytes_eqb x (bs "NOLOOP") then track_view f rest (oi, oo, bc, true, pf)
      else if bytes_eqb x (bs "PREFIX") then
        match rest with
        | p :: rest' => track_view f rest' (oi, oo, bc, nl, pf ++ [p])
        | [] => acc
        end
      else acc
    end
  end.

Definition track_eqb (a b : bool * bool * bool * bool * list bytes) : bool :=
  let '(a1, a2, a3, a4, a5) := a in
  let '(b1, b2, b3, b4, b5) := b in
  Bool.eqb a1 b1 && Bool.eqb a2 b2 && Bool.eqb a3 b3 && Bool.eqb a4 b4 && list_eqb bytes_eqb a5 b5.

Definition session_matches (s : session) (v : seen) : bool :=
  N.eqb (s_proto s) (v_proto v) && bytes_eqb (s_name s) (v_name v) && bytes_eqb (s_db s) (v_db v) &&
  option_eqb track_eqb
    (match s_track s with Some l => Some (track_view (S (length l)) l (false, false, false, false, [])) | None => None end)
    (v_track v) &&
  Bool.eqb (s_readonly s) (v_readonly v) && Bool.eqb (s_notouch s) (v_notouch v) &&
  Bool.eqb (s_noevict s) (v_noevict v) && Bool.eqb (s_redirect s) (v_redirect v) &&
  option_eqb bytes_eqb (s_libname s) (v_libname v) && option_eqb bytes_eqb (s_libver s) (v_libver v).

(** _newPipe with r2ps = true skips the RESP3 pipeline exactly as AlwaysRESP2 does *)
Definition as_r2ps (o : opts) : opts :=
  mkOpts (o_user o) (o_pass o) (o_credfn o) (o_name o) (o_az o) (o_nocache o) (o_track o) (o_db o)
         (o_replica o) (o_sentinel o) (o_notouch o) (o_noevict o) (o_redirect o) (o_setinfo o) true
         (o_libname o) (o_libver o) (o_s_user o) (o_s_pass o) (o_s_name o).

Definition check_conn1 (o : opts) (r3 r2 : list reply) (v : seen) : bool :=
  argvs_eqb (logged_cmds o r3 r2) (v_cmds v) &&
  match v_out v with
  | Some out => outcome_eqb (eval_setup o r3 r2) out
  | None => true
  end &&
  (* a user command is served only by a connection whose setup succeeded *)
  implb (v_user_served v) (is_ok (eval_setup o r3 r2) && alive o r3 r2) &&
  (negb (v_cmp_session v) || session_matches (final_session o r3 r2) v).

(** a Pub/Sub secondary connection exists only for a RESP2 pipe, hence only with the cache disabled *)
Definition check_conn (o : opts) (r3 r2 : list reply) (v : seen) : bool :=
  if v_r2ps v then o_nocache o && check_conn1 (as_r2ps o) r3 r2 v else check_conn1 o r3 r2 v.

Inductive case :=
| CSetup (o : opts) (r3 r2 : list reply) (v : seen)            (* the first connection (made by NewClient / newPipe) *)
         (others : list (list reply * list reply * seen))      (* connections the client made later *)
| CSentinelOpt (o : opts) (hello : argv) (has_select : bool). (* first command / SELECT presence with newSentinelOpt(o) *)

Definition check_case (c : case) : bool :=
  match c with
  | CSetup o r3 r2 v others =>
    check_conn o r3 r2 v &&
    forallb (fun x => let '(a, b, w) := x in check_conn o a b w) others
  | CSentinelOpt o hello has_select =>
    match init3 (sentinel_opt o) with
    | hc :: rest => argv_eqb hc hello && Bool.eqb (existsb (head_is (bs "SELECT")) rest) has_select
    | [] => false
    end
  end.
