(** Model of the connection pipeline of rueidis ([pipe.go]) — C01 / C04 / C05.  Definitions only.

    Part 1  messages, commands, slots
    Part 2  [reader_step]: line-by-line transcription of the loop body of [_backgroundRead],
            [reader_exit]: its deferred function, [sync_read]/[sync_multi]: the reads of syncDo/syncDoMulti
    Part 3  replay of a recorded connection through the reader and the correspondence [case]/[check_case]

    The server protocol and the caller/writer LTS are in [Model/PipeLts.v].

    NOT modelled: the Redis-6 embedded-push workaround ([ver = 6] branch of _backgroundRead; the model
    answers [AUnmodelled] and every theorem assumes [ver <> 6]); the contents of the client-side cache
    (the three cache-commit branches are transcribed as the actions [ACacheStatic]/[ACacheOptIn], their
    effect on the lru is the cache family's model); RESP decoding (frames are decoded messages). *)
From Coq Require Import List NArith ZArith Bool String Ascii.
Require Import RV.Model.Base RV.Model.PipeQueue.
Import ListNotations.
Open Scope N_scope.

(** * Part 1 — messages, commands, slots *)

(** [RedisMessage]: the fields the pipe looks at.  [m_str] is [msg.string()], [m_vals] is [msg.values()],
    [m_int] the integer of a ':' reply. *)
Inductive msg := Msg (typ : N) (str : bytes) (int : Z) (vals : list msg).

Definition m_typ (m : msg) : N := let 'Msg t _ _ _ := m in t.
Definition m_str (m : msg) : bytes := let 'Msg _ s _ _ := m in s.
Definition m_int (m : msg) : Z := let 'Msg _ _ i _ := m in i.
Definition m_vals (m : msg) : list msg := let 'Msg _ _ _ v := m in v.

Fixpoint msg_eqb (a b : msg) : bool :=
  match a, b with
  | Msg t1 s1 i1 v1, Msg t2 s2 i2 v2 =>
    N.eqb t1 t2 && bytes_eqb s1 s2 && Z.eqb i1 i2 &&
    (fix go (l1 l2 : list msg) : bool :=
       match l1, l2 with
       | [], [] => true
       | x :: r1, y :: r2 => msg_eqb x y && go r1 r2
       | _, _ => false
       end) v1 v2
  end.

(** ASCII literal to bytes *)
Fixpoint b (s : string) : bytes :=
  match s with
  | EmptyString => []
  | String a r => N_of_ascii a :: b r
  end.

Fixpoint prefix_b (p s : bytes) : bool :=
  match p, s with
  | [], _ => true
  | x :: p', y :: s' => N.eqb x y && prefix_b p' s'
  | _ :: _, [] => false
  end.

(** strings.Contains *)
Fixpoint contains_b (p s : bytes) : bool :=
  match s with
  | [] => prefix_b p []
  | _ :: s' => prefix_b p s || contains_b p s'
  end.

Definition t_push : N := 62.    (* '>' *)
Definition t_err : N := 45.     (* '-' *)
Definition t_simple : N := 43.  (* '+' *)

(** [RedisMessage{}] — what a subscribe confirmation is replaced by *)
Definition empty_msg : msg := Msg 0 [] 0 [].
Definition pong_msg : msg := Msg t_simple (b "PONG"%string) 0 [].

(** A command as far as the pipe is concerned: identity (ghost, used by the theorems to name the reply
    that belongs to it), [len(cmd.Commands())] and the flag bits the pipe tests. *)
Record cmd := mkCmd {
  c_id : N;
  c_argc : nat;
  c_noreply : bool;   (* NoReply(): SUBSCRIBE family *)
  c_unsub : bool;     (* IsUnsub() *)
  c_optin : bool;     (* IsOptIn(): CLIENT CACHING YES *)
  c_static : bool;    (* cmds.IsStaticTTL *)
  c_mget : bool;      (* IsMGet() *)
  c_block : bool      (* IsBlock() *)
}.

(** One queue entry: PutOne ([s_multi = false], exactly one command, [resps = nil]) or PutMulti. *)
Record slot := mkSlot {
  s_owner : N;        (* ghost: the call that put it *)
  s_multi : bool;
  s_cmds : list cmd
}.

(** * Part 2 — the reader *)

(** isUnsubReply: returns the verdict and the (possibly patched) message. *)
Definition is_unsub_reply (m : msg) : bool * msg :=
  if N.eqb (m_typ m) t_err &&
     (prefix_b (b "LOADING"%string) (m_str m) || prefix_b (b "BUSY"%string) (m_str m) || contains_b (b "'ping'"%string) (m_str m))
  then (true, pong_msg)
  else (bytes_eqb (m_str m) (b "PONG"%string) ||
        match m_vals m with
        | [] => false
        | v0 :: _ => bytes_eqb (m_str v0) (b "pong"%string)
        end, m).

Inductive pushkind :=
| PkInvalidate | PkMessage | PkPMessage | PkSMessage
| PkUnsubscribe | PkPUnsubscribe | PkSUnsubscribe
| PkSubscribe | PkPSubscribe | PkSSubscribe.

Inductive action :=
| APush (k : pushkind) (vals : list msg)   (* side effects of handlePush: cache.Delete / onInvalidations / subs.Publish / Confirm / Unsubscribe / hooks *)
| ATakeNext (got : bool)                   (* NextResultCh; [false]: nothing written is waiting, followed by FinishResult *)
| ACacheStatic (i : nat) (cancel : bool)   (* static-TTL commit of multi[i]: cache.Cancel (error reply) or cache.Update *)
| ACacheOptIn (i : nat) (mget : bool)      (* opt-in commit of multi[i] out of the EXEC array *)
| AStore (i : nat) (m : msg)               (* resps[i] = NewResult(m, nil)  (only when resps != nil) *)
| AComplete (m : msg)                      (* ch <- NewResult(m, nil); FinishResult *)
| APanic (which : N)                       (* 1 protocolbug, 2 multiexecsub, 3 index out of range *)
| AUnmodelled.                             (* ver = 6 workaround *)

(** handlePush: (reply, unsubscribe) and the side effects *)
Definition handle_push (vs : list msg) : bool * bool * list action :=
  match vs with
  | v0 :: _ :: _ =>
    let k := m_str v0 in
    let n := List.length vs in
    if bytes_eqb k (b "invalidate"%string) then (false, false, [APush PkInvalidate vs])
    else if bytes_eqb k (b "message"%string) then (false, false, if Nat.leb 3 n then [APush PkMessage vs] else [])
    else if bytes_eqb k (b "pmessage"%string) then (false, false, if Nat.leb 4 n then [APush PkPMessage vs] else [])
    else if bytes_eqb k (b "smessage"%string) then (false, false, if Nat.leb 3 n then [APush PkSMessage vs] else [])
    else if bytes_eqb k (b "unsubscribe"%string) then (true, true, if Nat.leb 3 n then [APush PkUnsubscribe vs] else [])
    else if bytes_eqb k (b "punsubscribe"%string) then (true, true, if Nat.leb 3 n then [APush PkPUnsubscribe vs] else [])
    else if bytes_eqb k (b "sunsubscribe"%string) then (true, true, if Nat.leb 3 n then [APush PkSUnsubscribe vs] else [])
    else if bytes_eqb k (b "subscribe"%string) then (true, false, if Nat.leb 3 n then [APush PkSubscribe vs] else [])
    else if bytes_eqb k (b "psubscribe"%string) then (true, false, if Nat.leb 3 n then [APush PkPSubscribe vs] else [])
    else if bytes_eqb k (b "ssubscribe"%string) then (true, false, if Nat.leb 3 n then [APush PkSSubscribe vs] else [])
    else (false, false, [])
  | _ => (false, false, [])       (* len(values) < 2 *)
  end.

(** The local variables of _backgroundRead that survive an iteration. *)
Record rstate := mkR {
  r_multi : list cmd;     (* multi (or ones when the slot came from PutOne) *)
  r_owner : N;            (* ghost: owner of the slot last taken *)
  r_ch : bool;            (* ch != nil *)
  r_resps : bool;         (* resps != nil *)
  r_ff : nat;
  r_skip : Z;
  r_prply : bool;
  r_unsub : bool;
  r_sur : bool            (* skipUnsubReply *)
}.

Definition r_init : rstate := mkR [] 0 false false 0 0%Z false false false.

Definition set_flags (st : rstate) (prply unsub : bool) : rstate :=
  mkR (r_multi st) (r_owner st) (r_ch st) (r_resps st) (r_ff st) (r_skip st) prply unsub (r_sur st).
Definition set_skip (st : rstate) (k : Z) : rstate :=
  mkR (r_multi st) (r_owner st) (r_ch st) (r_resps st) (r_ff st) k (r_prply st) (r_unsub st) (r_sur st).
Definition set_sur (st : rstate) (x : bool) : rstate :=
  mkR (r_multi st) (r_owner st) (r_ch st) (r_resps st) (r_ff st) (r_skip st) (r_prply st) (r_unsub st) x.
Definition set_ff (st : rstate) (n : nat) : rstate :=
  mkR (r_multi st) (r_owner st) (r_ch st) (r_resps st) n (r_skip st) (r_prply st) (r_unsub st) (r_sur st).
Definition set_slot (st : rstate) (o : option slot) : rstate :=
  match o with
  | Some sl => mkR (s_cmds sl) (s_owner sl) true (s_multi sl) 0 (r_skip st) (r_prply st) (r_unsub st) (r_sur st)
  | None => mkR [] (r_owner st) false false 0 (r_skip st) (r_prply st) (r_unsub st) (r_sur st)
  end.

(** `msg.typ == '>' || (r2ps && len(msg.values()) != 0 && msg.values()[0].string() != "pong")` *)
Definition is_push_frame (r2ps : bool) (m : msg) : bool :=
  N.eqb (m_typ m) t_push ||
  (r2ps && match m_vals m with
           | [] => false
           | v0 :: _ => negb (bytes_eqb (m_str v0) (b "pong"%string))
           end).

(** One iteration of the `for` loop of _backgroundRead on the decoded frame [m], in four phases
    (line numbers refer to pipe.go as of the verified tree).  [inl] = the iteration ended (`continue`
    or a Go panic), [inr] = fall through to the next phase.
    [next] is what NextResultCh would return now (the oldest written slot, if any); the action
    [ATakeNext true] says that it was consumed.  A Go panic leaves the state as it was and ends the
    action list with [APanic]. *)

(** 581-600: push frames *)
Definition rd_pushed (r2ps : bool) (ver : Z) (st : rstate) (m : msg)
  : (rstate * list action) + (rstate * list action) :=
  if is_push_frame r2ps m then
    let '(prply, unsub, pa) := handle_push (m_vals m) in
    let st1 := set_flags st prply unsub in
    if negb prply then inl (st1, pa)                                        (* 582-584 continue *)
    else if (0 <? r_skip st1)%Z then
      inl (set_flags (set_skip st1 (r_skip st1 - 1)%Z) false false, pa)     (* 585-590 *)
    else if unsub then inl (set_flags st1 false false, pa)                  (* repaired code: an unsubscribe
                                                                               notification is never a reply *)
    else inr (st1, pa)
  else if Z.eqb ver 6 && negb (match m_vals m with [] => true | _ => false end) then
    inl (st, [AUnmodelled])                                                 (* 591-612, not modelled *)
  else inr (st, []).

(** 613-677: take the next queue entry when the current one is fulfilled; cache commits otherwise *)
Definition rd_taken (next : option slot) (st1 : rstate) (a1 : list action) (m : msg)
  : (rstate * list action) + (rstate * list action) :=
  if Nat.eqb (r_ff st1) (List.length (r_multi st1)) then
    match next with
    | None =>
      let st2 := set_slot st1 None in
      let a2 := a1 ++ [ATakeNext false] in
      if r_unsub st2 then inl (set_flags st2 false false, a2)               (* 623-627 *)
      else if r_sur st2 && fst (is_unsub_reply m) then inl (set_sur st2 false, a2)  (* 628-631 *)
      else inl (st1, a2 ++ [APanic 1])                                      (* 632 *)
    | Some sl => inr (set_slot st1 (Some sl), a1 ++ [ATakeNext true])       (* 634-636 *)
    end
  else
    match nth_error (r_multi st1) (r_ff st1) with
    | None => inl (st1, a1 ++ [APanic 3])
    | Some c =>
      if Nat.ltb 0 (r_ff st1) && c_static c then                            (* 637-653 *)
        inr (st1, a1 ++ [ACacheStatic (r_ff st1) (N.eqb (m_typ m) t_err)])
      else if Nat.leb 4 (r_ff st1) && Nat.leb 2 (List.length (m_vals m)) &&
              match r_multi st1 with c0 :: _ => c_optin c0 | [] => false end then  (* 654-677 *)
        match nth_error (r_multi st1) (r_ff st1 - 1) with
        | Some cp => inr (st1, a1 ++ [ACacheOptIn (r_ff st1 - 1) (c_mget cp)])
        | None => inl (st1, a1 ++ [APanic 3])
        end
      else inr (st1, a1)
    end.

(** 678-708: classification of the frame for multi[ff] = c; [st] is the state at loop entry *)
Definition rd_classify (st st2 : rstate) (a2 : list action) (c : cmd) (m : msg)
  : (rstate * list action) + (rstate * msg) :=
  if r_prply st2 then
    if r_unsub st2 then inl (set_flags st2 false false, a2)                 (* 684-688 *)
    else
      let st3 := set_flags st2 false false in
      if negb (c_noreply c) then inl (st, a2 ++ [APanic 1])                 (* 691-693 *)
      else inr (set_skip st3 (Z.of_nat (c_argc c) - 2)%Z, empty_msg)        (* 694-695 *)
  else if c_noreply c && bytes_eqb (m_str m) (b "QUEUED"%string) then
    inl (st, a2 ++ [APanic 2])                                              (* 696-697 *)
  else if c_unsub c && negb (fst (is_unsub_reply m)) then
    inr (set_sur st2 true, m)                                               (* 698-700 *)
  else
    (* when IsUnsub() held, isUnsubReply was evaluated (and answered true): msg may be patched *)
    let m1 := if c_unsub c then snd (is_unsub_reply m) else m in
    if r_sur st2 then                                                       (* 701-708 *)
      if negb (fst (is_unsub_reply m1)) then inl (st, a2 ++ [APanic 1])
      else inl (set_sur st2 false, a2)
    else inr (st2, m1).

(** 709-716 *)
Definition rd_store (st3 : rstate) (a2 : list action) (m3 : msg) : rstate * list action :=
  let a3 := if r_resps st3 then a2 ++ [AStore (r_ff st3) m3] else a2 in
  let st4 := set_ff st3 (S (r_ff st3)) in
  if Nat.eqb (r_ff st4) (List.length (r_multi st4)) then (st4, a3 ++ [AComplete m3]) else (st4, a3).

Definition reader_step (r2ps : bool) (ver : Z) (next : option slot) (st : rstate) (m : msg)
  : rstate * list action :=
  match rd_pushed r2ps ver st m with
  | inl r => r
  | inr (st1, a1) =>
    match rd_taken next st1 a1 m with
    | inl r => r
    | inr (st2, a2) =>
      match nth_error (r_multi st2) (r_ff st2) with
      | None => (st, a2 ++ [APanic 3])                                      (* multi[ff] out of range *)
      | Some c =>
        match rd_classify st st2 a2 c m with
        | inl r => r
        | inr (st3, m3) => rd_store st3 a2 m3
        end
      end
    end
  end.

(** The deferred function of _backgroundRead, run when readNextMessage failed:
    `if err != nil && ff < len(multi) { for ; ff < len(resps); ff++ { resps[ff] = resp }; ch <- resp; FinishResult }`.
    Returns the indices filled with the error and whether the slot was completed. *)
Definition reader_exit (st : rstate) : list nat * bool :=
  if Nat.ltb (r_ff st) (List.length (r_multi st)) then
    ((if r_resps st then seq (r_ff st) (List.length (r_multi st) - r_ff st) else []), true)
  else ([], false).

(** syncRead: the next frame that is not a RESP3 push. *)
Fixpoint sync_read (fs : list msg) : option (msg * list msg) :=
  match fs with
  | [] => None
  | f :: r => if N.eqb (m_typ f) t_push then sync_read r else Some (f, r)
  end.

(** The read loop of syncDoMulti / the single read of syncDo: n replies. *)
Fixpoint sync_multi (n : nat) (fs : list msg) : option (list msg * list msg) :=
  match n with
  | O => Some ([], fs)
  | S k =>
    match sync_read fs with
    | None => None
    | Some (m, r) =>
      match sync_multi k r with
      | None => None
      | Some (ms, r') => Some (m :: ms, r')
      end
    end
  end.

(** * Part 3 — deliveries and replay *)

(** What calls have been handed, keyed by slot owner: the results stored into resps (or the value sent
    on the channel for a PutOne slot) in order, and whether the slot was completed. *)
Record drec := mkD { d_owner : N; d_vals : list msg; d_done : bool }.
Definition dtab := list drec.

Fixpoint d_update (t : dtab) (o : N) (f : drec -> drec) : dtab :=
  match t with
  | [] => [f (mkD o [] false)]
  | d :: r => if N.eqb (d_owner d) o then f d :: r else d :: d_update r o f
  end.

Definition d_find (t : dtab) (o : N) : option drec := find (fun d => N.eqb (d_owner d) o) t.

(** Effect of one reader action on the delivery table; [st] is the reader state in which the action
    was produced (owner and kind of the current slot).  For a PutMulti slot the caller reads resps, for a
    PutOne slot it reads the channel value. *)
Definition deliver (owner : N) (multi : bool) (t : dtab) (a : action) : dtab :=
  match a with
  | AStore _ m => d_update t owner (fun d => mkD (d_owner d) (d_vals d ++ [m]) (d_done d))
  | AComplete m =>
    d_update t owner (fun d => mkD (d_owner d) (if multi then d_vals d else d_vals d ++ [m]) true)
  | _ => t
  end.

Definition is_bad (a : action) : bool :=
  match a with APanic _ | AUnmodelled => true | _ => false end.

(** Feed the frames to the reader; every written slot is available as soon as it is asked for
    (the deliveries do not depend on when a slot becomes available — that is part of C01_routing). *)
Fixpoint run_reader (r2ps : bool) (ver : Z) (st : rstate) (q : list slot) (fs : list msg) (t : dtab)
  : option dtab :=
  match fs with
  | [] => Some t
  | f :: r =>
    let '(st', acts) := reader_step r2ps ver (hd_error q) st f in
    if existsb is_bad acts then None
    else
      let q' := if existsb (fun a => match a with ATakeNext true => true | _ => false end) acts then tl q else q in
      run_reader r2ps ver st' q' r (fold_left (deliver (r_owner st') (r_resps st')) acts t)
  end.

(** The slots handled by syncDo / syncDoMulti before the background loops were started. *)
Fixpoint run_sync (slots : list slot) (n : nat) (fs : list msg) (t : dtab) : option (list slot * list msg * dtab) :=
  match n, slots with
  | O, _ => Some (slots, fs, t)
  | S k, [] => None
  | S k, sl :: r =>
    match sync_multi (List.length (s_cmds sl)) fs with
    | None => Some ([], [], t)     (* the connection ended before the replies arrived *)
    | Some (ms, fs') => run_sync r k fs' (t ++ [mkD (s_owner sl) ms true])
    end
  end.

Definition replay (r2ps : bool) (ver : Z) (nsync : nat) (slots : list slot) (fs : list msg) : option dtab :=
  match run_sync slots nsync fs [] with
  | None => None
  | Some (rest, fs', t) => run_reader r2ps ver r_init rest fs' t
  end.

(** Comparison with what the callers of the implementation were handed: for every slot, for every
    command, [Some m] = the caller got message m, [None] = not observable (call abandoned or failed). *)
Fixpoint vals_agree (impl : list (option msg)) (model : list msg) : bool :=
  match impl, model with
  | [], _ => true
  | None :: r, [] => vals_agree r []
  | None :: r, _ :: r' => vals_agree r r'
  | Some _ :: _, [] => false
  | Some m :: r, m' :: r' => msg_eqb m m' && vals_agree r r'
  end.

Definition slot_agrees (t : dtab) (x : N * list (option msg)) : bool :=
  let '(o, impl) := x in
  match d_find t o with
  | None => forallb (fun v => match v with None => true | Some _ => false end) impl
  | Some d => vals_agree impl (d_vals d) && Nat.leb (List.length (d_vals d)) (List.length impl)
  end.

(** ---- correspondence cases (printed by harness/cmd/obs_pipe, obs_fault) ---- *)
(** compact constructors used by the printers (case files are large) *)
Definition Mb (t : N) (hex : string) : msg := Msg t (h hex) 0 [].
Definition Mi (t : N) (i : Z) : msg := Msg t [] i [].
Definition Ma (t : N) (vs : list msg) : msg := Msg t [] 0 vs.
(** flags: bit 0 NoReply, 1 IsUnsub, 2 IsOptIn, 3 IsStaticTTL, 4 IsMGet, 5 IsBlock *)
Definition K (argc flags : N) : cmd :=
  mkCmd 0 (N.to_nat argc) (N.testbit flags 0) (N.testbit flags 1) (N.testbit flags 2)
        (N.testbit flags 3) (N.testbit flags 4) (N.testbit flags 5).

(** What the reader does to a queue entry once its last reply has arrived, in program order ([AComplete m]):
    first the hand-over on the entry's channel (`ch <- NewResult(m, nil)`), which waits for the entry's owner - or
    the goroutine an abandoning owner leaves behind - to receive; only then the release of the entry
    (`p.queue.FinishResult()`).  The channel belongs to the entry and is reused by its next occupant, so the
    release is what lets somebody else listen on it.  Observed events of one entry, in the order of the trace:
    1 = the owner's side was let through to its receive, 2 = the entry was released, 3 = a producer that had been
    waiting for the entry occupied it.  The program order above allows 2 and 3 only after 1. *)
Definition complete_order : list N := [1; 2; 3]%N.
Fixpoint order_ok (seen : bool) (evs : list N) : bool :=
  match evs with
  | [] => true
  | e :: r => if N.eqb e 1 then order_ok true r else seen && order_ok seen r
  end.

Inductive case :=
| CConn (r2ps : bool) (ver : Z) (nsync : nat) (slots : list slot) (frames : list msg)
        (impl : list (N * list (option msg)))
| CRun (conns : list case)
| COrder (evs : list N).

Definition CC (r2ps : bool) (ver nsync : N) (slots : list slot) (frames : list msg)
           (impl : list (N * list (option msg))) : case :=
  CConn r2ps (Z.of_N ver) (N.to_nat nsync) slots frames impl.

Fixpoint check_case (c : case) : bool :=
  match c with
  | CConn r2ps ver nsync slots frames impl =>
    match replay r2ps ver nsync slots frames with
    | None => false
    | Some t => forallb (slot_agrees t) impl
    end
  | CRun cs => (fix all (l : list case) : bool := match l with [] => true | x :: r => check_case x && all r end) cs
  | COrder evs => order_ok false evs
  end.

Example complete_order_ok : order_ok false complete_order = true.
Proof. reflexivity. Qed.
Example release_before_handover_rejected : order_ok false [2; 3; 1]%N = false.
Proof. reflexivity. Qed.
