(** C42: the argument construction of rueidiscompat/adapter.go for the methods of
    [GoRedisSpec.call], transcribed branch by branch (command builders of internal/cmds print
    their keywords in upper case; Arbitrary(...) prints what it is given).

    [Ok toks] = the command handed to client.Do, [Err 1] = an error Cmd without any command
    (BitCount with an invalid unit), [Panic] = the explicit panics of adapter.go.
    The file ends with the correspondence cases of obs_compatargs. No proofs here. *)
From Coq Require Import List NArith ZArith String Bool.
Require Import RV.Model.Base RV.Model.CompatBase RV.Model.GoRedisSpec.
Import ListNotations.
Local Open Scope Z_scope.

Section WithFloat.
Variable F : Type.
Variable ff : F -> bytes.      (* strconv.FormatFloat(x, 'f', -1, 64) *)
Variable fpos : F -> bool.     (* x > 0 *)

Notation call := (call F).
Notation georadius_q := (georadius_q F).
Notation geosearch_q := (geosearch_q F).

Definition KW (s : string) : tok := K (bs s).
Definition zi (z : Z) : tok := D (print_Z z).
Definition leni {A} (l : list A) : tok := D (print_N (N.of_nat (List.length l))).

(** adapter.go str(): string and []byte as they are, bool as 1/0, nil as "", integers via fmt.Sprint *)
Definition a_str (a : aval) : tok :=
  match a with
  | AStr s => D s
  | AInt z => D (print_Z z)
  | ABool b => D (if b then bs "1" else bs "0")
  | ANil => D []
  end.

(** command.go usePrecise / formatMs / formatSec *)
Definition a_use_precise (d : Z) : bool := (d <? 1000000000) || negb (Z.rem d 1000000000 =? 0).
Definition a_format_ms (d : Z) : Z := if (0 <? d) && (d <? 1000000) then 1 else Z.quot d 1000000.
Definition a_format_sec (d : Z) : Z := if (0 <? d) && (d <? 1000000000) then 1 else Z.quot d 1000000000.

Definition nonempty (s : bytes) : bool := match s with [] => false | _ => true end.

(** the typed builders of SET / GETEX: ExSeconds / PxMilliseconds *)
Definition a_expiry (d : Z) : list tok :=
  if a_use_precise d then [KW "PX"; zi (a_format_ms d)] else [KW "EX"; zi (a_format_sec d)].

Definition a_sort (cmd : string) (key : bytes) (s : sort_args) : result (list tok) :=
  let pre :=
    [KW cmd; D key] ++
    (if nonempty (so_by s) then [KW "BY"; D (so_by s)] else []) ++
    (if negb (so_offset s =? 0) || negb (so_count s =? 0) then [KW "LIMIT"; zi (so_offset s); zi (so_count s)] else []) ++
    flat_map (fun g => [KW "GET"; D g]) (so_gets s) in
  let order := upper (so_order s) in
  let alpha := if so_alpha s then [KW "ALPHA"] else [] in
  if bytes_eqb order (bs "ASC") || bytes_eqb order (bs "DESC") then Ok (pre ++ [K order] ++ alpha)
  else if nonempty order then Panic
  else Ok (pre ++ alpha).

(** strconv.FormatInt(int64(cursor), 10): a uint64 cursor with the top bit set prints as a negative number *)
Definition a_cursor (cursor : N) : tok := D (print_Z (int64_of_uint64 cursor)).

Definition a_scan_tail (mtch : bytes) (count : Z) : list tok :=
  (if nonempty mtch then [KW "MATCH"; D mtch] else []) ++
  (if 0 <? count then [KW "COUNT"; zi count] else []).

Definition a_zadd (key : bytes) (incr : bool) (a : zadd_args) (members : list (F * bytes)) : list tok :=
  [KW "ZADD"; D key] ++
  (if za_nx a then [KW "NX"]
   else (if za_xx a then [KW "XX"] else []) ++
        (if za_gt a then [KW "GT"] else if za_lt a then [KW "LT"] else [])) ++
  (if za_ch a then [KW "CH"] else []) ++
  (if incr then [KW "INCR"] else []) ++
  flat_map (fun m => [D (ff (fst m)); D (snd m)]) members.

Definition a_zadd_flavour (fl : zaddflavour) : zadd_args :=
  match fl with
  | ZaPlain => mkZAdd false false false false false
  | ZaNX => mkZAdd true false false false false
  | ZaXX => mkZAdd false true false false false
  | ZaLT => mkZAdd false false true false false
  | ZaGT => mkZAdd false false false true false
  end.

(** zRangeArgs / ZRangeStore: Start, Stop always in this order *)
Definition a_zrange_tail (z : zrange_args) : list tok :=
  [a_str (zr_start z); a_str (zr_stop z)] ++
  (if zr_byscore z then [KW "BYSCORE"] else if zr_bylex z then [KW "BYLEX"] else []) ++
  (if zr_rev z then [KW "REV"] else []) ++
  (if negb (zr_offset z =? 0) || negb (zr_count z =? 0) then [KW "LIMIT"; zi (zr_offset z); zi (zr_count z)] else []).

Definition a_limit (o : zrange_by) : list tok :=
  if negb (zb_offset o =? 0) || negb (zb_count o =? 0) then [KW "LIMIT"; zi (zb_offset o); zi (zb_count o)] else [].

(** zstore(): numkeys, keys, WEIGHTS …, AGGREGATE … *)
Definition a_zstore (s : zstore) : list tok :=
  [leni (zs_keys s)] ++ map D (zs_keys s) ++
  (match zs_weights s with [] => [] | ws => KW "WEIGHTS" :: map zi ws end) ++
  (if nonempty (zs_aggregate s) then [KW "AGGREGATE"; K (zs_aggregate s)] else []).

(** GeoRadiusQuery.args() *)
Definition a_georadius (q : georadius_q) : list tok :=
  [D (ff (gr_radius q)); K (if nonempty (gr_unit q) then gr_unit q else bs "km")] ++
  (if gr_withcoord q then [KW "WITHCOORD"] else []) ++
  (if gr_withdist q then [KW "WITHDIST"] else []) ++
  (if gr_withhash q then [KW "WITHHASH"] else []) ++
  (if 0 <? gr_count q then [KW "COUNT"; zi (gr_count q)] else []) ++
  (if nonempty (gr_sort q) then [K (gr_sort q)] else []) ++
  (if nonempty (gr_store q) then [KW "STORE"; D (gr_store q)] else []) ++
  (if nonempty (gr_storedist q) then [KW "STOREDIST"; D (gr_storedist q)] else []).

(** GeoSearchQuery.args() *)
Definition a_geosearch (q : geosearch_q) : list tok :=
  (if nonempty (gs_member q) then [KW "FROMMEMBER"; D (gs_member q)]
   else [KW "FROMLONLAT"; D (ff (gs_lon q)); D (ff (gs_lat q))]) ++
  (if fpos (gs_radius q)
   then [KW "BYRADIUS"; D (ff (gs_radius q)); K (if nonempty (gs_radius_unit q) then gs_radius_unit q else bs "KM")]
   else [KW "BYBOX"; D (ff (gs_boxw q)); D (ff (gs_boxh q)); K (if nonempty (gs_box_unit q) then gs_box_unit q else bs "KM")]) ++
  (if nonempty (gs_sort q) then [K (gs_sort q)] else []) ++
  (if 0 <? gs_count q then [KW "COUNT"; zi (gs_count q)] ++ (if gs_any q then [KW "ANY"] else []) else []).

Definition a_with (wc wd wh : bool) : list tok :=
  (if wc then [KW "WITHCOORD"] else []) ++ (if wd then [KW "WITHDIST"] else []) ++ (if wh then [KW "WITHHASH"] else []).

Definition a_xtrim (key : bytes) (strategy : string) (approx : bool) (threshold : tok) (limit : Z) : list tok :=
  [KW "XTRIM"; D key; KW strategy] ++ (if approx then [KW "~"] else [O (bs "=")]) ++ [threshold] ++
  (if 0 <? limit then [KW "LIMIT"; zi limit] else []).

Definition adapter (c : call) : result (list tok) :=
  match c with
  | MSet key v exp =>
    Ok ([KW "SET"; D key; a_str v] ++
        (if 0 <? exp then a_expiry exp else if exp =? -1 then [KW "KEEPTTL"] else []))
  | MSetArgs key v a =>
    let mode := upper (sa_mode a) in
    let pre :=
      [KW "SET"; D key; a_str v] ++
      (if sa_keepttl a then [KW "KEEPTTL"] else []) ++
      (match sa_expire_at a with Some t => [KW "EXAT"; zi t] | None => [] end) ++
      (if 0 <? sa_ttl a then a_expiry (sa_ttl a) else []) in
    let get := if sa_get a then [KW "GET"] else [] in
    if bytes_eqb mode (bs "XX") || bytes_eqb mode (bs "NX") then Ok (pre ++ [K mode] ++ get)
    else if nonempty mode then Panic
    else Ok (pre ++ get)
  | MSetEX key v exp => Ok [KW "SETEX"; D key; zi (a_format_sec exp); a_str v]
  | MSetNX key v exp =>
    if exp =? 0 then Ok [KW "SETNX"; D key; a_str v]
    else if exp =? -1 then Ok [KW "SET"; D key; a_str v; KW "NX"; KW "KEEPTTL"]
    else Ok ([KW "SET"; D key; a_str v; KW "NX"] ++ a_expiry exp)
  | MSetXX key v exp =>
    if 0 <? exp then Ok ([KW "SET"; D key; a_str v; KW "XX"] ++ a_expiry exp)
    else if exp =? -1 then Ok [KW "SET"; D key; a_str v; KW "XX"; KW "KEEPTTL"]
    else Ok [KW "SET"; D key; a_str v; KW "XX"]
  | MGetEx key exp =>
    Ok ([KW "GETEX"; D key] ++ (if 0 <? exp then a_expiry exp else []))
  | MExpire m key d =>
    Ok ([KW "EXPIRE"; D key; zi (a_format_sec d)] ++
        match m with EmNone => [] | EmNX => [KW "NX"] | EmXX => [KW "XX"] | EmGT => [KW "GT"] | EmLT => [KW "LT"] end)
  | MPExpire key d => Ok [KW "PEXPIRE"; D key; zi (a_format_ms d)]
  | MExpireAt key t => Ok [KW "EXPIREAT"; D key; zi (Z.div t 1000000000)]
  | MPExpireAt key t => Ok [KW "PEXPIREAT"; D key; zi (Z.quot t 1000000)]
  | MCopy src dst db replace =>
    Ok ([KW "COPY"; D src; D dst; KW "DB"; zi db] ++ (if replace then [KW "REPLACE"] else []))
  | MRestore replace key ttl v =>
    Ok ([KW "RESTORE"; D key; zi (a_format_ms ttl); D v] ++ (if replace then [KW "REPLACE"] else []))
  | MMigrate host port key db timeout =>
    Ok [KW "MIGRATE"; D host; zi port; D key; zi db; zi (a_format_sec timeout)]
  | MBitCount key None => Ok [KW "BITCOUNT"; D key]
  | MBitCount key (Some b) =>
    if negb (nonempty (bc_unit b)) then Ok [KW "BITCOUNT"; D key; zi (bc_start b); zi (bc_end b)]
    else if bytes_eqb (bc_unit b) (bs "BYTE") then Ok [KW "BITCOUNT"; D key; zi (bc_start b); zi (bc_end b); KW "BYTE"]
    else if bytes_eqb (bc_unit b) (bs "BIT") then Ok [KW "BITCOUNT"; D key; zi (bc_start b); zi (bc_end b); KW "BIT"]
    else Err 1
  | MBitPos key bit pos =>
    match pos with
    | [] => Ok [KW "BITPOS"; D key; zi bit]
    | [a] => Ok [KW "BITPOS"; D key; zi bit; zi a]
    | [a; b] => Ok [KW "BITPOS"; D key; zi bit; zi a; zi b]
    | _ => Panic
    end
  | MBitPosSpan key bit start stop span =>
    Ok [KW "BITPOS"; D key; zi bit; zi start; zi stop; if bytes_eqb (lower span) (bs "bit") then KW "BIT" else KW "BYTE"]
  | MBitField key args => Ok ([KW "BITFIELD"; D key] ++ map a_str args)
  | MSort SortPlain key s => a_sort "SORT" key s
  | MSort SortRO key s => a_sort "SORT_RO" key s
  | MSort (SortStore store) key s =>
    match a_sort "SORT" key s with
    | Ok l => Ok (l ++ [KW "STORE"; D store])
    | r => r
    end
  | MScan cursor mtch count => Ok ([KW "SCAN"; a_cursor cursor] ++ a_scan_tail mtch count)
  | MScanType cursor mtch count typ =>
    Ok ([KW "SCAN"; a_cursor cursor] ++ a_scan_tail mtch count ++ (if nonempty typ then [KW "TYPE"; D typ] else []))
  | MKScan w key cursor mtch count =>
    Ok ([KW (match w with KSScan => "SSCAN" | KHScan | KHScanNoValues => "HSCAN" | KZScan => "ZSCAN" end); D key;
         a_cursor cursor] ++ a_scan_tail mtch count ++
        (match w with KHScanNoValues => [KW "NOVALUES"] | _ => [] end))
  | MMemoryUsage key samples =>
    match samples with
    | [] => Ok [KW "MEMORY"; KW "USAGE"; D key]
    | [n] => Ok [KW "MEMORY"; KW "USAGE"; D key; KW "SAMPLES"; zi n]
    | _ => Panic
    end
  | MLPos key elem rank maxlen =>
    Ok ([KW "LPOS"; D key; D elem] ++ (if rank =? 0 then [] else [KW "RANK"; zi rank]) ++
        (if maxlen =? 0 then [] else [KW "MAXLEN"; zi maxlen]))
  | MLPosCount key elem count rank maxlen =>
    Ok ([KW "LPOS"; D key; D elem; KW "COUNT"; zi count] ++ (if rank =? 0 then [] else [KW "RANK"; zi rank]) ++
        (if maxlen =? 0 then [] else [KW "MAXLEN"; zi maxlen]))
  | MLInsert key op pivot elem =>
    let u := upper op in
    if bytes_eqb u (bs "BEFORE") then Ok [KW "LINSERT"; D key; KW "BEFORE"; a_str pivot; a_str elem]
    else if bytes_eqb u (bs "AFTER") then Ok [KW "LINSERT"; D key; KW "AFTER"; a_str pivot; a_str elem]
    else Panic
  | MLInsertBA before key pivot elem =>
    Ok [KW "LINSERT"; D key; KW (if before then "BEFORE" else "AFTER"); a_str pivot; a_str elem]
  | MLMPop dir count keys =>
    Ok ([KW "LMPOP"; leni keys] ++ map D keys ++ [K dir] ++ (if 0 <? count then [KW "COUNT"; zi count] else []))
  | MBLMPop timeout dir count keys =>
    Ok ([KW "BLMPOP"; zi (a_format_sec timeout); leni keys] ++ map D keys ++ [K dir] ++
        (if 0 <? count then [KW "COUNT"; zi count] else []))
  | MZAdd fl key members => Ok (a_zadd key false (a_zadd_flavour fl) members)
  | MZAddArgs incr key a members => Ok (a_zadd key incr a members)
  | MZRangeArgs ws z => Ok ([KW "ZRANGE"; D (zr_key z)] ++ a_zrange_tail z ++ (if ws then [KW "WITHSCORES"] else []))
  | MZRangeStore dst z => Ok ([KW "ZRANGESTORE"; D dst; D (zr_key z)] ++ a_zrange_tail z)
  | MZRangeBy w key o =>
    Ok (match w with
        | ZbScore => [KW "ZRANGEBYSCORE"; D key; D (zb_min o); D (zb_max o)]
        | ZbLex => [KW "ZRANGEBYLEX"; D key; D (zb_min o); D (zb_max o)]
        | ZbScoreWS => [KW "ZRANGEBYSCORE"; D key; D (zb_min o); D (zb_max o); KW "WITHSCORES"]
        | ZbRevScore => [KW "ZREVRANGEBYSCORE"; D key; D (zb_max o); D (zb_min o)]
        | ZbRevLex => [KW "ZREVRANGEBYLEX"; D key; D (zb_max o); D (zb_min o)]
        | ZbRevScoreWS => [KW "ZREVRANGEBYSCORE"; D key; D (zb_max o); D (zb_min o); KW "WITHSCORES"]
        end ++ a_limit o)
  | MZStoreOp w s =>
    Ok ([KW (match w with ZsInter | ZsInterWS => "ZINTER" | _ => "ZUNION" end)] ++ a_zstore s ++
        (match w with ZsInterWS | ZsUnionWS => [KW "WITHSCORES"] | _ => [] end))
  | MZStoreTo w dst s =>
    Ok ([KW (match w with ZtInter => "ZINTERSTORE" | ZtUnion => "ZUNIONSTORE" end); D dst] ++ a_zstore s)
  | MZDiff ws keys => Ok ([KW "ZDIFF"; leni keys] ++ map D keys ++ (if ws then [KW "WITHSCORES"] else []))
  | MZDiffStore dst keys => Ok ([KW "ZDIFFSTORE"; D dst; leni keys] ++ map D keys)
  | MXAdd a =>
    Ok ([KW "XADD"; D (xa_stream a)] ++
        (if xa_nomkstream a then [KW "NOMKSTREAM"] else []) ++
        (if 0 <? xa_maxlen a then
           [KW "MAXLEN"; if xa_approx a then KW "~" else O (bs "="); zi (xa_maxlen a)]
         else if nonempty (xa_minid a) then
           [KW "MINID"; if xa_approx a then KW "~" else O (bs "="); D (xa_minid a)]
         else []) ++
        (if 0 <? xa_limit a then [KW "LIMIT"; zi (xa_limit a)] else []) ++
        [D (if nonempty (xa_id a) then xa_id a else bs "*")] ++
        map a_str (xa_values a))
  | MXRead count block streams =>
    Ok ([KW "XREAD"] ++ (if 0 <? count then [KW "COUNT"; zi count] else []) ++
        (if 0 <=? block then [KW "BLOCK"; zi (a_format_ms block)] else []) ++
        [KW "STREAMS"] ++ map D streams)
  | MXReadStreams streams => Ok ([KW "XREAD"; KW "STREAMS"] ++ map D streams)
  | MXReadGroup group consumer count block noack streams =>
    Ok ([KW "XREADGROUP"; KW "GROUP"; D group; D consumer] ++
        (if 0 <? count then [KW "COUNT"; zi count] else []) ++
        (if 0 <=? block then [KW "BLOCK"; zi (a_format_ms block)] else []) ++
        (if noack then [KW "NOACK"] else []) ++
        [KW "STREAMS"] ++ map D streams)
  | MXPendingExt a =>
    Ok ([KW "XPENDING"; D (xp_stream a); D (xp_group a)] ++
        (if xp_idle a =? 0 then [] else [KW "IDLE"; zi (a_format_ms (xp_idle a))]) ++
        [D (xp_start a); D (xp_end a); zi (xp_count a)] ++
        (if nonempty (xp_consumer a) then [D (xp_consumer a)] else []))
  | MXClaim justid a =>
    Ok ([KW "XCLAIM"; D (xc_stream a); D (xc_group a); D (xc_consumer a); zi (a_format_ms (xc_minidle a))] ++
        map D (xc_messages a) ++ (if justid then [KW "JUSTID"] else []))
  | MXAutoClaim justid a =>
    Ok ([KW "XAUTOCLAIM"; D (xu_stream a); D (xu_group a); D (xu_consumer a); zi (a_format_ms (xu_minidle a)); D (xu_start a)] ++
        (if 0 <? xu_count a then [KW "COUNT"; zi (xu_count a)] else []) ++
        (if justid then [KW "JUSTID"] else []))
  | MXTrim key t =>
    Ok (match t with
        | XtMaxLen n => a_xtrim key "MAXLEN" false (zi n) 0
        | XtMaxLenApprox n limit => a_xtrim key "MAXLEN" true (zi n) limit
        | XtMinID id => a_xtrim key "MINID" false (D id) 0
        | XtMinIDApprox id limit => a_xtrim key "MINID" true (D id) limit
        end)
  | MXInfoStreamFull key count =>
    Ok ([KW "XINFO"; KW "STREAM"; D key; KW "FULL"] ++ (if 0 <? count then [KW "COUNT"; zi count] else []))
  | MGeoAdd key locs =>
    Ok ([KW "GEOADD"; D key] ++ flat_map (fun l => [D (ff (fst (fst l))); D (ff (snd (fst l))); D (snd l)]) locs)
  | MGeoRadius store key lon lat q =>
    let has := nonempty (gr_store q) || nonempty (gr_storedist q) in
    if Bool.eqb store has
    then Ok ([KW (if store then "GEORADIUS" else "GEORADIUS_RO"); D key; D (ff lon); D (ff lat)] ++ a_georadius q)
    else Panic
  | MGeoRadiusByMember store key member q =>
    let has := nonempty (gr_store q) || nonempty (gr_storedist q) in
    if Bool.eqb store has
    then Ok ([KW (if store then "GEORADIUSBYMEMBER" else "GEORADIUSBYMEMBER_RO"); D key; D member] ++ a_georadius q)
    else Panic
  | MGeoSearch key q => Ok ([KW "GEOSEARCH"; D key] ++ a_geosearch q)
  | MGeoSearchLocation key q wc wd wh => Ok ([KW "GEOSEARCH"; D key] ++ a_geosearch q ++ a_with wc wd wh)
  | MGeoSearchStore src dst q storedist =>
    Ok ([KW "GEOSEARCHSTORE"; D dst; D src] ++ a_geosearch q ++ (if storedist then [KW "STOREDIST"] else []))
  | MFunctionLoad replace code =>
    Ok ([KW "FUNCTION"; KW "LOAD"] ++ (if replace then [KW "REPLACE"] else []) ++ [D code])
  | MClientKillByFilter keys => Ok ([KW "CLIENT"; KW "KILL"] ++ map D keys)
  | MACLLog count => Ok [KW "ACL"; KW "LOG"; zi count]
  | MZPop max key count =>
    match count with
    | [] => Ok [KW (if max then "ZPOPMAX" else "ZPOPMIN"); D key]
    | [n] => Ok [KW (if max then "ZPOPMAX" else "ZPOPMIN"); D key; zi n]
    | _ => Panic
    end
  | MZRangePlain rev ws key start stop =>
    Ok ([KW (if rev then "ZREVRANGE" else "ZRANGE"); D key; zi start; zi stop] ++ (if ws then [KW "WITHSCORES"] else []))
  | MBPop w timeout keys =>
    (* Timeout(float64(formatSec(timeout))): an integral float prints as the integer *)
    Ok ([KW (match w with BpL => "BLPOP" | BpR => "BRPOP" | BpZMax => "BZPOPMAX" | BpZMin => "BZPOPMIN" end)] ++
        map D keys ++ [zi (a_format_sec timeout)])
  | MBRPopLPush src dst timeout => Ok [KW "BRPOPLPUSH"; D src; D dst; zi (a_format_sec timeout)]
  | MLMove src dst srcpos dstpos => Ok [KW "LMOVE"; D src; D dst; K srcpos; K dstpos]
  | MBLMove src dst srcpos dstpos timeout => Ok [KW "BLMOVE"; D src; D dst; K srcpos; K dstpos; zi (a_format_sec timeout)]
  | MXRangeCmd rev stream a b count =>
    Ok ([KW (if rev then "XREVRANGE" else "XRANGE"); D stream; D a; D b] ++
        (match count with Some n => [KW "COUNT"; zi n] | None => [] end))
  | MXGroupCreate mk stream group start =>
    Ok ([KW "XGROUP"; KW "CREATE"; D stream; D group; D start] ++ (if mk then [KW "MKSTREAM"] else []))
  | MXAck stream group ids => Ok ([KW "XACK"; D stream; D group] ++ map D ids)
  | MXDel stream ids => Ok ([KW "XDEL"; D stream] ++ map D ids)
  | MEval w script keys args =>
    (* argsToSlice: a single nil argument reaches reflect.ValueOf(nil).Type() *)
    if single_nil args then Panic
    else Ok ([KW (match w with EvEval => "EVAL" | EvEvalSha => "EVALSHA" | EvEvalRO => "EVAL_RO" | EvEvalShaRO => "EVALSHA_RO"
                           | EvFCall => "FCALL" | EvFCallRO => "FCALL_RO" end); D script; leni keys] ++ map D keys ++ map a_str args)
  | MPopCount w key count =>
    Ok [KW (match w with PcSPop => "SPOP" | PcSRand => "SRANDMEMBER" | PcLPop => "LPOP" | PcRPop => "RPOP" end); D key; zi count]
  | MZRandMember ws key count => Ok ([KW "ZRANDMEMBER"; D key; zi count] ++ (if ws then [KW "WITHSCORES"] else []))
  | MInterCard zset limit keys =>
    Ok ([KW (if zset then "ZINTERCARD" else "SINTERCARD"); leni keys] ++ map D keys ++ [KW "LIMIT"; zi limit])
  | MZMPop order count keys =>
    Ok ([KW "ZMPOP"; leni keys] ++ map D keys ++ [K order] ++ (if 0 <? count then [KW "COUNT"; zi count] else []))
  | MBZMPop timeout order count keys =>
    Ok ([KW "BZMPOP"; zi (a_format_sec timeout); leni keys] ++ map D keys ++ [K order] ++
        (if 0 <? count then [KW "COUNT"; zi count] else []))
  | MClientPause dur => Ok [KW "CLIENT"; KW "PAUSE"; zi (a_format_sec dur)]
  | MSlowLogGet num => Ok [KW "SLOWLOG"; KW "GET"; zi num]
  | MGeoDist key m1 m2 unit =>
    let u := upper unit in
    if bytes_eqb u (bs "M") then Ok [KW "GEODIST"; D key; D m1; D m2; KW "m"]
    else if bytes_eqb u (bs "MI") then Ok [KW "GEODIST"; D key; D m1; D m2; KW "mi"]
    else if bytes_eqb u (bs "FT") then Ok [KW "GEODIST"; D key; D m1; D m2; KW "ft"]
    else if bytes_eqb u (bs "KM") || negb (nonempty u) then Ok [KW "GEODIST"; D key; D m1; D m2; KW "km"]
    else Panic
  | MFunctionList pattern withcode =>
    Ok ([KW "FUNCTION"; KW "LIST"] ++ (if nonempty pattern then [KW "LIBRARYNAME"; D pattern] else []) ++
        (if withcode then [KW "WITHCODE"] else []))
  end.

(** ---------- correspondence cases (printed by harness/cmd/obs_compatargs) ---------- *)
Inductive case :=
| CArgs (c : call) (impl : result (list bytes)).   (* argv the adapter handed to client.Do; Err 1 = error Cmd, nothing sent; Panic *)

Definition check_case (c : case) : bool :=
  match c with
  | CArgs c impl => result_eqb (list_eqb bytes_eqb) (argv_of (adapter c)) impl
  end.

End WithFloat.
Arguments CArgs {F}.

(** The observer prints floats already formatted by strconv.FormatFloat(x, 'f', -1, 64) together
    with the outcome of x > 0: F := bytes * bool. *)
Definition fcase := case (bytes * bool).
Definition fcheck (c : fcase) : bool := check_case (bytes * bool) fst snd c.
