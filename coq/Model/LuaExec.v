(** Model of lua.go (C30): Lua.Exec / Lua.ExecMulti against one Redis node.

    Client side: the decision tree of Exec and ExecMulti over the fields of [Lua] (readonly, noSha1,
    loadSha1, and whether [sha1] is known: computed at construction unless noSha1/loadSha1, loaded by
    SCRIPT LOAD otherwise).  Server side: a script cache (is this script cached?) and the log of
    script-body executions.  The environment is explicit: before each command it may flush the cache
    (another client's SCRIPT FLUSH, a restart), and it may make the command fail — rejected with an
    error before execution ([FReject]), or executed with the reply lost ([FLost]: the client sees a
    transport error).  [body] is what the script body itself replies when it runs; a body may reply
    with an error, including one whose text starts with "NOSCRIPT" ([ENoScript] is the client's
    classification RedisError.IsNoScript: a prefix test on ERROR replies, after an optional "ERR ").
    The kind of a reply is explicit: an error ([RErr]) or a non-error ([ROk]); a non-error reply (status,
    bulk string, integer, array) carries whether its text starts with "NOSCRIPT" / "ERR NOSCRIPT"
    ([KNoScriptText]) — user data may well look like that — and Exec must not care: only an ERROR reply
    with that prefix makes it fall back to EVAL.

    Transport-level retries are excluded (the property says "absent transport-level retries"; the
    observer runs the client with DisableRetry).  One node: ExecMulti's SCRIPT LOAD fan-out over
    c.Nodes() is a single SCRIPT LOAD.  A LuaExec (keys, args) is identified by a tag. *)
From Coq Require Import List NArith Bool.
Require Import RV.Model.Base.
Import ListNotations.
Open Scope N_scope.

Inductive cmdk := CEvalsha | CEvalshaRo | CEval | CEvalRo | CScriptLoad.

Inductive errk :=
| ENoScript     (* a Redis error whose text starts with NOSCRIPT *)
| ERedis        (* any other Redis error *)
| ETransport.   (* not a Redis error: connection closed, context … *)

(** payload of a non-error reply: does its text start with "NOSCRIPT" (after an optional "ERR ")? *)
Inductive okind := KPlain | KNoScriptText.

Inductive reply := ROk (v : N) (k : okind) | RErr (e : errk).

Inductive fault := FNone | FReject (e : errk) | FLost.

(** what the script body replies when it runs: its tag (the scripts of the observer return ARGV[1]) or an error *)
Inductive bodyk := BRet (k : okind) | BErr (e : errk).

Definition body_reply (b : bodyk) (tag : N) : reply := match b with BRet k => ROk tag k | BErr e => RErr e end.

Record env_step := { flush_before : bool; flt : fault; body : bodyk }.

Definition quiet : env_step := {| flush_before := false; flt := FNone; body := BRet KPlain |}.

Record opts := { readonly : bool; nosha : bool; loadsha : bool }.

Record srv := { cached : bool; runs : list N }.   (* runs: tags of the executed bodies, oldest first *)

Definition is_load (c : cmdk) : bool := match c with CScriptLoad => true | _ => false end.
Definition is_sha (c : cmdk) : bool := match c with CEvalsha | CEvalshaRo => true | _ => false end.
Definition is_ro (c : cmdk) : bool := match c with CEvalshaRo | CEvalRo => true | _ => false end.
Definition is_evalfam (c : cmdk) : bool := negb (is_load c).

(** the server executes one command (tag = which LuaExec the command carries; sha = the value SCRIPT LOAD returns) *)
Definition serve (s : srv) (e : env_step) (c : cmdk) (tag : N) : srv * reply :=
  let s0 := if flush_before e then {| cached := false; runs := runs s |} else s in
  match flt e with
  | FReject err => (s0, RErr err)
  | f =>
    let lost (r : reply) := match f with FLost => RErr ETransport | _ => r end in
    match c with
    | CScriptLoad => ({| cached := true; runs := runs s0 |}, lost (ROk 0 KPlain))
    | CEval | CEvalRo => ({| cached := true; runs := runs s0 ++ [tag] |}, lost (body_reply (body e) tag))
    | CEvalsha | CEvalshaRo =>
      if cached s0 then ({| cached := true; runs := runs s0 ++ [tag] |}, lost (body_reply (body e) tag))
      else (s0, lost (RErr ENoScript))
    end
  end.

(** the environment is consumed one step per command; when it is exhausted the server is quiet *)
Definition next_env (env : list env_step) : env_step * list env_step :=
  match env with
  | [] => (quiet, [])
  | e :: r => (e, r)
  end.

Definition sha_cmd (o : opts) : cmdk := if readonly o then CEvalshaRo else CEvalsha.
Definition eval_cmd (o : opts) : cmdk := if readonly o then CEvalRo else CEval.

(** is Lua.sha1 non-empty right after construction? *)
Definition sha_initially (o : opts) : bool := negb (nosha o) && negb (loadsha o).

Record xstate := { known : bool; server : srv; envq : list env_step; trace : list (cmdk * N * reply) }.

Definition send (x : xstate) (c : cmdk) (tag : N) : xstate * reply :=
  let '(e, rest) := next_env (envq x) in
  let '(s', r) := serve (server x) e c tag in
  ({| known := known x; server := s'; envq := rest; trace := trace x ++ [(c, tag, r)] |}, r).

(** IsRedisErr(resp.Error()) && err.IsNoScript(): an ERROR reply with the NOSCRIPT prefix, nothing else *)
Definition is_noscript (r : reply) : bool := match r with RErr ENoScript => true | _ => false end.
Definition is_ok (r : reply) : bool := match r with ROk _ _ => true | _ => false end.

(** Lua.Exec *)
Definition exec (o : opts) (x : xstate) (tag : N) : xstate * reply :=
  (* 1. SHA-1 loading *)
  let '(x1, early) :=
    if loadsha o && negb (known x) then
      let '(x', r) := send x CScriptLoad 0 in
      if is_ok r then ({| known := true; server := server x'; envq := envq x'; trace := trace x' |}, None)
      else (x', Some r)
    else (x, None) in
  match early with
  | Some r => (x1, r)
  | None =>
    (* 2. EVALSHA when allowed and possible *)
    let '(x2, resp, nos) :=
      if negb (nosha o) && known x1 then
        let '(x', r) := send x1 (sha_cmd o) tag in (x', Some r, is_noscript r)
      else (x1, None, false) in
    (* 3. EVAL for NoSha scripts or after NOSCRIPT *)
    if nosha o || nos then send x2 (eval_cmd o) tag
    else match resp with
         | Some r => (x2, r)
         | None => (x2, RErr ERedis)      (* zero RedisResult: neither branch ran (loadSha1 off, sha1 empty, noSha1 off: impossible) *)
         end
  end.

(** Commands.DoMulti on one connection: replies in order *)
Fixpoint send_all (x : xstate) (c : cmdk) (tags : list N) : xstate * list reply :=
  match tags with
  | [] => (x, [])
  | t :: r =>
    let '(x1, rp) := send x c t in
    let '(x2, rs) := send_all x1 c r in
    (x2, rp :: rs)
  end.

(** Lua.ExecMulti *)
Definition exec_multi (o : opts) (x : xstate) (tags : list N) : xstate * list reply :=
  let '(x1, failed) :=
    if negb (nosha o) then
      let '(x', r) := send x CScriptLoad 0 in
      match r with
      | RErr _ => (x', Some r)
      | ROk _ _ =>
        if loadsha o then ({| known := true; server := server x'; envq := envq x'; trace := trace x' |}, None)
        else (x', None)
      end
    else (x, None) in
  match failed with
  | Some r => (x1, map (fun _ => r) tags)
  | None =>
    let c := if negb (nosha o) && known x1 then sha_cmd o else eval_cmd o in
    send_all x1 c tags
  end.

Inductive lop := LExec (tag : N) | LMulti (tags : list N).

Inductive lobs := OOne (r : reply) | OMany (rs : list reply).

Definition lstep (o : opts) (x : xstate) (p : lop) : xstate * lobs :=
  match p with
  | LExec t => let '(x', r) := exec o x t in (x', OOne r)
  | LMulti ts => let '(x', rs) := exec_multi o x ts in (x', OMany rs)
  end.

Fixpoint lrun (o : opts) (x : xstate) (ps : list lop) : xstate * list lobs :=
  match ps with
  | [] => (x, [])
  | p :: r =>
    let '(x1, v) := lstep o x p in
    let '(x2, vs) := lrun o x1 r in
    (x2, v :: vs)
  end.

Definition init (o : opts) (cached0 : bool) (env : list env_step) : xstate :=
  {| known := sha_initially o; server := {| cached := cached0; runs := [] |}; envq := env; trace := [] |}.

(** ---- the retry class of the commands Exec / ExecMulti issue ----
    [Lua.mayRetryable]: EVALSHA and EVAL carry the retryable tag iff the script was created retryable
    (NewLuaScriptRetryable…); the _RO commands are read-only commands, which the builder tags retryable
    (IsRetryable() and IsReadOnly() both hold); SCRIPT LOAD is always built with ToRetryable().  The flag is a function of the script
    and the command kind only: in particular the EVAL sent after a NOSCRIPT reply has the flag of the EVALSHA. *)
Definition issue_flag (retryable : bool) (c : cmdk) : bool :=
  match c with
  | CScriptLoad => true
  | CEvalshaRo | CEvalRo => true
  | CEvalsha | CEval => retryable
  end.

(** may the client's retry loop re-send a command after a transport error? (exactly the retryable tag) *)
Definition resend_allowed (retryable : bool) (c : cmdk) : bool := issue_flag retryable c.

(** ---- correspondence cases (printed by harness/cmd/obs_lua) ----
    A case is a history on one Lua value and a fresh server; the environment steps are the ones the
    observer's fault hook applied, in the order the server received the script commands. *)
Definition cmdk_eqb (a b : cmdk) : bool :=
  match a, b with
  | CEvalsha, CEvalsha | CEvalshaRo, CEvalshaRo | CEval, CEval | CEvalRo, CEvalRo | CScriptLoad, CScriptLoad => true
  | _, _ => false
  end.

Definition errk_eqb (a b : errk) : bool :=
  match a, b with
  | ENoScript, ENoScript | ERedis, ERedis | ETransport, ETransport => true
  | _, _ => false
  end.

Definition okind_eqb (a b : okind) : bool :=
  match a, b with
  | KPlain, KPlain | KNoScriptText, KNoScriptText => true
  | _, _ => false
  end.

Definition reply_eqb (a b : reply) : bool :=
  match a, b with
  | ROk v k, ROk w k' => (v =? w) && okind_eqb k k'
  | RErr e, RErr f => errk_eqb e f
  | _, _ => false
  end.

Definition lobs_eqb (a b : lobs) : bool :=
  match a, b with
  | OOne r, OOne r' => reply_eqb r r'
  | OMany l, OMany l' => list_eqb reply_eqb l l'
  | _, _ => false
  end.

(** the server-side view of a command: kind and tag (replies are compared through the callers' results) *)
Definition sent_eqb (a b : cmdk * N) : bool := cmdk_eqb (fst a) (fst b) && (snd a =? snd b).

Definition sentf_eqb (a b : cmdk * N * bool) : bool := sent_eqb (fst a) (fst b) && Bool.eqb (snd a) (snd b).

(** [impl_sent]: kind, tag and the IsRetryable() flag of every command the implementation issued *)
Inductive case :=
| CLua (o : opts) (retryable : bool) (env : list env_step) (ops : list lop)
       (impl_obs : list lobs) (impl_sent : list (cmdk * N * bool)) (impl_runs : list N).

Definition check_case (c : case) : bool :=
  match c with
  | CLua o rt env ops iobs isent iruns =>
    let '(x, vs) := lrun o (init o false env) ops in
    list_eqb lobs_eqb vs iobs
    && list_eqb sentf_eqb (map (fun p => (fst p, issue_flag rt (fst (fst p)))) (trace x)) isent
    && list_eqb N.eqb (runs (server x)) iruns
  end.
