(** The builder semantics instantiated with the graph, tags and CRC table regenerated from the repository. *)
From Coq Require Import List NArith Bool.
Require Import RV.Model.Base RV.Model.Slot RV.Model.BuilderGraph RV.Model.BuilderSem.
Require Import RV.Gen.Crc16Tab RV.Gen.Builders.
Open Scope N_scope.

Definition check_case (c : case) : bool := check_case_with builders tags predefined crc16tab c.
