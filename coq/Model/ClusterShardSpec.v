(** Specification side for CLUSTER SHARDS: an abstract answer and its encoding as a reply tree
    (RESP3 maps; every node entry carries id, port, ip, endpoint, role, replication-offset, health,
    tls-port).  Definitions only. *)
From Coq Require Import List Arith NArith ZArith Bool.
Require Import RV.Model.Base RV.Model.ClusterTopo.
Import ListNotations.
Open Scope Z_scope.

Record hnode := mkHnode { hn_host : bytes; hn_port : Z; hn_tls : Z; hn_master : bool; hn_online : bool }.
Record shard := mkShard { sd_ranges : list (Z * Z); sd_nodes : list hnode }.

Definition bs (s : list N) : msg := MStr 36 s.
Definition s_replica : bytes := [114; 101; 112; 108; 105; 99; 97]%N.
Definition s_fail : bytes := [102; 97; 105; 108]%N.
Definition k_id : bytes := [105; 100]%N.
Definition k_ip : bytes := [105; 112]%N.
Definition k_reploff : bytes := [114; 101; 112; 108; 105; 99; 97; 116; 105; 111; 110; 45; 111; 102; 102; 115; 101; 116]%N.

Definition enc_hnode (n : hnode) : msg :=
  MAgg 37 [bs k_id; bs []; bs k_port; MInt 58 (hn_port n); bs k_ip; bs (hn_host n); bs k_endpoint; bs (hn_host n);
           bs k_role; bs (if hn_master n then s_master else s_replica); bs k_reploff; MInt 58 0;
           bs k_health; bs (if hn_online n then online else s_fail); bs k_tlsport; MInt 58 (hn_tls n)].

Definition enc_ranges (rs : list (Z * Z)) : list msg := flat_map (fun r => [MInt 58 (fst r); MInt 58 (snd r)]) rs.

Definition enc_shard (s : shard) : msg :=
  MAgg 37 [bs k_slots; MAgg 42 (enc_ranges (sd_ranges s)); bs k_nodes; MAgg 42 (map enc_hnode (sd_nodes s))].

Definition enc_shards (l : list shard) : msg := MAgg 42 (map enc_shard l).

(** the address a node entry denotes for a client with / without TLS *)
Definition hnode_addr (dh : bytes) (tls : bool) (n : hnode) : option addr :=
  parse_endpoint dh (hn_host n) (if tls && (0 <? hn_tls n) then hn_tls n else hn_port n).

(** nodes the parser keeps, and the position of the last master among them *)
Fixpoint hkept (dh : bytes) (tls : bool) (ns : list hnode) (acc : list addr) (m : option nat) : list addr * option nat :=
  match ns with
  | [] => (acc, m)
  | n :: r =>
    if hn_online n then
      match hnode_addr dh tls n with
      | Some a => hkept dh tls r (acc ++ [a]) (if hn_master n then Some (length acc) else m)
      | None => hkept dh tls r acc m
      end
    else hkept dh tls r acc m
  end.

(** the primary of a shard as the client sees it *)
Definition shard_primary (dh : bytes) (tls : bool) (s : shard) : option addr :=
  match hkept dh tls (sd_nodes s) [] None with
  | (kept, Some m) => nth_error kept m
  | (_, None) => None
  end.
