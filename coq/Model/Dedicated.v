(** Model of dedicated clients (C25, and the tracking-off half of C27):
      client.go   [Dedicated] / [Dedicate], [dedicatedSingleClient]: mark / check / release, every entry point
      cluster.go  [dedicatedClusterClient]: the same mark under a mutex (acquire / release)
      mux.go      [Acquire], [Store] with its clean-up sequence, [blocking] (blocking commands share the pool)
      pool.go     abstracted: a wire is idle or held by exactly one holder; idle wires are reused LIFO
      pipe.go     [CleanSubscriptions], [SetPubSubHooks({})]
    A state carries the log of everything the server sees on the pool connections, with acquire / release
    markers; shared (auto-pipelined) traffic runs on other connections and never touches a pool wire.
    Definitions only. *)
From Coq Require Import String List Arith NArith ZArith Bool.
Require Import RV.Model.Base RV.Model.PsBase.
Import ListNotations.
Open Scope N_scope.
Open Scope list_scope.

Inductive holder := HDed (d : N) | HBlock (b : N).

Definition holder_eqb (a b : holder) : bool :=
  match a, b with
  | HDed x, HDed y => N.eqb x y
  | HBlock x, HBlock y => N.eqb x y
  | _, _ => false
  end.

(** what reaches the server on a pool connection *)
Inductive wcmd :=
| WUser (a : argv)            (* a command of the holder *)
| WUnsub (with_shard : bool)  (* CleanSubscriptions: UNSUBSCRIBE, PUNSUBSCRIBE, [SUNSUBSCRIBE,] DISCARD in one pipeline *)
| WTrackingOff                (* CLIENT TRACKING OFF *)
| WCloseConn.                 (* the connection is closed *)

Inductive ev :=
| EvAcq (w : N) (h : holder)
| EvCmd (w : N) (h : holder) (c : wcmd)
| EvRel (w : N) (h : holder) (idle : bool).   (* idle = the wire went back to the idle list (false: it was discarded) *)

Record wire := mkWire {
  w_id : N;
  w_holder : option holder;
  w_hooks : bool;        (* a non-empty pshks is installed *)
  w_inval : bool;        (* … with an invalidation callback *)
  w_bg : bool;           (* pipelining mode (state 1): Pub/Sub commands or hooks were used *)
  w_blocked : bool;      (* blcksig != 0: a blocking command did not complete *)
  w_v7 : bool;           (* server version >= 7 *)
  w_tracking : bool;     (* CLIENT TRACKING is on at the server *)
  w_dead : bool          (* closed *)
}.

Record dclient := mkDC { dc_id : N; dc_wire : N; dc_mark : bool }.

Inductive res := ROk | RRecycled.

Record dstate := mkD {
  d_wires : list wire;
  d_idle : list N;                 (* idle list of the pool, most recently stored first *)
  d_next : N;                      (* id of the next connection the pool makes *)
  d_clients : list dclient;
  d_log : list ev;                 (* oldest first *)
  d_res : list (N * res);          (* results of the entry points of dedicated clients, oldest first *)
  d_shared : list argv;            (* commands sent on the shared pipelines *)
  d_v7 : bool                      (* version of the server new connections talk to *)
}.

Inductive dlabel :=
| DAcquire (d : N)                          (* Dedicate() / Dedicated(fn): conn.Acquire *)
| DDo (d : N) (a : argv)                    (* Do / DoMulti (one command) *)
| DSubscribe (d : N) (a : argv)             (* a (P|S)SUBSCRIBE through Do / Receive: the pipe switches to pipelining *)
| DBlockFail (d : N) (a : argv)             (* a blocking command that returned early (blcksig stays up) *)
| DTrackingOn (d : N) (a : argv)            (* CLIENT TRACKING ON … through Do *)
| DSetHooks (d : N) (zero inval : bool)     (* SetPubSubHooks / SetOnInvalidations *)
| DRelease (d : N)                          (* release() *)
| DClose (d : N)                            (* Close() *)
| BDo (b : N) (a : argv) (fail : bool)      (* mux.blocking: Acquire, Do, [Close on a non-Redis error,] Store *)
| SDo (a : argv)                            (* shared pipelined traffic *)
| DTry (d : N) (a : argv).                  (* one attempt of a retrying Do / DoMulti that ends in a retryable failure which leaves the
                                               wire healthy (-LOADING): check() — EVERY attempt re-checks the mark — then the command is
                                               sent; no result yet: the call goes into its back-off (RetryDelay), during which anything
                                               may happen (a release from another goroutine or from the RetryDelay callback, another
                                               session acquiring the wire …), and comes back with another DTry or with its final
                                               attempt, a DDo.  An attempt of a marked client ends the call with
                                               ErrDedicatedClientRecycled: that is DDo; DTry is not enabled for it. *)

(** ---- helpers ---- *)
Fixpoint find_wire (id : N) (l : list wire) : option wire :=
  match l with
  | [] => None
  | w :: r => if N.eqb (w_id w) id then Some w else find_wire id r
  end.

Definition upd_wire (f : wire -> wire) (id : N) (l : list wire) : list wire :=
  map (fun w => if N.eqb (w_id w) id then f w else w) l.

Fixpoint find_dc (id : N) (l : list dclient) : option dclient :=
  match l with
  | [] => None
  | c :: r => if N.eqb (dc_id c) id then Some c else find_dc id r
  end.

Definition upd_dc (f : dclient -> dclient) (id : N) (l : list dclient) : list dclient :=
  map (fun c => if N.eqb (dc_id c) id then f c else c) l.

Definition fresh_wire (id : N) (v7 : bool) : wire := mkWire id None false false false false v7 false false.

(** pool.Acquire: the most recently stored idle wire, else a new connection *)
Definition pool_acquire (s : dstate) (h : holder) : dstate * N :=
  match d_idle s with
  | w :: rest =>
    (mkD (upd_wire (fun x => mkWire (w_id x) (Some h) (w_hooks x) (w_inval x) (w_bg x) (w_blocked x) (w_v7 x) (w_tracking x) (w_dead x)) w (d_wires s))
         rest (d_next s) (d_clients s) (d_log s ++ [EvAcq w h]) (d_res s) (d_shared s) (d_v7 s), w)
  | [] =>
    let w := d_next s in
    (mkD (d_wires s ++ [mkWire w (Some h) false false false false (d_v7 s) false false])
         [] (w + 1) (d_clients s) (d_log s ++ [EvAcq w h]) (d_res s) (d_shared s) (d_v7 s), w)
  end.

(** mux.Store: SetPubSubHooks({}), CleanSubscriptions, CLIENT TRACKING OFF iff an invalidation hook was installed,
    then pool.Store (idle again unless the wire is dead) *)
Definition store_events (x : wire) (h : holder) : list ev :=
  let w := w_id x in
  (if w_dead x then []
   else if w_blocked x then [EvCmd w h WCloseConn]
   else if w_bg x then [EvCmd w h (WUnsub (w_v7 x))] else []) ++
  (if w_inval x && negb (w_dead x || w_blocked x) then [EvCmd w h WTrackingOff] else []) ++
  [EvRel w h (negb (w_dead x || w_blocked x))].

Definition stored_wire (x : wire) : wire :=
  mkWire (w_id x) None false false (w_bg x) (w_blocked x) (w_v7 x)
         (if w_inval x && negb (w_dead x || w_blocked x) then false else w_tracking x)
         (w_dead x || w_blocked x).

Definition mux_store (s : dstate) (w : N) (h : holder) : dstate :=
  match find_wire w (d_wires s) with
  | Some x =>
    let x' := stored_wire x in
    mkD (upd_wire stored_wire w (d_wires s))
        (if w_dead x' then d_idle s else w :: d_idle s)
        (d_next s) (d_clients s) (d_log s ++ store_events x h) (d_res s) (d_shared s) (d_v7 s)
  | None => s
  end.

Definition log_cmd (s : dstate) (w : N) (h : holder) (c : wcmd) (f : wire -> wire) : dstate :=
  mkD (upd_wire f w (d_wires s)) (d_idle s) (d_next s) (d_clients s) (d_log s ++ [EvCmd w h c]) (d_res s) (d_shared s) (d_v7 s).

Definition wire_dead (s : dstate) (w : N) : bool :=
  match find_wire w (d_wires s) with Some x => w_dead x | None => true end.

(** a command of the holder: nothing reaches the server once the connection is closed *)
Definition user_cmd (s : dstate) (w : N) (h : holder) (a : argv) (f : wire -> wire) : dstate :=
  if wire_dead s w then s else log_cmd s w h (WUser a) f.

Definition add_res (s : dstate) (d : N) (r : res) : dstate :=
  mkD (d_wires s) (d_idle s) (d_next s) (d_clients s) (d_log s) (d_res s ++ [(d, r)]) (d_shared s) (d_v7 s).

Definition set_clients (s : dstate) (l : list dclient) : dstate :=
  mkD (d_wires s) (d_idle s) (d_next s) l (d_log s) (d_res s) (d_shared s) (d_v7 s).

(** an entry point of a dedicated client: check() first *)
Definition entry (s : dstate) (d : N) (k : dclient -> dstate) : option dstate :=
  match find_dc d (d_clients s) with
  | Some c => if dc_mark c then Some (add_res s d RRecycled) else Some (add_res (k c) d ROk)
  | None => None
  end.

Definition dstep (s : dstate) (l : dlabel) : option dstate :=
  match l with
  | DAcquire d =>
    match find_dc d (d_clients s) with
    | Some _ => None
    | None =>
      let '(s1, w) := pool_acquire s (HDed d) in
      Some (set_clients s1 (d_clients s1 ++ [mkDC d w false]))
    end
  | DDo d a => entry s d (fun c => user_cmd s (dc_wire c) (HDed d) a (fun x => x))
  | DSubscribe d a =>
    entry s d (fun c => user_cmd s (dc_wire c) (HDed d) a
      (fun x => mkWire (w_id x) (w_holder x) (w_hooks x) (w_inval x) true (w_blocked x) (w_v7 x) (w_tracking x) (w_dead x)))
  | DBlockFail d a =>
    (* a blocking command abandoned on a deadline: in pipelining mode the pipe lives on with blcksig raised (Store will
       close it); otherwise syncDo closes the connection at once *)
    entry s d (fun c =>
      let s1 := user_cmd s (dc_wire c) (HDed d) a (fun x => x) in
      if wire_dead s (dc_wire c) then s1
      else match find_wire (dc_wire c) (d_wires s1) with
           | Some x =>
             if w_bg x then
               mkD (upd_wire (fun x => mkWire (w_id x) (w_holder x) (w_hooks x) (w_inval x) (w_bg x) true (w_v7 x) (w_tracking x) (w_dead x)) (dc_wire c) (d_wires s1))
                   (d_idle s1) (d_next s1) (d_clients s1) (d_log s1) (d_res s1) (d_shared s1) (d_v7 s1)
             else
               log_cmd s1 (dc_wire c) (HDed d) WCloseConn
                 (fun x => mkWire (w_id x) (w_holder x) (w_hooks x) (w_inval x) (w_bg x) (w_blocked x) (w_v7 x) (w_tracking x) true)
           | None => s1
           end)
  | DTrackingOn d a =>
    entry s d (fun c => user_cmd s (dc_wire c) (HDed d) a
      (fun x => mkWire (w_id x) (w_holder x) (w_hooks x) (w_inval x) (w_bg x) (w_blocked x) (w_v7 x) true (w_dead x)))
  | DSetHooks d zero inval =>
    entry s d (fun c =>
      mkD (upd_wire (fun x => mkWire (w_id x) (w_holder x) (negb zero) (negb zero && inval) (w_bg x || negb zero) (w_blocked x) (w_v7 x) (w_tracking x) (w_dead x))
                    (dc_wire c) (d_wires s))
          (d_idle s) (d_next s) (d_clients s) (d_log s) (d_res s) (d_shared s) (d_v7 s))
  | DRelease d =>
    match find_dc d (d_clients s) with
    | Some c =>
      if dc_mark c then Some s      (* CompareAndSwap(mark, 0, 1) fails: nothing happens *)
      else Some (mux_store (set_clients s (upd_dc (fun c => mkDC (dc_id c) (dc_wire c) true) d (d_clients s))) (dc_wire c) (HDed d))
    | None => None
    end
  | DClose d =>
    (* repaired code: Close() of a recycled client is a no-op; otherwise the wire is closed, then released *)
    match find_dc d (d_clients s) with
    | Some c =>
      if dc_mark c then Some s
      else
        let s0 := set_clients s (upd_dc (fun c => mkDC (dc_id c) (dc_wire c) true) d (d_clients s)) in
        let s1 := if wire_dead s0 (dc_wire c) then s0
                  else log_cmd s0 (dc_wire c) (HDed d) WCloseConn
                         (fun x => mkWire (w_id x) (w_holder x) (w_hooks x) (w_inval x) (w_bg x) (w_blocked x) (w_v7 x) (w_tracking x) true) in
        Some (mux_store s1 (dc_wire c) (HDed d))
    | None => None
    end
  | BDo b a fail =>
    let '(s1, w) := pool_acquire s (HBlock b) in
    let s2 := log_cmd s1 w (HBlock b) (WUser a) (fun x => x) in
    let s3 := if fail then log_cmd s2 w (HBlock b) WCloseConn
                              (fun x => mkWire (w_id x) (w_holder x) (w_hooks x) (w_inval x) (w_bg x) (w_blocked x) (w_v7 x) (w_tracking x) true)
              else s2 in
    (* pool.Store directly (mux.blocking does not go through mux.Store) *)
    match find_wire w (d_wires s3) with
    | Some x =>
      Some (mkD (upd_wire (fun y => mkWire (w_id y) None (w_hooks y) (w_inval y) (w_bg y) (w_blocked y) (w_v7 y) (w_tracking y) (w_dead y)) w (d_wires s3))
                (if w_dead x then d_idle s3 else w :: d_idle s3) (d_next s3) (d_clients s3)
                (d_log s3 ++ [EvRel w (HBlock b) (negb (w_dead x))]) (d_res s3) (d_shared s3) (d_v7 s3))
    | None => None
    end
  | SDo a =>
    Some (mkD (d_wires s) (d_idle s) (d_next s) (d_clients s) (d_log s) (d_res s) (d_shared s ++ [a]) (d_v7 s))
  | DTry d a =>
    match find_dc d (d_clients s) with
    | Some c => if dc_mark c then None else Some (user_cmd s (dc_wire c) (HDed d) a (fun x => x))
    | None => None
    end
  end.

Definition dinit (first_pool_conn : N) (v7 : bool) : dstate := mkD [] [] first_pool_conn [] [] [] [] v7.

Fixpoint drun (s : dstate) (ls : list dlabel) : option dstate :=
  match ls with
  | [] => Some s
  | l :: rest => match dstep s l with Some s' => drun s' rest | None => None end
  end.

(** ---- the specification the log is checked against: a set of holders per wire ---- *)
(** replay of the log: [holders] maps a wire to its current holder *)
Fixpoint holder_of (w : N) (hs : list (N * holder)) : option holder :=
  match hs with
  | [] => None
  | (w', h) :: r => if N.eqb w' w then Some h else holder_of w r
  end.

Fixpoint drop_holder (w : N) (hs : list (N * holder)) : list (N * holder) :=
  match hs with
  | [] => []
  | (w', h) :: r => if N.eqb w' w then drop_holder w r else (w', h) :: drop_holder w r
  end.

Fixpoint log_ok (hs : list (N * holder)) (l : list ev) : bool :=
  match l with
  | [] => true
  | EvAcq w h :: r =>
    match holder_of w hs with
    | Some _ => false                                  (* acquired while held *)
    | None => log_ok ((w, h) :: hs) r
    end
  | EvCmd w h _ :: r =>
    match holder_of w hs with
    | Some h' => holder_eqb h h' && log_ok hs r        (* only the holder's commands *)
    | None => false
    end
  | EvRel w h _ :: r =>
    match holder_of w hs with
    | Some h' => holder_eqb h h' && log_ok (drop_holder w hs) r
    | None => false
    end
  end.

(** the commands of wire [w], in order *)
Definition wire_cmds (w : N) (l : list ev) : list wcmd :=
  flat_map (fun e => match e with EvCmd w' _ c => if N.eqb w' w then [c] else [] | _ => [] end) l.

(** … as the server logs them (closing a connection is not a command) *)
Definition served_cmds (w : N) (l : list ev) : list wcmd :=
  filter (fun c => match c with WCloseConn => false | _ => true end) (wire_cmds w l).


(** ---- vocabulary of obs_dedicated ---- *)
Definition k_SET : bytes := bs "SET"%string.
Definition k_GET : bytes := bs "GET"%string.
Definition k_INCR : bytes := bs "INCR"%string.
Definition k_WATCH : bytes := bs "WATCH"%string.
Definition k_MULTI : bytes := bs "MULTI"%string.
Definition k_EXEC : bytes := bs "EXEC"%string.
Definition k_SUBSCRIBE : bytes := bs "SUBSCRIBE"%string.
Definition k_CLIENT : bytes := bs "CLIENT"%string.
Definition k_TRACKING : bytes := bs "TRACKING"%string.
Definition k_ON : bytes := bs "ON"%string.
Definition k_BCAST : bytes := bs "BCAST"%string.
Definition k_BLPOP : bytes := bs "BLPOP"%string.
Definition k_0_2e01 : bytes := bs "0.01"%string.
Definition k_5 : bytes := bs "5"%string.
Definition k_v : bytes := bs "v"%string.
Definition k_ : bytes := bs ""%string.
Definition k_LOADING : bytes := bs "LOADING"%string.
Definition k_m_3arel : bytes := bs "m:rel"%string.
Definition k_d1_3ar : bytes := bs "d1:r"%string.
Definition k_d1_3aq : bytes := bs "d1:q"%string.
Definition k_d2_3ar : bytes := bs "d2:r"%string.
Definition k_d2_3aq : bytes := bs "d2:q"%string.
Definition k_d3_3ar : bytes := bs "d3:r"%string.
Definition k_d3_3aq : bytes := bs "d3:q"%string.
Definition k_d4_3ar : bytes := bs "d4:r"%string.
Definition k_d4_3aq : bytes := bs "d4:q"%string.
Definition k_d1_3ak : bytes := bs "d1:k"%string.
Definition k_d1_3aw : bytes := bs "d1:w"%string.
Definition k_d1_3ac : bytes := bs "d1:c"%string.
Definition k_d1_3ach : bytes := bs "d1:ch"%string.
Definition k_d1_3al : bytes := bs "d1:l"%string.
Definition k_d2_3ak : bytes := bs "d2:k"%string.
Definition k_d2_3aw : bytes := bs "d2:w"%string.
Definition k_d2_3ac : bytes := bs "d2:c"%string.
Definition k_d2_3ach : bytes := bs "d2:ch"%string.
Definition k_d2_3al : bytes := bs "d2:l"%string.
Definition k_d3_3ak : bytes := bs "d3:k"%string.
Definition k_d3_3aw : bytes := bs "d3:w"%string.
Definition k_d3_3ac : bytes := bs "d3:c"%string.
Definition k_d3_3ach : bytes := bs "d3:ch"%string.
Definition k_d3_3al : bytes := bs "d3:l"%string.
Definition k_d4_3ak : bytes := bs "d4:k"%string.
Definition k_d4_3aw : bytes := bs "d4:w"%string.
Definition k_d4_3ac : bytes := bs "d4:c"%string.
Definition k_d4_3ach : bytes := bs "d4:ch"%string.
Definition k_d4_3al : bytes := bs "d4:l"%string.
Definition k_b1_3al : bytes := bs "b1:l"%string.
Definition k_b2_3al : bytes := bs "b2:l"%string.
Definition k_b3_3al : bytes := bs "b3:l"%string.
Definition k_b4_3al : bytes := bs "b4:l"%string.
Definition k_b5_3al : bytes := bs "b5:l"%string.
Definition k_b6_3al : bytes := bs "b6:l"%string.
Definition k_b7_3al : bytes := bs "b7:l"%string.
Definition k_b8_3al : bytes := bs "b8:l"%string.
Definition k_b9_3al : bytes := bs "b9:l"%string.
Definition k_b10_3al : bytes := bs "b10:l"%string.
Definition k_b11_3al : bytes := bs "b11:l"%string.
Definition k_b12_3al : bytes := bs "b12:l"%string.
Definition k_b13_3al : bytes := bs "b13:l"%string.
Definition k_b14_3al : bytes := bs "b14:l"%string.
Definition k_b15_3al : bytes := bs "b15:l"%string.
Definition k_b16_3al : bytes := bs "b16:l"%string.
Definition k_b17_3al : bytes := bs "b17:l"%string.
Definition k_b18_3al : bytes := bs "b18:l"%string.
Definition k_b19_3al : bytes := bs "b19:l"%string.
Definition k_b20_3al : bytes := bs "b20:l"%string.
Definition k_b21_3al : bytes := bs "b21:l"%string.
Definition k_b22_3al : bytes := bs "b22:l"%string.
Definition k_b23_3al : bytes := bs "b23:l"%string.
Definition k_b24_3al : bytes := bs "b24:l"%string.
Definition k_b25_3al : bytes := bs "b25:l"%string.
Definition k_b26_3al : bytes := bs "b26:l"%string.
Definition k_b27_3al : bytes := bs "b27:l"%string.
Definition k_b28_3al : bytes := bs "b28:l"%string.
Definition k_b29_3al : bytes := bs "b29:l"%string.
Definition k_b30_3al : bytes := bs "b30:l"%string.
Definition k_b31_3al : bytes := bs "b31:l"%string.
Definition k_b32_3al : bytes := bs "b32:l"%string.
Definition k_b33_3al : bytes := bs "b33:l"%string.
Definition k_b34_3al : bytes := bs "b34:l"%string.
Definition k_b35_3al : bytes := bs "b35:l"%string.
Definition k_b36_3al : bytes := bs "b36:l"%string.
Definition k_b37_3al : bytes := bs "b37:l"%string.
Definition k_b38_3al : bytes := bs "b38:l"%string.
Definition k_b39_3al : bytes := bs "b39:l"%string.
Definition k_b40_3al : bytes := bs "b40:l"%string.
Definition k_s0_3an : bytes := bs "s0:n"%string.
Definition k_s1_3an : bytes := bs "s1:n"%string.
Definition k_s2_3an : bytes := bs "s2:n"%string.
Definition k_s3_3an : bytes := bs "s3:n"%string.

(** ---- correspondence cases (printed by harness/cmd/obs_dedicated) ---- *)
Definition wcmd_eqb (a b : wcmd) : bool :=
  match a, b with
  | WUser x, WUser y => argv_eqb x y
  | WUnsub x, WUnsub y => Bool.eqb x y
  | WTrackingOff, WTrackingOff => true
  | WCloseConn, WCloseConn => true
  | _, _ => false
  end.

Definition res_eqb (a b : res) : bool := match a, b with ROk, ROk | RRecycled, RRecycled => true | _, _ => false end.

Inductive case :=
| CDed (first : N) (v7 : bool) (prog : list dlabel)
       (conns : list (N * list wcmd))       (* per pool connection: what the server logged after the setup *)
       (results : list (N * res))            (* result class of every dedicated entry point called, in program order *)
       (shared : list argv).                 (* commands seen on the non-pool connections *)

Definition check_case (c : case) : bool :=
  match c with
  | CDed first v7 prog conns results shared =>
    match drun (dinit first v7) prog with
    | Some s =>
      log_ok [] (d_log s) &&
      forallb (fun x => list_eqb wcmd_eqb (served_cmds (fst x) (d_log s)) (snd x)) conns &&
      (length conns =? length (d_wires s))%nat &&
      list_eqb (fun a b => N.eqb (fst a) (fst b) && res_eqb (snd a) (snd b)) (d_res s) results &&
      argvs_eqb (d_shared s) shared
    | None => false
    end
  end.
