(** Number formatting used by the command builders: strconv.FormatInt / FormatUint (any base 2..36;
    the builders use 10), duration and time conversions.  Plus the specification side: the value of a
    decimal numeral.  Definitions only. *)
From Coq Require Import List NArith ZArith Bool.
Require Import RV.Model.Base.
Import ListNotations.
Open Scope N_scope.

(** digit characters of strconv: "0123456789abcdefghijklmnopqrstuvwxyz" *)
Definition digit_char (d : N) : N := if d <? 10 then 48 + d else 87 + d.

(** most significant digit first; fuel = number of bits + 1 is enough for every base >= 2 *)
Fixpoint digits_aux (fuel : nat) (base n : N) (acc : bytes) : bytes :=
  match fuel with
  | O => acc
  | S f => if n <? base then digit_char n :: acc
           else digits_aux f base (n / base) (digit_char (n mod base) :: acc)
  end.

(** strconv.FormatUint(n, base) for 2 <= base <= 36 *)
Definition fmt_uint_base (base n : N) : bytes := digits_aux (S (N.size_nat n)) base n [].

(** strconv.FormatInt(z, base) *)
Definition fmt_int_base (base : N) (z : Z) : bytes :=
  match z with
  | Z0 => [48]
  | Zpos p => fmt_uint_base base (Npos p)
  | Zneg p => 45 :: fmt_uint_base base (Npos p)
  end.

Definition fmt_uint : N -> bytes := fmt_uint_base 10.
Definition fmt_int : Z -> bytes := fmt_int_base 10.

(** int64(d / unit): Go integer division truncates toward zero *)
Definition dur_div (ns : Z) (unit_ns : N) : Z := Z.quot ns (Z.of_N unit_ns).

(** time.Time as (seconds since the Unix epoch, nanoseconds within the second in [0, 10^9)) *)
Definition time_unix (sec : Z) (nsec : N) : Z := sec.
Definition time_unix_milli (sec : Z) (nsec : N) : Z := (sec * 1000 + Z.of_N (nsec / 1000000))%Z.

(** * Specification: the number a decimal numeral denotes *)

Definition is_digit (b : N) : bool := (48 <=? b) && (b <=? 57).

Fixpoint dec_value_aux (bs : bytes) (acc : N) : option N :=
  match bs with
  | [] => Some acc
  | b :: r => if is_digit b then dec_value_aux r (acc * 10 + (b - 48)) else None
  end.

(** value of a non-empty string of decimal digits *)
Definition dec_value (bs : bytes) : option N :=
  match bs with
  | [] => None
  | _ => dec_value_aux bs 0
  end.

(** canonical: no leading zero except for "0" itself *)
Definition dec_canonical (bs : bytes) : bool :=
  match bs with
  | [] => false
  | b :: r => negb (b =? 48) || match r with [] => true | _ => false end
  end.

(** value of an optionally '-'-signed decimal numeral *)
Definition int_value (bs : bytes) : option Z :=
  match bs with
  | b :: r =>
    if b =? 45 then match dec_value r with Some n => Some (- Z.of_N n)%Z | None => None end
    else match dec_value bs with Some n => Some (Z.of_N n) | None => None end
  | [] => None
  end.
