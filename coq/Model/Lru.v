(** Model of the built-in client-side cache store: lru.go (whole file), plus the pieces of
    message.go it uses (approximateSize, the 56-bit expiry field, relativePTTL, CachePXAT/PTTL/TTL).

    Definitions only, no proofs.  Time is in nanoseconds ([Z]); [unix_milli] is Go's
    [time.Time.UnixMilli] (floor division).  Sizes are [Z] (Go [int]), entry identities and hit
    counters are [N].

    The store is a [list entry], front = oldest (container/list order); Go's two-level map
    [store[key].cache[cmd]] is the lookup [find (ematch k c)]; it is kept in sync with the list by
    every method of lru.go (each list removal is paired with a map delete or overwrite), so the map
    is not a separate component.  The per-key hit counter [keyCache.hits] lives in [hits] and is
    dropped when the key's last entry goes (the keyCache is deleted from the store map).

    [step] has one op per exported method *and* one op per critical section of Flight / Flights
    ([FlightFast], [Touch], [FlightSlow], [FlightsFast], [FlightsSlow]): a concurrent execution is
    a history of the latter; [Flight] and [Flights] are their sequential compositions. *)
From Coq Require Import List NArith ZArith Bool.
Require Import RV.Model.Base.
Import ListNotations.
Open Scope Z_scope.

(** ** Messages (message.go RedisMessage) *)

(** [typ] = RESP type byte (0 = the zero message used as "pending" placeholder), [int] = intlen of a
    scalar, [str] = string payload, [vals] = array payload, [xat] = the 7 ttl bytes (absolute expiry
    in ms, 0 = none), [mark] = (attrs == cacheMark). *)
Inductive msg := Msg (typ : N) (int : Z) (str : bytes) (vals : list msg) (xat : Z) (mark : bool).

Definition m_typ (m : msg) : N := let 'Msg t _ _ _ _ _ := m in t.
Definition m_int (m : msg) : Z := let 'Msg _ i _ _ _ _ := m in i.
Definition m_str (m : msg) : bytes := let 'Msg _ _ s _ _ _ := m in s.
Definition m_vals (m : msg) : list msg := let 'Msg _ _ _ v _ _ := m in v.
Definition m_xat (m : msg) : Z := let 'Msg _ _ _ _ x _ := m in x.
Definition m_mark (m : msg) : bool := let 'Msg _ _ _ _ _ k := m in k.

Definition two56 : Z := 72057594037927936.          (* 2^56 *)
(** setExpireAt keeps the low 56 bits of the int64 (two's complement for negative values) *)
Definition trunc56 (x : Z) : Z := x mod two56.
Definition set_xat (m : msg) (x : Z) : msg := let 'Msg t i s v _ k := m in Msg t i s v x k.
Definition set_mark (m : msg) (k : bool) : msg := let 'Msg t i s v x _ := m in Msg t i s v x k.
Definition empty_msg : msg := Msg 0 0 [] [] 0 false.

(** RedisMessage.intlen as the reader loop reads it: string length, array length, or the integer *)
Definition m_intlen (m : msg) : Z :=
  match m_str m, m_vals m with
  | _ :: _, _ => Z.of_nat (length (m_str m))
  | [], _ :: _ => Z.of_nat (length (m_vals m))
  | [], [] => m_int m
  end.

(** approximateSize with messageStructSize = [mss] *)
Fixpoint approx (mss : Z) (m : msg) : Z :=
  let 'Msg _ _ s vs _ _ := m in
  mss + Z.of_nat (length s) +
  (fix go (l : list msg) : Z := match l with [] => 0 | x :: r => approx mss x + go r end) vs.

Fixpoint msg_eqb (a b : msg) : bool :=
  let 'Msg t1 i1 s1 v1 x1 k1 := a in
  let 'Msg t2 i2 s2 v2 x2 k2 := b in
  (t1 =? t2)%N && (i1 =? i2) && bytes_eqb s1 s2 && (x1 =? x2) && Bool.eqb k1 k2 &&
  (fix go (l1 l2 : list msg) : bool :=
     match l1, l2 with
     | [], [] => true
     | x :: r1, y :: r2 => msg_eqb x y && go r1 r2
     | _, _ => false
     end) v1 v2.

Definition unix_milli (t : Z) : Z := t / 1000000.
(** relativePTTL *)
Definition rel_pttl (m : msg) (now : Z) : Z := m_xat m - unix_milli now.
Definition is_pending_msg (m : msg) : bool := (m_typ m =? 0)%N.
(** the test of Flight / Flights: pending placeholder, or completed and not yet expired *)
Definition live (m : msg) (now : Z) : bool := is_pending_msg m || (0 <? rel_pttl m now).

(** CachePXAT / CachePTTL / CacheTTL ([now] = the instant CachePTTL reads) *)
Definition cache_pxat (m : msg) : Z := if m_xat m =? 0 then -1 else m_xat m.
Definition cache_pttl (m : msg) (now : Z) : Z :=
  if m_xat m =? 0 then -1 else Z.max 0 (m_xat m - unix_milli now).
Definition cache_ttl (m : msg) (now : Z) : Z :=
  let milli := cache_pttl m now in
  if 0 <? milli then (let t := milli / 1000 in if t * 1000 <? milli then t + 1 else t) else milli.

(** ** Store *)

Record cfg := mkCfg { cmax : Z; cbase : Z; cmss : Z }.  (* CacheSizeEachConn, entryBaseSize, messageStructSize *)

Record entry := mkE { eid : N; ekey : bytes; ecmd : bytes; eval : msg; esize : Z }.

Record state := mkS {
  size : Z;                       (* lru.size *)
  order : list entry;             (* lru.list, front first *)
  hits : list (bytes * N);        (* keyCache.hits per key present in lru.store *)
  closed : bool;                  (* lru.store == nil *)
  next_id : N                     (* allocation counter: identity of the next cacheEntry *)
}.

Definition init : state := mkS 0 [] [] false 0.

Definition pending (e : entry) : bool := is_pending_msg (eval e).
Definition ematch (k c : bytes) (e : entry) : bool := bytes_eqb k (ekey e) && bytes_eqb c (ecmd e).
Definition lookup (k c : bytes) (l : list entry) : option entry := find (ematch k c) l.
Definition remove_kc (k c : bytes) (l : list entry) : list entry := filter (fun e => negb (ematch k c e)) l.
Definition upd_kc (k c : bytes) (f : entry -> entry) (l : list entry) : list entry :=
  map (fun e => if ematch k c e then f e else e) l.
Definition has_id (id : N) (e : entry) : bool := (eid e =? id)%N.

(** container/list MoveToBack; a no-op for an element that was removed meanwhile *)
Definition move_to_back (id : N) (l : list entry) : list entry :=
  match find (has_id id) l with
  | Some e => filter (fun x => negb (has_id id x)) l ++ [e]
  | None => l
  end.

Fixpoint last_id (l : list entry) : option N :=
  match l with
  | [] => None
  | [e] => Some (eid e)
  | _ :: r => last_id r
  end.
Definition is_last (e : entry) (l : list entry) : bool := option_eqb N.eqb (last_id l) (Some (eid e)).

Fixpoint get_hits (k : bytes) (h : list (bytes * N)) : N :=
  match h with
  | [] => 0%N
  | (k', n) :: r => if bytes_eqb k k' then n else get_hits k r
  end.
Definition set_hits (k : bytes) (n : N) (h : list (bytes * N)) : list (bytes * N) :=
  (k, n) :: filter (fun p => negb (bytes_eqb k (fst p))) h.
(** a keyCache whose last command entry is removed is deleted from the store map *)
Definition gc_hits (l : list entry) (h : list (bytes * N)) : list (bytes * N) :=
  filter (fun p => existsb (fun e => bytes_eqb (fst p) (ekey e)) l) h.

Definition sum_sizes (l : list entry) : Z := fold_right (fun e a => esize e + a) 0 l.

Definition set_order (s : state) (l : list entry) : state := mkS (size s) l (hits s) (closed s) (next_id s).
Definition set_hit (s : state) (k : bytes) (n : N) : state :=
  mkS (size s) (order s) (set_hits k n (hits s)) (closed s) (next_id s).

(** atomic.AddUint32(&kc.hits, 1); only the low 10 bits are ever tested, so the uint32 wrap is invisible *)
Definition bump (s : state) (k : bytes) : state * N :=
  let n := N.succ (get_hits k (hits s)) in (set_hit s k n, n).
Definition threshold (n : N) : bool := (N.land n 1023 =? 0)%N.    (* hits & moveThreshold == 0 *)

(** ** Outputs *)

Inductive fres := FHit (v : msg) | FWait (id : N) | FMiss.
(** an entry whose waiters are released, and the message Wait returns to them *)
Inductive rel := Rel (id : N) (v : msg).

Inductive out :=
| OFlight (v : msg) (ce : option N)                    (* Flight / FlightSlow: returned message, returned entry *)
| OFast (r : option rel) (move : bool)           (* FlightFast: returned (entry, message) or fall through; MoveToBack wanted *)
| OFlights (rs : list fres)                            (* Flights / FlightsSlow: per input index *)
| OFlightsFast (rs : list fres) (moves : list N)
| OUpdate (pxat : Z) (r : option rel)          (* returned pxat; entry whose waiters are released and the value Wait returns *)
| OCancel (r : option rel)                     (* entry whose waiters are released (Wait returns (its val, err)) *)
| OClose (rel : list N)                                (* entries whose waiters are released with the error *)
| OTTL (d : Z)
| ONone.

(** ** Critical sections *)

Definition pending_msg (ttl now : Z) : msg := Msg 0 0 [] [] (trunc56 (unix_milli (now + ttl))) false.

(** kc.cache[cmd] = list.PushBack(&cacheEntry{...}) *)
Definition push_pending (s : state) (k c : bytes) (ttl now : Z) : state * msg :=
  let v := pending_msg ttl now in
  (mkS (size s) (order s ++ [mkE (next_id s) k c v 0]) (hits s) (closed s) (N.succ (next_id s)), v).

(** Flight, first critical section (RLock) + the counter increment that follows it *)
Definition flight_fast (s : state) (k c : bytes) (now : Z) : state * out :=
  match lookup k c (order s) with
  | Some e =>
      if live (eval e) now then
        let '(s1, n) := bump s k in
        (s1, OFast (Some (Rel (eid e) (eval e))) (negb (is_last e (order s)) && threshold n))
      else (s, OFast None false)
  | None => (s, OFast None false)
  end.

(** the write-locked MoveToBack of Flight (one id) and Flights (a batch) *)
Definition touch (s : state) (ids : list N) : state :=
  if closed s then s else set_order s (fold_left (fun l id => move_to_back id l) ids (order s)).

Inductive sres := SHit (v : msg) (id : N) | SWait (v : msg) (id : N) | SMiss (v : msg) | SClosed.

(** one key of the write-locked section shared by Flight (slow path) and Flights (second pass); store open *)
Definition slow_one (s : state) (k c : bytes) (ttl now : Z) : state * sres :=
  match lookup k c (order s) with
  | Some e =>
      if live (eval e) now then
        let '(s1, _) := bump s k in
        (set_order s1 (move_to_back (eid e) (order s1)),
         if pending e then SWait (eval e) (eid e) else SHit (eval e) (eid e))
      else
        let s1 := mkS (size s - esize e) (remove_kc k c (order s)) (hits s) (closed s) (next_id s) in
        let '(s2, v) := push_pending s1 k c ttl now in (s2, SMiss v)
  | None => let '(s2, v) := push_pending s k c ttl now in (s2, SMiss v)
  end.

Definition flight_slow (s : state) (k c : bytes) (ttl now : Z) : state * out :=
  if closed s then (s, OFlight empty_msg None)
  else
    let '(s1, r) := slow_one s k c ttl now in
    (s1, match r with
         | SHit v id | SWait v id => OFlight v (Some id)
         | SMiss v => OFlight v None
         | SClosed => OFlight empty_msg None
         end).

Definition flight (s : state) (k c : bytes) (ttl now : Z) : state * out :=
  match flight_fast s k c now with
  | (s1, OFast (Some (Rel id v)) mv) => ((if mv then touch s1 [id] else s1), OFlight v (Some id))
  | (s1, _) => flight_slow s1 k c ttl now
  end.

Record fitem := FI { fi_key : bytes; fi_cmd : bytes; fi_ttl : Z }.     (* CacheKey of the command, and its TTL *)

(** Flights, first pass (RLock) *)
Fixpoint flights_fast (s : state) (now : Z) (items : list fitem) : state * list fres * list N :=
  match items with
  | [] => (s, [], [])
  | FI k c _ :: r =>
      match lookup k c (order s) with
      | Some e =>
          if live (eval e) now then
            let '(s1, n) := bump s k in
            let '(s2, rs, mv) := flights_fast s1 now r in
            (s2, (if pending e then FWait (eid e) else FHit (eval e)) :: rs,
             (if threshold n then [eid e] else []) ++ mv)
          else let '(s2, rs, mv) := flights_fast s now r in (s2, FMiss :: rs, mv)
      | None => let '(s2, rs, mv) := flights_fast s now r in (s2, FMiss :: rs, mv)
      end
  end.

(** Flights, second pass (Lock) over the commands that missed the first pass *)
Fixpoint flights_slow_open (s : state) (now : Z) (items : list fitem) : state * list fres :=
  match items with
  | [] => (s, [])
  | FI k c ttl :: r =>
      let '(s1, x) := slow_one s k c ttl now in
      let '(s2, rs) := flights_slow_open s1 now r in
      (s2, match x with SHit v _ => FHit v | SWait _ id => FWait id | _ => FMiss end :: rs)
  end.
Definition flights_slow (s : state) (now : Z) (items : list fitem) : state * list fres :=
  if closed s then (s, map (fun _ => FMiss) items) else flights_slow_open s now items.

Fixpoint missed_items (items : list fitem) (rs : list fres) : list fitem :=
  match items, rs with
  | it :: r, FMiss :: rr => it :: missed_items r rr
  | _ :: r, _ :: rr => missed_items r rr
  | _, _ => []
  end.
Fixpoint merge_res (rs rs2 : list fres) : list fres :=
  match rs with
  | [] => []
  | FMiss :: r => match rs2 with x :: r2 => x :: merge_res r r2 | [] => FMiss :: merge_res r [] end
  | x :: r => x :: merge_res r rs2
  end.

Definition flights (s : state) (now : Z) (items : list fitem) : state * out :=
  let '(s1, rs, mv) := flights_fast s now items in
  let s2 := match mv with [] => s1 | _ => touch s1 mv end in
  match missed_items items rs with
  | [] => (s2, OFlights rs)
  | mi => let '(s3, rs2) := flights_slow s2 now mi in (s3, OFlights (merge_res rs rs2))
  end.

(** ** Update: complete a pending entry (min rule for the expiry), then evict from the front *)

Definition entry_size (g : cfg) (k c : bytes) (v : msg) : Z :=
  cbase g + 2 * (Z.of_nat (length k) + Z.of_nat (length c)) + approx (cmss g) v.

(** "server side ttl should only shorten client side ttl" *)
Definition min_xat (cx sx : Z) : Z := if (cx <? sx) || (sx =? 0) then cx else sx.

(** the eviction walk (repaired code: the successor is taken before the element is removed):
    from the front while size > max, skipping pending entries.  Returns (size, kept, evicted). *)
Fixpoint evict (max sz : Z) (l : list entry) : Z * list entry * list entry :=
  match l with
  | [] => (sz, [], [])
  | e :: r =>
      if max <? sz then
        if pending e then let '(z, keep, ev) := evict max sz r in (z, e :: keep, ev)
        else let '(z, keep, ev) := evict max (sz - esize e) r in (z, keep, e :: ev)
      else (sz, l, [])
  end.

Definition update (g : cfg) (s : state) (k c : bytes) (v : msg) : state * out :=
  match lookup k c (order s) with
  | None => (s, OUpdate 0 None)
  | Some e =>
      let '(s1, px, rel) :=
        if pending e then
          let px := min_xat (m_xat (eval e)) (m_xat v) in
          let v' := set_xat v px in
          let sz := entry_size g k c v' in
          (mkS (size s + sz) (upd_kc k c (fun x => mkE (eid x) (ekey x) (ecmd x) v' sz) (order s))
               (hits s) (closed s) (next_id s), px, Some (Rel (eid e) v'))
        else (s, 0, None) in
      let '(z, keep, _) := evict (cmax g) (size s1) (order s1) in
      (mkS z keep (gc_hits keep (hits s1)) (closed s1) (next_id s1), OUpdate px rel)
  end.

Definition cancel (s : state) (k c : bytes) : state * out :=
  match lookup k c (order s) with
  | Some e =>
      if pending e then
        let l := remove_kc k c (order s) in
        (mkS (size s) l (gc_hits l (hits s)) (closed s) (next_id s), OCancel (Some (Rel (eid e) (eval e))))
      else (s, OCancel None)
  | None => (s, OCancel None)
  end.

(** purge of every key selected by [p]: completed entries go, pending ones stay *)
Definition purge_if (p : entry -> bool) (s : state) : state :=
  let gone := filter (fun e => p e && negb (pending e)) (order s) in
  let l := filter (fun e => negb (p e && negb (pending e))) (order s) in
  mkS (size s - sum_sizes gone) l (gc_hits l (hits s)) (closed s) (next_id s).

Definition delete (s : state) (keys : option (list bytes)) : state :=
  match keys with
  | None => purge_if (fun _ => true) s
  | Some ks => purge_if (fun e => existsb (fun k => bytes_eqb k (ekey e)) ks) s
  end.

(** Close: pending entries get the error; store and list are dropped; [size] is left as it is *)
Definition close (s : state) : state * out :=
  (mkS (size s) [] [] true (next_id s), OClose (map eid (filter pending (order s)))).

(** GetTTL in nanoseconds ([now] = the time.Now() it reads) *)
Definition get_ttl (s : state) (k c : bytes) (now : Z) : Z :=
  match lookup k c (order s) with
  | Some e => let t := rel_pttl (eval e) now * 1000000 in if t <=? 0 then -2 else t
  | None => -2
  end.

(** ** Operations and step *)

Inductive op :=
| Flight (k c : bytes) (ttl now : Z)
| Flights (now : Z) (items : list fitem)
| Update (k c : bytes) (v : msg)
| Cancel (k c : bytes) (err : N)
| Delete (keys : option (list bytes))
| Close (err : N)
| GetTTL (k c : bytes) (now : Z)
(* the critical sections of Flight / Flights as separate atomic steps *)
| FlightFast (k c : bytes) (now : Z)
| Touch (ids : list N)
| FlightSlow (k c : bytes) (ttl now : Z)
| FlightsFast (now : Z) (items : list fitem)
| FlightsSlow (now : Z) (items : list fitem).

Definition step (g : cfg) (s : state) (o : op) : state * out :=
  match o with
  | Flight k c ttl now => flight s k c ttl now
  | Flights now items => flights s now items
  | Update k c v => update g s k c v
  | Cancel k c _ => cancel s k c
  | Delete keys => (delete s keys, ONone)
  | Close _ => close s
  | GetTTL k c now => (s, OTTL (get_ttl s k c now))
  | FlightFast k c now => flight_fast s k c now
  | Touch ids => (touch s ids, ONone)
  | FlightSlow k c ttl now => flight_slow s k c ttl now
  | FlightsFast now items => let '(s1, rs, mv) := flights_fast s now items in (s1, OFlightsFast rs mv)
  | FlightsSlow now items => let '(s1, rs) := flights_slow s now items in (s1, OFlights rs)
  end.

Definition run (g : cfg) (ops : list op) (s : state) : state :=
  fold_left (fun st o => fst (step g st o)) ops s.

(** outputs of a history, in order *)
Fixpoint trace (g : cfg) (ops : list op) (s : state) : list out :=
  match ops with
  | [] => []
  | o :: r => let '(s1, x) := step g s o in x :: trace g r s1
  end.

(** ** Vocabulary of the property statements (C06, C07, C09, C10) *)

(** what a caller looking up one command is told *)
Inductive ans := AHit (v : msg) | AWait (id : N) | AMiss.

Definition ans_of_flight (v : msg) (ce : option N) : ans :=
  if is_pending_msg v then match ce with Some id => AWait id | None => AMiss end else AHit v.
Definition ans_of_fres (r : fres) : ans :=
  match r with FHit v => AHit v | FWait id => AWait id | FMiss => AMiss end.

Definition ematch_item (k c : bytes) (it : fitem) : bool := bytes_eqb k (fi_key it) && bytes_eqb c (fi_cmd it).
Fixpoint answers_items (k c : bytes) (items : list fitem) (rs : list fres) : list ans :=
  match items, rs with
  | it :: r, x :: rr =>
      (if ematch_item k c it then [ans_of_fres x] else []) ++ answers_items k c r rr
  | _, _ => []
  end.

Definition not_miss (a : ans) : bool := match a with AMiss => false | _ => true end.

(** the answers operation [o] with output [x] gave to lookups of command (k, c).  For the first
    critical sections ([FlightFast], [FlightsFast]) falling through to the second one is not an answer. *)
Definition answers (k c : bytes) (o : op) (x : out) : list ans :=
  match o, x with
  | Flight k' c' _ _, OFlight v ce | FlightSlow k' c' _ _, OFlight v ce =>
      if bytes_eqb k k' && bytes_eqb c c' then [ans_of_flight v ce] else []
  | FlightFast k' c' _, OFast (Some (Rel id v)) _ =>
      if bytes_eqb k k' && bytes_eqb c c' then [ans_of_flight v (Some id)] else []
  | Flights _ items, OFlights rs | FlightsSlow _ items, OFlights rs => answers_items k c items rs
  | FlightsFast _ items, OFlightsFast rs _ => filter not_miss (answers_items k c items rs)
  | _, _ => []
  end.

(** the instant a lookup operation was given *)
Definition now_of (o : op) : Z :=
  match o with
  | Flight _ _ _ now | Flights now _ | GetTTL _ _ now | FlightFast _ _ now | FlightSlow _ _ _ now
  | FlightsFast now _ | FlightsSlow now _ => now
  | _ => 0
  end.

(** reader events that end the validity of cached replies of [k]: invalidation of the key, flush, disconnect *)
Definition invalidates (k : bytes) (o : op) : Prop :=
  match o with
  | Delete None => True
  | Delete (Some ks) => In k ks
  | Close _ => True
  | _ => False
  end.

(** operations that end the flight of command (k, c) *)
Definition resolves (k c : bytes) (o : op) : Prop :=
  match o with
  | Update k' c' _ | Cancel k' c' _ => k' = k /\ c' = c
  | Close _ => True
  | _ => False
  end.

(** entries whose waiters an operation releases *)
Definition released (x : out) : list N :=
  match x with
  | OUpdate _ (Some (Rel id _)) | OCancel (Some (Rel id _)) => [id]
  | OClose ids => ids
  | _ => []
  end.

(** ** Correspondence cases *)

(** observers print instants relative to 2040-01-01 (ns resp. ms) to keep the numerals short *)
Definition T (d : Z) : Z := 2208988800000000000 + d.
Definition M (d : Z) : Z := 2208988800000 + d.

(** padding used by observers to print long payloads compactly *)
Definition pad (b : bytes) (n : N) : bytes := b ++ repeat_n 120%N (N.to_nat n).

(** what the observer reads from the real store after every operation: accounted size, closed flag,
    identities in list order; [IFull] (at the end of a history) compares every field of every entry *)
Record snap := mkSnap { sn_size : Z; sn_closed : bool; sn_order : list N }.

Definition snap_of (s : state) : snap := mkSnap (size s) (closed s) (map eid (order s)).

Definition snap_eqb (a b : snap) : bool :=
  (sn_size a =? sn_size b) && Bool.eqb (sn_closed a) (sn_closed b) && list_eqb N.eqb (sn_order a) (sn_order b).

Inductive row := Row (id : N) (key cmd : bytes) (typ : N) (xat : Z) (sz : Z).
Definition rows_of (s : state) : list row :=
  map (fun e => Row (eid e) (ekey e) (ecmd e) (m_typ (eval e)) (m_xat (eval e)) (esize e)) (order s).
Definition row_eqb (a b : row) : bool :=
  let 'Row i1 k1 c1 t1 x1 z1 := a in
  let 'Row i2 k2 c2 t2 x2 z2 := b in
  (i1 =? i2)%N && bytes_eqb k1 k2 && bytes_eqb c1 c2 && (t1 =? t2)%N && (x1 =? x2) && (z1 =? z2).

Definition fres_eqb (a b : fres) : bool :=
  match a, b with
  | FHit v, FHit w => msg_eqb v w
  | FWait i, FWait j => (i =? j)%N
  | FMiss, FMiss => true
  | _, _ => false
  end.
Definition rel_eqb (a b : rel) : bool := let 'Rel i v := a in let 'Rel j w := b in (i =? j)%N && msg_eqb v w.
Definition out_eqb (a b : out) : bool :=
  match a, b with
  | OFlight v ce, OFlight w cf => msg_eqb v w && option_eqb N.eqb ce cf
  | OFast r m, OFast r' m' => option_eqb rel_eqb r r' && Bool.eqb m m'
  | OFlights rs, OFlights rs' => list_eqb fres_eqb rs rs'
  | OFlightsFast rs mv, OFlightsFast rs' mv' => list_eqb fres_eqb rs rs' && list_eqb N.eqb mv mv'
  | OUpdate p r, OUpdate p' r' => (p =? p') && option_eqb rel_eqb r r'
  | OCancel r, OCancel r' => option_eqb rel_eqb r r'
  | OClose l, OClose l' => list_eqb N.eqb l l'
  | OTTL d, OTTL d' => d =? d'
  | ONone, ONone => true
  | _, _ => false
  end.

(** one observed operation: the op, what the implementation returned, the store afterwards.
    [IRep n] repeats the op [n] times and observes the last repetition only (used to reach the
    1024-hit MoveToBack threshold without printing a thousand items).
    [ITTL] brackets the time.Now() read inside GetTTL between two harness readings.
    [IFlightsG] is one call of Flights during which the harness ran other operations at the two
    lock-free points (before the MoveToBack batch, before the second pass): first-pass results and
    store, operations run at the first point, store after the moves, operations run at the second
    point, final results and store.  It is the history
    [FlightsFast; gap3...; Touch moves; gap4...; FlightsSlow missed]. *)
Inductive item :=
| IOp (o : op) (x : out) (sn : snap)
| IRep (n : N) (o : op) (x : out) (sn : snap)
| ITTL (k c : bytes) (t0 t1 : Z) (d : Z)
| IFull (rows : list row)
| IFlightsG (now : Z) (items : list fitem) (rs1 : list fres) (sn1 : snap)
            (gap3 : list item) (sn3 : snap) (gap4 : list item) (x : out) (sn : snap).

Definition is_nil {A : Type} (l : list A) : bool := match l with [] => true | _ => false end.

Fixpoint check_item (g : cfg) (s : state) (it : item) {struct it} : option state :=
  let go := fix go (s : state) (l : list item) {struct l} : option state :=
    match l with
    | [] => Some s
    | i :: r => match check_item g s i with Some s1 => go s1 r | None => None end
    end in
  match it with
  | IOp o x sn =>
      let '(s1, y) := step g s o in
      if out_eqb x y && snap_eqb sn (snap_of s1) then Some s1 else None
  | IRep n o x sn =>
      let s0 := N.iter (N.pred n) (fun st => fst (step g st o)) s in
      let '(s1, y) := step g s0 o in
      if out_eqb x y && snap_eqb sn (snap_of s1) then Some s1 else None
  | ITTL k c t0 t1 d =>
      if (get_ttl s k c t1 <=? d) && (d <=? get_ttl s k c t0) then Some s else None
  | IFull rows => if list_eqb row_eqb rows (rows_of s) then Some s else None
  | IFlightsG now items rs1 sn1 gap3 sn3 gap4 x sn =>
      let '(s1, rs, mv) := flights_fast s now items in
      if negb (list_eqb fres_eqb rs1 rs && snap_eqb sn1 (snap_of s1)) then None else
      match (if is_nil mv then (if is_nil gap3 then Some s1 else None)
             else match go s1 gap3 with
                  | Some s1' => let s2 := touch s1' mv in if snap_eqb sn3 (snap_of s2) then Some s2 else None
                  | None => None
                  end) with
      | None => None
      | Some s2 =>
          match missed_items items rs with
          | [] => if is_nil gap4 && out_eqb x (OFlights rs) && snap_eqb sn (snap_of s2) then Some s2 else None
          | mi =>
              match go s2 gap4 with
              | Some s2' =>
                  let '(s3, rs2) := flights_slow s2' now mi in
                  if out_eqb x (OFlights (merge_res rs rs2)) && snap_eqb sn (snap_of s3) then Some s3 else None
              | None => None
              end
          end
      end
  end.

Fixpoint check_items (g : cfg) (s : state) (l : list item) : bool :=
  match l with
  | [] => true
  | i :: r => match check_item g s i with Some s1 => check_items g s1 r | None => false end
  end.

Inductive case :=
| CHist (g : cfg) (l : list item)
| CApprox (mss : Z) (m : msg) (impl : Z)                 (* approximateSize *)
| CExpire (x : Z) (impl : Z)                             (* getExpireAt after setExpireAt(x) *)
| CReport (m : msg) (t0 t1 : Z) (pxat pttl ttl : Z).      (* CachePXAT / CachePTTL / CacheTTL, time.Now() in [t0, t1] *)

Definition check_case (c : case) : bool :=
  match c with
  | CHist g l => check_items g init l
  | CApprox mss m impl => approx mss m =? impl
  | CExpire x impl => trunc56 x =? impl
  | CReport m t0 t1 pxat pttl ttl =>
      (cache_pxat m =? pxat) &&
      (cache_pttl m t1 <=? pttl) && (pttl <=? cache_pttl m t0) &&
      (cache_ttl m t1 <=? ttl) && (ttl <=? cache_ttl m t0)
  end.
