(** Model of rueidisaside (aside.go; typed_aside.go only wraps values) at round-trip granularity.

    Server: a store [key -> (value, expiry)] on one clock.  It holds the cached keys (a loader value, or the
    placeholder = the id of the client that is loading) and the liveness keys of the clients (key name = the
    client id ["rueidisid:" ++ random], value "", PX ClientTTL).  The three scripts are the transformers
    [srv_setkey], [srv_delkey], [srv_lock] (= SET key id NX GET PX, also the [acquireLock] script).
    Client-side caching is explicit: a per-client cache filled by real reads, emptied by delivered
    invalidations ([AInval]); the server remembers who tracks which key and queues invalidations on writes.

    A [Get] is a state machine, one atomic step per round trip (together with the caller's handling of the
    reply), per loader call, per wake-up:
       GSRead  -cached GET key->                value: return it | placeholder: GSProbe | nil: GSKeep (or return)
       GSKeep  -keepalive: c.id is set->         GSLock c.id                       (no round trip)
       GSKeep  -keepalive: SET newid "" PX->     GSInstall newid
       GSInstall -c.mu: c.id == "" ?->           GSLock newid (c.id := newid, refresh goroutine started)
                                                 | GSLock c.id (another Get of this client won the race: ITS id is used,
                                                   the marker [newid] is abandoned and never refreshed)
       GSLock  -SET key id NX GET PX->           nil: GSLoad | existing value: as after GSRead
       GSLoad  -fn returns->                     GSStore id v | GSUnlock (error)
       GSStore -setkey script->                  done (v)      | GSUnlock (error)
       GSUnlock -delkey script->                 done (error)
       GSProbe -cached GET ph->                  nil: GSRelease | alive: GSWait
    (the channel of the key is registered when the Get enters GSRead, the channel of the placeholder when it
    enters GSProbe: both BEFORE the read whose result they guard)
       GSRelease -delkey(key, ph)->              GSRead
       GSWait  -a registered channel is closed-> GSRead        | context done: done (error)
    Ghost state (not in the code): [a_loaded] = every (key, value) a loader produced, [a_ext] = every value
    written by another application, [a_lock] = for a key, the Get whose loader runs and whose lock nothing has
    removed since.

    No proofs in this file. *)
From Coq Require Import List Arith NArith ZArith Bool.
Require Import RV.Model.Base RV.Model.ListUpd.
Import ListNotations.

(** "rueidisid:" *)
Definition ph_prefix : bytes := [114; 117; 101; 105; 100; 105; 115; 105; 100; 58]%N.

Fixpoint is_prefix (p s : bytes) : bool :=
  match p, s with
  | [], _ => true
  | x :: p', y :: s' => N.eqb x y && is_prefix p' s'
  | _ :: _, [] => false
  end.

(** strings.HasPrefix(val, PlaceholderPrefix) *)
Definition is_ph (v : bytes) : bool := is_prefix ph_prefix v.

(** ---- the server ---- *)

Definition store := list (bytes * (bytes * Z)).   (* key -> value, expiry (0 = none) *)

Fixpoint sget (st : store) (k : bytes) : option bytes :=
  match st with
  | [] => None
  | (k', (v, _)) :: r => if bytes_eqb k' k then Some v else sget r k
  end.

Fixpoint sdel (st : store) (k : bytes) : store :=
  match st with
  | [] => []
  | (k', x) :: r => if bytes_eqb k' k then sdel r k else (k', x) :: sdel r k
  end.

Definition sset (st : store) (k v : bytes) (exp : Z) : store := (k, (v, exp)) :: sdel st k.

Definition expire (now : Z) (st : store) : store :=
  filter (fun e => let '(_, (_, exp)) := e in (exp =? 0)%Z || (now <? exp)%Z) st.

(** keys whose entry differs between two stores (for invalidations after a clock advance) *)
Definition gone_keys (before after : store) : list bytes :=
  map fst (filter (fun e => match sget after (fst e) with Some _ => false | None => true end) before).

(** setkey: if GET key == id then SET key v PX ttl (reply OK) else 0 *)
Definition srv_setkey (now : Z) (st : store) (k id v : bytes) (ttl : Z) : store * bool :=
  match sget st k with
  | Some x => if bytes_eqb x id then (sset st k v (now + ttl), true) else (st, false)
  | None => (st, false)
  end.

(** delkey: if GET key == id then DEL key *)
Definition srv_delkey (st : store) (k id : bytes) : store * bool :=
  match sget st k with
  | Some x => if bytes_eqb x id then (sdel st k, true) else (st, false)
  | None => (st, false)
  end.

(** SET key id NX GET PX ttl  /  acquireLock: [None] = the lock was set, [Some x] = the key already holds x *)
Definition srv_lock (now : Z) (st : store) (k id : bytes) (ttl : Z) : store * option bytes :=
  match sget st k with
  | Some x => (st, Some x)
  | None => (sset st k id (now + ttl), None)
  end.

(** ---- clients and Gets ---- *)

Record client := {
  cl_id : option bytes;                       (* c.id *)
  cl_closed : bool;
  cl_cache : list (bytes * option bytes);     (* client-side cache: key -> cached GET reply (None = cached nil) *)
  cl_prev : list (bytes * option bytes) }.    (* the entries delivered invalidations removed since the client's last
                                                 real read of the key (a read that was under way when one arrived
                                                 may still have seen them) *)

Inductive gerr := ENil | ELoader | ENet | ECtx.

Inductive gres :=
| ROk (v : bytes)                 (* (v, nil) *)
| RErr (v : bytes) (e : gerr).    (* (v, err) *)

Inductive gstate :=
| GSRead | GSKeep | GSLock (id : bytes) | GSLoad (id : bytes) | GSStore (id v : bytes)
| GSUnlock (id v : bytes) (e : gerr) | GSProbe (ph : bytes) | GSRelease (ph : bytes) | GSWait (ph : bytes)
| GSDone (r : gres)
| GSInstall (newid : bytes).   (* keepalive between its SET and the second critical section *)

Record get := {
  g_cl : nat; g_key : bytes; g_ttl : Z; g_fn : bool;
  g_st : gstate;
  g_wait_closed : bool;      (* the channel registered for the key has been closed *)
  g_ph_closed : bool }.      (* the channel registered for the placeholder has been closed *)

Record astate := {
  a_now : Z;
  a_store : store;
  a_track : list (nat * bytes);       (* (client, key): the server will tell the client when the key changes *)
  a_infl : list (nat * bytes);        (* invalidations on their way *)
  a_cls : list client;
  a_gets : list get;
  a_loaded : list (bytes * bytes);    (* ghost *)
  a_ext : list (bytes * bytes);       (* ghost *)
  a_lock : list (bytes * nat) }.      (* ghost: key -> the Get that is loading under an undisturbed lock *)

Definition ainit (now : Z) : astate :=
  {| a_now := now; a_store := []; a_track := []; a_infl := []; a_cls := []; a_gets := [];
     a_loaded := []; a_ext := []; a_lock := [] |}.

Definition pair_eqb (a b : nat * bytes) : bool := Nat.eqb (fst a) (fst b) && bytes_eqb (snd a) (snd b).

Fixpoint mem_pair (x : nat * bytes) (l : list (nat * bytes)) : bool :=
  match l with [] => false | y :: r => pair_eqb x y || mem_pair x r end.

Fixpoint mem_key (x : bytes) (l : list bytes) : bool :=
  match l with [] => false | y :: r => bytes_eqb x y || mem_key x r end.

Fixpoint clookup {B : Type} (l : list (bytes * B)) (k : bytes) : option B :=
  match l with
  | [] => None
  | (k', v) :: r => if bytes_eqb k' k then Some v else clookup r k
  end.

Definition cremove {B : Type} (l : list (bytes * B)) (ks : list bytes) : list (bytes * B) :=
  filter (fun e => negb (mem_key (fst e) ks)) l.

Definition ckeep {B : Type} (l : list (bytes * B)) (ks : list bytes) : list (bytes * B) :=
  filter (fun e => mem_key (fst e) ks) l.

(** a write to key k: every tracker gets an invalidation, the tracking entries are dropped *)
Definition touch (tr infl : list (nat * bytes)) (k : bytes) : list (nat * bytes) * list (nat * bytes) :=
  (filter (fun e => negb (bytes_eqb (snd e) k)) tr,
   infl ++ filter (fun e => bytes_eqb (snd e) k) tr).

Fixpoint touch_all (tr infl : list (nat * bytes)) (ks : list bytes) : list (nat * bytes) * list (nat * bytes) :=
  match ks with
  | [] => (tr, infl)
  | k :: r => let '(tr', infl') := touch tr infl k in touch_all tr' infl' r
  end.

(** one invalidation message is consumed per delivered key *)
Fixpoint rm1 (x : nat * bytes) (l : list (nat * bytes)) : list (nat * bytes) :=
  match l with
  | [] => []
  | y :: r => if pair_eqb x y then r else y :: rm1 x r
  end.

Fixpoint rm_keys (c : nat) (ks : list bytes) (l : list (nat * bytes)) : list (nat * bytes) :=
  match ks with
  | [] => l
  | k :: r => rm_keys c r (rm1 (c, k) l)
  end.

Definition track (tr : list (nat * bytes)) (c : nat) (k : bytes) : list (nat * bytes) :=
  if mem_pair (c, k) tr then tr else (c, k) :: tr.

Definition set_st (g : get) (s : gstate) : get :=
  {| g_cl := g_cl g; g_key := g_key g; g_ttl := g_ttl g; g_fn := g_fn g; g_st := s;
     g_wait_closed := g_wait_closed g; g_ph_closed := g_ph_closed g |}.

Definition set_flags (g : get) (w p : bool) : get :=
  {| g_cl := g_cl g; g_key := g_key g; g_ttl := g_ttl g; g_fn := g_fn g; g_st := g_st g;
     g_wait_closed := w; g_ph_closed := p |}.

Definition ph_of_state (s : gstate) : option bytes :=
  match s with GSProbe p | GSRelease p | GSWait p => Some p | _ => None end.

(** an invalidation for [ks] reaches client c: the channels registered for those keys are closed *)
Definition close_waits (c : nat) (ks : list bytes) (g : get) : get :=
  if Nat.eqb (g_cl g) c then
    set_flags g (g_wait_closed g || mem_key (g_key g) ks)
                (g_ph_closed g || match ph_of_state (g_st g) with Some p => mem_key p ks | None => false end)
  else g.

Definition close_all_waits (c : nat) (g : get) : get :=
  if Nat.eqb (g_cl g) c then set_flags g true true else g.

(** what Get does with a value it read for its key (from the cached GET or from SET NX GET) *)
Definition after_value (v : bytes) : gstate := if is_ph v then GSProbe v else GSDone (ROk v).

(** … entering GSProbe registers the placeholder's channel ([ph := c.register(val)]); entering GSRead
    registers the key's channel ([wait := c.register(key)] at the top of the retry loop) *)
Definition enter (g : get) (s : gstate) : get :=
  match s with
  | GSProbe _ => set_st (set_flags g (g_wait_closed g) false) s
  | GSRead => set_st (set_flags g false (g_ph_closed g)) s
  | _ => set_st g s
  end.

Inductive alabel :=
| ANewClient
| AStartGet (c : nat) (key : bytes) (ttl : Z) (fn : bool)
| ARead (g : nat) (hit fail : bool)          (* register(key); cached GET key *)
| AKeep (g : nat) (newid : bytes) (fail : bool) (* keepalive saw c.id == "" (then or earlier): SET newid "" PX ClientTTL *)
| ALock (g : nat) (fail : bool)              (* SET key id NX GET PX ttl / acquireLock *)
| ALoad (g : nat) (res : option bytes)       (* the loader returns *)
| AStore (g : nat) (executed replied : bool) (* setkey script *)
| AUnlock (g : nat) (executed : bool)        (* delkey script, then return the error *)
| AProbe (g : nat) (hit fail : bool)         (* register(ph); cached GET ph *)
| ARelease (g : nat) (executed : bool)       (* delkey(key, ph): the holder is gone *)
| AWake (g : nat)                            (* a channel the Get waits on is closed: retry *)
| ACtx (g : nat)                             (* the Get's context is done while it waits *)
| AInval (c : nat) (ks : list bytes)         (* invalidations delivered to client c *)
| ADel (key : bytes)                         (* DEL key: CacheAsideClient.Del, anybody else, or a client deleting its id *)
| ASet (key v : bytes) (ttl : Z)             (* another application writes the key *)
| ATick (dt : Z)
| AClose (c : nat)                           (* Close(): the client context is cancelled (the DEL of its id is an ADel) *)
| ALost (c : nat)                            (* onInvalidation(nil): id forgotten (its DEL is an ADel), every wait closed, cache flushed *)
| ARefresh (c : nat)                         (* refresh goroutine: SET id "" PX ClientTTL *)
| AKeepReuse (g : nat)                       (* keepalive found c.id set: no round trip *)
| AInstall (g : nat).                        (* keepalive after its SET: install the id unless a sibling Get did *)

(** observation of a step by its caller *)
Inductive aobs :=
| ONone
| OVal (v : option bytes)        (* a read: the value seen *)
| OBool (b : bool)               (* a script: did it act *)
| ODone (r : gres).              (* the Get returned *)

Section Step.
  Variable client_ttl : Z.

  Definition with_get (s : astate) (gi : nat) (g : get) : astate :=
    {| a_now := a_now s; a_store := a_store s; a_track := a_track s; a_infl := a_infl s; a_cls := a_cls s;
       a_gets := upd gi g (a_gets s); a_loaded := a_loaded s; a_ext := a_ext s; a_lock := a_lock s |}.

  (** a write of key k: new store, invalidations, and the ghost lock entry of k is dropped when [unlock] *)
  Definition write (s : astate) (st' : store) (k : bytes) (unlock : bool) : astate :=
    let '(tr, infl) := touch (a_track s) (a_infl s) k in
    {| a_now := a_now s; a_store := st'; a_track := tr; a_infl := infl; a_cls := a_cls s; a_gets := a_gets s;
       a_loaded := a_loaded s; a_ext := a_ext s;
       a_lock := if unlock then filter (fun e => negb (bytes_eqb (fst e) k)) (a_lock s) else a_lock s |}.

  (** a cached read of key k by client c: the reply and the new state *)
  (** the third component: the entry read was removed by an invalidation that arrived while the read was under
      way, i.e. after the caller had registered its channel — which that invalidation therefore closed *)
  Definition cached_read (s : astate) (c : nat) (cl : client) (k : bytes) (hit : bool) : option (option bytes * astate * bool) :=
    if hit then
      match clookup (cl_cache cl) k with
      | Some v => Some (v, s, false)
      | None => match clookup (cl_prev cl) k with Some v => Some (v, s, true) | None => None end
      end
    else
      let v := sget (a_store s) k in
      let cl' := {| cl_id := cl_id cl; cl_closed := cl_closed cl;
                    cl_cache := (k, v) :: cremove (cl_cache cl) [k]; cl_prev := cremove (cl_prev cl) [k] |} in
      Some (v, {| a_now := a_now s; a_store := a_store s; a_track := track (a_track s) c k; a_infl := a_infl s;
                  a_cls := upd c cl' (a_cls s); a_gets := a_gets s; a_loaded := a_loaded s; a_ext := a_ext s;
                  a_lock := a_lock s |}, false).

  Definition astep_r (s : astate) (l : alabel) : option (astate * aobs) :=
    match l with
    | ANewClient =>
      Some ({| a_now := a_now s; a_store := a_store s; a_track := a_track s; a_infl := a_infl s;
               a_cls := a_cls s ++ [{| cl_id := None; cl_closed := false; cl_cache := []; cl_prev := [] |}];
               a_gets := a_gets s; a_loaded := a_loaded s; a_ext := a_ext s; a_lock := a_lock s |}, ONone)
    | AStartGet c key ttl fn =>
      match nth_error (a_cls s) c with
      | Some _ =>
        Some ({| a_now := a_now s; a_store := a_store s; a_track := a_track s; a_infl := a_infl s; a_cls := a_cls s;
                 a_gets := a_gets s ++ [{| g_cl := c; g_key := key; g_ttl := ttl; g_fn := fn; g_st := GSRead;
                                           g_wait_closed := false; g_ph_closed := false |}];
                 a_loaded := a_loaded s; a_ext := a_ext s; a_lock := a_lock s |}, ONone)
      | None => None
      end
    | ARead gi hit fail =>
      match nth_error (a_gets s) gi with
      | Some g =>
        match g_st g, nth_error (a_cls s) (g_cl g) with
        | GSRead, Some cl =>
          let g0 := g in
          if fail then Some (with_get s gi (set_st g0 (GSDone (RErr [] ENet))), ODone (RErr [] ENet))
          else match cached_read s (g_cl g) cl (g_key g) hit with
               | None => None
               | Some (v, s1, stale) =>
                 let st' := match v with
                            | Some x => after_value x
                            | None => if g_fn g then GSKeep else GSDone (RErr [] ENil)
                            end in
                 Some (with_get s1 gi (enter (set_flags g0 (g_wait_closed g0 || stale) (g_ph_closed g0)) st'), OVal v)
               end
        | _, _ => None
        end
      | None => None
      end
    | AKeep gi newid fail =>
      (* several Gets of one client may all be here: each has seen c.id == "" and does its own SET; the step is
         enabled whatever c.id is by now (the check and the SET are not atomic) *)
      match nth_error (a_gets s) gi with
      | Some g =>
        match g_st g with
        | GSKeep =>
          if fail then Some (with_get s gi (set_st g (GSDone (RErr [] ENet))), ODone (RErr [] ENet))
          else
            let s1 := write s (sset (a_store s) newid [] (a_now s + client_ttl)) newid false in
            Some (with_get s1 gi (set_st g (GSInstall newid)), ONone)
        | _ => None
        end
      | None => None
      end
    | AKeepReuse gi =>
      match nth_error (a_gets s) gi with
      | Some g =>
        match g_st g, nth_error (a_cls s) (g_cl g) with
        | GSKeep, Some cl =>
          match cl_id cl with
          | Some id => Some (with_get s gi (set_st g (GSLock id)), ONone)
          | None => None
          end
        | _, _ => None
        end
      | None => None
      end
    | AInstall gi =>
      match nth_error (a_gets s) gi with
      | Some g =>
        match g_st g, nth_error (a_cls s) (g_cl g) with
        | GSInstall newid, Some cl =>
          match cl_id cl with
          | Some id => Some (with_get s gi (set_st g (GSLock id)), ONone)   (* [id = c.id]: the installed id, not the own one *)
          | None =>
            let cl' := {| cl_id := Some newid; cl_closed := cl_closed cl; cl_cache := cl_cache cl; cl_prev := cl_prev cl |} in
            Some (with_get {| a_now := a_now s; a_store := a_store s; a_track := a_track s; a_infl := a_infl s;
                              a_cls := upd (g_cl g) cl' (a_cls s); a_gets := a_gets s; a_loaded := a_loaded s;
                              a_ext := a_ext s; a_lock := a_lock s |} gi (set_st g (GSLock newid)), ONone)
          end
        | _, _ => None
        end
      | None => None
      end
    | ALock gi fail =>
      match nth_error (a_gets s) gi with
      | Some g =>
        match g_st g with
        | GSLock id =>
          if fail then Some (with_get s gi (set_st g (GSDone (RErr [] ENet))), ODone (RErr [] ENet))
          else
            let '(st', r) := srv_lock (a_now s) (a_store s) (g_key g) id (g_ttl g) in
            match r with
            | None =>
              let s1 := write s st' (g_key g) false in
              Some (with_get {| a_now := a_now s1; a_store := a_store s1; a_track := a_track s1; a_infl := a_infl s1;
                                a_cls := a_cls s1; a_gets := a_gets s1; a_loaded := a_loaded s1; a_ext := a_ext s1;
                                a_lock := (g_key g, gi) :: a_lock s1 |} gi (set_st g (GSLoad id)), OVal None)
            | Some x => Some (with_get s gi (enter g (after_value x)), OVal (Some x))
            end
        | _ => None
        end
      | None => None
      end
    | ALoad gi res =>
      match nth_error (a_gets s) gi with
      | Some g =>
        match g_st g with
        | GSLoad id =>
          match res with
          | Some v =>
            Some ({| a_now := a_now s; a_store := a_store s; a_track := a_track s; a_infl := a_infl s; a_cls := a_cls s;
                     a_gets := upd gi (set_st g (GSStore id v)) (a_gets s);
                     a_loaded := (g_key g, v) :: a_loaded s; a_ext := a_ext s; a_lock := a_lock s |}, ONone)
          | None => Some (with_get s gi (set_st g (GSUnlock id [] ELoader)), ONone)
          end
        | _ => None
        end
      | None => None
      end
    | AStore gi executed replied =>
      match nth_error (a_gets s) gi with
      | Some g =>
        match g_st g with
        | GSStore id v =>
          let '(st', ok) := if executed then srv_setkey (a_now s) (a_store s) (g_key g) id v (g_ttl g) else (a_store s, false) in
          let s1 := if ok then write s st' (g_key g) true else s in
          let s2 := {| a_now := a_now s1; a_store := a_store s1; a_track := a_track s1; a_infl := a_infl s1; a_cls := a_cls s1;
                       a_gets := a_gets s1; a_loaded := a_loaded s1; a_ext := a_ext s1;
                       a_lock := filter (fun e => negb (Nat.eqb (snd e) gi)) (a_lock s1) |} in
          if executed && replied
          then Some (with_get s2 gi (enter g (after_value v)), OBool ok)   (* err == nil even when the script answers 0 *)
          else Some (with_get s1 gi (set_st g (GSUnlock id v ENet)), OBool ok)
        | _ => None
        end
      | None => None
      end
    | AUnlock gi executed =>
      match nth_error (a_gets s) gi with
      | Some g =>
        match g_st g with
        | GSUnlock id v e =>
          let '(st', ok) := if executed then srv_delkey (a_store s) (g_key g) id else (a_store s, false) in
          let s1 := if ok then write s st' (g_key g) true else s in
          let s2 := {| a_now := a_now s1; a_store := a_store s1; a_track := a_track s1; a_infl := a_infl s1; a_cls := a_cls s1;
                       a_gets := a_gets s1; a_loaded := a_loaded s1; a_ext := a_ext s1;
                       a_lock := filter (fun e => negb (Nat.eqb (snd e) gi)) (a_lock s1) |} in
          Some (with_get s2 gi (set_st g (GSDone (RErr v e))), ODone (RErr v e))
        | _ => None
        end
      | None => None
      end
    | AProbe gi hit fail =>
      match nth_error (a_gets s) gi with
      | Some g =>
        match g_st g, nth_error (a_cls s) (g_cl g) with
        | GSProbe ph, Some cl =>
          let g0 := g in
          if fail then Some (with_get s gi (set_st g0 (GSDone (RErr [] ENet))), ODone (RErr [] ENet))
          else match cached_read s (g_cl g) cl ph hit with
               | None => None
               | Some (v, s1, stale) =>
                 Some (with_get s1 gi (set_st (set_flags g0 (g_wait_closed g0) (g_ph_closed g0 || stale))
                                               (match v with None => GSRelease ph | Some _ => GSWait ph end)), OVal v)
               end
        | _, _ => None
        end
      | None => None
      end
    | ARelease gi executed =>
      match nth_error (a_gets s) gi with
      | Some g =>
        match g_st g with
        | GSRelease ph =>
          let '(st', ok) := if executed then srv_delkey (a_store s) (g_key g) ph else (a_store s, false) in
          let s1 := if ok then write s st' (g_key g) true else s in
          Some (with_get s1 gi (enter g GSRead), OBool ok)
        | _ => None
        end
      | None => None
      end
    | AWake gi =>
      match nth_error (a_gets s) gi with
      | Some g =>
        match g_st g with
        | GSWait _ => if g_wait_closed g || g_ph_closed g then Some (with_get s gi (enter g GSRead), ONone) else None
        | _ => None
        end
      | None => None
      end
    | ACtx gi =>
      match nth_error (a_gets s) gi with
      | Some g =>
        match g_st g with
        | GSWait _ => Some (with_get s gi (set_st g (GSDone (RErr [] ECtx))), ODone (RErr [] ECtx))
        | _ => None
        end
      | None => None
      end
    | AInval c ks =>
      match nth_error (a_cls s) c with
      | Some cl =>
        if forallb (fun k => mem_pair (c, k) (a_infl s)) ks then
          let cl' := {| cl_id := cl_id cl; cl_closed := cl_closed cl; cl_cache := cremove (cl_cache cl) ks;
                        cl_prev := ckeep (cl_cache cl) ks ++ cl_prev cl |} in
          Some ({| a_now := a_now s; a_store := a_store s; a_track := a_track s;
                   a_infl := rm_keys c ks (a_infl s);
                   a_cls := upd c cl' (a_cls s); a_gets := map (close_waits c ks) (a_gets s);
                   a_loaded := a_loaded s; a_ext := a_ext s; a_lock := a_lock s |}, ONone)
        else None
      | None => None
      end
    | ADel key =>
      match sget (a_store s) key with
      | Some _ => Some (write s (sdel (a_store s) key) key true, OBool true)
      | None => Some (s, OBool false)
      end
    | ASet key v ttl =>
      let s1 := write s (sset (a_store s) key v (if (ttl =? 0)%Z then 0%Z else (a_now s + ttl)%Z)) key true in
      Some ({| a_now := a_now s1; a_store := a_store s1; a_track := a_track s1; a_infl := a_infl s1; a_cls := a_cls s1;
               a_gets := a_gets s1; a_loaded := a_loaded s1; a_ext := (key, v) :: a_ext s1; a_lock := a_lock s1 |}, ONone)
    | ATick dt =>
      if (dt <? 0)%Z then None else
      let now := (a_now s + dt)%Z in
      let st' := expire now (a_store s) in
      let gone := gone_keys (a_store s) st' in
      let '(tr, infl) := touch_all (a_track s) (a_infl s) gone in
      Some ({| a_now := now; a_store := st'; a_track := tr; a_infl := infl; a_cls := a_cls s; a_gets := a_gets s;
               a_loaded := a_loaded s; a_ext := a_ext s;
               a_lock := filter (fun e => negb (mem_key (fst e) gone)) (a_lock s) |}, ONone)
    | AClose c =>      (* Close(): the client context is cancelled; its DEL of the id is a separate [ADel] *)
      match nth_error (a_cls s) c with
      | Some cl =>
        let cl' := {| cl_id := cl_id cl; cl_closed := true; cl_cache := cl_cache cl; cl_prev := cl_prev cl |} in
        Some ({| a_now := a_now s; a_store := a_store s; a_track := a_track s; a_infl := a_infl s;
                 a_cls := upd c cl' (a_cls s); a_gets := a_gets s; a_loaded := a_loaded s; a_ext := a_ext s;
                 a_lock := a_lock s |}, ONone)
      | None => None
      end
    | ALost c =>       (* onInvalidation(nil): the id is forgotten (its DEL is a separate [ADel]), every wait closed *)
      match nth_error (a_cls s) c with
      | Some cl =>
        let cl' := {| cl_id := None; cl_closed := cl_closed cl; cl_cache := []; cl_prev := [] |} in
        (* tracking is per connection and a client has several: one of them is gone, invalidations queued on
           the others may still arrive, so the server-side bookkeeping is left as it is *)
        Some ({| a_now := a_now s; a_store := a_store s; a_track := a_track s; a_infl := a_infl s;
                 a_cls := upd c cl' (a_cls s); a_gets := map (close_all_waits c) (a_gets s);
                 a_loaded := a_loaded s; a_ext := a_ext s; a_lock := a_lock s |}, ONone)
      | None => None
      end
    | ARefresh c =>
      match nth_error (a_cls s) c with
      | Some cl =>
        match cl_id cl with
        | Some id => Some (write s (sset (a_store s) id [] (a_now s + client_ttl)) id false, ONone)
        | None => None
        end
      | None => None
      end
    end.

  Definition astep (s : astate) (l : alabel) : option astate :=
    match astep_r s l with Some (s', _) => Some s' | None => None end.

  Fixpoint arun (s : astate) (ls : list alabel) : option astate :=
    match ls with
    | [] => Some s
    | l :: r => match astep s l with Some s' => arun s' r | None => None end
    end.
End Step.

(** ---- hypotheses on the environment, as a predicate on labels ----
    loaders and other applications never produce a value with the placeholder prefix; cached keys are not
    placeholder-shaped; client ids are ([keepalive] builds them as PlaceholderPrefix + random) *)
Definition label_ok (l : alabel) : Prop :=
  match l with
  | AStartGet _ key _ _ => is_ph key = false
  | AKeep _ newid _ => is_ph newid = true
  | ALoad _ (Some v) => is_ph v = false
  | ASet key v _ => is_ph key = false /\ is_ph v = false
  | _ => True
  end.

(** ---- correspondence cases (printed by harness/cmd/obs_aside) ---- *)

Definition gerr_eqb (a b : gerr) : bool :=
  match a, b with ENil, ENil | ELoader, ELoader | ENet, ENet | ECtx, ECtx => true | _, _ => false end.

Definition gres_eqb (a b : gres) : bool :=
  match a, b with
  | ROk x, ROk y => bytes_eqb x y
  | RErr x e, RErr y f => bytes_eqb x y && gerr_eqb e f
  | _, _ => false
  end.

Definition aobs_eqb (a b : aobs) : bool :=
  match a, b with
  | ONone, ONone => true
  | OVal x, OVal y => option_eqb bytes_eqb x y
  | OBool x, OBool y => Bool.eqb x y
  | ODone x, ODone y => gres_eqb x y
  | _, _ => false
  end.

Record aostep := { ao_label : alabel; ao_obs : aobs }.

Fixpoint areplay (cttl : Z) (s : astate) (os : list aostep) (idx : N) : astate + N :=
  match os with
  | [] => inl s
  | o :: r =>
    match astep_r cttl s (ao_label o) with
    | None => inr idx
    | Some (s', b) => if aobs_eqb b (ao_obs o) then areplay cttl s' r (idx + 1)%N else inr idx
    end
  end.

Definition gdone (g : get) : option gres := match g_st g with GSDone r => Some r | _ => None end.

Inductive case :=
(* a recorded run: ClientTTL (ms), initial clock, the steps, what every Get returned (in the order the Gets
   were started; None = it had not returned when the run was cut), the value of every cached key at the end *)
| CARun (cttl now0 : Z) (steps : list aostep) (results : list (option gres)) (final : list (bytes * option bytes)).

Definition check_case (c : case) : bool :=
  match c with
  | CARun cttl now0 steps results final =>
    match areplay cttl (ainit now0) steps 0%N with
    | inl s =>
      list_eqb (option_eqb gres_eqb) (map gdone (a_gets s)) results &&
      forallb (fun kv => option_eqb bytes_eqb (sget (a_store s) (fst kv)) (snd kv)) final
    | inr _ => false
    end
  end.

Definition first_bad (c : case) : option N :=
  match c with
  | CARun cttl now0 steps _ _ => match areplay cttl (ainit now0) steps 0%N with inl _ => None | inr i => Some i end
  end.
