(** Helpers shared by the models of the RESP wire-format family.  Definitions only. *)
From Coq Require Import List NArith ZArith Bool.
Require Import RV.Model.Base.
Import ListNotations.
Open Scope N_scope.

(** long byte strings are printed by the observers as [hcat [h "…"; h "…"]] *)
Definition hcat (l : list bytes) : bytes := List.concat l.

Definition blen (b : bytes) : N := N.of_nat (length b).
Definition zlen {A} (l : list A) : Z := Z.of_nat (length l).

(** [count] copies of [pat]: compact form of the long inputs of the observers *)
Definition rep_bytes (pat : bytes) (count : N) : bytes := N.iter count (fun acc => pat ++ acc) [].

(** two's complement conversions between Go's int64 / uint64 and Z / N *)
Definition two63 : Z := 9223372036854775808%Z.
Definition two64 : Z := 18446744073709551616%Z.

(** int64(x) for an arbitrary mathematical integer x (wrap-around) *)
Definition wrap64 (x : Z) : Z :=
  let m := (x mod two64)%Z in if (m <? two63)%Z then m else (m - two64)%Z.

(** uint64(v) for an int64 value v *)
Definition to_u64 (v : Z) : N := Z.to_N (v mod two64)%Z.

Definition in_i64 (v : Z) : Prop := (- two63 <= v < two63)%Z.
Definition in_i64b (v : Z) : bool := ((- two63 <=? v) && (v <? two63))%Z.
