(** C42 reference: a hand-written specification of the argument lists go-redis v9 builds for an
    explicit list of methods (commands.go and the *_commands.go files of github.com/redis/go-redis/v9,
    transcribed from memory — go-redis is not installed; docs/compat.md lists, per method, how
    certain the transcription is and which argument ranges are left out because it is not).

    A command is a [list tok] (Model/CompatBase.v).  Outcomes: [Ok toks] = the command is sent,
    [Err 1] = go-redis returns a Cmd carrying an error without sending anything, [Panic].
    The type [call] is the shared API surface: one constructor per method family with the
    arguments of the Go call.  Floats are abstract ([F]) with their formatting [ff]
    (strconv 'f', -1, 64 on both sides) and the test [fpos] (x > 0).
    Values of type interface{} are [aval]; durations are nanoseconds ([Z]); a time.Time is given
    by UnixNano ([Z]) — or by [option Z] Unix seconds where IsZero matters. No proofs here. *)
From Coq Require Import List NArith ZArith String Bool.
Require Import RV.Model.Base RV.Model.CompatBase.
Import ListNotations.
Local Open Scope Z_scope.

(** interface{} arguments: string / []byte, any integer type, bool, nil *)
Inductive aval := AStr (s : bytes) | AInt (z : Z) | ABool (b : bool) | ANil.

Inductive emode := EmNone | EmNX | EmXX | EmGT | EmLT.
Inductive sortcmd := SortPlain | SortRO | SortStore (store : bytes).
Inductive kscan := KSScan | KHScan | KHScanNoValues | KZScan.
Inductive zaddflavour := ZaPlain | ZaNX | ZaXX | ZaLT | ZaGT.
Inductive zrangeby := ZbScore | ZbLex | ZbScoreWS | ZbRevScore | ZbRevLex | ZbRevScoreWS.
Inductive zstoreop := ZsInter | ZsInterWS | ZsUnion | ZsUnionWS.
Inductive zstoreto := ZtInter | ZtUnion.
Inductive bpop := BpL | BpR | BpZMax | BpZMin.
Inductive evalcmd := EvEval | EvEvalSha | EvEvalRO | EvEvalShaRO | EvFCall | EvFCallRO.
Inductive popcount := PcSPop | PcSRand | PcLPop | PcRPop.
Inductive xtrim := XtMaxLen (n : Z) | XtMaxLenApprox (n limit : Z) | XtMinID (id : bytes) | XtMinIDApprox (id : bytes) (limit : Z).

Record set_args := mkSetArgs {
  sa_mode : bytes; sa_ttl : Z; sa_expire_at : option Z (* Unix seconds; None = zero time *);
  sa_get : bool; sa_keepttl : bool }.
Record bit_count := mkBitCount { bc_unit : bytes; bc_start : Z; bc_end : Z }.
Record sort_args := mkSort { so_by : bytes; so_order : bytes; so_gets : list bytes; so_offset : Z; so_count : Z; so_alpha : bool }.
Record zadd_args := mkZAdd { za_nx : bool; za_xx : bool; za_lt : bool; za_gt : bool; za_ch : bool }.
Record zrange_args := mkZRange {
  zr_key : bytes; zr_start : aval; zr_stop : aval; zr_byscore : bool; zr_bylex : bool; zr_rev : bool;
  zr_offset : Z; zr_count : Z }.
Record zrange_by := mkZRangeBy { zb_min : bytes; zb_max : bytes; zb_offset : Z; zb_count : Z }.
Record zstore := mkZStore { zs_keys : list bytes; zs_weights : list Z; zs_aggregate : bytes }.
Record xadd_args := mkXAdd {
  xa_stream : bytes; xa_nomkstream : bool; xa_maxlen : Z; xa_minid : bytes; xa_approx : bool; xa_limit : Z;
  xa_id : bytes; xa_values : list aval }.
Record xpending_ext := mkXPendingExt {
  xp_stream : bytes; xp_group : bytes; xp_idle : Z; xp_start : bytes; xp_end : bytes; xp_count : Z; xp_consumer : bytes }.
Record xclaim_args := mkXClaim { xc_stream : bytes; xc_group : bytes; xc_consumer : bytes; xc_minidle : Z; xc_messages : list bytes }.
Record xautoclaim_args := mkXAutoClaim {
  xu_stream : bytes; xu_group : bytes; xu_consumer : bytes; xu_minidle : Z; xu_start : bytes; xu_count : Z }.

Section WithFloat.
Variable F : Type.
Variable ff : F -> bytes.      (* strconv.FormatFloat(x, 'f', -1, 64) *)
Variable fpos : F -> bool.     (* x > 0 *)

Record georadius_q := mkGeoRadius {
  gr_radius : F; gr_unit : bytes; gr_withcoord : bool; gr_withdist : bool; gr_withhash : bool;
  gr_count : Z; gr_sort : bytes; gr_store : bytes; gr_storedist : bytes }.
Record geosearch_q := mkGeoSearch {
  gs_member : bytes; gs_lon : F; gs_lat : F; gs_radius : F; gs_radius_unit : bytes;
  gs_boxw : F; gs_boxh : F; gs_box_unit : bytes; gs_sort : bytes; gs_count : Z; gs_any : bool }.

Inductive call :=
(* strings and keys *)
| MSet (key : bytes) (v : aval) (exp : Z)
| MSetArgs (key : bytes) (v : aval) (a : set_args)
| MSetEX (key : bytes) (v : aval) (exp : Z)
| MSetNX (key : bytes) (v : aval) (exp : Z)
| MSetXX (key : bytes) (v : aval) (exp : Z)
| MGetEx (key : bytes) (exp : Z)
| MExpire (m : emode) (key : bytes) (d : Z)            (* Expire, ExpireNX, ExpireXX, ExpireGT, ExpireLT *)
| MPExpire (key : bytes) (d : Z)
| MExpireAt (key : bytes) (unixnano : Z)
| MPExpireAt (key : bytes) (unixnano : Z)
| MCopy (src dst : bytes) (db : Z) (replace : bool)
| MRestore (replace : bool) (key : bytes) (ttl : Z) (v : bytes)   (* Restore, RestoreReplace *)
| MMigrate (host : bytes) (port : Z) (key : bytes) (db : Z) (timeout : Z)
| MBitCount (key : bytes) (bc : option bit_count)
| MBitPos (key : bytes) (bit : Z) (pos : list Z)
| MBitPosSpan (key : bytes) (bit start stop : Z) (span : bytes)
| MBitField (key : bytes) (args : list aval)
| MSort (c : sortcmd) (key : bytes) (s : sort_args)     (* Sort, SortRO, SortStore, SortInterfaces *)
| MScan (cursor : N) (mtch : bytes) (count : Z)
| MScanType (cursor : N) (mtch : bytes) (count : Z) (typ : bytes)
| MKScan (w : kscan) (key : bytes) (cursor : N) (mtch : bytes) (count : Z)  (* SScan, HScan, HScanNoValues, ZScan *)
| MMemoryUsage (key : bytes) (samples : list Z)
(* lists *)
| MLPos (key elem : bytes) (rank maxlen : Z)
| MLPosCount (key elem : bytes) (count rank maxlen : Z)
| MLInsert (key op : bytes) (pivot elem : aval)
| MLInsertBA (before : bool) (key : bytes) (pivot elem : aval)   (* LInsertBefore, LInsertAfter *)
| MLMPop (dir : bytes) (count : Z) (keys : list bytes)
| MBLMPop (timeout : Z) (dir : bytes) (count : Z) (keys : list bytes)
(* sorted sets *)
| MZAdd (fl : zaddflavour) (key : bytes) (members : list (F * bytes))   (* ZAdd, ZAddNX, ZAddXX, ZAddLT, ZAddGT *)
| MZAddArgs (incr : bool) (key : bytes) (a : zadd_args) (members : list (F * bytes))  (* ZAddArgs, ZAddArgsIncr *)
| MZRangeArgs (withscores : bool) (z : zrange_args)     (* ZRangeArgs, ZRangeArgsWithScores *)
| MZRangeStore (dst : bytes) (z : zrange_args)
| MZRangeBy (w : zrangeby) (key : bytes) (o : zrange_by)  (* Z(Rev)RangeByScore/ByLex/(WithScores) *)
| MZStoreOp (w : zstoreop) (s : zstore)                 (* ZInter, ZInterWithScores, ZUnion, ZUnionWithScores *)
| MZStoreTo (w : zstoreto) (dst : bytes) (s : zstore)   (* ZInterStore, ZUnionStore *)
| MZDiff (withscores : bool) (keys : list bytes)        (* ZDiff, ZDiffWithScores *)
| MZDiffStore (dst : bytes) (keys : list bytes)
(* streams *)
| MXAdd (a : xadd_args)
| MXRead (count block : Z) (streams : list bytes)
| MXReadStreams (streams : list bytes)
| MXReadGroup (group consumer : bytes) (count block : Z) (noack : bool) (streams : list bytes)
| MXPendingExt (a : xpending_ext)
| MXClaim (justid : bool) (a : xclaim_args)             (* XClaim, XClaimJustID *)
| MXAutoClaim (justid : bool) (a : xautoclaim_args)     (* XAutoClaim, XAutoClaimJustID *)
| MXTrim (key : bytes) (t : xtrim)                      (* XTrimMaxLen, XTrimMaxLenApprox, XTrimMinID, XTrimMinIDApprox *)
| MXInfoStreamFull (key : bytes) (count : Z)
(* geo *)
| MGeoAdd (key : bytes) (locs : list (F * F * bytes))
| MGeoRadius (store : bool) (key : bytes) (lon lat : F) (q : georadius_q)            (* GeoRadius, GeoRadiusStore *)
| MGeoRadiusByMember (store : bool) (key member : bytes) (q : georadius_q)          (* GeoRadiusByMember(Store) *)
| MGeoSearch (key : bytes) (q : geosearch_q)
| MGeoSearchLocation (key : bytes) (q : geosearch_q) (withcoord withdist withhash : bool)
| MGeoSearchStore (src dst : bytes) (q : geosearch_q) (storedist : bool)
(* server *)
| MFunctionLoad (replace : bool) (code : bytes)         (* FunctionLoad, FunctionLoadReplace *)
| MClientKillByFilter (keys : list bytes)
| MACLLog (count : Z)
(* second batch *)
| MZPop (max : bool) (key : bytes) (count : list Z)                       (* ZPopMax, ZPopMin *)
| MZRangePlain (rev withscores : bool) (key : bytes) (start stop : Z)     (* ZRange, ZRangeWithScores, ZRevRange, ZRevRangeWithScores *)
| MBPop (w : bpop) (timeout : Z) (keys : list bytes)                      (* BLPop, BRPop, BZPopMax, BZPopMin *)
| MBRPopLPush (src dst : bytes) (timeout : Z)
| MLMove (src dst srcpos dstpos : bytes)
| MBLMove (src dst srcpos dstpos : bytes) (timeout : Z)
| MXRangeCmd (rev : bool) (stream a b : bytes) (count : option Z)         (* XRange, XRangeN, XRevRange, XRevRangeN *)
| MXGroupCreate (mkstream : bool) (stream group start : bytes)            (* XGroupCreate, XGroupCreateMkStream *)
| MXAck (stream group : bytes) (ids : list bytes)
| MXDel (stream : bytes) (ids : list bytes)
| MEval (w : evalcmd) (script : bytes) (keys : list bytes) (args : list aval)  (* Eval, EvalSha, EvalRO, EvalShaRO, FCall, FCallRO *)
| MPopCount (w : popcount) (key : bytes) (count : Z)                      (* SPopN, SRandMemberN, LPopCount, RPopCount *)
| MZRandMember (withscores : bool) (key : bytes) (count : Z)              (* ZRandMember, ZRandMemberWithScores *)
| MInterCard (zset : bool) (limit : Z) (keys : list bytes)                (* ZInterCard, SInterCard *)
| MZMPop (order : bytes) (count : Z) (keys : list bytes)
| MBZMPop (timeout : Z) (order : bytes) (count : Z) (keys : list bytes)
| MClientPause (dur : Z)
| MSlowLogGet (num : Z)
| MGeoDist (key m1 m2 unit : bytes)
| MFunctionList (pattern : bytes) (withcode : bool).

(** ---------- go-redis helpers ---------- *)
Definition kw_ (s : string) : tok := K (bs s).
Definition zt (z : Z) : tok := D (print_Z z).
Definition nt (n : N) : tok := D (print_N n).
Definition lent {A} (l : list A) : tok := D (print_N (N.of_nat (List.length l))).

(** proto.Writer.WriteArg on an interface{}: string/[]byte as they are, integers in decimal,
    bool as 1/0, nil as the empty string *)
Definition g_arg (a : aval) : tok :=
  match a with
  | AStr s => D s
  | AInt z => D (print_Z z)
  | ABool b => D (if b then bs "1" else bs "0")
  | ANil => D []
  end.

Notation second := 1000000000 (only parsing).
Notation millisecond := 1000000 (only parsing).

(** go-redis usePrecise / formatMs / formatSec (commands.go) *)
Definition g_use_precise (d : Z) : bool := (d <? second) || negb (Z.rem d second =? 0).
Definition g_format_ms (d : Z) : Z := if (0 <? d) && (d <? millisecond) then 1 else Z.quot d millisecond.
Definition g_format_sec (d : Z) : Z := if (0 <? d) && (d <? second) then 1 else Z.quot d second.

Definition g_expiry (d : Z) : list tok :=
  if g_use_precise d then [kw_ "px"; zt (g_format_ms d)] else [kw_ "ex"; zt (g_format_sec d)].

Definition is_empty (s : bytes) : bool := match s with [] => true | _ => false end.

Definition g_emode (m : emode) : list tok :=
  match m with EmNone => [] | EmNX => [kw_ "NX"] | EmXX => [kw_ "XX"] | EmGT => [kw_ "GT"] | EmLT => [kw_ "LT"] end.

Definition g_sort_args (cmd : string) (key : bytes) (s : sort_args) : list tok :=
  [kw_ cmd; D key] ++
  (if is_empty (so_by s) then [] else [kw_ "by"; D (so_by s)]) ++
  (if negb (so_offset s =? 0) || negb (so_count s =? 0) then [kw_ "limit"; zt (so_offset s); zt (so_count s)] else []) ++
  flat_map (fun g => [kw_ "get"; D g]) (so_gets s) ++
  (if is_empty (so_order s) then [] else [K (so_order s)]) ++
  (if so_alpha s then [kw_ "alpha"] else []).

Definition g_scan_tail (mtch : bytes) (count : Z) : list tok :=
  (if is_empty mtch then [] else [kw_ "match"; D mtch]) ++
  (if 0 <? count then [kw_ "count"; zt count] else []).

Definition g_zadd (key : bytes) (a : zadd_args) (incr : bool) (members : list (F * bytes)) : list tok :=
  [kw_ "zadd"; D key] ++
  (if za_nx a then [kw_ "nx"]
   else (if za_xx a then [kw_ "xx"] else []) ++
        (if za_gt a then [kw_ "gt"] else if za_lt a then [kw_ "lt"] else [])) ++
  (if za_ch a then [kw_ "ch"] else []) ++
  (if incr then [kw_ "incr"] else []) ++
  flat_map (fun m => [D (ff (fst m)); D (snd m)]) members.

Definition zadd_flavour (fl : zaddflavour) : zadd_args :=
  match fl with
  | ZaPlain => mkZAdd false false false false false
  | ZaNX => mkZAdd true false false false false
  | ZaXX => mkZAdd false true false false false
  | ZaLT => mkZAdd false false true false false
  | ZaGT => mkZAdd false false false true false
  end.

(** ZRangeArgs.appendArgs: with Rev and ByScore/ByLex, Stop comes before Start *)
Definition g_zrange_args (z : zrange_args) : list tok :=
  (if zr_rev z && (zr_byscore z || zr_bylex z)
   then [D (zr_key z); g_arg (zr_stop z); g_arg (zr_start z)]
   else [D (zr_key z); g_arg (zr_start z); g_arg (zr_stop z)]) ++
  (if zr_byscore z then [kw_ "byscore"] else if zr_bylex z then [kw_ "bylex"] else []) ++
  (if zr_rev z then [kw_ "rev"] else []) ++
  (if negb (zr_offset z =? 0) || negb (zr_count z =? 0) then [kw_ "limit"; zt (zr_offset z); zt (zr_count z)] else []).

Definition g_limit (o : zrange_by) : list tok :=
  if negb (zb_offset o =? 0) || negb (zb_count o =? 0) then [kw_ "limit"; zt (zb_offset o); zt (zb_count o)] else [].

Definition g_zstore (s : zstore) : list tok :=
  map D (zs_keys s) ++
  (match zs_weights s with [] => [] | ws => kw_ "weights" :: map zt ws end) ++
  (if is_empty (zs_aggregate s) then [] else [kw_ "aggregate"; K (zs_aggregate s)]).

Definition g_georadius (q : georadius_q) : list tok :=
  [D (ff (gr_radius q))] ++
  [K (if is_empty (gr_unit q) then bs "km" else gr_unit q)] ++
  (if gr_withcoord q then [kw_ "withcoord"] else []) ++
  (if gr_withdist q then [kw_ "withdist"] else []) ++
  (if gr_withhash q then [kw_ "withhash"] else []) ++
  (if 0 <? gr_count q then [kw_ "count"; zt (gr_count q)] else []) ++
  (if is_empty (gr_sort q) then [] else [K (gr_sort q)]) ++
  (if is_empty (gr_store q) then [] else [kw_ "store"; D (gr_store q)]) ++
  (if is_empty (gr_storedist q) then [] else [kw_ "storedist"; D (gr_storedist q)]).

Definition g_geosearch (q : geosearch_q) : list tok :=
  (if is_empty (gs_member q) then [kw_ "fromlonlat"; D (ff (gs_lon q)); D (ff (gs_lat q))]
   else [kw_ "frommember"; D (gs_member q)]) ++
  (if fpos (gs_radius q)
   then [kw_ "byradius"; D (ff (gs_radius q)); K (if is_empty (gs_radius_unit q) then bs "km" else gs_radius_unit q)]
   else [kw_ "bybox"; D (ff (gs_boxw q)); D (ff (gs_boxh q)); K (if is_empty (gs_box_unit q) then bs "km" else gs_box_unit q)]) ++
  (if is_empty (gs_sort q) then [] else [K (gs_sort q)]) ++
  (if 0 <? gs_count q then [kw_ "count"; zt (gs_count q)] ++ (if gs_any q then [kw_ "any"] else []) else []).

Definition g_with (wc wd wh : bool) : list tok :=
  (if wc then [kw_ "withcoord"] else []) ++ (if wd then [kw_ "withdist"] else []) ++ (if wh then [kw_ "withhash"] else []).

(** appendArgs with a single nil argument: reflect.ValueOf(nil).Type() panics (go-redis appendArg and the
    adapter's argToSlice alike) *)
Definition single_nil (args : list aval) : bool := match args with [ANil] => true | _ => false end.

Definition is_unit_ok (u : bytes) : bool := bytes_eqb u (bs "BYTE") || bytes_eqb u (bs "BIT").

(** ---------- the specification ---------- *)
Definition goredis (c : call) : result (list tok) :=
  match c with
  | MSet key v exp =>
    Ok ([kw_ "set"; D key; g_arg v] ++
        (if 0 <? exp then g_expiry exp else if exp =? -1 then [kw_ "keepttl"] else []))
  | MSetArgs key v a =>
    Ok ([kw_ "set"; D key; g_arg v] ++
        (if sa_keepttl a then [kw_ "keepttl"] else []) ++
        (match sa_expire_at a with Some t => [kw_ "exat"; zt t] | None => [] end) ++
        (if 0 <? sa_ttl a then g_expiry (sa_ttl a) else []) ++
        (if is_empty (sa_mode a) then [] else [K (sa_mode a)]) ++
        (if sa_get a then [kw_ "get"] else []))
  | MSetEX key v exp => Ok [kw_ "setex"; D key; zt (g_format_sec exp); g_arg v]
  | MSetNX key v exp =>
    if exp =? 0 then Ok [kw_ "setnx"; D key; g_arg v]
    else if exp =? -1 then Ok [kw_ "set"; D key; g_arg v; kw_ "keepttl"; kw_ "nx"]
    else Ok ([kw_ "set"; D key; g_arg v] ++ g_expiry exp ++ [kw_ "nx"])
  | MSetXX key v exp =>
    if 0 <? exp then Ok ([kw_ "set"; D key; g_arg v] ++ g_expiry exp ++ [kw_ "xx"])
    else if exp =? -1 then Ok [kw_ "set"; D key; g_arg v; kw_ "keepttl"; kw_ "xx"]
    else Ok [kw_ "set"; D key; g_arg v; kw_ "xx"]
  | MGetEx key exp =>
    Ok ([kw_ "getex"; D key] ++
        (if 0 <? exp then g_expiry exp else if exp =? 0 then [kw_ "persist"] else []))
  | MExpire m key d => Ok ([kw_ "expire"; D key; zt (g_format_sec d)] ++ g_emode m)
  | MPExpire key d => Ok [kw_ "pexpire"; D key; zt (g_format_ms d)]
  | MExpireAt key t => Ok [kw_ "expireat"; D key; zt (Z.div t second)]
  | MPExpireAt key t => Ok [kw_ "pexpireat"; D key; zt (Z.quot t millisecond)]
  | MCopy src dst db replace =>
    Ok ([kw_ "copy"; D src; D dst; kw_ "DB"; zt db] ++ (if replace then [kw_ "REPLACE"] else []))
  | MRestore replace key ttl v =>
    Ok ([kw_ "restore"; D key; zt (g_format_ms ttl); D v] ++ (if replace then [kw_ "replace"] else []))
  | MMigrate host port key db timeout =>
    Ok [kw_ "migrate"; D host; zt port; D key; zt db; zt (g_format_ms timeout)]
  | MBitCount key None => Ok [kw_ "bitcount"; D key]
  | MBitCount key (Some b) =>
    if is_empty (bc_unit b) then Ok [kw_ "bitcount"; D key; zt (bc_start b); zt (bc_end b)]
    else if is_unit_ok (bc_unit b) then Ok [kw_ "bitcount"; D key; zt (bc_start b); zt (bc_end b); K (bc_unit b)]
    else Err 1   (* "redis: invalid bitcount index" *)
  | MBitPos key bit pos =>
    match pos with
    | [] => Ok [kw_ "bitpos"; D key; zt bit]
    | [a] => Ok [kw_ "bitpos"; D key; zt bit; zt a]
    | [a; b] => Ok [kw_ "bitpos"; D key; zt bit; zt a; zt b]
    | _ => Panic
    end
  | MBitPosSpan key bit start stop span => Ok [kw_ "bitpos"; D key; zt bit; zt start; zt stop; K span]
  | MBitField key args => Ok ([kw_ "bitfield"; D key] ++ map g_arg args)
  | MSort SortPlain key s => Ok (g_sort_args "sort" key s)
  | MSort SortRO key s => Ok (g_sort_args "sort_ro" key s)
  | MSort (SortStore store) key s =>
    Ok (g_sort_args "sort" key s ++ (if is_empty store then [] else [kw_ "store"; D store]))
  | MScan cursor mtch count => Ok ([kw_ "scan"; nt cursor] ++ g_scan_tail mtch count)
  | MScanType cursor mtch count typ =>
    Ok ([kw_ "scan"; nt cursor] ++ g_scan_tail mtch count ++ (if is_empty typ then [] else [kw_ "type"; D typ]))
  | MKScan w key cursor mtch count =>
    Ok ([kw_ (match w with KSScan => "sscan" | KHScan | KHScanNoValues => "hscan" | KZScan => "zscan" end); D key; nt cursor] ++
        g_scan_tail mtch count ++ (match w with KHScanNoValues => [kw_ "novalues"] | _ => [] end))
  | MMemoryUsage key samples =>
    match samples with
    | [] => Ok [kw_ "memory"; kw_ "usage"; D key]
    | [n] => Ok [kw_ "memory"; kw_ "usage"; D key; kw_ "samples"; zt n]
    | _ => Panic
    end
  | MLPos key elem rank maxlen =>
    Ok ([kw_ "lpos"; D key; D elem] ++ (if rank =? 0 then [] else [kw_ "rank"; zt rank]) ++
        (if maxlen =? 0 then [] else [kw_ "maxlen"; zt maxlen]))
  | MLPosCount key elem count rank maxlen =>
    Ok ([kw_ "lpos"; D key; D elem; kw_ "count"; zt count] ++ (if rank =? 0 then [] else [kw_ "rank"; zt rank]) ++
        (if maxlen =? 0 then [] else [kw_ "maxlen"; zt maxlen]))
  | MLInsert key op pivot elem => Ok [kw_ "linsert"; D key; K op; g_arg pivot; g_arg elem]
  | MLInsertBA before key pivot elem =>
    Ok [kw_ "linsert"; D key; kw_ (if before then "before" else "after"); g_arg pivot; g_arg elem]
  | MLMPop dir count keys =>
    Ok ([kw_ "lmpop"; lent keys] ++ map D keys ++ [K (lower dir); kw_ "count"; zt count])
  | MBLMPop timeout dir count keys =>
    Ok ([kw_ "blmpop"; zt (g_format_sec timeout); lent keys] ++ map D keys ++ [K (lower dir); kw_ "count"; zt count])
  | MZAdd fl key members => Ok (g_zadd key (zadd_flavour fl) false members)
  | MZAddArgs incr key a members => Ok (g_zadd key a incr members)
  | MZRangeArgs ws z => Ok ([kw_ "zrange"] ++ g_zrange_args z ++ (if ws then [kw_ "withscores"] else []))
  | MZRangeStore dst z => Ok ([kw_ "zrangestore"; D dst] ++ g_zrange_args z)
  | MZRangeBy w key o =>
    Ok (match w with
        | ZbScore => [kw_ "zrangebyscore"; D key; D (zb_min o); D (zb_max o)]
        | ZbLex => [kw_ "zrangebylex"; D key; D (zb_min o); D (zb_max o)]
        | ZbScoreWS => [kw_ "zrangebyscore"; D key; D (zb_min o); D (zb_max o); kw_ "withscores"]
        | ZbRevScore => [kw_ "zrevrangebyscore"; D key; D (zb_max o); D (zb_min o)]
        | ZbRevLex => [kw_ "zrevrangebylex"; D key; D (zb_max o); D (zb_min o)]
        | ZbRevScoreWS => [kw_ "zrevrangebyscore"; D key; D (zb_max o); D (zb_min o); kw_ "withscores"]
        end ++ g_limit o)
  | MZStoreOp w s =>
    Ok ([kw_ (match w with ZsInter | ZsInterWS => "zinter" | _ => "zunion" end); lent (zs_keys s)] ++ g_zstore s ++
        (match w with ZsInterWS | ZsUnionWS => [kw_ "withscores"] | _ => [] end))
  | MZStoreTo w dst s =>
    Ok ([kw_ (match w with ZtInter => "zinterstore" | ZtUnion => "zunionstore" end); D dst; lent (zs_keys s)] ++ g_zstore s)
  | MZDiff ws keys => Ok ([kw_ "zdiff"; lent keys] ++ map D keys ++ (if ws then [kw_ "withscores"] else []))
  | MZDiffStore dst keys => Ok ([kw_ "zdiffstore"; D dst; lent keys] ++ map D keys)
  | MXAdd a =>
    Ok ([kw_ "xadd"; D (xa_stream a)] ++
        (if xa_nomkstream a then [kw_ "nomkstream"] else []) ++
        (if 0 <? xa_maxlen a then
           (if xa_approx a then [kw_ "maxlen"; kw_ "~"; zt (xa_maxlen a)] else [kw_ "maxlen"; zt (xa_maxlen a)])
         else if negb (is_empty (xa_minid a)) then
           (if xa_approx a then [kw_ "minid"; kw_ "~"; D (xa_minid a)] else [kw_ "minid"; D (xa_minid a)])
         else []) ++
        (if 0 <? xa_limit a then [kw_ "limit"; zt (xa_limit a)] else []) ++
        [D (if is_empty (xa_id a) then bs "*" else xa_id a)] ++
        map g_arg (xa_values a))
  | MXRead count block streams =>
    Ok ([kw_ "xread"] ++ (if 0 <? count then [kw_ "count"; zt count] else []) ++
        (if 0 <=? block then [kw_ "block"; zt (Z.quot block millisecond)] else []) ++
        [kw_ "streams"] ++ map D streams)
  | MXReadStreams streams => Ok ([kw_ "xread"; kw_ "streams"] ++ map D streams)
  | MXReadGroup group consumer count block noack streams =>
    Ok ([kw_ "xreadgroup"; kw_ "group"; D group; D consumer] ++
        (if 0 <? count then [kw_ "count"; zt count] else []) ++
        (if 0 <=? block then [kw_ "block"; zt (Z.quot block millisecond)] else []) ++
        (if noack then [kw_ "noack"] else []) ++
        [kw_ "streams"] ++ map D streams)
  | MXPendingExt a =>
    Ok ([kw_ "xpending"; D (xp_stream a); D (xp_group a)] ++
        (if xp_idle a =? 0 then [] else [kw_ "idle"; zt (g_format_ms (xp_idle a))]) ++
        [D (xp_start a); D (xp_end a); zt (xp_count a)] ++
        (if is_empty (xp_consumer a) then [] else [D (xp_consumer a)]))
  | MXClaim justid a =>
    Ok ([kw_ "xclaim"; D (xc_stream a); D (xc_group a); D (xc_consumer a); zt (Z.quot (xc_minidle a) millisecond)] ++
        map D (xc_messages a) ++ (if justid then [kw_ "justid"] else []))
  | MXAutoClaim justid a =>
    Ok ([kw_ "xautoclaim"; D (xu_stream a); D (xu_group a); D (xu_consumer a); zt (g_format_ms (xu_minidle a)); D (xu_start a)] ++
        (if 0 <? xu_count a then [kw_ "count"; zt (xu_count a)] else []) ++
        (if justid then [kw_ "justid"] else []))
  | MXTrim key t =>
    Ok (match t with
        | XtMaxLen n => [kw_ "xtrim"; D key; kw_ "maxlen"; zt n]
        | XtMaxLenApprox n limit => [kw_ "xtrim"; D key; kw_ "maxlen"; kw_ "~"; zt n] ++ (if 0 <? limit then [kw_ "limit"; zt limit] else [])
        | XtMinID id => [kw_ "xtrim"; D key; kw_ "minid"; D id]
        | XtMinIDApprox id limit => [kw_ "xtrim"; D key; kw_ "minid"; kw_ "~"; D id] ++ (if 0 <? limit then [kw_ "limit"; zt limit] else [])
        end)
  | MXInfoStreamFull key count =>
    Ok ([kw_ "xinfo"; kw_ "stream"; D key; kw_ "full"] ++ (if 0 <? count then [kw_ "count"; zt count] else []))
  | MGeoAdd key locs =>
    Ok ([kw_ "geoadd"; D key] ++ flat_map (fun l => [D (ff (fst (fst l))); D (ff (snd (fst l))); D (snd l)]) locs)
  | MGeoRadius store key lon lat q =>
    let has := negb (is_empty (gr_store q)) || negb (is_empty (gr_storedist q)) in
    if Bool.eqb store has
    then Ok ([kw_ (if store then "georadius" else "georadius_ro"); D key; D (ff lon); D (ff lat)] ++ g_georadius q)
    else Err 1
  | MGeoRadiusByMember store key member q =>
    let has := negb (is_empty (gr_store q)) || negb (is_empty (gr_storedist q)) in
    if Bool.eqb store has
    then Ok ([kw_ (if store then "georadiusbymember" else "georadiusbymember_ro"); D key; D member] ++ g_georadius q)
    else Err 1
  | MGeoSearch key q => Ok ([kw_ "geosearch"; D key] ++ g_geosearch q)
  | MGeoSearchLocation key q wc wd wh => Ok ([kw_ "geosearch"; D key] ++ g_geosearch q ++ g_with wc wd wh)
  | MGeoSearchStore src dst q storedist =>
    Ok ([kw_ "geosearchstore"; D dst; D src] ++ g_geosearch q ++ (if storedist then [kw_ "storedist"] else []))
  | MFunctionLoad replace code =>
    Ok ([kw_ "function"; kw_ "load"] ++ (if replace then [kw_ "replace"] else []) ++ [D code])
  | MClientKillByFilter keys => Ok ([kw_ "client"; kw_ "kill"] ++ map D keys)
  | MACLLog count => Ok ([kw_ "acl"; kw_ "log"] ++ (if 0 <? count then [zt count] else []))
  | MZPop max key count =>
    match count with
    | [] => Ok [kw_ (if max then "zpopmax" else "zpopmin"); D key]
    | [n] => Ok [kw_ (if max then "zpopmax" else "zpopmin"); D key; zt n]
    | _ => Panic
    end
  | MZRangePlain rev ws key start stop =>
    Ok ([kw_ (if rev then "zrevrange" else "zrange"); D key; zt start; zt stop] ++ (if ws then [kw_ "withscores"] else []))
  | MBPop w timeout keys =>
    Ok ([kw_ (match w with BpL => "blpop" | BpR => "brpop" | BpZMax => "bzpopmax" | BpZMin => "bzpopmin" end)] ++
        map D keys ++ [zt (g_format_sec timeout)])
  | MBRPopLPush src dst timeout => Ok [kw_ "brpoplpush"; D src; D dst; zt (g_format_sec timeout)]
  | MLMove src dst srcpos dstpos => Ok [kw_ "lmove"; D src; D dst; K srcpos; K dstpos]
  | MBLMove src dst srcpos dstpos timeout => Ok [kw_ "blmove"; D src; D dst; K srcpos; K dstpos; zt (g_format_sec timeout)]
  | MXRangeCmd rev stream a b count =>
    Ok ([kw_ (if rev then "xrevrange" else "xrange"); D stream; D a; D b] ++
        (match count with Some n => [kw_ "count"; zt n] | None => [] end))
  | MXGroupCreate mk stream group start =>
    Ok ([kw_ "xgroup"; kw_ "create"; D stream; D group; D start] ++ (if mk then [kw_ "mkstream"] else []))
  | MXAck stream group ids => Ok ([kw_ "xack"; D stream; D group] ++ map D ids)
  | MXDel stream ids => Ok ([kw_ "xdel"; D stream] ++ map D ids)
  | MEval w script keys args =>
    if single_nil args then Panic
    else Ok ([kw_ (match w with EvEval => "eval" | EvEvalSha => "evalsha" | EvEvalRO => "eval_ro" | EvEvalShaRO => "evalsha_ro"
                           | EvFCall => "fcall" | EvFCallRO => "fcall_ro" end); D script; lent keys] ++ map D keys ++ map g_arg args)
  | MPopCount w key count =>
    Ok [kw_ (match w with PcSPop => "spop" | PcSRand => "srandmember" | PcLPop => "lpop" | PcRPop => "rpop" end); D key; zt count]
  | MZRandMember ws key count => Ok ([kw_ "zrandmember"; D key; zt count] ++ (if ws then [kw_ "withscores"] else []))
  | MInterCard zset limit keys =>
    Ok ([kw_ (if zset then "zintercard" else "sintercard"); lent keys] ++ map D keys ++ [kw_ "limit"; zt limit])
  | MZMPop order count keys =>
    Ok ([kw_ "zmpop"; lent keys] ++ map D keys ++ [K (lower order); kw_ "count"; zt count])
  | MBZMPop timeout order count keys =>
    Ok ([kw_ "bzmpop"; zt (g_format_sec timeout); lent keys] ++ map D keys ++ [K (lower order); kw_ "count"; zt count])
  | MClientPause dur => Ok [kw_ "client"; kw_ "pause"; zt (g_format_ms dur)]
  | MSlowLogGet num => Ok [kw_ "slowlog"; kw_ "get"; zt num]
  | MGeoDist key m1 m2 unit => Ok [kw_ "geodist"; D key; D m1; D m2; K (if is_empty unit then bs "km" else unit)]
  | MFunctionList pattern withcode =>
    Ok ([kw_ "function"; kw_ "list"] ++ (if is_empty pattern then [] else [kw_ "libraryname"; D pattern]) ++
        (if withcode then [kw_ "withcode"] else []))
  end.

End WithFloat.

(** F is implicit in the constructors and projections *)
Arguments MSet {F}.
Arguments MSetArgs {F}.
Arguments MSetEX {F}.
Arguments MSetNX {F}.
Arguments MSetXX {F}.
Arguments MGetEx {F}.
Arguments MExpire {F}.
Arguments MPExpire {F}.
Arguments MExpireAt {F}.
Arguments MPExpireAt {F}.
Arguments MCopy {F}.
Arguments MRestore {F}.
Arguments MMigrate {F}.
Arguments MBitCount {F}.
Arguments MBitPos {F}.
Arguments MBitPosSpan {F}.
Arguments MBitField {F}.
Arguments MSort {F}.
Arguments MScan {F}.
Arguments MScanType {F}.
Arguments MKScan {F}.
Arguments MMemoryUsage {F}.
Arguments MLPos {F}.
Arguments MLPosCount {F}.
Arguments MLInsert {F}.
Arguments MLInsertBA {F}.
Arguments MLMPop {F}.
Arguments MBLMPop {F}.
Arguments MZAdd {F}.
Arguments MZAddArgs {F}.
Arguments MZRangeArgs {F}.
Arguments MZRangeStore {F}.
Arguments MZRangeBy {F}.
Arguments MZStoreOp {F}.
Arguments MZStoreTo {F}.
Arguments MZDiff {F}.
Arguments MZDiffStore {F}.
Arguments MXAdd {F}.
Arguments MXRead {F}.
Arguments MXReadStreams {F}.
Arguments MXReadGroup {F}.
Arguments MXPendingExt {F}.
Arguments MXClaim {F}.
Arguments MXAutoClaim {F}.
Arguments MXTrim {F}.
Arguments MXInfoStreamFull {F}.
Arguments MGeoAdd {F}.
Arguments MGeoRadius {F}.
Arguments MGeoRadiusByMember {F}.
Arguments MGeoSearch {F}.
Arguments MGeoSearchLocation {F}.
Arguments MGeoSearchStore {F}.
Arguments MFunctionLoad {F}.
Arguments MClientKillByFilter {F}.
Arguments MACLLog {F}.
Arguments mkGeoRadius {F}.
Arguments mkGeoSearch {F}.
Arguments gr_radius {F}.
Arguments gr_unit {F}.
Arguments gr_withcoord {F}.
Arguments gr_withdist {F}.
Arguments gr_withhash {F}.
Arguments gr_count {F}.
Arguments gr_sort {F}.
Arguments gr_store {F}.
Arguments gr_storedist {F}.
Arguments gs_member {F}.
Arguments gs_lon {F}.
Arguments gs_lat {F}.
Arguments gs_radius {F}.
Arguments gs_radius_unit {F}.
Arguments gs_boxw {F}.
Arguments gs_boxh {F}.
Arguments gs_box_unit {F}.
Arguments gs_sort {F}.
Arguments gs_count {F}.
Arguments gs_any {F}.
Arguments MZPop {F}.
Arguments MZRangePlain {F}.
Arguments MBPop {F}.
Arguments MBRPopLPush {F}.
Arguments MLMove {F}.
Arguments MBLMove {F}.
Arguments MXRangeCmd {F}.
Arguments MXGroupCreate {F}.
Arguments MXAck {F}.
Arguments MXDel {F}.
Arguments MEval {F}.
Arguments MPopCount {F}.
Arguments MZRandMember {F}.
Arguments MInterCard {F}.
Arguments MZMPop {F}.
Arguments MBZMPop {F}.
Arguments MClientPause {F}.
Arguments MSlowLogGet {F}.
Arguments MGeoDist {F}.
Arguments MFunctionList {F}.
