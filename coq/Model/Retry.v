(** Per-call re-send decisions of the non-cluster clients: retry.go ([WaitOrSkipRetry]),
    [singleClient.Do/DoMulti] (client.go), [sentinelClient.Do/DoMulti] (same code after [pick]),
    [standalone.Do/DoMulti] (REDIRECT handling on top of a single client), and the pipe-level fact
    that a call on a done context returns without writing.

    The environment of one call is a list of [tick]s, one per attempt: what the connection answered,
    whether the server executed the command on that attempt, and the state of the context / client
    at the moments the code looks at them.  Definitions only. *)
From Coq Require Import List Arith NArith ZArith Bool.
Require Import RV.Model.Base RV.Model.ClusterTopo.
Import ListNotations.
Open Scope Z_scope.

(** what one attempt returned, as the decision code classifies it *)
Inductive reply :=
| RVal (v : N)           (* a non-error reply *)
| RNil                   (* redis nil *)
| RErr (e : N)           (* an ordinary error reply *)
| RMoved (a : addr)
| RAsk (a : addr)
| RRedirect (a : addr)   (* -REDIRECT host:port (standalone with EnableRedirect) *)
| RTryAgain
| RClusterDown
| RLoading
| RTransport             (* a non-redis error other than the two below: broken / closed connection, timeout *)
| RCtx                   (* the context error the pipe returns without writing *)
| RExpired.              (* errConnExpired *)

Definition reply_eqb (a b : reply) : bool :=
  match a, b with
  | RVal x, RVal y => (x =? y)%N
  | RNil, RNil => true
  | RErr x, RErr y => (x =? y)%N
  | RMoved x, RMoved y => addr_eqb x y
  | RAsk x, RAsk y => addr_eqb x y
  | RRedirect x, RRedirect y => addr_eqb x y
  | RTryAgain, RTryAgain | RClusterDown, RClusterDown | RLoading, RLoading
  | RTransport, RTransport | RCtx, RCtx | RExpired, RExpired => true
  | _, _ => false
  end.

Record tick := mkTick {
  k_reply : reply;
  k_executed : bool;          (* the server ran the command on this attempt *)
  k_ctx_call : bool;          (* ctx.Err() != nil when the attempt starts: nothing is written *)
  k_ctx_cls : bool;           (* ctx.Err() != nil when the reply is classified *)
  k_closed : bool;            (* the client was closed (c.stop) when the reply is classified *)
  k_left : option Z;          (* time.Until(ctx deadline) when the delay is examined; None = no deadline *)
}.

(** pipe.Do / DoMulti: a done context is answered before anything is queued *)
Definition effective (t : tick) : tick :=
  if k_ctx_call t then mkTick RCtx false true true (k_closed t) (k_left t) else t.

(** what the server side can consistently have done for a reply (used as a hypothesis only) *)
Definition consistent (t : tick) : bool :=
  match k_reply t with
  | RMoved _ | RAsk _ | RRedirect _ | RTryAgain | RClusterDown | RLoading | RCtx => negb (k_executed t)
  | _ => true
  end && (negb (k_ctx_call t) || k_ctx_cls t).

Record policy := mkPolicy {
  p_retry : bool;                   (* !DisableRetry *)
  p_delay : nat -> reply -> Z;      (* RetryDelay(attempts, cmd, err) in ns *)
  p_lftm : bool;                    (* ConnLifetime > 0 *)
}.

(** retryer.WaitOrSkipRetry *)
Definition wait_or_skip (d : Z) (left : option Z) : bool :=
  if d =? 0 then true
  else if 0 <? d then match left with None => true | Some l => d <? l end
  else false.

(** singleClient.isRetryable / sentinelClient.isRetryable *)
Definition single_retryable_err (r : reply) (ctx_done closed : bool) : bool :=
  match r with
  | RVal _ | RNil => false
  | RLoading | RTransport | RCtx | RExpired => negb (closed || ctx_done)
  | _ => false
  end.

Definition is_expired (r : reply) : bool := match r with RExpired => true | _ => false end.

Inductive why := WFirst | WRetry | WExpired | WRedirect.

(** one Send event: why it was sent, and what came back *)
Record ev := mkEv { e_why : why; e_tick : tick }.

Inductive outcome :=
| Done (r : reply)
| OutOfEnv               (* the environment list ended (the call is still going on) *)
| OutOfFuel.

(** what singleClient.Do / sentinelClient.Do decide after one attempt ([t] is the effective tick) *)
Inductive decision := DReturn | DResend | DRetry.

Definition single_decision (p : policy) (retryable : bool) (attempts : nat) (t : tick) : decision :=
  let r := k_reply t in
  if is_expired r then DResend
  else if p_retry p && retryable && single_retryable_err r (k_ctx_cls t) (k_closed t)
          && wait_or_skip (p_delay p attempts r) (k_left t)
       then DRetry else DReturn.

(** singleClient.Do *)
Fixpoint single_do (fuel : nat) (p : policy) (retryable : bool) (attempts : nat) (w : why)
         (env : list tick) : list ev * outcome :=
  match fuel with
  | O => ([], OutOfFuel)
  | S f =>
    match env with
    | [] => ([], OutOfEnv)
    | t0 :: env' =>
      let t := effective t0 in
      let here := if k_ctx_call t0 then [] else [mkEv w t] in
      match single_decision p retryable attempts t with
      | DResend => let '(tr, o) := single_do f p retryable attempts WExpired env' in (here ++ tr, o)
      | DRetry => let '(tr, o) := single_do f p retryable (S attempts) WRetry env' in (here ++ tr, o)
      | DReturn => (here, Done (k_reply t))
      end
    end
  end.

Definition executions (tr : list ev) : nat := length (filter (fun e => k_executed (e_tick e)) tr).
Definition sends (tr : list ev) : nat := length tr.

(** ---- batches on one connection: singleClient.DoMulti / sentinelClient.DoMulti ---- *)
Inductive ckind := KPlain | KMulti | KExec.
Record bcmd := mkCmd {
  b_slot : option Z;       (* None = InitSlot (no key) *)
  b_kind : ckind;
  b_retryable : bool;
  b_replica : bool;        (* SendToReplicas(cmd) *)
  b_id : N;
}.
Definition is_multi (c : bcmd) : bool := match b_kind c with KMulti => true | _ => false end.
Definition is_exec (c : bcmd) : bool := match b_kind c with KExec => true | _ => false end.
Definition all_retryable (cs : list bcmd) : bool := forallb b_retryable cs.

(** the scan of the expiry recovery: index to re-send from, with the [txIdx] book-keeping
    ([txIdx == 0] means "not in a transaction" — also for a MULTI at index 0) *)
Fixpoint recover_from (cs : list bcmd) (rs : list reply) (i txidx : nat) : option nat :=
  match cs, rs with
  | c :: cs', r :: rs' =>
    if is_expired r then Some (if (0 <? txidx)%nat then txidx else i)
    else recover_from cs' rs' (S i) (if is_multi c then i else if is_exec c then O else txidx)
  | _, _ => None
  end.

(** one exchange on the connection: the server's answers to a sub-batch, one tick per command *)
Definition exchange := list tick.

(** the [recover:] loop: re-send the tail until no answer is errConnExpired *)
Fixpoint recover_loop (fuel : nat) (cs : list bcmd) (rs : list reply) (env : list exchange)
  : option (list reply * list (nat * exchange) * list exchange) :=
  match fuel with
  | O => None
  | S f =>
    match recover_from cs rs 0 0 with
    | None => Some (rs, [], env)
    | Some k =>
      match env with
      | [] => None
      | x :: env' =>
        let rs2 := map (fun t => k_reply (effective t)) x in
        let rs' := firstn (length rs - length rs2) rs ++ rs2 in
        match recover_loop f cs rs' env' with
        | Some (out, sent, rest) => Some (out, (k, x) :: sent, rest)
        | None => None
        end
      end
    end
  end.

(** the retry loop over the final answers: the first retryable failure whose delay allows it;
    the context / client state is the one at that moment (taken from the first tick of the attempt) *)
Fixpoint batch_wants_retry (p : policy) (attempts : nat) (ctx closed : bool) (left : option Z) (rs : list reply) : bool :=
  match rs with
  | r :: rs' =>
    (single_retryable_err r ctx closed && wait_or_skip (p_delay p attempts r) left)
    || batch_wants_retry p attempts ctx closed left rs'
  | [] => false
  end.

Definition x_ctx (x : exchange) : bool := match x with t :: _ => k_ctx_cls (effective t) | [] => false end.
Definition x_closed (x : exchange) : bool := match x with t :: _ => k_closed t | [] => false end.
Definition x_left (x : exchange) : option Z := match x with t :: _ => k_left t | [] => None end.

(** a batch send: from which index of the original batch, and the ticks *)
Record bsend := mkBsend { bs_why : why; bs_from : nat; bs_x : exchange }.

Fixpoint single_domulti (fuel : nat) (p : policy) (cs : list bcmd) (attempts : nat) (w : why)
         (env : list exchange) : list bsend * option (list reply) :=
  match fuel with
  | O => ([], None)
  | S f =>
    match env with
    | [] => ([], None)
    | x :: env' =>
      let rs0 := map (fun t => k_reply (effective t)) x in
      let rec := if p_lftm p then recover_loop (S (length env')) cs rs0 env' else Some (rs0, [], env') in
      match rec with
      | None => ([mkBsend w 0 x], None)
      | Some (rs, resent, env'') =>
        let here := mkBsend w 0 x :: map (fun kx => mkBsend WExpired (fst kx) (snd kx)) resent in
        if p_retry p && all_retryable cs && batch_wants_retry p attempts (x_ctx x) (x_closed x) (x_left x) rs
        then let '(tr, o) := single_domulti f p cs (S attempts) WRetry env'' in (here ++ tr, o)
        else (here, Some rs)
      end
    end
  end.

(** executions of the command at original index [i] over the sends of one call *)
Definition bsend_exec (i : nat) (s : bsend) : nat :=
  if (bs_from s <=? i)%nat then
    match nth_error (bs_x s) (i - bs_from s) with
    | Some t => if k_executed (effective t) then 1%nat else 0%nat
    | None => 0%nat
    end
  else 0%nat.
Definition batch_executions (i : nat) (tr : list bsend) : nat := fold_right (fun s n => (bsend_exec i s + n)%nat) 0%nat tr.

(** ---- standalone.Do with EnableRedirect: a REDIRECT reply switches the primary and re-sends ---- *)
(** [inner] is the result of the inner single client call for one outer attempt: the events of the
    inner call and its final reply; [switch_ok] says whether dialling the new primary worked. *)
Record otick := mkOtick { o_inner : list tick; o_switch_ok : bool; o_left : option Z }.

Fixpoint standalone_do (fuel : nat) (p : policy) (redirect : bool) (retryable : bool) (attempts : nat) (w : why)
         (env : list otick) : list ev * outcome :=
  match fuel with
  | O => ([], OutOfFuel)
  | S f =>
    match env with
    | [] => ([], OutOfEnv)
    | o :: env' =>
      let '(tr, res) := single_do (S (length (o_inner o))) p retryable 1 w (o_inner o) in
      match res with
      | Done (RRedirect a) =>
        if redirect && (o_switch_ok o || wait_or_skip (p_delay p attempts (RRedirect a)) (o_left o))
        then let '(tr2, o2) := standalone_do f p redirect retryable (S attempts) WRedirect env' in (tr ++ tr2, o2)
        else (tr, res)
      | _ => (tr, res)
      end
    end
  end.

(** standalone.DoMulti with EnableRedirect: the first REDIRECT among the results re-sends the batch *)
Fixpoint first_redirect (rs : list reply) : option addr :=
  match rs with
  | [] => None
  | RRedirect a :: _ => Some a
  | _ :: r => first_redirect r
  end.

Record obtick := mkObtick { ob_inner : list exchange; ob_switch_ok : bool; ob_left : option Z }.

Fixpoint standalone_domulti (fuel : nat) (p : policy) (redirect : bool) (cs : list bcmd) (attempts : nat) (w : why)
         (env : list obtick) : list bsend * option (list reply) :=
  match fuel with
  | O => ([], None)
  | S f =>
    match env with
    | [] => ([], None)
    | o :: env' =>
      let '(tr, res) := single_domulti (S (length (ob_inner o))) p cs 1 w (ob_inner o) in
      match res with
      | Some rs =>
        match first_redirect rs with
        | Some a =>
          if redirect && (ob_switch_ok o || wait_or_skip (p_delay p attempts (RRedirect a)) (ob_left o))
          then let '(tr2, o2) := standalone_domulti f p redirect cs (S attempts) WRedirect env' in (tr ++ tr2, o2)
          else (tr, res)
        | None => (tr, res)
        end
      | None => (tr, res)
      end
    end
  end.
