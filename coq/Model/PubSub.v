(** Model of the Pub/Sub and invalidation paths of one connection (C26, C27):
      pubsub.go   [subs]: Subscribe / Publish / Confirm / Unsubscribe / Close, 16-slot buffered channels
      pipe.go     [handlePush], the [Receive] loop and its return value, [SetPubSubHooks] and the hook channel,
                  the clean-up of [_background] (subs.Close, hook channel, invalidation callbacks)
    together with a small model of the server side of the connection (subscription sets, PUBLISH fan-out,
    confirmation pushes) so that the delivery theorem can speak about the server's publish log.

    The model is a labelled transition system [step : state -> label -> option state]; a label is one atomic
    action of one goroutine (the reader, a Receive caller, a SetPubSubHooks caller, the server).  [None] = the
    action is not enabled (a goroutine blocked on a full channel, on the subs lock, on an empty channel …).
    A Go panic (send on / close of a closed channel) is the explicit state flag [st_panic].
    Definitions only. *)
From Coq Require Import String List Arith NArith ZArith Bool.
Require Import RV.Model.Base RV.Model.PsBase.
Import ListNotations.
Open Scope N_scope.
Open Scope list_scope.

Inductive kind := KN | KP | KS.   (* nsubs (message) / psubs (pmessage) / ssubs (smessage) *)

Definition kind_eqb (a b : kind) : bool :=
  match a, b with KN, KN | KP, KP | KS, KS => true | _, _ => false end.

Record msg := mkMsg { m_pat : bytes; m_chan : bytes; m_body : bytes }.

Definition msg_eqb (a b : msg) : bool :=
  bytes_eqb (m_pat a) (m_pat b) && bytes_eqb (m_chan a) (m_chan b) && bytes_eqb (m_body a) (m_body b).

(** the key under which handlePush publishes: the channel for message / smessage, the pattern for pmessage *)
Definition msg_key (k : kind) (m : msg) : bytes := match k with KP => m_pat m | _ => m_chan m end.

(** frames the server sends on the connection, in wire order *)
Inductive frame :=
| FMsg (k : kind) (m : msg)                               (* message / pmessage / smessage *)
| FConfirm (k : kind) (c : bytes) (answers : option N)    (* (p|s)subscribe c n; [answers] = the Receive whose command this is the first reply of *)
| FUnsub (k : kind) (c : bytes)                           (* (p|s)unsubscribe c n *)
| FInval (keys : option (list bytes)).                    (* invalidate; None = flush (null) *)

(** errors a Receive can return / a pipe can latch *)
Inductive perr := EClosing | EConn | ECtx | ERedisErr.

Definition perr_eqb (a b : perr) : bool :=
  match a, b with EClosing, EClosing | EConn, EConn | ECtx, ECtx | ERedisErr, ERedisErr => true | _, _ => false end.

(** how a Receive left its loop / how its subscription was removed (bookkeeping for the statements only) *)
Inductive endkind := ByClose | ByCtx | ByCmdErr | Refused.
Inductive remkind := RemUnsub (c : bytes) | RemCleanup | RemCancel.

Inductive rstate :=
| RWait               (* registered in subs, its SUBSCRIBE command is in flight (p.Do has not returned) *)
| RLoop               (* in the receive loop *)
| RDone (ret : option perr) (how : endkind).   (* returned; None = nil *)

Record recv := mkRecv {
  rc_id : N;
  rc_kind : kind;
  rc_cs : list bytes;          (* channels / patterns of the command *)
  rc_ctx : bool;               (* ctx.Done() != nil *)
  rc_state : rstate;
  rc_reg : bool;               (* still in subs.sub (not yet removed) *)
  rc_open : bool;              (* its channel is not closed *)
  rc_drain : bool;             (* the drain goroutine of cancel() is running *)
  rc_buf : list msg;           (* channel contents, oldest first (capacity 16) *)
  rc_got : list msg;           (* messages passed to fn, in order *)
  rc_from : nat;               (* number of message frames the reader had handled when it registered *)
  rc_to : option nat;          (* … when it was removed *)
  rc_by : option remkind       (* what removed it *)
}.

Definition chan_cap : nat := 16.

Record hook := mkHook {
  hk_id : N;
  hk_inval : bool;             (* carries an invalidation callback *)
  hk_err : list perr;          (* errors sent on its channel *)
  hk_closed : nat;             (* number of close() calls on its channel *)
  hk_from : nat;               (* number of frames the reader had handled when it was installed *)
  hk_to : option (nat * bool)  (* … when it was swapped out, and whether that was the clean-up *)
}.

Record state := mkState {
  (* client: subs *)
  st_live : kind -> bool;              (* subs.chs != nil *)
  st_recvs : list recv;
  st_pend : list (kind * N * msg);     (* the reader is inside Publish: sends still to do *)
  st_hist : list (kind * msg);         (* message frames the reader has handled, oldest first *)
  st_perr : option perr;               (* p.error *)
  st_cleaned : bool;                   (* the clean-up of _background ran *)
  (* client: hooks and invalidation callbacks *)
  st_cur : option N;                   (* installed pshks (hook id); None = emptypshks *)
  st_hooks : list hook;                (* every hook ever installed *)
  st_onmsg : list (N * msg);           (* OnMessage calls: (hook id, message) *)
  st_hinval : list (N * option (list bytes));   (* hook invalidation callbacks *)
  st_oninval : bool;                   (* ClientOption.OnInvalidations set *)
  st_cb : list (option (list bytes));  (* its calls *)
  st_check : list N;                   (* SetPubSubHooks callers between the Swap and the p.Error() check *)
  st_panic : bool;
  (* server side of the connection *)
  st_ssub : kind -> list bytes;        (* subscribed channels / patterns *)
  st_wire : list frame;                (* frames sent, not yet handled by the reader *)
  st_handled : list frame;             (* frames the reader handled *)
  st_publog : list (bool * bytes * bytes)   (* server publish log: (sharded?, channel, body) *)
}.

(** pattern matching is Redis' glob; nothing about it matters here, the model takes it as a parameter *)
Definition pmatch_t := bytes -> bytes -> bool.

Inductive label :=
(* Receive caller r *)
| LSubscribe (r : N) (k : kind) (cs : list bytes) (ctx : bool)   (* sb.Subscribe(args, hook) *)
| LCmdErr (r : N) (e : perr)         (* p.Do(subscribe) returned an error *)
| LRecv (r : N)                      (* msg := <-ch; fn(msg) *)
| LEnd (r : N)                       (* <-ch reports closed *)
| LCtx (r : N)                       (* <-ctx.Done() chosen *)
| LRemove (r : N)                    (* the locked part of cancel(): s.remove(id) *)
(* reader goroutine *)
| LPush                              (* read the next frame and run handlePush *)
| LSend                              (* sb.ch <- msg for the next subscriber of the current Publish *)
| LSetErr (e : perr)                 (* p.error.CompareAndSwap(nil, e): Close(), _exit *)
| LCleanup                           (* the clean-up of _background *)
(* SetPubSubHooks *)
| LSetHooks (h : N) (inval : bool)   (* Swap(&pshks{hooks, ch}) and close of the old channel *)
| LClearHooks                        (* SetPubSubHooks(PubSubHooks{}) *)
| LCheckHooks (h : N)                (* the p.Error() check after the Swap *)
(* server *)
| LSrvSub (r : N) (k : kind) (cs : list bytes)     (* executes the (P|S)SUBSCRIBE sent by Receive r (or by a plain Do: r unused) *)
| LSrvUnsub (k : kind) (cs : list bytes)           (* executes (P|S)UNSUBSCRIBE cs *)
| LSrvPublish (sharded : bool) (c body : bytes)
| LSrvInval (keys : option (list bytes)).

(** ---- helpers ---- *)
Definition upd_recv (f : recv -> recv) (id : N) (l : list recv) : list recv :=
  map (fun r => if N.eqb (rc_id r) id then f r else r) l.

Fixpoint find_recv (id : N) (l : list recv) : option recv :=
  match l with
  | [] => None
  | r :: rest => if N.eqb (rc_id r) id then Some r else find_recv id rest
  end.

Definition set_state (s : rstate) (r : recv) : recv :=
  mkRecv (rc_id r) (rc_kind r) (rc_cs r) (rc_ctx r) s (rc_reg r) (rc_open r) (rc_drain r) (rc_buf r) (rc_got r) (rc_from r) (rc_to r) (rc_by r).
Definition set_buf (b : list msg) (r : recv) : recv :=
  mkRecv (rc_id r) (rc_kind r) (rc_cs r) (rc_ctx r) (rc_state r) (rc_reg r) (rc_open r) (rc_drain r) b (rc_got r) (rc_from r) (rc_to r) (rc_by r).
Definition take_msg (r : recv) : recv :=
  match rc_buf r with
  | m :: b => mkRecv (rc_id r) (rc_kind r) (rc_cs r) (rc_ctx r) (rc_state r) (rc_reg r) (rc_open r) (rc_drain r) b (rc_got r ++ [m]) (rc_from r) (rc_to r) (rc_by r)
  | [] => r
  end.
(** s.remove(id): out of subs, channel closed *)
Definition removed (at_ : nat) (by_ : remkind) (r : recv) : recv :=
  mkRecv (rc_id r) (rc_kind r) (rc_cs r) (rc_ctx r) (rc_state r) false false (rc_drain r) (rc_buf r) (rc_got r) (rc_from r) (Some at_) (Some by_).
(** the caller left the loop: cancel() starts the drain goroutine *)
Definition finished (ret : option perr) (how : endkind) (r : recv) : recv :=
  mkRecv (rc_id r) (rc_kind r) (rc_cs r) (rc_ctx r) (RDone ret how) (rc_reg r) (rc_open r) true [] (rc_got r) (rc_from r) (rc_to r) (rc_by r).

Definition with_recvs (s : state) (l : list recv) : state :=
  mkState (st_live s) l (st_pend s) (st_hist s) (st_perr s) (st_cleaned s) (st_cur s) (st_hooks s) (st_onmsg s) (st_hinval s)
          (st_oninval s) (st_cb s) (st_check s) (st_panic s) (st_ssub s) (st_wire s) (st_handled s) (st_publog s).
Definition with_pend (s : state) (p : list (kind * N * msg)) : state :=
  mkState (st_live s) (st_recvs s) p (st_hist s) (st_perr s) (st_cleaned s) (st_cur s) (st_hooks s) (st_onmsg s) (st_hinval s)
          (st_oninval s) (st_cb s) (st_check s) (st_panic s) (st_ssub s) (st_wire s) (st_handled s) (st_publog s).

Definition pend_for (k : kind) (p : list (kind * N * msg)) : bool :=
  existsb (fun x => kind_eqb (fst (fst x)) k) p.

(** subscribers of key [c] in subs [k]: registered receivers of that kind whose command names [c] *)
Definition subscribers (k : kind) (c : bytes) (l : list recv) : list recv :=
  filter (fun r => kind_eqb (rc_kind r) k && rc_reg r && mem_bytes c (rc_cs r)) l.

Definition matches (r : recv) (km : kind * msg) : bool :=
  kind_eqb (rc_kind r) (fst km) && mem_bytes (msg_key (fst km) (snd km)) (rc_cs r).

(** hooks *)
Definition upd_hook (f : hook -> hook) (id : N) (l : list hook) : list hook :=
  map (fun h => if N.eqb (hk_id h) id then f h else h) l.
Fixpoint find_hook (id : N) (l : list hook) : option hook :=
  match l with
  | [] => None
  | h :: rest => if N.eqb (hk_id h) id then Some h else find_hook id rest
  end.
Definition hook_close (at_ : nat) (cleanup : bool) (h : hook) : hook :=
  mkHook (hk_id h) (hk_inval h) (hk_err h) (S (hk_closed h)) (hk_from h) (Some (at_, cleanup)).
Definition hook_send (e : perr) (h : hook) : hook := mkHook (hk_id h) (hk_inval h) (hk_err h ++ [e]) (hk_closed h) (hk_from h) (hk_to h).

(** close(old.close), optionally after old.close <- err; panics (Go) when the channel is already closed *)
Definition retire (send : option perr) (cleanup : bool) (id : N) (s : state) : state :=
  let bad := match find_hook id (st_hooks s) with
             | Some h => negb (hk_closed h =? 0)%nat
             | None => true
             end in
  let hs := upd_hook (fun h => hook_close (length (st_handled s)) cleanup (match send with Some e => hook_send e h | None => h end)) id (st_hooks s) in
  mkState (st_live s) (st_recvs s) (st_pend s) (st_hist s) (st_perr s) (st_cleaned s) (st_cur s) hs (st_onmsg s) (st_hinval s)
          (st_oninval s) (st_cb s) (st_check s) (st_panic s || bad) (st_ssub s) (st_wire s) (st_handled s) (st_publog s).

Definition set_cur (c : option N) (s : state) : state :=
  mkState (st_live s) (st_recvs s) (st_pend s) (st_hist s) (st_perr s) (st_cleaned s) c (st_hooks s) (st_onmsg s) (st_hinval s)
          (st_oninval s) (st_cb s) (st_check s) (st_panic s) (st_ssub s) (st_wire s) (st_handled s) (st_publog s).

Definition cur_hook (s : state) : option hook :=
  match st_cur s with Some id => find_hook id (st_hooks s) | None => None end.

(** the server's fan-out of one PUBLISH / SPUBLISH on this connection *)
Definition fanout (pm : pmatch_t) (s : state) (sharded : bool) (c body : bytes) : list frame :=
  if sharded then (if mem_bytes c (st_ssub s KS) then [FMsg KS (mkMsg [] c body)] else [])
  else (if mem_bytes c (st_ssub s KN) then [FMsg KN (mkMsg [] c body)] else []) ++
       map (fun p => FMsg KP (mkMsg p c body)) (filter (fun p => pm p c) (st_ssub s KP)).

Fixpoint remove_bytes (c : bytes) (l : list bytes) : list bytes :=
  match l with
  | [] => []
  | x :: r => if bytes_eqb x c then remove_bytes c r else x :: remove_bytes c r
  end.

(** the subscription sets are kept in byte order: the (fake) server fans a PUBLISH out to the patterns in that order *)
Fixpoint bytes_ltb (a b : bytes) : bool :=
  match a, b with
  | [], [] => false
  | [], _ :: _ => true
  | _ :: _, [] => false
  | x :: a', y :: b' => if N.ltb x y then true else if N.ltb y x then false else bytes_ltb a' b'
  end.

Fixpoint insert_bytes (c : bytes) (l : list bytes) : list bytes :=
  match l with
  | [] => [c]
  | x :: r => if bytes_ltb c x then c :: l else x :: insert_bytes c r
  end.

Definition add_bytes (c : bytes) (l : list bytes) : list bytes := if mem_bytes c l then l else insert_bytes c l.

Definition set_ssub (s : state) (k : kind) (l : list bytes) : kind -> list bytes :=
  fun k' => if kind_eqb k' k then l else st_ssub s k'.

Definition srv (s : state) (ssub : kind -> list bytes) (frames : list frame) (plog : list (bool * bytes * bytes)) : state :=
  mkState (st_live s) (st_recvs s) (st_pend s) (st_hist s) (st_perr s) (st_cleaned s) (st_cur s) (st_hooks s) (st_onmsg s) (st_hinval s)
          (st_oninval s) (st_cb s) (st_check s) (st_panic s) ssub (st_wire s ++ frames) (st_handled s) (st_publog s ++ plog).

(** confirmation pushes of one (P|S)SUBSCRIBE executed for receiver [r]: only the first answers the command *)
Fixpoint confirms (k : kind) (r : N) (first : bool) (cs : list bytes) : list frame :=
  match cs with
  | [] => []
  | c :: rest => FConfirm k c (if first then Some r else None) :: confirms k r false rest
  end.

(** ---- handlePush ---- *)
Definition handle_push (s : state) (f : frame) : state :=
  let s := mkState (st_live s) (st_recvs s) (st_pend s) (st_hist s) (st_perr s) (st_cleaned s) (st_cur s) (st_hooks s) (st_onmsg s)
                   (st_hinval s) (st_oninval s) (st_cb s) (st_check s) (st_panic s) (st_ssub s) (st_wire s) (st_handled s ++ [f]) (st_publog s) in
  match f with
  | FMsg k m =>
    (* subs.Publish: one send per subscriber (under the read lock), then the OnMessage hook *)
    let targets := map (fun r => (k, rc_id r, m)) (subscribers k (msg_key k m) (st_recvs s)) in
    let onmsg := match st_cur s with Some id => st_onmsg s ++ [(id, m)] | None => st_onmsg s end in
    mkState (st_live s) (st_recvs s) (st_pend s ++ targets) (st_hist s ++ [(k, m)]) (st_perr s) (st_cleaned s) (st_cur s) (st_hooks s) onmsg
            (st_hinval s) (st_oninval s) (st_cb s) (st_check s) (st_panic s) (st_ssub s) (st_wire s) (st_handled s) (st_publog s)
  | FConfirm k c ans =>
    (* subs.Confirm calls the subscription hooks (not modelled); the first confirmation answers the command *)
    match ans with
    | Some r => with_recvs s (upd_recv (fun x => match rc_state x with RWait => set_state RLoop x | _ => x end) r (st_recvs s))
    | None => s
    end
  | FUnsub k c =>
    (* subs.Unsubscribe: every subscriber of c is removed and its channel closed *)
    let n := length (st_hist s) in
    with_recvs s (map (fun r => if kind_eqb (rc_kind r) k && rc_reg r && mem_bytes c (rc_cs r) then removed n (RemUnsub c) r else r) (st_recvs s))
  | FInval keys =>
    let cb := if st_oninval s then st_cb s ++ [keys] else st_cb s in
    let hi := match cur_hook s with
              | Some h => if hk_inval h then st_hinval s ++ [(hk_id h, keys)] else st_hinval s
              | None => st_hinval s
              end in
    mkState (st_live s) (st_recvs s) (st_pend s) (st_hist s) (st_perr s) (st_cleaned s) (st_cur s) (st_hooks s) (st_onmsg s)
            hi (st_oninval s) cb (st_check s) (st_panic s) (st_ssub s) (st_wire s) (st_handled s) (st_publog s)
  end.

(** ---- the transition function ---- *)
Definition step (pm : pmatch_t) (s : state) (l : label) : option state :=
  match l with
  | LSubscribe r k cs ctx =>
    (* needs the subs write lock: not while the reader is inside Publish of that kind *)
    if pend_for k (st_pend s) then None
    else match find_recv r (st_recvs s) with
         | Some _ => None                                   (* ids are fresh *)
         | None =>
           if st_live s k then
             Some (with_recvs s (st_recvs s ++ [mkRecv r k cs ctx RWait true true false [] [] (length (st_hist s)) None None]))
           else
             (* subs already closed: ch == nil, Receive returns p.Error() at once *)
             Some (with_recvs s (st_recvs s ++ [mkRecv r k cs ctx (RDone (st_perr s) Refused) false false false [] [] (length (st_hist s)) (Some (length (st_hist s))) None]))
         end
  | LCmdErr r e =>
    match find_recv r (st_recvs s) with
    | Some x => match rc_state x with
                | RWait => Some (with_recvs s (upd_recv (finished (Some e) ByCmdErr) r (st_recvs s)))
                | _ => None
                end
    | None => None
    end
  | LRecv r =>
    match find_recv r (st_recvs s) with
    | Some x => match rc_state x, rc_buf x with
                | RLoop, _ :: _ => Some (with_recvs s (upd_recv take_msg r (st_recvs s)))
                | RWait, _ :: _ => Some (with_recvs s (upd_recv take_msg r (st_recvs s)))   (* the channel is consumed while waiting for the reply, too *)
                | _, _ => None
                end
    | None => None
    end
  | LEnd r =>
    match find_recv r (st_recvs s) with
    | Some x => match rc_state x, rc_buf x with
                | RLoop, [] => if rc_open x then None
                               else Some (with_recvs s (upd_recv (finished (st_perr s) ByClose) r (st_recvs s)))   (* err = p.Error() *)
                | _, _ => None
                end
    | None => None
    end
  | LCtx r =>
    match find_recv r (st_recvs s) with
    | Some x => match rc_state x with
                | RLoop => if rc_ctx x then Some (with_recvs s (upd_recv (finished (Some ECtx) ByCtx) r (st_recvs s))) else None
                | _ => None
                end
    | None => None
    end
  | LRemove r =>
    match find_recv r (st_recvs s) with
    | Some x => match rc_state x with
                | RDone _ _ =>
                  if pend_for (rc_kind x) (st_pend s) then None
                  else if rc_reg x then Some (with_recvs s (upd_recv (removed (length (st_hist s)) RemCancel) r (st_recvs s)))
                  else Some s
                | _ => None
                end
    | None => None
    end
  | LPush =>
    match st_pend s, st_wire s with
    | [], f :: w =>
      if st_cleaned s then None
      else
        let s' := mkState (st_live s) (st_recvs s) (st_pend s) (st_hist s) (st_perr s) (st_cleaned s) (st_cur s) (st_hooks s) (st_onmsg s)
                          (st_hinval s) (st_oninval s) (st_cb s) (st_check s) (st_panic s) (st_ssub s) w (st_handled s) (st_publog s) in
        Some (handle_push s' f)
    | _, _ => None
    end
  | LSend =>
    match st_pend s with
    | (k, r, m) :: rest =>
      match find_recv r (st_recvs s) with
      | Some x =>
        if rc_drain x then Some (with_pend s rest)                              (* the drain goroutine takes it *)
        else if (length (rc_buf x) <? chan_cap)%nat
             then Some (with_pend (with_recvs s (upd_recv (fun y => set_buf (rc_buf y ++ [m]) y) r (st_recvs s))) rest)
             else None                                                          (* channel full: the reader blocks *)
      | None => None
      end
    | [] => None
    end
  | LSetErr e =>
    Some (mkState (st_live s) (st_recvs s) (st_pend s) (st_hist s) (match st_perr s with None => Some e | x => x end) (st_cleaned s)
                  (st_cur s) (st_hooks s) (st_onmsg s) (st_hinval s) (st_oninval s) (st_cb s) (st_check s) (st_panic s)
                  (st_ssub s) (st_wire s) (st_handled s) (st_publog s))
  | LCleanup =>
    (* after _backgroundRead returned: p.Error() is set, the reader is not inside Publish *)
    match st_perr s, st_pend s with
    | Some e, [] =>
      if st_cleaned s then None
      else
        let n := length (st_hist s) in
        let rs := map (fun r => if rc_reg r then removed n RemCleanup r else r) (st_recvs s) in
        let s1 := mkState (fun _ => false) rs [] (st_hist s) (st_perr s) true None (st_hooks s) (st_onmsg s)
                          (match cur_hook s with
                           | Some h => if hk_inval h then st_hinval s ++ [(hk_id h, None)] else st_hinval s
                           | None => st_hinval s
                           end)
                          (st_oninval s) (if st_oninval s then st_cb s ++ [None] else st_cb s) (st_check s) (st_panic s)
                          (st_ssub s) (st_wire s) (st_handled s) (st_publog s) in
        Some (match st_cur s with Some id => retire (Some e) true id s1 | None => s1 end)
    | _, _ => None
    end
  | LSetHooks h inval =>
    match find_hook h (st_hooks s) with
    | Some _ => None
    | None =>
      let s1 := mkState (st_live s) (st_recvs s) (st_pend s) (st_hist s) (st_perr s) (st_cleaned s) (Some h)
                        (st_hooks s ++ [mkHook h inval [] 0 (length (st_handled s)) None]) (st_onmsg s) (st_hinval s) (st_oninval s) (st_cb s) (st_check s ++ [h])
                        (st_panic s) (st_ssub s) (st_wire s) (st_handled s) (st_publog s) in
      Some (match st_cur s with Some old => retire None false old s1 | None => s1 end)
    end
  | LClearHooks =>
    Some (match st_cur s with Some old => retire None false old (set_cur None s) | None => s end)
  | LCheckHooks h =>
    if existsb (N.eqb h) (st_check s) then
      let s1 := mkState (st_live s) (st_recvs s) (st_pend s) (st_hist s) (st_perr s) (st_cleaned s) (st_cur s) (st_hooks s) (st_onmsg s)
                        (st_hinval s) (st_oninval s) (st_cb s) (filter (fun x => negb (N.eqb h x)) (st_check s)) (st_panic s)
                        (st_ssub s) (st_wire s) (st_handled s) (st_publog s) in
      match st_perr s1 with
      | Some e => Some (match st_cur s1 with Some old => retire (Some e) false old (set_cur None s1) | None => s1 end)
      | None => Some s1
      end
    else None
  | LSrvSub r k cs =>
    (* whatever became of the caller meanwhile, the server executes the command it received *)
    Some (srv s (set_ssub s k (fold_left (fun acc c => add_bytes c acc) cs (st_ssub s k))) (confirms k r true cs) [])
  | LSrvUnsub k cs =>
    Some (srv s (set_ssub s k (fold_left (fun acc c => remove_bytes c acc) cs (st_ssub s k))) (map (FUnsub k) cs) [])
  | LSrvPublish sharded c body =>
    Some (srv s (st_ssub s) (fanout pm s sharded c body) [(sharded, c, body)])
  | LSrvInval keys =>
    Some (srv s (st_ssub s) [FInval keys] [])
  end.

Definition init (oninval : bool) : state :=
  mkState (fun _ => true) [] [] [] None false None [] [] [] oninval [] [] false (fun _ => []) [] [] [].

(** run a schedule; None = some action was not enabled *)
Fixpoint run (pm : pmatch_t) (s : state) (ls : list label) : option state :=
  match ls with
  | [] => Some s
  | l :: rest => match step pm s l with Some s' => run pm s' rest | None => None end
  end.


(** ---- specification-level functions used by the theorems ---- *)
(** messages still to be sent to receiver [id] by the Publish in progress *)
Definition pend_msgs (id : N) (p : list (kind * N * msg)) : list msg :=
  map (fun x => snd x) (filter (fun x => N.eqb (snd (fst x)) id) p).

(** the messages among [h] that are for receiver [r] (its kind, one of its channels / patterns) *)
Definition fmsgs (r : recv) (h : list (kind * msg)) : list msg := map snd (filter (matches r) h).

(** the message frames the reader handled while [r] was registered *)
Definition window (h : list (kind * msg)) (r : recv) : list (kind * msg) :=
  match rc_to r with
  | Some t => firstn (t - rc_from r) (skipn (rc_from r) h)
  | None => skipn (rc_from r) h
  end.

Definition invals (fs : list frame) : list (option (list bytes)) :=
  flat_map (fun f => match f with FInval k => [k] | _ => [] end) fs.

Definition msgs_of (fs : list frame) : list (kind * msg) :=
  flat_map (fun f => match f with FMsg k m => [(k, m)] | _ => [] end) fs.

(** frames [from, to) *)
Definition slice {A} (l : list A) (from to : nat) : list A := firstn (to - from) (skipn from l).

(** what ClientOption.OnInvalidations must have been called with *)
Definition cb_spec (s : state) : list (option (list bytes)) :=
  if st_oninval s then invals (st_handled s) ++ (if st_cleaned s then [None] else []) else [].

(** what the invalidation callback of hook [h] must have been called with *)
Definition hook_inval_spec (s : state) (h : hook) : list (option (list bytes)) :=
  if hk_inval h then
    match hk_to h with
    | Some (t, cleanup) => invals (slice (st_handled s) (hk_from h) t) ++ (if cleanup then [None] else [])
    | None => invals (slice (st_handled s) (hk_from h) (length (st_handled s)))
    end
  else [].

Definition hook_inval_log (s : state) (id : N) : list (option (list bytes)) :=
  map snd (filter (fun x => N.eqb (fst x) id) (st_hinval s)).

(** ---- a canonical schedule for the correspondence run ----
    The observer performs its operations one after the other and waits for quiescence after each
    (every frame handled, every buffered message consumed); [settle] is that quiescence. *)
Definition try_recvs (pm : pmatch_t) (s : state) : option state :=
  (fix go (l : list recv) : option state :=
     match l with
     | [] => None
     | r :: rest =>
       match step pm s (LRecv (rc_id r)) with
       | Some s' => Some s'
       | None =>
         match step pm s (LEnd (rc_id r)) with
         | Some s' => Some s'
         | None =>
           match rc_state r with
           | RDone _ _ => if rc_reg r then
                          match step pm s (LRemove (rc_id r)) with Some s' => Some s' | None => go rest end
                        else go rest
           | _ => go rest
           end
         end
       end
     end) (st_recvs s).

Definition settle_step (pm : pmatch_t) (s : state) : option state :=
  match step pm s LSend with
  | Some s' => Some s'
  | None =>
    match try_recvs pm s with
    | Some s' => Some s'
    | None => step pm s LPush
    end
  end.

Fixpoint settle (pm : pmatch_t) (fuel : nat) (s : state) : state :=
  match fuel with
  | O => s
  | S f => match settle_step pm s with Some s' => settle pm f s' | None => s end
  end.

Inductive op :=
| OStart (r : N) (k : kind) (cs : list bytes) (ctx : bool)   (* start a Receive, wait until it is subscribed *)
| OSubCmd (k : kind) (cs : list bytes)                       (* a plain Do((P|S)SUBSCRIBE cs), e.g. on a dedicated client with hooks *)
| OPublish (sharded : bool) (c body : bytes)                 (* another connection publishes *)
| OUnsub (k : kind) (cs : list bytes)                        (* the client sends (P|S)UNSUBSCRIBE cs *)
| OCancel (r : N)                                            (* cancel r's context *)
| OInval (keys : option (list bytes))                        (* the server sends an invalidation push *)
| OSetHooks (h : N) (inval : bool)
| OClearHooks
| OClose (e : perr).                                         (* Close() / the connection is lost *)

Definition op_labels (o : op) : list label :=
  match o with
  | OStart r k cs ctx => [LSubscribe r k cs ctx; LSrvSub r k cs]
  | OSubCmd k cs => [LSrvSub 0 k cs]
  | OPublish sh c b => [LSrvPublish sh c b]
  | OUnsub k cs => [LSrvUnsub k cs]
  | OCancel r => [LCtx r; LRemove r]
  | OInval keys => [LSrvInval keys]
  | OSetHooks h i => [LSetHooks h i; LCheckHooks h]
  | OClearHooks => [LClearHooks]
  | OClose e => [LSetErr e; LCleanup]
  end.

(** labels that are not enabled are skipped (e.g. cancelling a Receive that has already returned) *)
Fixpoint run_skip (pm : pmatch_t) (s : state) (ls : list label) : state :=
  match ls with
  | [] => s
  | l :: rest => run_skip pm (match step pm s l with Some s' => s' | None => s end) rest
  end.

Definition fuel_of (s : state) : nat :=
  (4 * (length (st_wire s) + length (st_pend s) + length (st_recvs s) + 1) * (length (st_recvs s) + 2) + 64)%nat.

(** OClose: the frames still on the wire are lost with the connection, so settle first *)
Fixpoint drive (pm : pmatch_t) (s : state) (ops : list op) : state :=
  match ops with
  | [] => s
  | o :: rest =>
    let s1 := run_skip pm s (op_labels o) in
    drive pm (settle pm (fuel_of s1) s1) rest
  end.

(** the glob subset the observer uses: a trailing '*' is a prefix match, anything else is literal *)
Fixpoint is_prefix (p c : bytes) : bool :=
  match p, c with
  | [], _ => true
  | x :: p', y :: c' => N.eqb x y && is_prefix p' c'
  | _ :: _, [] => false
  end.

Definition pm_simple (p c : bytes) : bool :=
  match rev p with
  | 42 :: rp => is_prefix (rev rp) c
  | _ => bytes_eqb p c
  end.


(** ---- vocabulary of the observers (identifiers instead of literals in generated cases) ---- *)

Definition k_a : bytes := bs "a"%string.
Definition k_b : bytes := bs "b"%string.
Definition k_c : bytes := bs "c"%string.
Definition k_ab : bytes := bs "ab"%string.
Definition k_abc : bytes := bs "abc"%string.
Definition k_zz : bytes := bs "zz"%string.
Definition k_a_2a : bytes := bs "a*"%string.
Definition k_b_2a : bytes := bs "b*"%string.
Definition k_ab_2a : bytes := bs "ab*"%string.
Definition k_sync : bytes := bs "sync"%string.
Definition k_sync_2a : bytes := bs "sync*"%string.
Definition k_nosuch : bytes := bs "nosuch"%string.
Definition k_nosuch_2a : bytes := bs "nosuch*"%string.
Definition k_ : bytes := bs ""%string.
Definition k_u1 : bytes := bs "u1"%string.
Definition k_u2 : bytes := bs "u2"%string.
Definition k_u3 : bytes := bs "u3"%string.
Definition k_u4 : bytes := bs "u4"%string.
Definition k_u5 : bytes := bs "u5"%string.
Definition k_u1_2a : bytes := bs "u1*"%string.
Definition k_u2_2a : bytes := bs "u2*"%string.
Definition k_u3_2a : bytes := bs "u3*"%string.
Definition k_u4_2a : bytes := bs "u4*"%string.
Definition k_u5_2a : bytes := bs "u5*"%string.
Definition k_u101 : bytes := bs "u101"%string.
Definition k_u102_2a : bytes := bs "u102*"%string.
Definition k_u103 : bytes := bs "u103"%string.
(* message bodies used by obs_pubsub *)
Definition k_m1 : bytes := bs "m1"%string.
Definition k_m2 : bytes := bs "m2"%string.
Definition k_m3 : bytes := bs "m3"%string.
Definition k_m4 : bytes := bs "m4"%string.
Definition k_m5 : bytes := bs "m5"%string.
Definition k_m6 : bytes := bs "m6"%string.
Definition k_m7 : bytes := bs "m7"%string.
Definition k_m8 : bytes := bs "m8"%string.
Definition k_m9 : bytes := bs "m9"%string.
Definition k_m10 : bytes := bs "m10"%string.
Definition k_m11 : bytes := bs "m11"%string.
Definition k_m12 : bytes := bs "m12"%string.
Definition k_m13 : bytes := bs "m13"%string.
Definition k_m14 : bytes := bs "m14"%string.
Definition k_m15 : bytes := bs "m15"%string.
Definition k_m16 : bytes := bs "m16"%string.
Definition k_m17 : bytes := bs "m17"%string.
Definition k_m18 : bytes := bs "m18"%string.
Definition k_m19 : bytes := bs "m19"%string.
Definition k_m20 : bytes := bs "m20"%string.
Definition k_m21 : bytes := bs "m21"%string.
Definition k_m22 : bytes := bs "m22"%string.
Definition k_m23 : bytes := bs "m23"%string.
Definition k_m24 : bytes := bs "m24"%string.
Definition k_m25 : bytes := bs "m25"%string.
Definition k_m26 : bytes := bs "m26"%string.
Definition k_m27 : bytes := bs "m27"%string.
Definition k_m28 : bytes := bs "m28"%string.
Definition k_m29 : bytes := bs "m29"%string.
Definition k_m30 : bytes := bs "m30"%string.
Definition k_m31 : bytes := bs "m31"%string.
Definition k_m32 : bytes := bs "m32"%string.
Definition k_m33 : bytes := bs "m33"%string.
Definition k_m34 : bytes := bs "m34"%string.
Definition k_m35 : bytes := bs "m35"%string.
Definition k_m36 : bytes := bs "m36"%string.
Definition k_m37 : bytes := bs "m37"%string.
Definition k_m38 : bytes := bs "m38"%string.
Definition k_m39 : bytes := bs "m39"%string.
Definition k_m40 : bytes := bs "m40"%string.
Definition k_m41 : bytes := bs "m41"%string.
Definition k_m42 : bytes := bs "m42"%string.
Definition k_m43 : bytes := bs "m43"%string.
Definition k_m44 : bytes := bs "m44"%string.
Definition k_m45 : bytes := bs "m45"%string.
Definition k_m46 : bytes := bs "m46"%string.
Definition k_m47 : bytes := bs "m47"%string.
Definition k_m48 : bytes := bs "m48"%string.
Definition k_m49 : bytes := bs "m49"%string.
Definition k_m50 : bytes := bs "m50"%string.
Definition k_m51 : bytes := bs "m51"%string.
Definition k_m52 : bytes := bs "m52"%string.
Definition k_m53 : bytes := bs "m53"%string.
Definition k_m54 : bytes := bs "m54"%string.
Definition k_m55 : bytes := bs "m55"%string.
Definition k_m56 : bytes := bs "m56"%string.
Definition k_m57 : bytes := bs "m57"%string.
Definition k_m58 : bytes := bs "m58"%string.
Definition k_m59 : bytes := bs "m59"%string.
Definition k_m60 : bytes := bs "m60"%string.
Definition k_m61 : bytes := bs "m61"%string.
Definition k_m62 : bytes := bs "m62"%string.
Definition k_m63 : bytes := bs "m63"%string.
Definition k_m64 : bytes := bs "m64"%string.
Definition k_m65 : bytes := bs "m65"%string.
Definition k_m66 : bytes := bs "m66"%string.
Definition k_m67 : bytes := bs "m67"%string.
Definition k_m68 : bytes := bs "m68"%string.
Definition k_m69 : bytes := bs "m69"%string.
Definition k_m70 : bytes := bs "m70"%string.
Definition k_m71 : bytes := bs "m71"%string.
Definition k_m72 : bytes := bs "m72"%string.
Definition k_m73 : bytes := bs "m73"%string.
Definition k_m74 : bytes := bs "m74"%string.
Definition k_m75 : bytes := bs "m75"%string.
Definition k_m76 : bytes := bs "m76"%string.
Definition k_m77 : bytes := bs "m77"%string.
Definition k_m78 : bytes := bs "m78"%string.
Definition k_m79 : bytes := bs "m79"%string.
Definition k_m80 : bytes := bs "m80"%string.
Definition k_m81 : bytes := bs "m81"%string.
Definition k_m82 : bytes := bs "m82"%string.
Definition k_m83 : bytes := bs "m83"%string.
Definition k_m84 : bytes := bs "m84"%string.
Definition k_m85 : bytes := bs "m85"%string.
Definition k_m86 : bytes := bs "m86"%string.
Definition k_m87 : bytes := bs "m87"%string.
Definition k_m88 : bytes := bs "m88"%string.
Definition k_m89 : bytes := bs "m89"%string.
Definition k_m90 : bytes := bs "m90"%string.
Definition k_m91 : bytes := bs "m91"%string.
Definition k_m92 : bytes := bs "m92"%string.
Definition k_m93 : bytes := bs "m93"%string.
Definition k_m94 : bytes := bs "m94"%string.
Definition k_m95 : bytes := bs "m95"%string.
Definition k_m96 : bytes := bs "m96"%string.
Definition k_m97 : bytes := bs "m97"%string.
Definition k_m98 : bytes := bs "m98"%string.
Definition k_m99 : bytes := bs "m99"%string.
Definition k_m100 : bytes := bs "m100"%string.
Definition k_m101 : bytes := bs "m101"%string.
Definition k_m102 : bytes := bs "m102"%string.
Definition k_m103 : bytes := bs "m103"%string.
Definition k_m104 : bytes := bs "m104"%string.
Definition k_m105 : bytes := bs "m105"%string.
Definition k_m106 : bytes := bs "m106"%string.
Definition k_m107 : bytes := bs "m107"%string.
Definition k_m108 : bytes := bs "m108"%string.
Definition k_m109 : bytes := bs "m109"%string.
Definition k_m110 : bytes := bs "m110"%string.
Definition k_m111 : bytes := bs "m111"%string.
Definition k_m112 : bytes := bs "m112"%string.
Definition k_m113 : bytes := bs "m113"%string.
Definition k_m114 : bytes := bs "m114"%string.
Definition k_m115 : bytes := bs "m115"%string.
Definition k_m116 : bytes := bs "m116"%string.
Definition k_m117 : bytes := bs "m117"%string.
Definition k_m118 : bytes := bs "m118"%string.
Definition k_m119 : bytes := bs "m119"%string.
Definition k_m120 : bytes := bs "m120"%string.
Definition k_m121 : bytes := bs "m121"%string.
Definition k_m122 : bytes := bs "m122"%string.
Definition k_m123 : bytes := bs "m123"%string.
Definition k_m124 : bytes := bs "m124"%string.
Definition k_m125 : bytes := bs "m125"%string.
Definition k_m126 : bytes := bs "m126"%string.
Definition k_m127 : bytes := bs "m127"%string.
Definition k_m128 : bytes := bs "m128"%string.
Definition k_m129 : bytes := bs "m129"%string.
Definition k_m130 : bytes := bs "m130"%string.
Definition k_m131 : bytes := bs "m131"%string.
Definition k_m132 : bytes := bs "m132"%string.
Definition k_m133 : bytes := bs "m133"%string.
Definition k_m134 : bytes := bs "m134"%string.
Definition k_m135 : bytes := bs "m135"%string.
Definition k_m136 : bytes := bs "m136"%string.
Definition k_m137 : bytes := bs "m137"%string.
Definition k_m138 : bytes := bs "m138"%string.
Definition k_m139 : bytes := bs "m139"%string.
Definition k_m140 : bytes := bs "m140"%string.
Definition k_m141 : bytes := bs "m141"%string.
Definition k_m142 : bytes := bs "m142"%string.
Definition k_m143 : bytes := bs "m143"%string.
Definition k_m144 : bytes := bs "m144"%string.
Definition k_m145 : bytes := bs "m145"%string.
Definition k_m146 : bytes := bs "m146"%string.
Definition k_m147 : bytes := bs "m147"%string.
Definition k_m148 : bytes := bs "m148"%string.
Definition k_m149 : bytes := bs "m149"%string.
Definition k_m150 : bytes := bs "m150"%string.
Definition k_m151 : bytes := bs "m151"%string.
Definition k_m152 : bytes := bs "m152"%string.
Definition k_m153 : bytes := bs "m153"%string.
Definition k_m154 : bytes := bs "m154"%string.
Definition k_m155 : bytes := bs "m155"%string.
Definition k_m156 : bytes := bs "m156"%string.
Definition k_m157 : bytes := bs "m157"%string.
Definition k_m158 : bytes := bs "m158"%string.
Definition k_m159 : bytes := bs "m159"%string.
Definition k_m160 : bytes := bs "m160"%string.
Definition k_m161 : bytes := bs "m161"%string.
Definition k_m162 : bytes := bs "m162"%string.
Definition k_m163 : bytes := bs "m163"%string.
Definition k_m164 : bytes := bs "m164"%string.
Definition k_m165 : bytes := bs "m165"%string.
Definition k_m166 : bytes := bs "m166"%string.
Definition k_m167 : bytes := bs "m167"%string.
Definition k_m168 : bytes := bs "m168"%string.
Definition k_m169 : bytes := bs "m169"%string.
Definition k_m170 : bytes := bs "m170"%string.
Definition k_m171 : bytes := bs "m171"%string.
Definition k_m172 : bytes := bs "m172"%string.
Definition k_m173 : bytes := bs "m173"%string.
Definition k_m174 : bytes := bs "m174"%string.
Definition k_m175 : bytes := bs "m175"%string.
Definition k_m176 : bytes := bs "m176"%string.
Definition k_m177 : bytes := bs "m177"%string.
Definition k_m178 : bytes := bs "m178"%string.
Definition k_m179 : bytes := bs "m179"%string.
Definition k_m180 : bytes := bs "m180"%string.
Definition k_m181 : bytes := bs "m181"%string.
Definition k_m182 : bytes := bs "m182"%string.
Definition k_m183 : bytes := bs "m183"%string.
Definition k_m184 : bytes := bs "m184"%string.
Definition k_m185 : bytes := bs "m185"%string.
Definition k_m186 : bytes := bs "m186"%string.
Definition k_m187 : bytes := bs "m187"%string.
Definition k_m188 : bytes := bs "m188"%string.
Definition k_m189 : bytes := bs "m189"%string.
Definition k_m190 : bytes := bs "m190"%string.
Definition k_m191 : bytes := bs "m191"%string.
Definition k_m192 : bytes := bs "m192"%string.
Definition k_m193 : bytes := bs "m193"%string.
Definition k_m194 : bytes := bs "m194"%string.
Definition k_m195 : bytes := bs "m195"%string.
Definition k_m196 : bytes := bs "m196"%string.
Definition k_m197 : bytes := bs "m197"%string.
Definition k_m198 : bytes := bs "m198"%string.
Definition k_m199 : bytes := bs "m199"%string.
Definition k_m200 : bytes := bs "m200"%string.
Definition k_m201 : bytes := bs "m201"%string.
Definition k_m202 : bytes := bs "m202"%string.
Definition k_m203 : bytes := bs "m203"%string.
Definition k_m204 : bytes := bs "m204"%string.
Definition k_m205 : bytes := bs "m205"%string.
Definition k_m206 : bytes := bs "m206"%string.
Definition k_m207 : bytes := bs "m207"%string.
Definition k_m208 : bytes := bs "m208"%string.
Definition k_m209 : bytes := bs "m209"%string.
Definition k_m210 : bytes := bs "m210"%string.
Definition k_m211 : bytes := bs "m211"%string.
Definition k_m212 : bytes := bs "m212"%string.
Definition k_m213 : bytes := bs "m213"%string.
Definition k_m214 : bytes := bs "m214"%string.
Definition k_m215 : bytes := bs "m215"%string.
Definition k_m216 : bytes := bs "m216"%string.
Definition k_m217 : bytes := bs "m217"%string.
Definition k_m218 : bytes := bs "m218"%string.
Definition k_m219 : bytes := bs "m219"%string.
Definition k_m220 : bytes := bs "m220"%string.
Definition k_m221 : bytes := bs "m221"%string.
Definition k_m222 : bytes := bs "m222"%string.
Definition k_m223 : bytes := bs "m223"%string.
Definition k_m224 : bytes := bs "m224"%string.
Definition k_m225 : bytes := bs "m225"%string.
Definition k_m226 : bytes := bs "m226"%string.
Definition k_m227 : bytes := bs "m227"%string.
Definition k_m228 : bytes := bs "m228"%string.
Definition k_m229 : bytes := bs "m229"%string.
Definition k_m230 : bytes := bs "m230"%string.
Definition k_m231 : bytes := bs "m231"%string.
Definition k_m232 : bytes := bs "m232"%string.
Definition k_m233 : bytes := bs "m233"%string.
Definition k_m234 : bytes := bs "m234"%string.
Definition k_m235 : bytes := bs "m235"%string.
Definition k_m236 : bytes := bs "m236"%string.
Definition k_m237 : bytes := bs "m237"%string.
Definition k_m238 : bytes := bs "m238"%string.
Definition k_m239 : bytes := bs "m239"%string.
Definition k_m240 : bytes := bs "m240"%string.
Definition k_m241 : bytes := bs "m241"%string.
Definition k_m242 : bytes := bs "m242"%string.
Definition k_m243 : bytes := bs "m243"%string.
Definition k_m244 : bytes := bs "m244"%string.
Definition k_m245 : bytes := bs "m245"%string.
Definition k_m246 : bytes := bs "m246"%string.
Definition k_m247 : bytes := bs "m247"%string.
Definition k_m248 : bytes := bs "m248"%string.
Definition k_m249 : bytes := bs "m249"%string.
Definition k_m250 : bytes := bs "m250"%string.
Definition k_m251 : bytes := bs "m251"%string.
Definition k_m252 : bytes := bs "m252"%string.
Definition k_m253 : bytes := bs "m253"%string.
Definition k_m254 : bytes := bs "m254"%string.
Definition k_m255 : bytes := bs "m255"%string.
Definition k_m256 : bytes := bs "m256"%string.
Definition k_m257 : bytes := bs "m257"%string.
Definition k_m258 : bytes := bs "m258"%string.
Definition k_m259 : bytes := bs "m259"%string.
Definition k_m260 : bytes := bs "m260"%string.
Definition k_m261 : bytes := bs "m261"%string.
Definition k_m262 : bytes := bs "m262"%string.
Definition k_m263 : bytes := bs "m263"%string.
Definition k_m264 : bytes := bs "m264"%string.
Definition k_m265 : bytes := bs "m265"%string.
Definition k_m266 : bytes := bs "m266"%string.
Definition k_m267 : bytes := bs "m267"%string.
Definition k_m268 : bytes := bs "m268"%string.
Definition k_m269 : bytes := bs "m269"%string.
Definition k_m270 : bytes := bs "m270"%string.
Definition k_m271 : bytes := bs "m271"%string.
Definition k_m272 : bytes := bs "m272"%string.
Definition k_m273 : bytes := bs "m273"%string.
Definition k_m274 : bytes := bs "m274"%string.
Definition k_m275 : bytes := bs "m275"%string.
Definition k_m276 : bytes := bs "m276"%string.
Definition k_m277 : bytes := bs "m277"%string.
Definition k_m278 : bytes := bs "m278"%string.
Definition k_m279 : bytes := bs "m279"%string.
Definition k_m280 : bytes := bs "m280"%string.
Definition k_m281 : bytes := bs "m281"%string.
Definition k_m282 : bytes := bs "m282"%string.
Definition k_m283 : bytes := bs "m283"%string.
Definition k_m284 : bytes := bs "m284"%string.
Definition k_m285 : bytes := bs "m285"%string.
Definition k_m286 : bytes := bs "m286"%string.
Definition k_m287 : bytes := bs "m287"%string.
Definition k_m288 : bytes := bs "m288"%string.
Definition k_m289 : bytes := bs "m289"%string.
Definition k_m290 : bytes := bs "m290"%string.
Definition k_m291 : bytes := bs "m291"%string.
Definition k_m292 : bytes := bs "m292"%string.
Definition k_m293 : bytes := bs "m293"%string.
Definition k_m294 : bytes := bs "m294"%string.
Definition k_m295 : bytes := bs "m295"%string.
Definition k_m296 : bytes := bs "m296"%string.
Definition k_m297 : bytes := bs "m297"%string.
Definition k_m298 : bytes := bs "m298"%string.
Definition k_m299 : bytes := bs "m299"%string.
Definition k_m300 : bytes := bs "m300"%string.
Definition k_m301 : bytes := bs "m301"%string.
Definition k_m302 : bytes := bs "m302"%string.
Definition k_m303 : bytes := bs "m303"%string.
Definition k_m304 : bytes := bs "m304"%string.
Definition k_m305 : bytes := bs "m305"%string.
Definition k_m306 : bytes := bs "m306"%string.
Definition k_m307 : bytes := bs "m307"%string.
Definition k_m308 : bytes := bs "m308"%string.
Definition k_m309 : bytes := bs "m309"%string.
Definition k_m310 : bytes := bs "m310"%string.
Definition k_m311 : bytes := bs "m311"%string.
Definition k_m312 : bytes := bs "m312"%string.
Definition k_m313 : bytes := bs "m313"%string.
Definition k_m314 : bytes := bs "m314"%string.
Definition k_m315 : bytes := bs "m315"%string.
Definition k_m316 : bytes := bs "m316"%string.
Definition k_m317 : bytes := bs "m317"%string.
Definition k_m318 : bytes := bs "m318"%string.
Definition k_m319 : bytes := bs "m319"%string.
Definition k_m320 : bytes := bs "m320"%string.
Definition k_m321 : bytes := bs "m321"%string.
Definition k_m322 : bytes := bs "m322"%string.
Definition k_m323 : bytes := bs "m323"%string.
Definition k_m324 : bytes := bs "m324"%string.
Definition k_m325 : bytes := bs "m325"%string.
Definition k_m326 : bytes := bs "m326"%string.
Definition k_m327 : bytes := bs "m327"%string.
Definition k_m328 : bytes := bs "m328"%string.
Definition k_m329 : bytes := bs "m329"%string.
Definition k_m330 : bytes := bs "m330"%string.
Definition k_m331 : bytes := bs "m331"%string.
Definition k_m332 : bytes := bs "m332"%string.
Definition k_m333 : bytes := bs "m333"%string.
Definition k_m334 : bytes := bs "m334"%string.
Definition k_m335 : bytes := bs "m335"%string.
Definition k_m336 : bytes := bs "m336"%string.
Definition k_m337 : bytes := bs "m337"%string.
Definition k_m338 : bytes := bs "m338"%string.
Definition k_m339 : bytes := bs "m339"%string.
Definition k_m340 : bytes := bs "m340"%string.
Definition k_m341 : bytes := bs "m341"%string.
Definition k_m342 : bytes := bs "m342"%string.
Definition k_m343 : bytes := bs "m343"%string.
Definition k_m344 : bytes := bs "m344"%string.
Definition k_m345 : bytes := bs "m345"%string.
Definition k_m346 : bytes := bs "m346"%string.
Definition k_m347 : bytes := bs "m347"%string.
Definition k_m348 : bytes := bs "m348"%string.
Definition k_m349 : bytes := bs "m349"%string.
Definition k_m350 : bytes := bs "m350"%string.
Definition k_m351 : bytes := bs "m351"%string.
Definition k_m352 : bytes := bs "m352"%string.
Definition k_m353 : bytes := bs "m353"%string.
Definition k_m354 : bytes := bs "m354"%string.
Definition k_m355 : bytes := bs "m355"%string.
Definition k_m356 : bytes := bs "m356"%string.
Definition k_m357 : bytes := bs "m357"%string.
Definition k_m358 : bytes := bs "m358"%string.
Definition k_m359 : bytes := bs "m359"%string.
Definition k_m360 : bytes := bs "m360"%string.
Definition k_m361 : bytes := bs "m361"%string.
Definition k_m362 : bytes := bs "m362"%string.
Definition k_m363 : bytes := bs "m363"%string.
Definition k_m364 : bytes := bs "m364"%string.
Definition k_m365 : bytes := bs "m365"%string.
Definition k_m366 : bytes := bs "m366"%string.
Definition k_m367 : bytes := bs "m367"%string.
Definition k_m368 : bytes := bs "m368"%string.
Definition k_m369 : bytes := bs "m369"%string.
Definition k_m370 : bytes := bs "m370"%string.
Definition k_m371 : bytes := bs "m371"%string.
Definition k_m372 : bytes := bs "m372"%string.
Definition k_m373 : bytes := bs "m373"%string.
Definition k_m374 : bytes := bs "m374"%string.
Definition k_m375 : bytes := bs "m375"%string.
Definition k_m376 : bytes := bs "m376"%string.
Definition k_m377 : bytes := bs "m377"%string.
Definition k_m378 : bytes := bs "m378"%string.
Definition k_m379 : bytes := bs "m379"%string.
Definition k_m380 : bytes := bs "m380"%string.
Definition k_m381 : bytes := bs "m381"%string.
Definition k_m382 : bytes := bs "m382"%string.
Definition k_m383 : bytes := bs "m383"%string.
Definition k_m384 : bytes := bs "m384"%string.
Definition k_m385 : bytes := bs "m385"%string.
Definition k_m386 : bytes := bs "m386"%string.
Definition k_m387 : bytes := bs "m387"%string.
Definition k_m388 : bytes := bs "m388"%string.
Definition k_m389 : bytes := bs "m389"%string.
Definition k_m390 : bytes := bs "m390"%string.
Definition k_m391 : bytes := bs "m391"%string.
Definition k_m392 : bytes := bs "m392"%string.
Definition k_m393 : bytes := bs "m393"%string.
Definition k_m394 : bytes := bs "m394"%string.
Definition k_m395 : bytes := bs "m395"%string.
Definition k_m396 : bytes := bs "m396"%string.
Definition k_m397 : bytes := bs "m397"%string.
Definition k_m398 : bytes := bs "m398"%string.
Definition k_m399 : bytes := bs "m399"%string.
Definition k_m400 : bytes := bs "m400"%string.
Definition k_m401 : bytes := bs "m401"%string.
Definition k_m402 : bytes := bs "m402"%string.
Definition k_m403 : bytes := bs "m403"%string.
Definition k_m404 : bytes := bs "m404"%string.
Definition k_m405 : bytes := bs "m405"%string.
Definition k_m406 : bytes := bs "m406"%string.
Definition k_m407 : bytes := bs "m407"%string.
Definition k_m408 : bytes := bs "m408"%string.
Definition k_m409 : bytes := bs "m409"%string.
Definition k_m410 : bytes := bs "m410"%string.
Definition k_m411 : bytes := bs "m411"%string.
Definition k_m412 : bytes := bs "m412"%string.
Definition k_m413 : bytes := bs "m413"%string.
Definition k_m414 : bytes := bs "m414"%string.
Definition k_m415 : bytes := bs "m415"%string.
Definition k_m416 : bytes := bs "m416"%string.
Definition k_m417 : bytes := bs "m417"%string.
Definition k_m418 : bytes := bs "m418"%string.
Definition k_m419 : bytes := bs "m419"%string.
Definition k_m420 : bytes := bs "m420"%string.
Definition k_m421 : bytes := bs "m421"%string.
Definition k_m422 : bytes := bs "m422"%string.
Definition k_m423 : bytes := bs "m423"%string.
Definition k_m424 : bytes := bs "m424"%string.
Definition k_m425 : bytes := bs "m425"%string.
Definition k_m426 : bytes := bs "m426"%string.
Definition k_m427 : bytes := bs "m427"%string.
Definition k_m428 : bytes := bs "m428"%string.
Definition k_m429 : bytes := bs "m429"%string.
Definition k_m430 : bytes := bs "m430"%string.
Definition k_m431 : bytes := bs "m431"%string.
Definition k_m432 : bytes := bs "m432"%string.
Definition k_m433 : bytes := bs "m433"%string.
Definition k_m434 : bytes := bs "m434"%string.
Definition k_m435 : bytes := bs "m435"%string.
Definition k_m436 : bytes := bs "m436"%string.
Definition k_m437 : bytes := bs "m437"%string.
Definition k_m438 : bytes := bs "m438"%string.
Definition k_m439 : bytes := bs "m439"%string.
Definition k_m440 : bytes := bs "m440"%string.
Definition k_m441 : bytes := bs "m441"%string.
Definition k_m442 : bytes := bs "m442"%string.
Definition k_m443 : bytes := bs "m443"%string.
Definition k_m444 : bytes := bs "m444"%string.
Definition k_m445 : bytes := bs "m445"%string.
Definition k_m446 : bytes := bs "m446"%string.
Definition k_m447 : bytes := bs "m447"%string.
Definition k_m448 : bytes := bs "m448"%string.
Definition k_m449 : bytes := bs "m449"%string.
Definition k_m450 : bytes := bs "m450"%string.
Definition k_m451 : bytes := bs "m451"%string.
Definition k_m452 : bytes := bs "m452"%string.
Definition k_m453 : bytes := bs "m453"%string.
Definition k_m454 : bytes := bs "m454"%string.
Definition k_m455 : bytes := bs "m455"%string.
Definition k_m456 : bytes := bs "m456"%string.
Definition k_m457 : bytes := bs "m457"%string.
Definition k_m458 : bytes := bs "m458"%string.
Definition k_m459 : bytes := bs "m459"%string.
Definition k_m460 : bytes := bs "m460"%string.
Definition k_m461 : bytes := bs "m461"%string.
Definition k_m462 : bytes := bs "m462"%string.
Definition k_m463 : bytes := bs "m463"%string.
Definition k_m464 : bytes := bs "m464"%string.
Definition k_m465 : bytes := bs "m465"%string.
Definition k_m466 : bytes := bs "m466"%string.
Definition k_m467 : bytes := bs "m467"%string.
Definition k_m468 : bytes := bs "m468"%string.
Definition k_m469 : bytes := bs "m469"%string.
Definition k_m470 : bytes := bs "m470"%string.
Definition k_m471 : bytes := bs "m471"%string.
Definition k_m472 : bytes := bs "m472"%string.
Definition k_m473 : bytes := bs "m473"%string.
Definition k_m474 : bytes := bs "m474"%string.
Definition k_m475 : bytes := bs "m475"%string.
Definition k_m476 : bytes := bs "m476"%string.
Definition k_m477 : bytes := bs "m477"%string.
Definition k_m478 : bytes := bs "m478"%string.
Definition k_m479 : bytes := bs "m479"%string.
Definition k_m480 : bytes := bs "m480"%string.
Definition k_m481 : bytes := bs "m481"%string.
Definition k_m482 : bytes := bs "m482"%string.
Definition k_m483 : bytes := bs "m483"%string.
Definition k_m484 : bytes := bs "m484"%string.
Definition k_m485 : bytes := bs "m485"%string.
Definition k_m486 : bytes := bs "m486"%string.
Definition k_m487 : bytes := bs "m487"%string.
Definition k_m488 : bytes := bs "m488"%string.
Definition k_m489 : bytes := bs "m489"%string.
Definition k_m490 : bytes := bs "m490"%string.
Definition k_m491 : bytes := bs "m491"%string.
Definition k_m492 : bytes := bs "m492"%string.
Definition k_m493 : bytes := bs "m493"%string.
Definition k_m494 : bytes := bs "m494"%string.
Definition k_m495 : bytes := bs "m495"%string.
Definition k_m496 : bytes := bs "m496"%string.
Definition k_m497 : bytes := bs "m497"%string.
Definition k_m498 : bytes := bs "m498"%string.
Definition k_m499 : bytes := bs "m499"%string.
Definition k_m500 : bytes := bs "m500"%string.
Definition k_m501 : bytes := bs "m501"%string.
Definition k_m502 : bytes := bs "m502"%string.
Definition k_m503 : bytes := bs "m503"%string.
Definition k_m504 : bytes := bs "m504"%string.
Definition k_m505 : bytes := bs "m505"%string.
Definition k_m506 : bytes := bs "m506"%string.
Definition k_m507 : bytes := bs "m507"%string.
Definition k_m508 : bytes := bs "m508"%string.
Definition k_m509 : bytes := bs "m509"%string.
Definition k_m510 : bytes := bs "m510"%string.
Definition k_m511 : bytes := bs "m511"%string.
Definition k_m512 : bytes := bs "m512"%string.
Definition k_m513 : bytes := bs "m513"%string.
Definition k_m514 : bytes := bs "m514"%string.
Definition k_m515 : bytes := bs "m515"%string.
Definition k_m516 : bytes := bs "m516"%string.
Definition k_m517 : bytes := bs "m517"%string.
Definition k_m518 : bytes := bs "m518"%string.
Definition k_m519 : bytes := bs "m519"%string.
Definition k_m520 : bytes := bs "m520"%string.
Definition k_m521 : bytes := bs "m521"%string.
Definition k_m522 : bytes := bs "m522"%string.
Definition k_m523 : bytes := bs "m523"%string.
Definition k_m524 : bytes := bs "m524"%string.
Definition k_m525 : bytes := bs "m525"%string.
Definition k_m526 : bytes := bs "m526"%string.
Definition k_m527 : bytes := bs "m527"%string.
Definition k_m528 : bytes := bs "m528"%string.
Definition k_m529 : bytes := bs "m529"%string.
Definition k_m530 : bytes := bs "m530"%string.
Definition k_m531 : bytes := bs "m531"%string.
Definition k_m532 : bytes := bs "m532"%string.
Definition k_m533 : bytes := bs "m533"%string.
Definition k_m534 : bytes := bs "m534"%string.
Definition k_m535 : bytes := bs "m535"%string.
Definition k_m536 : bytes := bs "m536"%string.
Definition k_m537 : bytes := bs "m537"%string.
Definition k_m538 : bytes := bs "m538"%string.
Definition k_m539 : bytes := bs "m539"%string.
Definition k_m540 : bytes := bs "m540"%string.
Definition k_m541 : bytes := bs "m541"%string.
Definition k_m542 : bytes := bs "m542"%string.
Definition k_m543 : bytes := bs "m543"%string.
Definition k_m544 : bytes := bs "m544"%string.
Definition k_m545 : bytes := bs "m545"%string.
Definition k_m546 : bytes := bs "m546"%string.
Definition k_m547 : bytes := bs "m547"%string.
Definition k_m548 : bytes := bs "m548"%string.
Definition k_m549 : bytes := bs "m549"%string.
Definition k_m550 : bytes := bs "m550"%string.
Definition k_m551 : bytes := bs "m551"%string.
Definition k_m552 : bytes := bs "m552"%string.
Definition k_m553 : bytes := bs "m553"%string.
Definition k_m554 : bytes := bs "m554"%string.
Definition k_m555 : bytes := bs "m555"%string.
Definition k_m556 : bytes := bs "m556"%string.
Definition k_m557 : bytes := bs "m557"%string.
Definition k_m558 : bytes := bs "m558"%string.
Definition k_m559 : bytes := bs "m559"%string.
Definition k_m560 : bytes := bs "m560"%string.
Definition k_m561 : bytes := bs "m561"%string.
Definition k_m562 : bytes := bs "m562"%string.
Definition k_m563 : bytes := bs "m563"%string.
Definition k_m564 : bytes := bs "m564"%string.
Definition k_m565 : bytes := bs "m565"%string.
Definition k_m566 : bytes := bs "m566"%string.
Definition k_m567 : bytes := bs "m567"%string.
Definition k_m568 : bytes := bs "m568"%string.
Definition k_m569 : bytes := bs "m569"%string.
Definition k_m570 : bytes := bs "m570"%string.
Definition k_m571 : bytes := bs "m571"%string.
Definition k_m572 : bytes := bs "m572"%string.
Definition k_m573 : bytes := bs "m573"%string.
Definition k_m574 : bytes := bs "m574"%string.
Definition k_m575 : bytes := bs "m575"%string.
Definition k_m576 : bytes := bs "m576"%string.
Definition k_m577 : bytes := bs "m577"%string.
Definition k_m578 : bytes := bs "m578"%string.
Definition k_m579 : bytes := bs "m579"%string.
Definition k_m580 : bytes := bs "m580"%string.
Definition k_m581 : bytes := bs "m581"%string.
Definition k_m582 : bytes := bs "m582"%string.
Definition k_m583 : bytes := bs "m583"%string.
Definition k_m584 : bytes := bs "m584"%string.
Definition k_m585 : bytes := bs "m585"%string.
Definition k_m586 : bytes := bs "m586"%string.
Definition k_m587 : bytes := bs "m587"%string.
Definition k_m588 : bytes := bs "m588"%string.
Definition k_m589 : bytes := bs "m589"%string.
Definition k_m590 : bytes := bs "m590"%string.
Definition k_m591 : bytes := bs "m591"%string.
Definition k_m592 : bytes := bs "m592"%string.
Definition k_m593 : bytes := bs "m593"%string.
Definition k_m594 : bytes := bs "m594"%string.
Definition k_m595 : bytes := bs "m595"%string.
Definition k_m596 : bytes := bs "m596"%string.
Definition k_m597 : bytes := bs "m597"%string.
Definition k_m598 : bytes := bs "m598"%string.
Definition k_m599 : bytes := bs "m599"%string.
Definition k_m600 : bytes := bs "m600"%string.
Definition k_m601 : bytes := bs "m601"%string.
Definition k_m602 : bytes := bs "m602"%string.
Definition k_m603 : bytes := bs "m603"%string.
Definition k_m604 : bytes := bs "m604"%string.
Definition k_m605 : bytes := bs "m605"%string.
Definition k_m606 : bytes := bs "m606"%string.
Definition k_m607 : bytes := bs "m607"%string.
Definition k_m608 : bytes := bs "m608"%string.
Definition k_m609 : bytes := bs "m609"%string.
Definition k_m610 : bytes := bs "m610"%string.
Definition k_m611 : bytes := bs "m611"%string.
Definition k_m612 : bytes := bs "m612"%string.
Definition k_m613 : bytes := bs "m613"%string.
Definition k_m614 : bytes := bs "m614"%string.
Definition k_m615 : bytes := bs "m615"%string.
Definition k_m616 : bytes := bs "m616"%string.
Definition k_m617 : bytes := bs "m617"%string.
Definition k_m618 : bytes := bs "m618"%string.
Definition k_m619 : bytes := bs "m619"%string.
Definition k_m620 : bytes := bs "m620"%string.
Definition k_m621 : bytes := bs "m621"%string.
Definition k_m622 : bytes := bs "m622"%string.
Definition k_m623 : bytes := bs "m623"%string.
Definition k_m624 : bytes := bs "m624"%string.
Definition k_m625 : bytes := bs "m625"%string.
Definition k_m626 : bytes := bs "m626"%string.
Definition k_m627 : bytes := bs "m627"%string.
Definition k_m628 : bytes := bs "m628"%string.
Definition k_m629 : bytes := bs "m629"%string.
Definition k_m630 : bytes := bs "m630"%string.
Definition k_m631 : bytes := bs "m631"%string.
Definition k_m632 : bytes := bs "m632"%string.
Definition k_m633 : bytes := bs "m633"%string.
Definition k_m634 : bytes := bs "m634"%string.
Definition k_m635 : bytes := bs "m635"%string.
Definition k_m636 : bytes := bs "m636"%string.
Definition k_m637 : bytes := bs "m637"%string.
Definition k_m638 : bytes := bs "m638"%string.
Definition k_m639 : bytes := bs "m639"%string.
Definition k_m640 : bytes := bs "m640"%string.
Definition k_m641 : bytes := bs "m641"%string.
Definition k_m642 : bytes := bs "m642"%string.
Definition k_m643 : bytes := bs "m643"%string.
Definition k_m644 : bytes := bs "m644"%string.
Definition k_m645 : bytes := bs "m645"%string.
Definition k_m646 : bytes := bs "m646"%string.
Definition k_m647 : bytes := bs "m647"%string.
Definition k_m648 : bytes := bs "m648"%string.
Definition k_m649 : bytes := bs "m649"%string.
Definition k_m650 : bytes := bs "m650"%string.
Definition k_m651 : bytes := bs "m651"%string.
Definition k_m652 : bytes := bs "m652"%string.
Definition k_m653 : bytes := bs "m653"%string.
Definition k_m654 : bytes := bs "m654"%string.
Definition k_m655 : bytes := bs "m655"%string.
Definition k_m656 : bytes := bs "m656"%string.
Definition k_m657 : bytes := bs "m657"%string.
Definition k_m658 : bytes := bs "m658"%string.
Definition k_m659 : bytes := bs "m659"%string.
Definition k_m660 : bytes := bs "m660"%string.
Definition k_m661 : bytes := bs "m661"%string.
Definition k_m662 : bytes := bs "m662"%string.
Definition k_m663 : bytes := bs "m663"%string.
Definition k_m664 : bytes := bs "m664"%string.
Definition k_m665 : bytes := bs "m665"%string.
Definition k_m666 : bytes := bs "m666"%string.
Definition k_m667 : bytes := bs "m667"%string.
Definition k_m668 : bytes := bs "m668"%string.
Definition k_m669 : bytes := bs "m669"%string.
Definition k_m670 : bytes := bs "m670"%string.
Definition k_m671 : bytes := bs "m671"%string.
Definition k_m672 : bytes := bs "m672"%string.
Definition k_m673 : bytes := bs "m673"%string.
Definition k_m674 : bytes := bs "m674"%string.
Definition k_m675 : bytes := bs "m675"%string.
Definition k_m676 : bytes := bs "m676"%string.
Definition k_m677 : bytes := bs "m677"%string.
Definition k_m678 : bytes := bs "m678"%string.
Definition k_m679 : bytes := bs "m679"%string.
Definition k_m680 : bytes := bs "m680"%string.
Definition k_m681 : bytes := bs "m681"%string.
Definition k_m682 : bytes := bs "m682"%string.
Definition k_m683 : bytes := bs "m683"%string.
Definition k_m684 : bytes := bs "m684"%string.
Definition k_m685 : bytes := bs "m685"%string.
Definition k_m686 : bytes := bs "m686"%string.
Definition k_m687 : bytes := bs "m687"%string.
Definition k_m688 : bytes := bs "m688"%string.
Definition k_m689 : bytes := bs "m689"%string.
Definition k_m690 : bytes := bs "m690"%string.
Definition k_m691 : bytes := bs "m691"%string.
Definition k_m692 : bytes := bs "m692"%string.
Definition k_m693 : bytes := bs "m693"%string.
Definition k_m694 : bytes := bs "m694"%string.
Definition k_m695 : bytes := bs "m695"%string.
Definition k_m696 : bytes := bs "m696"%string.
Definition k_m697 : bytes := bs "m697"%string.
Definition k_m698 : bytes := bs "m698"%string.
Definition k_m699 : bytes := bs "m699"%string.
Definition k_m700 : bytes := bs "m700"%string.
Definition k_sync_3a1 : bytes := bs "sync:1"%string.
Definition k_sync_3a2 : bytes := bs "sync:2"%string.
Definition k_sync_3a3 : bytes := bs "sync:3"%string.
Definition k_sync_3a4 : bytes := bs "sync:4"%string.
Definition k_sync_3a5 : bytes := bs "sync:5"%string.
Definition k_sync_3a6 : bytes := bs "sync:6"%string.
Definition k_sync_3a7 : bytes := bs "sync:7"%string.
Definition k_sync_3a8 : bytes := bs "sync:8"%string.
Definition k_sync_3a9 : bytes := bs "sync:9"%string.
Definition k_sync_3a10 : bytes := bs "sync:10"%string.
Definition k_sync_3a11 : bytes := bs "sync:11"%string.
Definition k_sync_3a12 : bytes := bs "sync:12"%string.
Definition k_sync_3a13 : bytes := bs "sync:13"%string.
Definition k_sync_3a14 : bytes := bs "sync:14"%string.
Definition k_sync_3a15 : bytes := bs "sync:15"%string.
Definition k_sync_3a16 : bytes := bs "sync:16"%string.
Definition k_sync_3a17 : bytes := bs "sync:17"%string.
Definition k_sync_3a18 : bytes := bs "sync:18"%string.
Definition k_sync_3a19 : bytes := bs "sync:19"%string.
Definition k_sync_3a20 : bytes := bs "sync:20"%string.
Definition k_sync_3a21 : bytes := bs "sync:21"%string.
Definition k_sync_3a22 : bytes := bs "sync:22"%string.
Definition k_sync_3a23 : bytes := bs "sync:23"%string.
Definition k_sync_3a24 : bytes := bs "sync:24"%string.
Definition k_sync_3a25 : bytes := bs "sync:25"%string.
Definition k_sync_3a26 : bytes := bs "sync:26"%string.
Definition k_sync_3a27 : bytes := bs "sync:27"%string.
Definition k_sync_3a28 : bytes := bs "sync:28"%string.
Definition k_sync_3a29 : bytes := bs "sync:29"%string.
Definition k_sync_3a30 : bytes := bs "sync:30"%string.
Definition k_sync_3a31 : bytes := bs "sync:31"%string.
Definition k_sync_3a32 : bytes := bs "sync:32"%string.
Definition k_sync_3a33 : bytes := bs "sync:33"%string.
Definition k_sync_3a34 : bytes := bs "sync:34"%string.
Definition k_sync_3a35 : bytes := bs "sync:35"%string.
Definition k_sync_3a36 : bytes := bs "sync:36"%string.
Definition k_sync_3a37 : bytes := bs "sync:37"%string.
Definition k_sync_3a38 : bytes := bs "sync:38"%string.
Definition k_sync_3a39 : bytes := bs "sync:39"%string.
Definition k_sync_3a40 : bytes := bs "sync:40"%string.
Definition k_sync_3a41 : bytes := bs "sync:41"%string.
Definition k_sync_3a42 : bytes := bs "sync:42"%string.
Definition k_sync_3a43 : bytes := bs "sync:43"%string.
Definition k_sync_3a44 : bytes := bs "sync:44"%string.
Definition k_sync_3a45 : bytes := bs "sync:45"%string.
Definition k_sync_3a46 : bytes := bs "sync:46"%string.
Definition k_sync_3a47 : bytes := bs "sync:47"%string.
Definition k_sync_3a48 : bytes := bs "sync:48"%string.
Definition k_sync_3a49 : bytes := bs "sync:49"%string.
Definition k_sync_3a50 : bytes := bs "sync:50"%string.
Definition k_sync_3a51 : bytes := bs "sync:51"%string.
Definition k_sync_3a52 : bytes := bs "sync:52"%string.
Definition k_sync_3a53 : bytes := bs "sync:53"%string.
Definition k_sync_3a54 : bytes := bs "sync:54"%string.
Definition k_sync_3a55 : bytes := bs "sync:55"%string.
Definition k_sync_3a56 : bytes := bs "sync:56"%string.
Definition k_sync_3a57 : bytes := bs "sync:57"%string.
Definition k_sync_3a58 : bytes := bs "sync:58"%string.
Definition k_sync_3a59 : bytes := bs "sync:59"%string.
Definition k_sync_3a60 : bytes := bs "sync:60"%string.
Definition k_sync_3a61 : bytes := bs "sync:61"%string.
Definition k_sync_3a62 : bytes := bs "sync:62"%string.
Definition k_sync_3a63 : bytes := bs "sync:63"%string.
Definition k_sync_3a64 : bytes := bs "sync:64"%string.
Definition k_sync_3a65 : bytes := bs "sync:65"%string.
Definition k_sync_3a66 : bytes := bs "sync:66"%string.
Definition k_sync_3a67 : bytes := bs "sync:67"%string.
Definition k_sync_3a68 : bytes := bs "sync:68"%string.
Definition k_sync_3a69 : bytes := bs "sync:69"%string.
Definition k_sync_3a70 : bytes := bs "sync:70"%string.
Definition k_sync_3a71 : bytes := bs "sync:71"%string.
Definition k_sync_3a72 : bytes := bs "sync:72"%string.
Definition k_sync_3a73 : bytes := bs "sync:73"%string.
Definition k_sync_3a74 : bytes := bs "sync:74"%string.
Definition k_sync_3a75 : bytes := bs "sync:75"%string.
Definition k_sync_3a76 : bytes := bs "sync:76"%string.
Definition k_sync_3a77 : bytes := bs "sync:77"%string.
Definition k_sync_3a78 : bytes := bs "sync:78"%string.
Definition k_sync_3a79 : bytes := bs "sync:79"%string.
Definition k_sync_3a80 : bytes := bs "sync:80"%string.
Definition k_sync_3a81 : bytes := bs "sync:81"%string.
Definition k_sync_3a82 : bytes := bs "sync:82"%string.
Definition k_sync_3a83 : bytes := bs "sync:83"%string.
Definition k_sync_3a84 : bytes := bs "sync:84"%string.
Definition k_sync_3a85 : bytes := bs "sync:85"%string.
Definition k_sync_3a86 : bytes := bs "sync:86"%string.
Definition k_sync_3a87 : bytes := bs "sync:87"%string.
Definition k_sync_3a88 : bytes := bs "sync:88"%string.
Definition k_sync_3a89 : bytes := bs "sync:89"%string.
Definition k_sync_3a90 : bytes := bs "sync:90"%string.
Definition k_sync_3a91 : bytes := bs "sync:91"%string.
Definition k_sync_3a92 : bytes := bs "sync:92"%string.
Definition k_sync_3a93 : bytes := bs "sync:93"%string.
Definition k_sync_3a94 : bytes := bs "sync:94"%string.
Definition k_sync_3a95 : bytes := bs "sync:95"%string.
Definition k_sync_3a96 : bytes := bs "sync:96"%string.
Definition k_sync_3a97 : bytes := bs "sync:97"%string.
Definition k_sync_3a98 : bytes := bs "sync:98"%string.
Definition k_sync_3a99 : bytes := bs "sync:99"%string.
Definition k_sync_3a100 : bytes := bs "sync:100"%string.
Definition k_sync_3a101 : bytes := bs "sync:101"%string.
Definition k_sync_3a102 : bytes := bs "sync:102"%string.
Definition k_sync_3a103 : bytes := bs "sync:103"%string.
Definition k_sync_3a104 : bytes := bs "sync:104"%string.
Definition k_sync_3a105 : bytes := bs "sync:105"%string.
Definition k_sync_3a106 : bytes := bs "sync:106"%string.
Definition k_sync_3a107 : bytes := bs "sync:107"%string.
Definition k_sync_3a108 : bytes := bs "sync:108"%string.
Definition k_sync_3a109 : bytes := bs "sync:109"%string.
Definition k_sync_3a110 : bytes := bs "sync:110"%string.
Definition k_sync_3a111 : bytes := bs "sync:111"%string.
Definition k_sync_3a112 : bytes := bs "sync:112"%string.
Definition k_sync_3a113 : bytes := bs "sync:113"%string.
Definition k_sync_3a114 : bytes := bs "sync:114"%string.
Definition k_sync_3a115 : bytes := bs "sync:115"%string.
Definition k_sync_3a116 : bytes := bs "sync:116"%string.
Definition k_sync_3a117 : bytes := bs "sync:117"%string.
Definition k_sync_3a118 : bytes := bs "sync:118"%string.
Definition k_sync_3a119 : bytes := bs "sync:119"%string.
Definition k_sync_3a120 : bytes := bs "sync:120"%string.
(* obs_inval *)
Definition k_k1 : bytes := bs "k1"%string.
Definition k_k2 : bytes := bs "k2"%string.
Definition k_k3 : bytes := bs "k3"%string.
Definition k_k4 : bytes := bs "k4"%string.
Definition k_hc : bytes := bs "hc"%string.
Definition k_p1 : bytes := bs "p1"%string.
Definition k_p2 : bytes := bs "p2"%string.
Definition k_p3 : bytes := bs "p3"%string.
Definition k_p4 : bytes := bs "p4"%string.
Definition k_p5 : bytes := bs "p5"%string.
Definition k_p6 : bytes := bs "p6"%string.
Definition k_p7 : bytes := bs "p7"%string.
Definition k_p8 : bytes := bs "p8"%string.
Definition k_p9 : bytes := bs "p9"%string.
Definition k_p10 : bytes := bs "p10"%string.
Definition k_p11 : bytes := bs "p11"%string.
Definition k_p12 : bytes := bs "p12"%string.
Definition k_p13 : bytes := bs "p13"%string.
Definition k_p14 : bytes := bs "p14"%string.
Definition k_p15 : bytes := bs "p15"%string.
Definition k_p16 : bytes := bs "p16"%string.

(** ---- correspondence cases ---- *)
Record seen_recv := mkSeenRecv {
  sr_id : N;
  sr_got : list msg;
  sr_ret : option (option perr)     (* None: still running when the case ended *)
}.

Definition ret_eqb (a b : option perr) : bool := option_eqb perr_eqb a b.

Definition check_recv (s : state) (v : seen_recv) : bool :=
  match find_recv (sr_id v) (st_recvs s) with
  | Some r =>
    list_eqb msg_eqb (rc_got r) (sr_got v) &&
    match rc_state r, sr_ret v with
    | RDone ret _, Some ret' => ret_eqb ret ret'
    | RDone _ _, None => false
    | _, None => true
    | _, Some _ => false
    end
  | None => false
  end.

Definition inval_eqb (a b : option (list bytes)) : bool := option_eqb (list_eqb bytes_eqb) a b.

Record seen_hook := mkSeenHook {
  sh_id : N;
  sh_errs : list perr;       (* what was received from the channel SetPubSubHooks returned *)
  sh_closed : bool;          (* … and whether it was closed *)
  sh_inval : list (option (list bytes));    (* arguments of its invalidation callback *)
  sh_msgs : list msg         (* arguments of its OnMessage *)
}.

Definition check_hook (s : state) (v : seen_hook) : bool :=
  match find_hook (sh_id v) (st_hooks s) with
  | Some h =>
    list_eqb perr_eqb (hk_err h) (sh_errs v) &&
    Bool.eqb (negb (hk_closed h =? 0)%nat) (sh_closed v) &&
    list_eqb inval_eqb (map snd (filter (fun x => N.eqb (fst x) (sh_id v)) (st_hinval s))) (sh_inval v) &&
    list_eqb msg_eqb (map snd (filter (fun x => N.eqb (fst x) (sh_id v)) (st_onmsg s))) (sh_msgs v)
  | None => false
  end.

Inductive case :=
| CPubSub (ops : list op) (recvs : list seen_recv)                       (* C26: obs_pubsub *)
| CInval (oninval : bool) (ops : list op) (cb : list (option (list bytes))) (hooks : list seen_hook).   (* C27 / hook channel: obs_inval *)

Definition check_case (c : case) : bool :=
  match c with
  | CPubSub ops recvs =>
    let s := drive pm_simple (init false) ops in
    negb (st_panic s) && forallb (check_recv s) recvs && (length recvs =? length (st_recvs s))%nat
  | CInval oninval ops cb hooks =>
    let s := drive pm_simple (init oninval) ops in
    negb (st_panic s) && list_eqb inval_eqb (st_cb s) cb && forallb (check_hook s) hooks &&
    (length hooks =? length (st_hooks s))%nat
  end.
