(** Model of the Pub/Sub and invalidation paths of one connection (C26, C27):
      pubsub.go   [subs]: Subscribe / Publish / Confirm / Unsubscribe / Close, 16-slot buffered channels
      pipe.go     [handlePush], the [Receive] loop and its return value, [SetPubSubHooks] and the hook channel,
                  the clean-up of [_background] (subs.Close, hook channel, invalidation callbacks)
    together with a small model of the server side of the connection (subscription sets, PUBLISH fan-out,
    confirmation pushes) so that the delivery theorem can speak about the server's publish log.

    The model is a labelled transition system [step : state -> label -> option state]; a label is one atomic
    action of one goroutine (the reader, a Receive caller, a SetPubSubHooks caller, the server).  [None] = the
    action is not enabled (a goroutine blocked on a full channel, on the subs lock, on an empty channel …).
    A Go panic (send on / close of a closed channel) is the explicit state flag [st_panic].
    Definitions only. *)
From Coq Require Import String List Arith NArith ZArith Bool.
Require Import RV.Model.Base RV.Model.PsBase.
Import ListNotations.
Open Scope N_scope.
Open Scope list_scope.

Inductive kind := KN | KP | KS.   (* nsubs (message) / psubs (pmessage) / ssubs (smessage) *)

Definition kind_eqb (a b : kind) : bool :=
  match a, b with KN, KN | KP, KP | KS, KS => true | _, _ => false end.

Record msg := mkMsg { m_pat : bytes; m_chan : bytes; m_body : bytes }.

Definition msg_eqb (a b : msg) : bool :=
  bytes_eqb (m_pat a) (m_pat b) && bytes_eqb (m_chan a) (m_chan b) && bytes_eqb (m_body a) (m_body b).

(** the key under which handlePush publishes: the channel for message / smessage, the pattern for pmessage *)
Definition msg_key (k : kind) (m : msg) : bytes := match k with KP => m_pat m | _ => m_chan m end.

(** frames the server sends on the connection, in wire order *)
Inductive frame :=
| FMsg (k : kind) (m : msg)                               (* message / pmessage / smessage *)
| FConfirm (k : kind) (c : bytes) (answers : option N)    (* (p|s)subscribe c n; [answers] = the Receive whose command this is the first reply of *)
| FUnsub (k : kind) (c : bytes)                           (* (p|s)unsubscribe c n *)
| FInval (keys : option (list bytes)).                    (* invalidate; None = flush (null) *)

(** errors a Receive can return / a pipe can latch *)
Inductive perr := EClosing | EConn | ECtx | ERedisErr.

Definition perr_eqb (a b : perr) : bool :=
  match a, b with EClosing, EClosing | EConn, EConn | ECtx, ECtx | ERedisErr, ERedisErr => true | _, _ => false end.

(** how a Receive left its loop / how its subscription was removed (bookkeeping for the statements only) *)
Inductive endkind := ByClose | ByCtx | ByCmdErr | Refused.
Inductive remkind := RemUnsub (c : bytes) | RemCleanup | RemCancel.

Inductive rstate :=
| RWait               (* registered in subs, its SUBSCRIBE command is in flight (p.Do has not returned) *)
| RLoop               (* in the receive loop *)
| RDone (ret : option perr) (how : endkind).   (* returned; None = nil *)

Record recv := mkRecv {
  rc_id : N;
  rc_kind : kind;
  rc_cs : list bytes;          (* channels / patterns of the command *)
  rc_ctx : bool;               (* ctx.Done() != nil *)
  rc_state : rstate;
  rc_reg : bool;               (* still in subs.sub (not yet removed) *)
  rc_open : bool;              (* its channel is not closed *)
  rc_drain : bool;             (* the drain goroutine of cancel() is running *)
  rc_buf : list msg;           (* channel contents, oldest first (capacity 16) *)
  rc_got : list msg;           (* messages passed to fn, in order *)
  rc_from : nat;               (* number of message frames the reader had handled when it registered *)
  rc_to : option nat;          (* … when it was removed *)
  rc_by : option remkind       (* what removed it *)
}.

Definition chan_cap : nat := 16.

Record hook := mkHook {
  hk_id : N;
  hk_inval : bool;             (* carries an invalidation callback *)
  hk_err : list perr;          (* errors sent on its channel *)
  hk_closed : nat;             (* number of close() calls on its channel *)
  hk_from : nat;               (* number of frames the reader had handled when it was installed *)
  hk_to : option (nat * bool)  (* … when it was swapped out, and whether that was the clean-up *)
}.

Record state := mkState {
  (* client: subs *)
  st_live : kind -> bool;              (* subs.chs != nil *)
  st_recvs : list recv;
  st_pend : list (kind * N * msg);     (* the reader is inside Publish: sends still to do *)
  st_hist : list (kind * msg);         (* message frames the reader has handled, oldest first *)
  st_perr : option perr;               (* p.error *)
  st_cleaned : bool;                   (* the clean-up of _background ran *)
  (* client: hooks and invalidation callbacks *)
  st_cur : option N;                   (* installed pshks (hook id); None = emptypshks *)
  st_hooks : list hook;                (* every hook ever installed *)
  st_onmsg : list (N * msg);           (* OnMessage calls: (hook id, message) *)
  st_hinval : list (N * option (list bytes));   (* hook invalidation callbacks *)
  st_oninval : bool;                   (* ClientOption.OnInvalidations set *)
  st_cb : list (option (list bytes));  (* its calls *)
  st_check : list N;                   (* SetPubSubHooks callers between the Swap and the p.Error() check *)
  st_panic : bool;
  (* server side of the connection *)
  st_ssub : kind -> list bytes;        (* subscribed channels / patterns *)
  st_wire : list frame;                (* frames sent, not yet handled by the reader *)
  st_handled : list frame;             (* frames the reader handled *)
  st_publog : list (bool * bytes * bytes)   (* server publish log: (sharded?, channel, body) *)
}.

(** pattern matching is Redis' glob; nothing about it matters here, the model takes it as a parameter *)
Definition pmatch_t := bytes -> bytes -> bool.

Inductive label :=
(* Receive caller r *)
| LSubscribe (r : N) (k : kind) (cs : list bytes) (ctx : bool)   (* sb.Subscribe(args, hook) *)
| LCmdErr (r : N) (e : perr)         (* p.Do(subscribe) returned an error *)
| LRecv (r : N)                      (* msg := <-ch; fn(msg) *)
| LEnd (r : N)                       (* <-ch reports closed *)
| LCtx (r : N)                       (* <-ctx.Done() chosen *)
| LRemove (r : N)                    (* the locked part of cancel(): s.remove(id) *)
(* reader goroutine *)
| LPush                              (* read the next frame and run handlePush *)
| LSend                              (* sb.ch <- msg for the next subscriber of the current Publish *)
| LSetErr (e : perr)                 (* p.error.CompareAndSwap(nil, e): Close(), _exit *)
| LCleanup                           (* the clean-up of _background *)
(* SetPubSubHooks *)
| LSetHooks (h : N) (inval : bool)   (* Swap(&pshks{hooks, ch}) and close of the old channel *)
| LClearHooks                        (* SetPubSubHooks(PubSubHooks{}) *)
| LCheckHooks (h : N)                (* the p.Error() check after the Swap *)
(* server *)
| LSrvSub (r : N) (k : kind) (cs : list bytes)     (* executes the (P|S)SUBSCRIBE sent by Receive r (or by a plain Do: r unused) *)
| LSrvUnsub (k : kind) (cs : list bytes)           (* executes (P|S)UNSUBSCRIBE cs *)
| LSrvPublish (sharded : bool) (c body : bytes)
| LSrvInval (keys : option (list bytes)).

(** ---- helpers ---- *)
Definition upd_recv (f : recv -> recv) (id : N) (l : list recv) : list recv :=
  map (fun r => if N.eqb (rc_id r) id then f r else r) l.

Fixpoint find_recv (id : N) (l : list recv) : option recv :=
  match l with
  | [] => None
  | r :: rest => if N.eqb (rc_id r) id then Some r else find_recv id rest
  end.

Definition set_state (s : rstate) (r : recv) : recv :=
  mkRecv (rc_id r) (rc_kind r) (rc_cs r) (rc_ctx r) s (rc_reg r) (rc_open r) (rc_drain r) (rc_buf r) (rc_got r) (rc_from r) (rc_to r) (rc_by r).
Definition set_buf (b : list msg) (r : recv) : recv :=
  mkRecv (rc_id r) (rc_kind r) (rc_cs r) (rc_ctx r) (rc_state r) (rc_reg r) (rc_open r) (rc_drain r) b (rc_got r) (rc_from r) (rc_to r) (rc_by r).
Definition take_msg (r : recv) : recv :=
  match rc_buf r with
  | m :: b => mkRecv (rc_id r) (rc_kind r) (rc_cs r) (rc_ctx r) (rc_state r) (rc_reg r) (rc_open r) (rc_drain r) b (rc_got r ++ [m]) (rc_from r) (rc_to r) (rc_by r)
  | [] => r
  end.
(** s.remove(id): out of subs, channel closed *)
Definition removed (at_ : nat) (by_ : remkind) (r : recv) : recv :=
  mkRecv (rc_id r) (rc_kind r) (rc_cs r) (rc_ctx r) (rc_state r) false false (rc_drain r) (rc_buf r) (rc_got r) (rc_from r) (Some at_) (Some by_).
(** the caller left the loop: cancel() starts the drain goroutine *)
Definition finished (ret : option perr) (how : endkind) (r : recv) : recv :=
  mkRecv (rc_id r) (rc_kind r) (rc_cs r) (rc_ctx r) (RDone ret how) (rc_reg r) (rc_open r) true [] (rc_got r) (rc_from r) (rc_to r) (rc_by r).

Definition with_recvs (s : state) (l : list recv) : state :=
  mkState (st_live s) l (st_pend s) (st_hist s) (st_perr s) (st_cleaned s) (st_cur s) (st_hooks s) (st_onmsg s) (st_hinval s)
          (st_oninval s) (st_cb s) (st_check s) (st_panic s) (st_ssub s) (st_wire s) (st_handled s) (st_publog s).
Definition with_pend (s : state) (p : list (kind * N * msg)) : state :=
  mkState (st_live s) (st_recvs s) p (st_hist s) (st_perr s) (st_cleaned s) (st_cur s) (st_hooks s) (st_onmsg s) (st_hinval s)
          (st_oninval s) (st_cb s) (st_check s) (st_panic s) (st_ssub s) (st_wire s) (st_handled s) (st_publog s).

Definition pend_for (k : kind) (p : list (kind * N * msg)) : bool :=
  existsb (fun x => kind_eqb (fst (fst x)) k) p.

(** subscribers of key [c] in subs [k]: registered receivers of that kind whose command names [c] *)
Definition subscribers (k : kind) (c : bytes) (l : list recv) : list recv :=
  filter (fun r => kind_eqb (rc_kind r) k && rc_reg r && mem_bytes c (rc_cs r)) l.

Definition matches (r : recv) (km : kind * msg) : bool :=
  kind_eqb (rc_kind r) (fst km) && mem_bytes (msg_key (fst km) (snd km)) (rc_cs r).

(** hooks *)
Definition upd_hook (f : hook -> hook) (id : N) (l : list hook) : list hook :=
  map (fun h => if N.eqb (hk_id h) id then f h else h) l.
Fixpoint find_hook (id : N) (l : list hook) : option hook :=
  match l with
  | [] => None
  | h :: rest => if N.eqb (hk_id h) id then Some h else find_hook id rest
  end.
Definition hook_close (at_ : nat) (cleanup : bool) (h : hook) : hook :=
  mkHook (hk_id h) (hk_inval h) (hk_err h) (S (hk_closed h)) (hk_from h) (Some (at_, cleanup)).
Definition hook_send (e : perr) (h : hook) : hook := mkHook (hk_id h) (hk_inval h) (hk_err h ++ [e]) (hk_closed h) (hk_from h) (hk_to h).

(** close(old.close), optionally after old.close <- err; panics (Go) when the channel is already closed *)
Definition retire (send : option perr) (cleanup : bool) (id : N) (s : state) : state :=
  let bad := match find_hook id (st_hooks s) with
             | Some h => negb (hk_closed h =? 0)%nat
             | None => true
             end in
  let hs := upd_hook (fun h => hook_close (length (st_handled s)) cleanup (match send with Some e => hook_send e h | None => h end)) id (st_hooks s) in
  mkState (st_live s) (st_recvs s) (st_pend s) (st_hist s) (st_perr s) (st_cleaned s) (st_cur s) hs (st_onmsg s) (st_hinval s)
          (st_oninval s) (st_cb s) (st_check s) (st_panic s || bad) (st_ssub s) (st_wire s) (st_handled s) (st_publog s).

Definition set_cur (c : option N) (s : state) : state :=
  mkState (st_live s) (st_recvs s) (st_pend s) (st_hist s) (st_perr s) (st_cleaned s) c (st_hooks s) (st_onmsg s) (st_hinval s)
          (st_oninval s) (st_cb s) (st_check s) (st_panic s) (st_ssub s) (st_wire s) (st_handled s) (st_publog s).

Definition cur_hook (s : state) : option hook :=
  match st_cur s with Some id => find_hook id (st_hooks s) | None => None end.

(** the server's fan-out of one PUBLISH / SPUBLISH on this connection *)
Definition fanout (pm : pmatch_t) (s : state) (sharded : bool) (c body : bytes) : list frame :=
  if sharded then (if mem_bytes c (st_ssub s KS) then [FMsg KS (mkMsg [] c body)] else [])
  else (if mem_bytes c (st_ssub s KN) then [FMsg KN (mkMsg [] c body)] else []) ++
       map (fun p => FMsg KP (mkMsg p c body)) (filter (fun p => pm p c) (st_ssub s KP)).

Fixpoint remove_bytes (c : bytes) (l : list bytes) : list bytes :=
  match l with
  | [] => []
  | x :: r => if bytes_eqb x c then remove_bytes c r else x :: remove_bytes c r
  end.

(** the subscription sets are kept in byte order: the (fake) server fans a PUBLISH out to the patterns in that order *)
Fixpoint bytes_ltb (a b : bytes) : bool :=
  match a, b with
  | [], [] => false
  | [], _ :: _ => true
  | _ :: _, [] => false
  | x :: a', y :: b' => if N.ltb x y then true else if N.ltb y x then false else bytes_ltb a' b'
  end.

Fixpoint insert_bytes (c : bytes) (l : list bytes) : list bytes :=
  match l with
  | [] => [c]
  | x :: r => if bytes_ltb c x then c :: l else x :: insert_bytes c r
  end.

Definition add_bytes (c : bytes) (l : list bytes) : list bytes := if mem_bytes c l then l else insert_bytes c l.

Definition set_ssub (s : state) (k : kind) (l : list bytes) : kind -> list bytes :=
  fun k' => if kind_eqb k' k then l else st_ssub s k'.

Definition srv (s : state) (ssub : kind -> list bytes) (frames : list frame) (plog : list (bool * bytes * bytes)) : state :=
  mkState (st_live s) (st_recvs s) (st_pend s) (st_hist s) (st_perr s) (st_cleaned s) (st_cur s) (st_hooks s) (st_onmsg s) (st_hinval s)
          (st_oninval s) (st_cb s) (st_check s) (st_panic s) ssub (st_wire s ++ frames) (st_handled s) (st_publog s ++ plog).

(** confirmation pushes of one (P|S)SUBSCRIBE executed for receiver [r]: only the first answers the command *)
Fixpoint confirms (k : kind) (r : N) (first : bool) (cs : list bytes) : list frame :=
  match cs with
  | [] => []
  | c :: rest => FConfirm k c (if first then Some r else None) :: confirms k r false rest
  end.

(** ---- handlePush ---- *)
Definition handle_push (s : state) (f : frame) : state :=
  let s := mkState (st_live s) (st_recvs s) (st_pend s) (st_hist s) (st_perr s) (st_cleaned s) (st_cur s) (st_hooks s) (st_onmsg s)
                   (st_hinval s) (st_oninval s) (st_cb s) (st_check s) (st_panic s) (st_ssub s) (st_wire s) (st_handled s ++ [f]) (st_publog s) in
  match f with
  | FMsg k m =>
    (* subs.Publish: one send per subscriber (under the read lock), then the OnMessage hook *)
    let targets := map (fun r => (k, rc_id r, m)) (subscribers k (msg_key k m) (st_recvs s)) in
    let onmsg := match st_cur s with Some id => st_onmsg s ++ [(id, m)] | None => st_onmsg s end in
    mkState (st_live s) (st_recvs s) (st_pend s ++ targets) (st_hist s ++ [(k, m)]) (st_perr s) (st_cleaned s) (st_cur s) (st_hooks s) onmsg
            (st_hinval s) (st_oninval s) (st_cb s) (st_check s) (st_panic s) (st_ssub s) (st_wire s) (st_handled s) (st_publog s)
  | FConfirm k c ans =>
    (* subs.Confirm calls the subscription hooks (not modelled); the first confirmation answers the command *)
    match ans with
    | Some r => with_recvs s (upd_recv (fun x => match rc_state x with RWait => set_state RLoop x | _ => x end) r (st_recvs s))
    | None => s
    end
  | FUnsub k c =>
    (* subs.Unsubscribe: every subscriber of c is removed and its channel closed *)
    let n := length (st_hist s) in
    with_recvs s (map (fun r => if kind_eqb (rc_kind r) k && rc_reg r && mem_bytes c (rc_cs r) then removed n (RemUnsub c) r else r) (st_recvs s))
  | FInval keys =>
    let cb := if st_oninval s then st_cb s ++ [keys] else st_cb s in
    let hi := match cur_hook s with
              | Some h => if hk_inval h then st_hinval s ++ [(hk_id h, keys)] else st_hinval s
              | None => st_hinval s
              end in
    mkState (st_live s) (st_recvs s) (st_pend s) (st_hist s) (st_perr s) (st_cleaned s) (st_cur s) (st_hooks s) (st_onmsg s)
            hi (st_oninval s) cb (st_check s) (st_panic s) (st_ssub s) (st_wire s) (st_handled s) (st_publog s)
  end.

(** ---- the transition function ---- *)
Definition step (pm : pmatch_t) (s : state) (l : label) : option state :=
  match l with
  | LSubscribe r k cs ctx =>
    (* needs the subs write lock: not while the reader is inside Publish of that kind *)
    if pend_for k (st_pend s) then None
    else match find_recv r (st_recvs s) with
         | Some _ => None                                   (* ids are fresh *)
         | None =>
           if st_live s k then
             Some (with_recvs s (st_recvs s ++ [mkRecv r k cs ctx RWait true true false [] [] (length (st_hist s)) None None]))
           else
             (* subs already closed: ch == nil, Receive returns p.Error() at once *)
             Some (with_recvs s (st_recvs s ++ [mkRecv r k cs ctx (RDone (st_perr s) Refused) false false false [] [] (length (st_hist s)) (Some (length (st_hist s))) None]))
         end
  | LCmdErr r e =>
    match find_recv r (st_recvs s) with
    | Some x => match rc_state x with
                | RWait => Some (with_recvs s (upd_recv (finished (Some e) ByCmdErr) r (st_recvs s)))
                | _ => None
                end
    | None => None
    end
  | LRecv r =>
    match find_recv r (st_recvs s) with
    | Some x => match rc_state x, rc_buf x with
                | RLoop, _ :: _ => Some (with_recvs s (upd_recv take_msg r (st_recvs s)))
                | RWait, _ :: _ => Some (with_recvs s (upd_recv take_msg r (st_recvs s)))   (* the channel is consumed while waiting for the reply, too *)
                | _, _ => None
                end
    | None => None
    end
  | LEnd r =>
    match find_recv r (st_recvs s) with
    | Some x => match rc_state x, rc_buf x with
                | RLoop, [] => if rc_open x then None
                               else Some (with_recvs s (upd_recv (finished (st_perr s) ByClose) r (st_recvs s)))   (* err = p.Error() *)
                | _, _ => None
                end
    | None => None
    end
  | LCtx r =>
    match find_recv r (st_recvs s) with
    | Some x => match rc_state x with
                | RLoop => if rc_ctx x then Some (with_recvs s (upd_recv (finished (Some ECtx) ByCtx) r (st_recvs s))) else None
                | _ => None
                end
    | None => None
    end
  | LRemove r =>
    match find_recv r (st_recvs s) with
    | Some x => match rc_state x with
                | RDone _ _ =>
                  if pend_for (rc_kind x) (st_pend s) then None
                  else if rc_reg x then Some (with_recvs s (upd_recv (removed (length (st_hist s)) RemCancel) r (st_recvs s)))
                  else Some s
                | _ => None
                end
    | None => None
    end
  | LPush =>
    match st_pend s, st_wire s with
    | [], f :: w =>
      if st_cleaned s then None
      else
        let s' := mkState (st_live s) (st_recvs s) (st_pend s) (st_hist s) (st_perr s) (st_cleaned s) (st_cur s) (st_hooks s) (st_onmsg s)
                          (st_hinval s) (st_oninval s) (st_cb s) (st_check s) (st_panic s) (st_ssub s) w (st_handled s) (st_publog s) in
        Some (handle_push s' f)
    | _, _ => None
    end
  | LSend =>
    match st_pend s with
    | (k, r, m) :: rest =>
      match find_recv r (st_recvs s) with
      | Some x =>
        if rc_drain x then Some (with_pend s rest)                              (* the drain goroutine takes it *)
        else if (length (rc_buf x) <? chan_cap)%nat
             then Some (with_pend (with_recvs s (upd_recv (fun y => set_buf (rc_buf y ++ [m]) y) r (st_recvs s))) rest)
             else None                                                          (* channel full: the reader blocks *)
      | None => None
      end
    | [] => None
    end
  | LSetErr e =>
    Some (mkState (st_live s) (st_recvs s) (st_pend s) (st_hist s) (match st_perr s with None => Some e | x => x end) (st_cleaned s)
                  (st_cur s) (st_hooks s) (st_onmsg s) (st_hinval s) (st_oninval s) (st_cb s) (st_check s) (st_panic s)
                  (st_ssub s) (st_wire s) (st_handled s) (st_publog s))
  | LCleanup =>
    (* after _backgroundRead returned: p.Error() is set, the reader is not inside Publish *)
    match st_perr s, st_pend s with
    | Some e, [] =>
      if st_cleaned s then None
      else
        let n := length (st_hist s) in
        let rs := map (fun r => if rc_reg r then removed n RemCleanup r else r) (st_recvs s) in
        let s1 := mkState (fun _ => false) rs [] (st_hist s) (st_perr s) true None (st_hooks s) (st_onmsg s)
                          (match cur_hook s with
                           | Some h => if hk_inval h then st_hinval s ++ [(hk_id h, None)] else st_hinval s
                           | None => st_hinval s
                           end)
                          (st_oninval s) (if st_oninval s then st_cb s ++ [None] else st_cb s) (st_check s) (st_panic s)
                          (st_ssub s) (st_wire s) (st_handled s) (st_publog s) in
        Some (match st_cur s with Some id => retire (Some e) true id s1 | None => s1 end)
    | _, _ => None
    end
  | LSetHooks h inval =>
    match find_hook h (st_hooks s) with
    | Some _ => None
    | None =>
      let s1 := mkState (st_live s) (st_recvs s) (st_pend s) (st_hist s) (st_perr s) (st_cleaned s) (Some h)
                        (st_hooks s ++ [mkHook h inval [] 0 (length (st_handled s)) None]) (st_onmsg s) (st_hinval s) (st_oninval s) (st_cb s) (st_check s ++ [h])
                        (st_panic s) (st_ssub s) (st_wire s) (st_handled s) (st_publog s) in
      Some (match st_cur s with Some old => retire None false old s1 | None => s1 end)
    end
  | LClearHooks =>
    Some (match st_cur s with Some old => retire None false old (set_cur None s) | None => s end)
  | LCheckHooks h =>
    if existsb (N.eqb h) (st_check s) then
      let s1 := mkState (st_live s) (st_recvs s) (st_pend s) (st_hist s) (st_perr s) (st_cleaned s) (st_cur s) (st_hooks s) (st_onmsg s)
                        (st_hinval s) (st_oninval s) (st_cb s) (filter (fun x => negb (N.eqb h x)) (st_check s)) (st_panic s)
                        (st_ssub s) (st_wire s) (st_handled s) (st_publog s) in
      match st_perr s1 with
      | Some e => Some (match st_cur s1 with Some old => retire (Some e) false old (set_cur None s1) | None => s1 end)
      | None => Some s1
      end
    else None
  | LSrvSub r k cs =>
    (* whatever became of the caller meanwhile, the server executes the command it received *)
    Some (srv s (set_ssub s k (fold_left (fun acc c => add_bytes c acc) cs (st_ssub s k))) (confirms k r true cs) [])
  | LSrvUnsub k cs =>
    Some (srv s (set_ssub s k (fold_left (fun acc c => remove_bytes c acc) cs (st_ssub s k))) (map (FUnsub k) cs) [])
  | LSrvPublish sharded c body =>
    Some (srv s (st_ssub s) (fanout pm s sharded c body) [(sharded, c, body)])
  | LSrvInval keys =>
    Some (srv s (st_ssub s) [FInval keys] [])
  end.

Definition init (oninval : bool) : state :=
  mkState (fun _ => true) [] [] [] None false None [] [] [] oninval [] [] false (fun _ => []) [] [] [].

(** run a schedule; None = some action was not enabled *)
Fixpoint run (pm : pmatch_t) (s : state) (ls : list label) : option state :=
  match ls with
  | [] => Some s
  | l :: rest => match step pm s l with Some s' => run pm s' rest | None => None end
  end.


(** ---- specification-level functions used by the theorems ---- *)
(** messages still to be sent to receiver [id] by the Publish in progress *)
Definition pend_msgs (id : N) (p : list (kind * N * msg)) : list msg :=
  map (fun x => snd x) (filter (fun x => N.eqb (snd (fst x)) id) p).

(** the messages among [h] that are for receiver [r] (its kind, one of its channels / patterns) *)
Definition fmsgs (r : recv) (h : list (kind * msg)) : list msg := map snd (filter (matches r) h).

(** the message frames the reader handled while [r] was registered *)
Definition window (h : list (kind * msg)) (r : recv) : list (kind * msg) :=
  match rc_to r with
  | Some t => firstn (t - rc_from r) (skipn (rc_from r) h)
  | None => skipn (rc_from r) h
  end.

Definition invals (fs : list frame) : list (option (list bytes)) :=
  flat_map (fun f => match f with FInval k => [k] | _ => [] end) fs.

Definition msgs_of (fs : list frame) : list (kind * msg) :=
  flat_map (fun f => match f with FMsg k m => [(k, m)] | _ => [] end) fs.

(** frames [from, to) *)
Definition slice {A} (l : list A) (from to : nat) : list A := firstn (to - from) (skipn from l).

(** what ClientOption.OnInvalidations must have been called with *)
Definition cb_spec (s : state) : list (option (list bytes)) :=
  if st_oninval s then invals (st_handled s) ++ (if st_cleaned s then [None] else []) else [].

(** what the invalidation callback of hook [h] must have been called with *)
Definition hook_inval_spec (s : state) (h : hook) : list (option (list bytes)) :=
  if hk_inval h then
    match hk_to h with
    | Some (t, cleanup) => invals (slice (st_handled s) (hk_from h) t) ++ (if cleanup then [None] else [])
    | None => invals (slice (st_handled s) (hk_from h) (length (st_handled s)))
    end
  else [].

Definition hook_inval_log (s : state) (id : N) : list (option (list bytes)) :=
  map snd (filter (fun x => N.eqb (fst x) id) (st_hinval s)).

(** ---- a canonical schedule for the correspondence run ----
    The observer performs its operations one after the other and waits for quiescence after each
    (every frame handled, every buffered message consumed); [settle] is that quiescence. *)
Definition try_recvs (pm : pmatch_t) (s : state) : option state :=
  (fix go (l : list recv) : option state :=
     match l with
     | [] => None
     | r :: rest =>
       match step pm s (LRecv (rc_id r)) with
       | Some s' => Some s'
       | None =>
         match step pm s (LEnd (rc_id r)) with
         | Some s' => Some s'
         | None =>
           match rc_state r with
           | RDone _ _ => if rc_reg r then
                          match step pm s (LRemove (rc_id r)) with Some s' => Some s' | None => go rest end
                        else go rest
           | _ => go rest
           end
         end
       end
     end) (st_recvs s).

Definition settle_step (pm : pmatch_t) (s : state) : option state :=
  match step pm s LSend with
  | Some s' => Some s'
  | None =>
    match try_recvs pm s with
    | Some s' => Some s'
    | None => step pm s LPush
    end
  end.

Fixpoint settle (pm : pmatch_t) (fuel : nat) (s : state) : state :=
  match fuel with
  | O => s
  | S f => match settle_step pm s with Some s' => settle pm f s' | None => s end
  end.

Inductive op :=
| OStart (r : N) (k : kind) (cs : list bytes) (ctx : bool)   (* start a Receive, wait until it is subscribed *)
| OSubCmd (k : kind) (cs : list bytes)                       (* a plain Do((P|S)SUBSCRIBE cs), e.g. on a dedicated client with hooks *)
| OPublish (sharded : bool) (c body : bytes)                 (* another connection publishes *)
| OUnsub (k : kind) (cs : list bytes)                        (* the client sends (P|S)UNSUBSCRIBE cs *)
| OCancel (r : N)                                            (* cancel r's context *)
| OInval (keys : option (list bytes))                        (* the server sends an invalidation push *)
| OSetHooks (h : N) (inval : bool)
| OClearHooks
| OClose (e : perr).                                         (* Close() / the connection is lost *)

Definition op_labels (o : op) : list label :=
  match o with
  | OStart r k cs ctx => [LSubscribe r k cs ctx; LSrvSub r k cs]
  | OSubCmd k cs => [LSrvSub 0 k cs]
  | OPublish sh c b => [LSrvPublish sh c b]
  | OUnsub k cs => [LSrvUnsub k cs]
  | OCancel r => [LCtx r; LRemove r]
  | OInval keys => [LSrvInval keys]
  | OSetHooks h i => [LSetHooks h i; LCheckHooks h]
  | OClearHooks => [LClearHooks]
  | OClose e => [LSetErr e; LCleanup]
  end.

(** labels that are not enabled are skipped (e.g. cancelling a Receive that has already returned) *)
Fixpoint run_skip (pm : pmatch_t) (s : state) (ls : list label) : state :=
  match ls with
  | [] => s
  | l :: rest => run_skip pm (match step pm s l with Some s' => s' | None => s end) rest
  end.

Definition fuel_of (s : state) : nat :=
  (4 * (length (st_wire s) + length (st_pend s) + length (st_recvs s) + 1) * (length (st_recvs s) + 2) + 64)%nat.

(** OClose: the frames still on the wire are lost with the connection, so settle first *)
Fixpoint drive (pm : pmatch_t) (s : state) (ops : list op) : state :=
  match ops with
  | [] => s
  | o :: rest =>
    let s1 := run_skip pm s (op_labels o) in
    drive pm (settle pm (fuel_of s1) s1) rest
  end.

(** the glob subset the observer uses: a trailing '*' is a prefix match, anything else is literal *)
Fixpoint is_prefix (p c : bytes) : bool :=
  match p, c with
  | [], _ => true
  | x :: p', y :: c' => N.eqb x y && is_prefix p' c'
  | _ :: _, [] => false
  end.

Definition pm_simple (p c : bytes) : bool :=
  match rev p with
  | 42 :: rp => is_prefix (rev rp) c
  | _ => bytes_eqb p c
  end.


(** ---- vocabulary of the observers (identifiers instead of literals in generated cases) ---- *)

Definition k_a : bytes := bs "a"%string.
Definition k_b : bytes := bs "b"%string.
Definition k_c : bytes := bs "c"%string.
Definition k_ab : bytes := bs "ab"%string.
Definition k_abc : bytes := bs "abc"%string.
Definition k_zz : bytes := bs "zz"%string.
Definition k_a_2a : bytes := bs "a*"%string.
Definition k_b_2a : bytes := bs "b*"%string.
Definition k_ab_2a : bytes := bs "ab*"%string.
Definition k_sync : bytes := bs "sync"%string.
Definition k_sync_2a : bytes := bs "sync*"%string.
Definition k_nosuch : bytes := bs "nosuch"%string.
Definition k_nosuch_2a : bytes := bs "nosuch*"%string.
Definition k_ : bytes := bs ""%string.
Definition k_u1 : bytes := bs "u1"%string.
Definition k_u2 : bytes := bs "u2"%string.
Definition k_u3 : bytes := bs "u3"%string.
Definition k_u4 : bytes := bs "u4"%string.
Definition k_u5 : bytes := bs "u5"%string.
Definition k_u1_2a : bytes := bs "u1*"%string.
Definition k_u2_2a : bytes := bs "u2*"%string.
Definition k_u3_2a : bytes := bs "u3*"%string.
Definition k_u4_2a : bytes := bs "u4*"%string.
Definition k_u5_2a : bytes := bs "u5*"%string.
Definition k_u101 : bytes := bs "u101"%string.
Definition k_u102_2a : bytes := bs "u102*"%string.
Definition k_u103 : bytes := bs "u103"%string.

(** ---- correspondence cases ---- *)
Record seen_recv := mkSeenRecv {
  sr_id : N;
  sr_got : list msg;
  sr_ret : option (option perr)     (* None: still running when the case ended *)
}.

Definition ret_eqb (a b : option perr) : bool := option_eqb perr_eqb a b.

Definition check_recv (s : state) (v : seen_recv) : bool :=
  match find_recv (sr_id v) (st_recvs s) with
  | Some r =>
    list_eqb msg_eqb (rc_got r) (sr_got v) &&
    match rc_state r, sr_ret v with
    | RDone ret _, Some ret' => ret_eqb ret ret'
    | RDone _ _, None => false
    | _, None => true
    | _, Some _ => false
    end
  | None => false
  end.

Definition inval_eqb (a b : option (list bytes)) : bool := option_eqb (list_eqb bytes_eqb) a b.

Record seen_hook := mkSeenHook {
  sh_id : N;
  sh_errs : list perr;       (* what was received from the channel SetPubSubHooks returned *)
  sh_closed : bool;          (* … and whether it was closed *)
  sh_inval : list (option (list bytes));    (* arguments of its invalidation callback *)
  sh_msgs : list msg         (* arguments of its OnMessage *)
}.

Definition check_hook (s : state) (v : seen_hook) : bool :=
  match find_hook (sh_id v) (st_hooks s) with
  | Some h =>
    list_eqb perr_eqb (hk_err h) (sh_errs v) &&
    Bool.eqb (negb (hk_closed h =? 0)%nat) (sh_closed v) &&
    list_eqb inval_eqb (map snd (filter (fun x => N.eqb (fst x) (sh_id v)) (st_hinval s))) (sh_inval v) &&
    list_eqb msg_eqb (map snd (filter (fun x => N.eqb (fst x) (sh_id v)) (st_onmsg s))) (sh_msgs v)
  | None => false
  end.

Inductive case :=
| CPubSub (ops : list op) (recvs : list seen_recv)                       (* C26: obs_pubsub *)
| CInval (oninval : bool) (ops : list op) (cb : list (option (list bytes))) (hooks : list seen_hook).   (* C27 / hook channel: obs_inval *)

Definition check_case (c : case) : bool :=
  match c with
  | CPubSub ops recvs =>
    let s := drive pm_simple (init false) ops in
    negb (st_panic s) && forallb (check_recv s) recvs && (length recvs =? length (st_recvs s))%nat
  | CInval oninval ops cb hooks =>
    let s := drive pm_simple (init oninval) ops in
    negb (st_panic s) && list_eqb inval_eqb (st_cb s) cb && forallb (check_hook s) hooks &&
    (length hooks =? length (st_hooks s))%nat
  end.
