(** C32: abstract interpretation of builder paths — which (command, builder type, flag word,
    "a literal BLOCK token was appended") combinations are reachable — and the comparison of the flags at
    every completion point with the hand-written classification Model/RedisCmds.v.  Definitions only. *)
From Coq Require Import List NArith Bool String Ascii.
Require Import RV.Model.Base RV.Model.BuilderGraph RV.Model.BuilderSem RV.Model.BuilderChecks RV.Model.RedisCmds.
Import ListNotations.
Open Scope N_scope.

(** * Abstract states *)

Record astate := ASt { a_root : N; a_node : N; a_cf : N; a_blk : bool }.

Definition astate_eqb (x y : astate) : bool :=
  (a_root x =? a_root y) && (a_node x =? a_node y) && (a_cf x =? a_cf y) && Bool.eqb (a_blk x) (a_blk y).

Definition BLOCK : N := 0x01424c4f434b.

Definition edge_blk (e : edge) : bool :=
  existsb (fun it => match it with IT t => t =? BLOCK | _ => false end) (e_items e).

Definition astep (s : astate) (e : edge) : astate :=
  ASt (a_root s) (e_tgt e) (N.lor (a_cf s) (e_cf e)) (a_blk s || edge_blk e).

Definition ainit (i : N) (r : root) : astate := ASt i (r_node r) (r_cf r) false.

(** sets of abstract states, bucketed by builder type: position n holds the states of node n *)
Definition aset := list (list astate).

Definition smem (s : astate) (m : aset) : bool :=
  match nth_error m (N.to_nat (a_node s)) with
  | Some l => existsb (astate_eqb s) l
  | None => false
  end.

Fixpoint update_nth {A : Type} (n : nat) (f : A -> A) (l : list A) : list A :=
  match l, n with
  | [], _ => []
  | x :: r, O => f x :: r
  | x :: r, S k => x :: update_nth k f r
  end.

Definition sadd (s : astate) (m : aset) : aset := update_nth (N.to_nat (a_node s)) (cons s) m.

(** one worklist step *)
Definition bfs_step (g : graph) (st : list astate * aset) : list astate * aset :=
  match st with
  | ([], _) => st
  | (s :: w, seen) =>
    if smem s seen then (w, seen)
    else match get_node g (a_node s) with
         | Some nd => (map (astep s) (n_edges nd) ++ w, sadd s seen)
         | None => (w, seen)
         end
  end.

Fixpoint indexed {A : Type} (i : N) (l : list A) : list (N * A) :=
  match l with [] => [] | x :: r => (i, x) :: indexed (i + 1) r end.

(** the reachable abstract states (the iteration bound only has to be large enough; the result is
    validated by [closedb] whatever it is) *)
Definition closure (g : graph) : aset :=
  snd (N.iter 400000 (bfs_step g)
         (map (fun ir => ainit (fst ir) (snd ir)) (indexed 0 (g_roots g)), map (fun _ => []) (g_nodes g))).

(** closed: contains every root state and is stable under every edge *)
Definition closedb (g : graph) (m : aset) : bool :=
  forallb (fun ir => smem (ainit (fst ir) (snd ir)) m) (indexed 0 (g_roots g))
  && forallb (fun l => forallb (fun s =>
        match get_node g (a_node s) with
        | Some nd => forallb (fun e => smem (astep s e) m) (n_edges nd)
        | None => false
        end) l) m.

(** abstract run along a resolved path *)
Definition arun (s : astate) (tr : list (edge * list arg)) : astate := fold_left (fun s c => astep s (fst c)) tr s.

(** * Specification lookups *)

Fixpoint bytes_of_string (s : string) : bytes :=
  match s with
  | EmptyString => []
  | String a r => N_of_ascii a :: bytes_of_string r
  end.

Definition spec_bytes (l : list string) : list bytes := map bytes_of_string l.
Definition in_list (l : list bytes) (cmd : bytes) : bool := existsb (bytes_eqb cmd) l.
Definition in_spec (l : list string) (cmd : bytes) : bool := in_list (spec_bytes l) cmd.

(** the lists of Model/RedisCmds.v as byte strings (evaluated once) *)
Definition read_b : list bytes := Eval vm_compute in spec_bytes read_commands.
Definition blocking_b : list bytes := Eval vm_compute in spec_bytes blocking_commands.
Definition block_opt_b : list bytes := Eval vm_compute in spec_bytes block_option_commands.
Definition subscribe_b : list bytes := Eval vm_compute in spec_bytes subscribe_commands.
Definition unsubscribe_b : list bytes := Eval vm_compute in spec_bytes unsubscribe_commands.

Fixpoint join_sp (l : list bytes) : bytes :=
  match l with
  | [] => []
  | [x] => x
  | x :: r => x ++ 32 :: join_sp r
  end.

(** the command a root constructor starts: its tokens joined by spaces *)
Definition cmd_name (r : root) : bytes := join_sp (map unpack (r_toks r)).

(** * The five rules of the property at a completion point *)

Inductive rule := RReadonly | RCache | RBlocking | RSubscribe | RUnsubscribe.

Definition completes (nd : node) : bool := n_build nd || n_cache nd.

(** does the completed command (command [cmd], built on type [nd], flags [cf], BLOCK appended or not) obey the rule? *)
Definition rule_ok (tg : tagset) (rl : rule) (cmd : bytes) (nd : node) (cf : N) (blk : bool) : bool :=
  match rl with
  | RReadonly => implb (is_readonly tg cf) (in_list read_b cmd)
  | RCache => implb (n_cache nd) (is_readonly tg cf)
  | RBlocking => implb (in_list blocking_b cmd || (in_list block_opt_b cmd && blk)) (is_block tg cf)
  | RSubscribe => implb (in_list subscribe_b cmd) (no_reply tg cf)
  | RUnsubscribe => implb (in_list unsubscribe_b cmd) (is_unsub tg cf)
  end.

Definition state_ok (tg : tagset) (g : graph) (rl : rule) (s : astate) : bool :=
  match nth_error (g_roots g) (N.to_nat (a_root s)), get_node g (a_node s) with
  | Some r, Some nd => negb (completes nd) || rule_ok tg rl (cmd_name r) nd (a_cf s) (a_blk s)
  | _, _ => false
  end.

(** commands with a reachable completion point that breaks the rule *)
Fixpoint dedup_bytes (l : list bytes) : list bytes :=
  match l with
  | [] => []
  | x :: r => if existsb (bytes_eqb x) r then dedup_bytes r else x :: dedup_bytes r
  end.

Definition offenders (tg : tagset) (g : graph) (rl : rule) (m : aset) : list bytes :=
  dedup_bytes (flat_map (fun l => flat_map (fun s =>
      if state_ok tg g rl s then []
      else match nth_error (g_roots g) (N.to_nat (a_root s)) with Some r => [cmd_name r] | None => [[]] end) l) m).

(** every reachable completion point obeys the rule, except for the commands in [known] *)
Definition rule_holds_except (tg : tagset) (g : graph) (rl : rule) (known : list bytes) (m : aset) : bool :=
  forallb (fun l => forallb (fun s =>
      state_ok tg g rl s ||
      match nth_error (g_roots g) (N.to_nat (a_root s)) with
      | Some r => in_list known (cmd_name r)
      | None => false
      end) l) m.

(** predefined commands of cmds.go *)
Definition predef_ok (tg : tagset) (p : predef) : bool :=
  match map unpack (p_toks p) with
  | [] => false
  | c0 :: _ =>
    implb (in_list subscribe_b c0) (no_reply tg (p_cf p))
    && implb (in_list unsubscribe_b c0) (is_unsub tg (p_cf p))
    && implb (is_readonly tg (p_cf p)) (in_list read_b c0)
  end.

(** the tag constants have the bit structure the predicates rely on *)
Definition tags_ok (tg : tagset) : bool :=
  (N.land (t_readonly tg) (t_block tg) =? 0) && (N.land (t_noRet tg) (t_block tg) =? 0)
  && has_tag (t_noRet tg) (t_readonly tg) && has_tag (t_unsub tg) (t_noRet tg)
  && has_tag (t_mtGet tg) (t_readonly tg) && has_tag (t_scrRo tg) (t_readonly tg)
  && has_tag (t_readonly tg) (t_retryable tg) && has_tag (t_noRet tg) (t_pipe tg)
  && negb (t_block tg =? 0) && negb (t_readonly tg =? 0).
