(** Model of helper.go: PreferReplicaNodeSelector, AZAffinityNodeSelector (newAZSelector with
    startIdx = 1), AZAffinityReplicasAndPrimaryNodeSelector, pickAZ  (C22).

    A node list is the list of the nodes' AZ strings (index 0 is the primary).  The closure state of
    a selector is its [atomic.Uint32] counter, an [N] below 2^32; [counter.Add(1)] wraps modulo 2^32
    and so does the conversion [uint32(int)]: both are written out.  Indices returned are [Z]
    (Go [int]; -1 = "use the primary"). *)
From Coq Require Import List NArith ZArith Bool.
Require Import RV.Model.Base.
Import ListNotations.
Open Scope N_scope.

Definition two32 : N := 4294967296.

(** atomic.Uint32.Add(1): returns the new value *)
Definition incr32 (c : N) : N := (c + 1) mod two32.

(** uint32(x) for a Go int x (two's complement truncation) *)
Definition u32_of_int (x : Z) : N := Z.to_N (x mod Z.of_N two32).

(** uint8(i) *)
Definition u8_of_nat (i : nat) : N := N.of_nat i mod 256.

(** the loop of pickAZ:
<<
      for i := startIdx; i < limit; i++ {
        if nodes[i].AZ == clientAZ { matches[count] = uint8(i); count++; if count == 8 { break } }
      }
>>
    [l] is nodes[i:], [room] = 8 - count.  Returns the filled prefix of [matches]. *)
Fixpoint collect (client : bytes) (l : list bytes) (i limit room : nat) : list N :=
  match l with
  | [] => []
  | az :: r =>
    if (limit <=? i)%nat then []
    else if bytes_eqb az client then
      match room with
      | O => []
      | S O => [u8_of_nat i]
      | S room' => u8_of_nat i :: collect client r (S i) limit room'
      end
    else collect client r (S i) limit room
  end.

(** pickAZ(nodes, clientAZ, startIdx, counter): new counter value and index *)
Definition pick_az (client : bytes) (azs : list bytes) (start : nat) (counter : N) : N * Z :=
  let n := length azs in
  if (n <=? start)%nat then (counter, (-1)%Z)
  else
    let limit := Nat.min n 255 in
    let ms := collect client (skipn start azs) start limit 8 in
    let count := N.of_nat (length ms) in
    if count =? 0 then (counter, (-1)%Z)
    else
      let c := incr32 counter in
      let k := c mod count in
      (c, Z.of_N (nth (N.to_nat k) ms 0)).

(** round robin over nodes[1:]: [c := counter.Add(1); return int(c%(length-1)) + 1] *)
Definition any_replica (length32 : N) (counter : N) : N * Z :=
  let c := incr32 counter in (c, (Z.of_N (c mod (length32 - 1)) + 1)%Z).

(** PreferReplicaNodeSelector *)
Definition prefer_replica (azs : list bytes) (counter : N) : N * Z :=
  let length32 := u32_of_int (Z.of_nat (length azs)) in
  if 1 <? length32 then any_replica length32 counter else (counter, (-1)%Z).

(** newAZSelector(clientAZ, startIdx) after the repair (fix: guard the fallback by len(nodes) > startIdx):
<<
      if idx := pickAZ(nodes, clientAZ, startIdx, &counter); idx != -1 { return idx }
      if n := len(nodes); n > startIdx {
        c := counter.Add(1)
        return int(c%uint32(n-startIdx)) + startIdx
      }
      return -1
>> *)
Definition az_selector (start : nat) (client : bytes) (azs : list bytes) (counter : N) : N * Z :=
  let '(c1, idx) := pick_az client azs start counter in
  if negb (idx =? -1)%Z then (c1, idx)
  else
    let n := length azs in
    if (start <? n)%nat then
      let count := u32_of_int (Z.of_nat n - Z.of_nat start) in
      let c := incr32 c1 in
      (c, (Z.of_N (c mod count) + Z.of_nat start)%Z)
    else (c1, (-1)%Z).

(** the code before the repair: [if count := uint32(len(nodes) - startIdx); count > 0 { … }] —
    for an empty list and startIdx = 1 the conversion wraps to 2^32-1 *)
Definition az_selector_before_fix (start : nat) (client : bytes) (azs : list bytes) (counter : N) : N * Z :=
  let '(c1, idx) := pick_az client azs start counter in
  if negb (idx =? -1)%Z then (c1, idx)
  else
    let count := u32_of_int (Z.of_nat (length azs) - Z.of_nat start) in
    if 0 <? count then
      let c := incr32 c1 in
      (c, (Z.of_N (c mod count) + Z.of_nat start)%Z)
    else (c1, (-1)%Z).

(** AZAffinityNodeSelector *)
Definition az_affinity := az_selector 1.

(** AZAffinityReplicasAndPrimaryNodeSelector; [nodes[0]] is an unguarded index, hence [result] *)
Definition az_replicas_and_primary (client : bytes) (azs : list bytes) (counter : N) : result (N * Z) :=
  let '(c1, idx) := pick_az client azs 1 counter in
  if negb (idx =? -1)%Z then Ok (c1, idx)
  else
    let length32 := u32_of_int (Z.of_nat (length azs)) in
    let same_az_primary :=
      if 0 <? length32 then
        match azs with
        | [] => Panic
        | az0 :: _ => Ok (bytes_eqb az0 client)
        end
      else Ok false in
    match same_az_primary with
    | Panic => Panic
    | Err e => Err e
    | Ok true => Ok (c1, 0%Z)
    | Ok false =>
      if 1 <? length32 then Ok (any_replica length32 c1) else Ok (c1, (-1)%Z)
    end.

Inductive kind := KPrefer | KAz | KAzRP.

Definition select (k : kind) (client : bytes) (azs : list bytes) (counter : N) : result (N * Z) :=
  match k with
  | KPrefer => Ok (prefer_replica azs counter)
  | KAz => Ok (az_affinity client azs counter)
  | KAzRP => az_replicas_and_primary client azs counter
  end.

(** a sequence of calls on one selector closure (the counter starts at 0) *)
Fixpoint run_calls (k : kind) (client : bytes) (calls : list (list bytes)) (counter : N) : result (list Z) :=
  match calls with
  | [] => Ok []
  | azs :: rest =>
    match select k client azs counter with
    | Ok (c, r) =>
      match run_calls k client rest c with
      | Ok rs => Ok (r :: rs)
      | other => other
      end
    | Err e => Err e
    | Panic => Panic
    end
  end.

(** ---- correspondence cases (printed by harness/cmd/obs_selector) ---- *)
Inductive case :=
| CSel (k : kind) (client : bytes) (calls : list (list bytes)) (impl : result (list Z))
  (* the exported selector, fresh closure, called on each node list in turn *)
| CPick (client : bytes) (azs : list bytes) (start : nat) (counter : N) (impl_counter : N) (impl : result Z).
  (* pickAZ with a chosen counter value (hook export), to reach the wrap-around *)

Definition check_case (c : case) : bool :=
  match c with
  | CSel k client calls impl => result_eqb (list_eqb Z.eqb) (run_calls k client calls 0) impl
  | CPick client azs start counter ic impl =>
    let '(c', r) := pick_az client azs start counter in
    N.eqb c' ic && result_eqb Z.eqb (Ok r) impl
  end.
