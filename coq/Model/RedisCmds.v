(** Hand-written classification of Redis commands, used as the specification side of C32.

    Written from the Redis documentation / command tables (command flags READONLY, BLOCKING, PUBSUB and
    the command descriptions), NOT from hack/cmds/gen.go.  A command name is its tokens joined by one
    space ("OBJECT ENCODING").  harness/cmd/obs_builders parses these lists from this file, so they are
    the single source for the Coq checks and for the direct oracle.

    Definitions only; each list is one [Definition … : list string := [ … ].] *)
From Coq Require Import List String.
Import ListNotations.
Local Open Scope string_scope.

(** Side-effect-free reads: commands that never modify the dataset and whose repetition or execution
    on a replica is harmless.  Notes on the judgement calls:
    - TOUCH only updates the LRU/LFU clock of the keys (Redis flags it READONLY and serves it on replicas);
    - PFCOUNT may refresh the cached cardinality inside the HyperLogLog value (Redis flags it READONLY);
    - FT.AGGREGATE ... WITHCURSOR allocates a server-side cursor, no data is changed (RediSearch: readonly);
    - the SUBSCRIBE / UNSUBSCRIBE families change only the state of the connection; the builder gives
      them the read-only bits so that they can be re-sent after a reconnect;
    - EVAL_RO / EVALSHA_RO / FCALL_RO run scripts that the server forbids to write;
    - the AR* commands are the array type of Redis 8.8; their classification follows the READONLY flag of
      the server's command table (commands_array.json carries it verbatim). *)
Definition read_commands : list string := [
  (* strings *)
  "GET"; "MGET"; "GETRANGE"; "SUBSTR"; "STRLEN"; "GETBIT"; "BITCOUNT"; "BITPOS"; "BITFIELD_RO"; "LCS";
  (* generic *)
  "EXISTS"; "TYPE"; "TTL"; "PTTL"; "EXPIRETIME"; "PEXPIRETIME"; "KEYS"; "SCAN"; "RANDOMKEY"; "DUMP"; "DBSIZE";
  "TOUCH"; "SORT_RO";
  "OBJECT ENCODING"; "OBJECT FREQ"; "OBJECT IDLETIME"; "OBJECT REFCOUNT"; "OBJECT HELP";
  "MEMORY USAGE"; "MEMORY DOCTOR"; "MEMORY STATS"; "MEMORY MALLOC-STATS"; "MEMORY HELP";
  (* hashes *)
  "HGET"; "HMGET"; "HGETALL"; "HKEYS"; "HVALS"; "HLEN"; "HEXISTS"; "HSTRLEN"; "HRANDFIELD"; "HSCAN";
  "HTTL"; "HPTTL"; "HEXPIRETIME"; "HPEXPIRETIME";
  (* lists *)
  "LINDEX"; "LLEN"; "LRANGE"; "LPOS";
  (* sets *)
  "SCARD"; "SISMEMBER"; "SMISMEMBER"; "SMEMBERS"; "SRANDMEMBER"; "SSCAN"; "SDIFF"; "SINTER"; "SUNION"; "SINTERCARD";
  (* sorted sets *)
  "ZCARD"; "ZCOUNT"; "ZLEXCOUNT"; "ZSCORE"; "ZMSCORE"; "ZRANK"; "ZREVRANK"; "ZRANGE"; "ZRANGEBYLEX"; "ZRANGEBYSCORE";
  "ZREVRANGE"; "ZREVRANGEBYLEX"; "ZREVRANGEBYSCORE"; "ZRANDMEMBER"; "ZSCAN"; "ZDIFF"; "ZINTER"; "ZUNION"; "ZINTERCARD";
  (* geo *)
  "GEODIST"; "GEOHASH"; "GEOPOS"; "GEORADIUS_RO"; "GEORADIUSBYMEMBER_RO"; "GEOSEARCH";
  (* hyperloglog *)
  "PFCOUNT";
  (* streams *)
  "XLEN"; "XRANGE"; "XREVRANGE"; "XREAD"; "XPENDING"; "XINFO STREAM"; "XINFO GROUPS"; "XINFO CONSUMERS"; "XINFO HELP";
  (* pub/sub introspection and (un)subscription *)
  "PUBSUB CHANNELS"; "PUBSUB NUMPAT"; "PUBSUB NUMSUB"; "PUBSUB SHARDCHANNELS"; "PUBSUB SHARDNUMSUB"; "PUBSUB HELP";
  "SUBSCRIBE"; "PSUBSCRIBE"; "SSUBSCRIBE"; "UNSUBSCRIBE"; "PUNSUBSCRIBE"; "SUNSUBSCRIBE";
  (* read-only scripting *)
  "EVAL_RO"; "EVALSHA_RO"; "FCALL_RO";
  (* server introspection *)
  "LOLWUT"; "SLOWLOG GET"; "SLOWLOG LEN"; "SLOWLOG HELP"; "TIME"; "ECHO"; "PING"; "INFO";
  "COMMAND"; "COMMAND COUNT"; "COMMAND DOCS"; "COMMAND GETKEYS"; "COMMAND GETKEYSANDFLAGS"; "COMMAND INFO"; "COMMAND LIST";
  "CONFIG GET"; "CLIENT ID"; "CLIENT INFO"; "CLIENT LIST"; "CLIENT GETNAME";
  (* RedisJSON *)
  "JSON.GET"; "JSON.MGET"; "JSON.TYPE"; "JSON.STRLEN"; "JSON.ARRLEN"; "JSON.ARRINDEX"; "JSON.OBJKEYS"; "JSON.OBJLEN"; "JSON.RESP";
  "JSON.DEBUG MEMORY";
  (* RedisBloom *)
  "BF.EXISTS"; "BF.MEXISTS"; "BF.INFO"; "BF.CARD"; "BF.SCANDUMP"; "CF.EXISTS"; "CF.MEXISTS"; "CF.COUNT"; "CF.INFO"; "CF.SCANDUMP";
  "CMS.QUERY"; "CMS.INFO"; "TOPK.QUERY"; "TOPK.COUNT"; "TOPK.LIST"; "TOPK.INFO";
  "TDIGEST.QUANTILE"; "TDIGEST.CDF"; "TDIGEST.RANK"; "TDIGEST.REVRANK"; "TDIGEST.BYRANK"; "TDIGEST.BYREVRANK";
  "TDIGEST.MIN"; "TDIGEST.MAX"; "TDIGEST.INFO"; "TDIGEST.TRIMMED_MEAN";
  (* RedisTimeSeries *)
  "TS.GET"; "TS.MGET"; "TS.RANGE"; "TS.REVRANGE"; "TS.MRANGE"; "TS.MREVRANGE"; "TS.INFO"; "TS.QUERYINDEX";
  (* RediSearch *)
  "FT.SEARCH"; "FT.AGGREGATE"; "FT.EXPLAIN"; "FT.EXPLAINCLI"; "FT.INFO"; "FT._LIST"; "FT.PROFILE"; "FT.SPELLCHECK"; "FT.TAGVALS";
  "FT.SUGGET"; "FT.SUGLEN"; "FT.SYNDUMP"; "FT.DICTDUMP"; "FT.CONFIG GET";
  (* RedisGraph *)
  "GRAPH.RO_QUERY"; "GRAPH.EXPLAIN"; "GRAPH.LIST"; "GRAPH.CONFIG GET"; "GRAPH.SLOWLOG";
  (* RedisAI: AI.MODELEXECUTE / AI.SCRIPTEXECUTE / AI.DAGEXECUTE store their outputs and are NOT reads *)
  "AI.TENSORGET"; "AI.MODELGET"; "AI.SCRIPTGET"; "AI.INFO"; "AI._MODELSCAN"; "AI._SCRIPTSCAN"; "AI.DAGEXECUTE_RO";
  (* vector sets *)
  "VCARD"; "VDIM"; "VEMB"; "VGETATTR"; "VINFO"; "VLINKS"; "VRANDMEMBER"; "VSIM"; "VISMEMBER";
  (* arrays (Redis 8.8) *)
  "ARCOUNT"; "ARGET"; "ARGETRANGE"; "ARGREP"; "ARINFO"; "ARLASTITEMS"; "ARLEN"; "ARMGET"; "ARNEXT"; "AROP"; "ARSCAN"
].

(** Commands that hold the connection until data arrives or a timeout expires. *)
Definition blocking_commands : list string := [
  "BLPOP"; "BRPOP"; "BRPOPLPUSH"; "BLMOVE"; "BLMPOP"; "BZPOPMIN"; "BZPOPMAX"; "BZMPOP"; "WAIT"; "WAITAOF"
].

(** Commands that block when (and only when) their BLOCK option is given. *)
Definition block_option_commands : list string := [ "XREAD"; "XREADGROUP" ].

Definition subscribe_commands : list string := [ "SUBSCRIBE"; "PSUBSCRIBE"; "SSUBSCRIBE" ].
Definition unsubscribe_commands : list string := [ "UNSUBSCRIBE"; "PUNSUBSCRIBE"; "SUNSUBSCRIBE" ].
