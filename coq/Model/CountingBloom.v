(** Model of rueidisprob/countingbloomfilter.go (C36).

    Server side: the Redis hash [{name}:cbf] maps an index (field) to a counter; [getc] reads a field
    (a missing field reads as 0: the remove script does [if not count then 0 else tonumber(count)],
    the Go side treats a nil HMGET element exactly like "0").  [hincrby] shadows the older binding.
    The counter key [{name}:cbf:c] is a number (missing = 0).

    The remove script is transcribed phase by phase.  [indexCounter] (phase 1) is a snapshot of the
    counters of the indexes in ARGV; only those indexes are read or written in phase 2, so the model
    lets phase 2 run on a copy of the whole hash.  The outer loop [for i=1, numElements, hashIterations]
    slices ARGV into consecutive runs of hashIterations indexes; the client builds ARGV by
    concatenating exactly hashIterations indexes per key ([indexes], lemma [indexes_of_length]), so
    the model iterates over those per-key chunks.  Inner loop, [break], [rollbackIndex] and the
    rollback loop are literal.

    Client side: ExistsMulti / ItemMinCountMulti aggregate the flat HMGET reply with
    [(i+1) % hashIterations == 0]; transcribed with the loop index ([boundary] from Model/Bloom.v). *)
From Coq Require Import List NArith ZArith Bool.
Require Import RV.Model.Base RV.Model.Bloom.
Import ListNotations.
Open Scope Z_scope.

Definition counters := list (N * Z).

Fixpoint getc (cs : counters) (i : N) : Z :=
  match cs with
  | [] => 0
  | (j, v) :: r => if N.eqb i j then v else getc r i
  end.

Definition hincrby (cs : counters) (i : N) (d : Z) : counters := (i, getc cs i + d) :: cs.

Record cfilter := { ctrs : counters; total : Z }.
Definition empty_cfilter : cfilter := {| ctrs := []; total := 0 |}.

(** countingBloomFilterAddMultiScript: HINCRBY every index by 1, INCRBY counter itemCount *)
Definition cadd_script (item_count : Z) (idxs : list N) (f : cfilter) : cfilter :=
  {| ctrs := fold_left (fun cs ix => hincrby cs ix 1) idxs (ctrs f); total := total f + item_count |}.

(** inner loop of the remove script: [for j=i, i+hashIterations-1]: decrement; on a negative value
    [isAbleToRemove = false; rollbackIndex = j; break].  Returns the simulated counters, isAbleToRemove
    and the number of chunk elements visited (rollbackIndex - i + 1 when it failed). *)
Fixpoint try_dec (ic : counters) (chunk : list N) (visited : nat) : counters * bool * nat :=
  match chunk with
  | [] => (ic, true, visited)
  | ix :: r =>
    let ic' := hincrby ic ix (-1) in
    if getc ic' ix <? 0 then (ic', false, S visited)
    else try_dec ic' r (S visited)
  end.

(** [for j=i, rollbackIndex do indexCounter[ARGV[j]] = indexCounter[ARGV[j]] + 1 end] *)
Definition rollback (ic : counters) (chunk : list N) (visited : nat) : counters :=
  fold_left (fun a ix => hincrby a ix 1) (firstn visited chunk) ic.

(** outer loop: one iteration per item; [dec] is decreaseIndexes, [n] is deleteItemCount *)
Fixpoint remove_loop (chunks : list (list N)) (ic : counters) (dec : list N) (n : Z) : counters * list N * Z :=
  match chunks with
  | [] => (ic, dec, n)
  | c :: rest =>
    let '(ic1, able, visited) := try_dec ic c 0 in
    if able then remove_loop rest ic1 (dec ++ c) (n + 1)
    else remove_loop rest (rollback ic1 c visited) dec n
  end.

(** countingBloomFilterRemoveMultiScript: phases 2-4 (phase 1 = snapshot, see above) *)
Definition cremove_script (chunks : list (list N)) (f : cfilter) : cfilter :=
  let '(_, dec, n) := remove_loop chunks (ctrs f) [] 0 in
  {| ctrs := fold_left (fun cs ix => hincrby cs ix (-1)) dec (ctrs f); total := total f - n |}.

Definition cdelete_script (f : cfilter) : cfilter := empty_cfilter.

(** ExistsMulti's aggregation of the HMGET reply.  A negative counter would make AsUint64 fail:
    [Err 1] (the method returns that error). *)
Fixpoint agg_exists (kk i : N) (ok : bool) (vals : list Z) : result (list bool) :=
  match vals with
  | [] => Ok []
  | v :: r =>
    if v <? 0 then Err 1
    else
      let ok' := ok && negb (v =? 0) in
      if boundary kk i
      then match agg_exists kk (i + 1) true r with
           | Ok l => Ok (ok' :: l)
           | e => e
           end
      else agg_exists kk (i + 1) ok' r
  end.

Definition max_uint64 : Z := 18446744073709551615.

(** ItemMinCountMulti's aggregation *)
Fixpoint agg_min (kk i : N) (m : Z) (vals : list Z) : result (list Z) :=
  match vals with
  | [] => Ok []
  | v :: r =>
    if v <? 0 then Err 1
    else
      let m' := if v <? m then v else m in
      if boundary kk i
      then match agg_min kk (i + 1) max_uint64 r with
           | Ok l => Ok (m' :: l)
           | e => e
           end
      else agg_min kk (i + 1) m' r
  end.

Section Client.
  Variable K : Type.
  Variable hash : K -> N * N.
  Variable size : N.
  Variable k : N.

  Definition cindexes_of (x : K) : list N := indexes_of K hash size k x.

  Inductive cop :=
  | CAdd (keys : list K)
  | CRemove (keys : list K)
  | CExists (keys : list K)
  | CMinCount (keys : list K)
  | CCount
  | CDelete.

  Inductive cobs :=
  | WDone
  | WBools (r : result (list bool))
  | WCounts (r : result (list Z))
  | WCount (r : result Z)
  | WPanic.

  Definition hmget (f : cfilter) (keys : list K) : list Z :=
    map (getc (ctrs f)) (flat_map cindexes_of keys).

  Definition sane : bool := negb (size =? 0)%N && negb (k =? 0)%N.

  Definition cstep (f : cfilter) (o : cop) : cfilter * cobs :=
    match o with
    | CAdd [] => (f, WDone)
    | CRemove [] => (f, WDone)
    | CExists [] => (f, WBools (Ok []))
    | CMinCount [] => (f, WCounts (Ok []))
    | CAdd keys =>
      if sane then (cadd_script (Z.of_nat (length keys)) (flat_map cindexes_of keys) f, WDone) else (f, WPanic)
    | CRemove keys =>
      if sane then (cremove_script (map cindexes_of keys) f, WDone) else (f, WPanic)
    | CExists keys =>
      if sane then (f, WBools (agg_exists k 1 true (hmget f keys))) else (f, WPanic)
    | CMinCount keys =>
      if sane then (f, WCounts (agg_min k 1 max_uint64 (hmget f keys))) else (f, WPanic)
    | CCount => (f, WCount (if total f <? 0 then Err 1 else Ok (total f)))
    | CDelete => (cdelete_script f, WDone)
    end.

  Fixpoint crun (f : cfilter) (ops : list cop) : cfilter :=
    match ops with
    | [] => f
    | o :: r => crun (fst (cstep f o)) r
    end.

  (** specification side: the smallest counter among the item's indexes *)
  Definition min_of (f : cfilter) (x : K) : Z :=
    fold_left (fun m ix => Z.min (getc (ctrs f) ix) m) (cindexes_of x) max_uint64.
End Client.

Arguments CAdd {K} keys.
Arguments CRemove {K} keys.
Arguments CExists {K} keys.
Arguments CMinCount {K} keys.
Arguments CCount {K}.
Arguments CDelete {K}.

(** ---- correspondence cases (printed by harness/cmd/obs_cbloom) ---- *)
Inductive cimpl :=
| JDone (sent : list N)                    (* Add/Remove returned nil; indexes sent to the script *)
| JBools (sent : list N) (r : list bool)   (* ExistsMulti: HMGET fields, result *)
| JCounts (sent : list N) (r : list Z)     (* ItemMinCountMulti *)
| JCount (n : Z)
| JNoTrip
| JDeleted
| JState (fields : list (N * Z)) (cnt : Z). (* HGETALL of the filter key and GET of the counter key, read directly *)

Inductive case :=
| CCHist (size k : N) (table : list (bytes * (N * N))) (steps : list (option (cop bytes) * cimpl)).

Definition zlist_eqb := list_eqb Z.eqb.
Definition nlist_eqb := list_eqb N.eqb.

Definition cobs_agree (size k : N) (hash : bytes -> N * N) (f' : cfilter) (o : cop bytes) (v : cobs) (i : cimpl) : bool :=
  let idx keys := flat_map (cindexes_of bytes hash size k) keys in
  match o, v, i with
  | CAdd [], WDone, JNoTrip => true
  | CRemove [], WDone, JNoTrip => true
  | CExists [], WBools (Ok []), JNoTrip => true
  | CMinCount [], WCounts (Ok []), JNoTrip => true
  | CAdd keys, WDone, JDone sent => nlist_eqb (idx keys) sent
  | CRemove keys, WDone, JDone sent => nlist_eqb (idx keys) sent
  | CExists keys, WBools (Ok r), JBools sent r' => nlist_eqb (idx keys) sent && list_eqb Bool.eqb r r'
  | CMinCount keys, WCounts (Ok r), JCounts sent r' => nlist_eqb (idx keys) sent && zlist_eqb r r'
  | CCount, WCount (Ok n), JCount n' => Z.eqb n n'
  | CDelete, WDone, JDeleted => true
  | _, _, _ => false
  end.

Fixpoint ccheck_steps (size k : N) (hash : bytes -> N * N) (f : cfilter) (steps : list (option (cop bytes) * cimpl)) : bool :=
  match steps with
  | [] => true
  | (Some o, i) :: r =>
    let '(f1, v) := cstep bytes hash size k f o in
    cobs_agree size k hash f1 o v i && ccheck_steps size k hash f1 r
  | (None, JState fields cnt) :: r =>
    (* direct read of the server state: every stored field equals the model's counter, and the total *)
    forallb (fun p => Z.eqb (getc (ctrs f) (fst p)) (snd p)) fields
    && forallb (fun p => Z.eqb (getc (ctrs f) (fst p)) (getc fields (fst p))) (ctrs f)
    && Z.eqb (total f) cnt
    && ccheck_steps size k hash f r
  | (None, _) :: _ => false
  end.

Definition check_case (c : case) : bool :=
  match c with
  | CCHist size k table steps => ccheck_steps size k (lookup_hash table) empty_cfilter steps
  end.
