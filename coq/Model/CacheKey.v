(** Cache identity of a cacheable command: internal/cmds/cmds.go CacheKey, MGetCacheCmd, MGetCacheKey;
    the built-in store addresses an entry by the pair (key, cmd) (lru.go), NewSimpleCacheAdapter by the
    concatenation key ++ cmd (cache.go).  A command is its token list plus the script-read-only flag
    (cf & scrRoTag == scrRoTag).  Definitions only. *)
From Coq Require Import List NArith Bool Arith.
Require Import RV.Model.Base.
Import ListNotations.
Open Scope N_scope.

Definition tokens : Type := list bytes.

(** position of the key: 1, or 3 for EVAL_RO / EVALSHA_RO / FCALL_RO (script, numkeys, key);
    a two-token command is answered before the flag is looked at *)
Definition key_pos (scr : bool) (s : tokens) : nat :=
  if scr && negb (length s =? 2)%nat then 3%nat else 1%nat.

Fixpoint remove_nth {A : Type} (n : nat) (l : list A) : list A :=
  match l, n with
  | [], _ => []
  | _ :: r, O => r
  | x :: r, S m => x :: remove_nth m r
  end.

(** the key token ("" when the command is too short to have one) and the other tokens *)
Definition key_of (scr : bool) (s : tokens) : bytes := nth (key_pos scr s) s [].
Definition rest_of (scr : bool) (s : tokens) : tokens := remove_nth (key_pos scr s) s.

Definition one : bytes := [49].            (* "1" *)

(** CacheKey: panics on a script command that is too short (index out of range) or has numkeys <> "1" *)
Definition cache_key (scr : bool) (s : tokens) : result (bytes * bytes) :=
  match s with
  | [a; b] => Ok (b, a)
  | _ =>
      if scr then
        match nth_error s 2 with
        | None => Panic
        | Some n => if bytes_eqb n one then Ok (key_of scr s, concat (rest_of scr s)) else Panic
        end
      else Ok (key_of scr s, concat (rest_of scr s))
  end.

(** identity in the built-in store / in a NewSimpleCacheAdapter store *)
Definition lru_id (scr : bool) (s : tokens) : result (bytes * bytes) := cache_key scr s.
Definition adapter_id (scr : bool) (s : tokens) : result bytes :=
  match cache_key scr s with Ok (k, c) => Ok (k ++ c) | Err e => Err e | Panic => Panic end.

Definition json_get : bytes := [74; 83; 79; 78; 46; 71; 69; 84].   (* "JSON.GET" *)
Definition get : bytes := [71; 69; 84].                            (* "GET" *)

(** MGetCacheCmd: c.cs.s[0][0] == 'J' *)
Definition mget_cache_cmd (s : tokens) : result bytes :=
  match s with
  | (b :: _) :: _ => if b =? 74 then Ok (json_get ++ last s []) else Ok get
  | _ => Panic
  end.
(** MGetCacheKey: c.cs.s[i+1] *)
Definition mget_cache_key (s : tokens) (i : nat) : result bytes :=
  match nth_error s (S i) with Some k => Ok k | None => Panic end.

(** two distinct commands with the same identity, and whether the collision is of the
    concatenation kind: same key token, same concatenation of the other tokens *)
Definition tokens_eqb : tokens -> tokens -> bool := list_eqb bytes_eqb.
Definition same_cmd (scr1 : bool) (s1 : tokens) (scr2 : bool) (s2 : tokens) : bool := Bool.eqb scr1 scr2 && tokens_eqb s1 s2.

Definition concat_class (scr1 : bool) (s1 : tokens) (scr2 : bool) (s2 : tokens) : bool :=
  bytes_eqb (key_of scr1 s1) (key_of scr2 s2) && bytes_eqb (concat (rest_of scr1 s1)) (concat (rest_of scr2 s2)).
Definition adapter_concat_class (scr1 : bool) (s1 : tokens) (scr2 : bool) (s2 : tokens) : bool :=
  bytes_eqb (key_of scr1 s1 ++ concat (rest_of scr1 s1)) (key_of scr2 s2 ++ concat (rest_of scr2 s2)).

Definition pair_eqb (a b : bytes * bytes) : bool := bytes_eqb (fst a) (fst b) && bytes_eqb (snd a) (snd b).

(** correspondence cases *)
Inductive case :=
| CKey (scr : bool) (s : tokens) (impl : result (bytes * bytes))              (* CacheKey *)
| CMGetCmd (s : tokens) (impl : result bytes)
| CMGetKey (s : tokens) (i : nat) (impl : result bytes)
(* a pair of distinct commands: the implementation's two identities are equal or not ([impl_lru],
   [impl_adapter]); the class the observer attached to a collision *)
| CPair (scr1 : bool) (s1 : tokens) (scr2 : bool) (s2 : tokens)
        (impl_lru_equal impl_adapter_equal : bool) (label_lru_concat label_adapter_concat : bool).

Definition res_ok {A : Type} (r : result A) : bool := match r with Ok _ => true | _ => false end.

Definition check_case (c : case) : bool :=
  match c with
  | CKey scr s impl => result_eqb pair_eqb (cache_key scr s) impl
  | CMGetCmd s impl => result_eqb bytes_eqb (mget_cache_cmd s) impl
  | CMGetKey s i impl => result_eqb bytes_eqb (mget_cache_key s i) impl
  | CPair scr1 s1 scr2 s2 le ae ll la =>
      match cache_key scr1 s1, cache_key scr2 s2 with
      | Ok (k1, c1), Ok (k2, c2) =>
          Bool.eqb le (pair_eqb (k1, c1) (k2, c2)) && Bool.eqb ae (bytes_eqb (k1 ++ c1) (k2 ++ c2)) &&
          (* a collision is labelled concat-collision exactly when it is inside the characterised class *)
          Bool.eqb ll (le && concat_class scr1 s1 scr2 s2) && Bool.eqb la (ae && adapter_concat_class scr1 s1 scr2 s2)
      | _, _ => false
      end
  end.
