(** The code paths that take a wire from the blocking pool, as finite sets of event sequences
    (transcribed from mux.go [blocking], [blockingMulti], [DoStream], [DoMultiStream], [Store];
    pipe.go [DoStream], [DoMultiStream], [RedisResultStream.WriteTo]; client.go / cluster.go
    dedicated [release]).  Definitions only.

    Panics that the code raises on misuse ("DoStream with auto pipelining is a bug") are not
    paths.  A stream handed to the user gives the wire back when its last reply has been read
    (or reading failed); a user who abandons a stream keeps the wire - that is the documented
    contract of DoStream and is not modelled as a path of the library. *)
From Coq Require Import List Bool Arith.
Import ListNotations.

Inductive cev :=
| EAcquire            (* pool.Acquire *)
| EUse                (* Do / DoMulti / write + flush / WriteTo on the wire *)
| ECloseWire          (* wire.Close() after a non-Redis error *)
| EStore              (* pool.Store *)
| EReturn.            (* the call returns to the user without a stream *)

Inductive caller := Blocking | BlockingMulti | DoStream | DoMultiStream | Dedicated.

(** [fixed = false]: the code as found (pipe.DoStream / DoMultiStream return early on ctx.Err()
    without storing the wire mux acquired for them). *)
Definition paths (fixed : bool) (c : caller) : list (list cev) :=
  match c with
  | Blocking | BlockingMulti =>
      [ [EAcquire; EUse; EStore; EReturn];                   (* reply or Redis error *)
        [EAcquire; EUse; ECloseWire; EStore; EReturn] ]      (* non-Redis error: abort the wire *)
  | DoStream | DoMultiStream =>
      [ (if fixed then [EAcquire; EStore; EReturn] else [EAcquire; EReturn]);   (* ctx.Err() != nil *)
        [EAcquire; EStore; EReturn];                                            (* state != 0: wire not usable *)
        [EAcquire; EUse; EStore; EReturn];                                      (* flush failed *)
        [EAcquire; EUse; EUse; EStore];                                         (* stream read to its end (or failed) *)
        [EAcquire; EUse; EUse; ECloseWire; EStore] ]
  | Dedicated =>
      [ [EAcquire; EUse; EStore; EReturn];
        [EAcquire; EStore; EReturn] ]
  end.

Definition cev_eqb (a b : cev) : bool :=
  match a, b with
  | EAcquire, EAcquire | EUse, EUse | ECloseWire, ECloseWire | EStore, EStore | EReturn, EReturn => true
  | _, _ => false
  end.

Fixpoint count_ev (e : cev) (p : list cev) : nat :=
  match p with [] => 0 | x :: r => (if cev_eqb e x then 1 else 0) + count_ev e r end.

(** after [EStore] the wire is not touched any more *)
Fixpoint quiet_after_store (p : list cev) : bool :=
  match p with
  | [] => true
  | EStore :: r => forallb (fun e => cev_eqb e EReturn) r
  | _ :: r => quiet_after_store r
  end.

Definition path_ok (p : list cev) : bool :=
  match p with
  | EAcquire :: r => Nat.eqb (count_ev EAcquire r) 0 && Nat.eqb (count_ev EStore r) 1 && quiet_after_store r
  | _ => false
  end.

Definition all_callers : list caller := [Blocking; BlockingMulti; DoStream; DoMultiStream; Dedicated].

Definition callers_ok (fixed : bool) : bool :=
  forallb (fun c => forallb path_ok (paths fixed c)) all_callers.
