(** Semantics of paths through the command-builder graph (Model/BuilderGraph.v; the graph itself is
    regenerated from internal/cmds/gen_*.go on every run), and the hand-written model of
    builder.go's Arbitrary and of the flag predicates of cmds.go.

    A builder value is (node, cs, cf, ks): the Go struct {cs *CommandSlice; cf int16; ks uint16} plus
    its static type.  Every element of [cs] carries a ghost provenance bit (true = produced from a
    caller argument, false = literal token of the builder); the implementation's argv is [map snd].

    Definitions only. *)
From Coq Require Import List NArith ZArith Bool.
Require Import RV.Model.Base RV.Model.Slot RV.Model.Format RV.Model.BuilderGraph.
Import ListNotations.
Open Scope N_scope.

(** * Caller-side argument values *)

Inductive arg :=
| AS (b : bytes)                    (* string *)
| AI (z : Z)                        (* int64 *)
| AU (n : N)                        (* uint64 *)
| AF (bits : N)                     (* float64, by its IEEE bit pattern *)
| AF32 (bits : N)                   (* float32, by its IEEE bit pattern *)
| AD (ns : Z)                       (* time.Duration (nanoseconds) *)
| AT (sec : Z) (nsec : N)           (* time.Time: Unix seconds, nanoseconds within the second *)
| ASs (l : list bytes)              (* ...string / []string *)
| AIs (l : list Z)
| AUs (l : list N)
| AFs (l : list N)
| AF32s (l : list N)
| AQS (l : list (bytes * bytes))    (* iter.Seq2[string, string]: the pairs it yields *)
| AQF (l : list (bytes * N)).       (* iter.Seq2[string, float64] *)

Definition arg_ok (p : pty) (a : arg) : bool :=
  match p, a with
  | PStr, AS _ | PInt, AI _ | PUint, AU _ | PF64, AF _ | PF32, AF32 _ | PDur, AD _ | PTime, AT _ _
  | PStrs, ASs _ | PInts, AIs _ | PUints, AUs _ | PF64s, AFs _ | PF32s, AF32s _
  | PSeqSS, AQS _ | PSeqSF, AQF _ => true
  | _, _ => false
  end.

Fixpoint args_ok (ps : list pty) (args : list arg) : bool :=
  match ps, args with
  | [], [] => true
  | p :: pr, a :: ar => arg_ok p a && args_ok pr ar
  | _, _ => false
  end.

(** scalar values and their formatting *)
Inductive sval :=
| VS (b : bytes) | VI (z : Z) | VU (n : N) | VF (bits : N) | VF32 (bits : N) | VD (ns : Z) | VT (sec : Z) (nsec : N).

(** Go's shortest-round-trip float printer is not modelled: it is a parameter.
    [ff64 bits] = strconv.FormatFloat(x, 'f', -1, 64); [ff32 bits] = strconv.FormatFloat(float64(x32), 'f', -1, 64). *)
Record fenv := FEnv { ff64 : N -> option bytes; ff32 : N -> option bytes }.

Definition canon_float (f : N) (prec : Z) (bits : N) : bool :=
  (f =? 102) && (prec =? -1)%Z && (bits =? 64).

Definition fmt_sval (fe : fenv) (f : fmt) (v : sval) : option bytes :=
  match f, v with
  | FS, VS b => Some b
  | FI base, VI z => Some (fmt_int_base base z)
  | FU base, VU n => Some (fmt_uint_base base n)
  | FF c p b, VF x => if canon_float c p b then ff64 fe x else None
  | FF32 c p b, VF32 x => if canon_float c p b then ff32 fe x else None
  | FD base u, VD ns => if u =? 0 then None else Some (fmt_int_base base (dur_div ns u))
  | FTs base, VT s n => Some (fmt_int_base base (time_unix s n))
  | FTms base, VT s n => Some (fmt_int_base base (time_unix_milli s n))
  | _, _ => None
  end.

Definition arg_scalar (a : arg) : option sval :=
  match a with
  | AS b => Some (VS b) | AI z => Some (VI z) | AU n => Some (VU n) | AF x => Some (VF x)
  | AF32 x => Some (VF32 x) | AD d => Some (VD d) | AT s n => Some (VT s n)
  | _ => None
  end.

Definition arg_elems (a : arg) : option (list sval) :=
  match a with
  | ASs l => Some (map VS l) | AIs l => Some (map VI l) | AUs l => Some (map VU l)
  | AFs l => Some (map VF l) | AF32s l => Some (map VF32 l)
  | _ => None
  end.

Definition arg_pairs (a : arg) : option (list (sval * sval)) :=
  match a with
  | AQS l => Some (map (fun p => (VS (fst p), VS (snd p))) l)
  | AQF l => Some (map (fun p => (VS (fst p), VF (snd p))) l)
  | _ => None
  end.

Fixpoint all_some {A : Type} (l : list (option A)) : option (list A) :=
  match l with
  | [] => Some []
  | Some x :: r => match all_some r with Some xs => Some (x :: xs) | None => None end
  | None :: _ => None
  end.

Definition comp (c : N) (p : sval * sval) : sval := if c =? 0 then fst p else snd p.

(** * What one builder call appends *)

Definition out := list (bool * bytes).   (* (from a caller argument?, element) *)

Definition get_arg (args : list arg) (i : N) : option arg := nth_error args (N.to_nat i).

Definition emit_item (fe : fenv) (args : list arg) (it : item) : option out :=
  match it with
  | IT t => Some [(false, unpack t)]
  | IP i f =>
    match get_arg args i with
    | Some a => match arg_scalar a with
                | Some v => match fmt_sval fe f v with Some b => Some [(true, b)] | None => None end
                | None => None
                end
    | None => None
    end
  | IA i f =>
    match get_arg args i with
    | Some a => match arg_elems a with
                | Some vs => match all_some (map (fmt_sval fe f) vs) with
                             | Some bs => Some (map (pair true) bs)
                             | None => None
                             end
                | None => None
                end
    | None => None
    end
  | IQ i c1 f1 c2 f2 =>
    match get_arg args i with
    | Some a => match arg_pairs a with
                | Some ps =>
                  match all_some (map (fun p => match fmt_sval fe f1 (comp c1 p), fmt_sval fe f2 (comp c2 p) with
                                                | Some x, Some y => Some [(true, x); (true, y)]
                                                | _, _ => None
                                                end) ps) with
                  | Some bss => Some (concat bss)
                  | None => None
                  end
                | None => None
                end
    | None => None
    end
  end.

Fixpoint emit_items (fe : fenv) (args : list arg) (its : list item) : option out :=
  match its with
  | [] => Some []
  | it :: r =>
    match emit_item fe args it, emit_items fe args r with
    | Some a, Some b => Some (a ++ b)
    | _, _ => None
    end
  end.

(** the key-slot statements of a call, as the key events of Model/Slot.v *)
Definition ks_event_of (args : list arg) (o : ksop) : option key_event :=
  match o with
  | KO i => match get_arg args i with Some (AS k) => Some (KOne k) | _ => None end
  | KM i => match get_arg args i with Some (ASs l) => Some (KMany l) | _ => None end
  end.

Definition edge_key_events (e : edge) (args : list arg) : option (list key_event) :=
  all_some (map (ks_event_of args) (e_ks e)).

(** * Builder values and calls *)

Record bstate := BSt { b_node : N; b_cs : out; b_cf : N; b_ks : N }.

(** error codes of the model (not Go behaviour): 1 ill-typed call, 2 unknown root/method/node, 3 terminal not offered,
    4 formatting not defined (non-canonical float format or zero duration unit) *)
Definition exec_edge (tab : list N) (fe : fenv) (st : bstate) (e : edge) (args : list arg) : result bstate :=
  if negb (args_ok (e_params e) args) then Err 1
  else
    match edge_key_events e args with
    | None => Err 1
    | Some evs =>
      match ks_run tab (b_ks st) evs with
      | Panic => Panic                      (* check() panicked: keys in different slots *)
      | Err x => Err x
      | Ok ks' =>
        match emit_items fe args (e_items e) with
        | None => Err 4
        | Some o => Ok (BSt (e_tgt e) (b_cs st ++ o) (N.lor (b_cf st) (e_cf e)) ks')
        end
      end
    end.

Inductive step := Call (name : N) (args : list arg).

Definition exec_step (g : graph) (tab : list N) (fe : fenv) (st : bstate) (s : step) : result bstate :=
  match s with
  | Call name args =>
    match get_node g (b_node st) with
    | None => Err 2
    | Some nd =>
      match find_edge name (n_edges nd) with
      | None => Err 2
      | Some e => exec_edge tab fe st e args
      end
    end
  end.

Fixpoint exec_steps (g : graph) (tab : list N) (fe : fenv) (st : bstate) (ss : list step) : result bstate :=
  match ss with
  | [] => Ok st
  | s :: r =>
    match exec_step g tab fe st s with
    | Ok st' => exec_steps g tab fe st' r
    | Err x => Err x
    | Panic => Panic
    end
  end.

(** [func (b Builder) X() (c X) { c = X{cs: get(), ks: b.ks, cf: int16(TAG)}; c.cs.s = append(c.cs.s, toks…) }] *)
Definition root_state (r : root) (init_ks : N) : bstate :=
  BSt (r_node r) (map (fun t => (false, unpack t)) (r_toks r)) (r_cf r) init_ks.

Inductive terminal := TBuild | TCache.

(** a completed command as the caller sees it *)
Record completed := Cmd { c_argv : list bytes; c_cf : N; c_ks : N }.

Definition offers (nd : node) (t : terminal) : bool :=
  match t with TBuild => n_build nd | TCache => n_cache nd end.

(** Build()/Cache(): [c.cs.Build(); return Completed{cs: c.cs, cf: uint16(c.cf), ks: c.ks}] *)
Definition finish (g : graph) (st : bstate) (t : terminal) : result completed :=
  match get_node g (b_node st) with
  | None => Err 2
  | Some nd => if offers nd t then Ok (Cmd (map snd (b_cs st)) (b_cf st) (b_ks st)) else Err 3
  end.

Definition run_path (g : graph) (tab : list N) (fe : fenv) (init_ks : N) (rootname : N) (ss : list step) : result bstate :=
  match find_root rootname (g_roots g) with
  | None => Err 2
  | Some r => exec_steps g tab fe (root_state r init_ks) ss
  end.

Definition build_path (g : graph) (tab : list N) (fe : fenv) (init_ks : N) (rootname : N) (ss : list step) (t : terminal)
  : result completed :=
  match run_path g tab fe init_ks rootname ss with
  | Ok st => finish g st t
  | Err x => Err x
  | Panic => Panic
  end.

(** * Flag predicates of cmds.go *)

Definition has_tag (cf tag : N) : bool := N.land cf tag =? tag.
Definition is_readonly (tg : tagset) (cf : N) : bool := has_tag cf (t_readonly tg).
Definition is_block (tg : tagset) (cf : N) : bool := has_tag cf (t_block tg).
Definition no_reply (tg : tagset) (cf : N) : bool := has_tag cf (t_noRet tg).
Definition is_unsub (tg : tagset) (cf : N) : bool := has_tag cf (t_unsub tg).
Definition is_optin (tg : tagset) (cf : N) : bool := has_tag cf (t_optIn tg).
Definition is_pipe (tg : tagset) (cf : N) : bool := has_tag cf (t_pipe tg).
Definition is_retryable (tg : tagset) (cf : N) : bool := has_tag cf (t_retryable tg).
Definition is_mget (tg : tagset) (cf : N) : bool := has_tag cf (t_mtGet tg).

(** * Arbitrary (builder.go), transcribed by hand; tr_builders pins the source text *)

Inductive astep := AKeys (l : list bytes) | AArgs (l : list bytes).
Inductive aterm := ABuild | ABlocking | AReadOnly | AMultiGet.

Definition upper_ascii (b : N) : N := if (97 <=? b) && (b <=? 122) then b - 32 else b.

Fixpoint has_prefix (p s : bytes) : bool :=
  match p, s with
  | [], _ => true
  | x :: pr, y :: sr => (x =? y) && has_prefix pr sr
  | _ :: _, [] => false
  end.
Definition has_suffix (suf s : bytes) : bool := has_prefix (rev suf) (rev s).

Definition SUBSCRIBE : bytes := [83; 85; 66; 83; 67; 82; 73; 66; 69].
Definition MGET : bytes := [77; 71; 69; 84].
Definition JSON_MGET : bytes := [74; 83; 79; 78; 46; 77; 71; 69; 84].

Definition arb_step (tab : list N) (st : list bytes * N) (s : astep) : result (list bytes * N) :=
  let '(cs, ks) := st in
  match s with
  | AKeys l => match ks_keys tab ks l with
               | Ok ks' => Ok (cs ++ l, ks')
               | Err x => Err x
               | Panic => Panic
               end
  | AArgs l => Ok (cs ++ l, ks)
  end.

Fixpoint arb_steps (tab : list N) (st : list bytes * N) (ss : list astep) : result (list bytes * N) :=
  match ss with
  | [] => Ok st
  | s :: r => match arb_step tab st s with
              | Ok st' => arb_steps tab st' r
              | Err x => Err x
              | Panic => Panic
              end
  end.

(** Arbitrary.Build: panics without a command name and on *SUBSCRIBE commands
    (strings.ToUpper is modelled for ASCII command names only) *)
Definition arb_build (cs : list bytes) (cf ks : N) : result completed :=
  match cs with
  | [] => Panic
  | [] :: _ => Panic
  | c0 :: _ => if has_suffix SUBSCRIBE (map upper_ascii c0) then Panic else Ok (Cmd cs cf ks)
  end.

Definition arb_finish (tg : tagset) (cs : list bytes) (ks : N) (t : aterm) : result completed :=
  match t with
  | ABuild => arb_build cs 0 ks
  | ABlocking => arb_build cs (t_block tg) ks
  | AReadOnly => arb_build cs (t_readonly tg) ks
  | AMultiGet =>
    match cs with
    | [] => Panic
    | [] :: _ => Panic
    | c0 :: _ => if bytes_eqb c0 MGET || bytes_eqb c0 JSON_MGET then arb_build cs (t_mtGet tg) ks else Panic
    end
  end.

Definition arb_path (tg : tagset) (tab : list N) (init_ks : N) (toks : list bytes) (ss : list astep) (t : aterm)
  : result completed :=
  match arb_steps tab (toks, init_ks) ss with
  | Ok (cs, ks) => arb_finish tg cs ks t
  | Err x => Err x
  | Panic => Panic
  end.

(** ---- correspondence cases (printed by harness/cmd/obs_builders) ---- *)

(** what the observer reads back from a real built command and the type it was built from *)
Record impl_obs := Obs {
  o_argv : list bytes;   (* Commands() *)
  o_cf : N;              (* raw flag word *)
  o_ks : N;              (* Slot() *)
  o_type : N;            (* FNV-1a of the Go type on which Build()/Cache() was called *)
  o_build : bool;        (* that type has Build() *)
  o_cache : bool         (* that type has Cache() *)
}.

Inductive case :=
| CPath (init : N) (rootname : N) (ss : list step) (t : terminal)
        (f64 : list (N * bytes)) (f32 : list (N * bytes))    (* Go's own text for the float arguments used *)
        (impl : result impl_obs)
| CArb (init : N) (toks : list bytes) (ss : list astep) (t : aterm) (impl : result completed)
| CFlags (cf : N) (ro blk noret unsub optin pipe retry : bool)   (* Is*() of a real Completed with this cf *)
| CPredef (name : N) (argv : list bytes) (cf : N).

Fixpoint assoc_N {A : Type} (k : N) (l : list (N * A)) : option A :=
  match l with
  | [] => None
  | (k', v) :: r => if k =? k' then Some v else assoc_N k r
  end.

Definition list_bytes_eqb : list bytes -> list bytes -> bool := list_eqb bytes_eqb.

Definition obs_eqb (a b : impl_obs) : bool :=
  list_bytes_eqb (o_argv a) (o_argv b) && (o_cf a =? o_cf b) && (o_ks a =? o_ks b) && (o_type a =? o_type b)
  && Bool.eqb (o_build a) (o_build b) && Bool.eqb (o_cache a) (o_cache b).

Definition path_obs (g : graph) (tab : list N) (fe : fenv) (init rootname : N) (ss : list step) (t : terminal)
  : result impl_obs :=
  match run_path g tab fe init rootname ss with
  | Ok st =>
    match get_node g (b_node st) with
    | None => Err 2
    | Some nd =>
      if offers nd t then Ok (Obs (map snd (b_cs st)) (b_cf st) (b_ks st) (n_name nd) (n_build nd) (n_cache nd))
      else Err 3
    end
  | Err x => Err x
  | Panic => Panic
  end.

Fixpoint find_predef (name : N) (l : list predef) : option predef :=
  match l with
  | [] => None
  | p :: r => if p_name p =? name then Some p else find_predef name r
  end.

Definition check_case_with (g : graph) (tg : tagset) (pre : list predef) (tab : list N) (c : case) : bool :=
  match c with
  | CPath init rn ss t f64 f32 impl =>
    let fe := FEnv (fun x => assoc_N x f64) (fun x => assoc_N x f32) in
    result_eqb obs_eqb (path_obs g tab fe init rn ss t) impl
  | CArb init toks ss t impl =>
    result_eqb (fun a b => list_bytes_eqb (c_argv a) (c_argv b) && (c_cf a =? c_cf b) && (c_ks a =? c_ks b))
               (arb_path tg tab init toks ss t) impl
  | CFlags cf ro blk noret unsub optin pipe retry =>
    Bool.eqb (is_readonly tg cf) ro && Bool.eqb (is_block tg cf) blk && Bool.eqb (no_reply tg cf) noret
    && Bool.eqb (is_unsub tg cf) unsub && Bool.eqb (is_optin tg cf) optin && Bool.eqb (is_pipe tg cf) pipe
    && Bool.eqb (is_retryable tg cf) retry
  | CPredef name argv cf =>
    match find_predef name pre with
    | Some p => list_bytes_eqb (map unpack (p_toks p)) argv && (p_cf p =? cf)
    | None => false
    end
  end.
