(** Correspondence cases of the retry family (printed by harness/cmd/obs_retry). *)
From Coq Require Import List Arith NArith ZArith Bool.
Require Export RV.Model.Base RV.Model.ClusterTopo RV.Model.Retry.
Import ListNotations.
Open Scope Z_scope.

Definition delays_tab (ds : list Z) : nat -> reply -> Z := fun a _ => nth (a - 1) ds (-1).

Definition outcome_is (o : outcome) (r : reply) : bool :=
  match o with Done x => reply_eqb x r | _ => false end.

Inductive case :=
| CWait (d : Z) (lft : option Z) (impl : bool)
| CSingle (retry : bool) (delays : list Z) (retryable : bool) (ticks : list tick)
          (impl_sends impl_exec : nat) (impl_final : reply)
| CBatch (retry lftm : bool) (delays : list Z) (cmds : list bcmd) (env : list exchange)
         (impl_from : list nat) (impl_final : list reply)
| CStandalone (retry : bool) (delays : list Z) (retryable : bool) (env : list otick)
              (impl_sends impl_exec : nat) (impl_final : reply)
| CStandaloneBatch (retry : bool) (delays : list Z) (cmds : list bcmd) (env : list obtick)
                   (impl_from : list nat) (impl_final : list reply).

Definition check_case (c : case) : bool :=
  match c with
  | CWait d lft impl => Bool.eqb (wait_or_skip d lft) impl
  | CSingle retry delays retryable ticks impl_sends impl_exec impl_final =>
    let '(tr, o) := single_do (S (length ticks)) (mkPolicy retry (delays_tab delays) true) retryable 1 WFirst ticks in
    (sends tr =? impl_sends)%nat && (executions tr =? impl_exec)%nat && outcome_is o impl_final
  | CBatch retry lftm delays cmds env impl_from impl_final =>
    let '(tr, o) := single_domulti (S (length env)) (mkPolicy retry (delays_tab delays) lftm) cmds 1 WFirst env in
    list_eqb Nat.eqb (map bs_from tr) impl_from
    && match o with Some rs => list_eqb reply_eqb rs impl_final | None => false end
  | CStandalone retry delays retryable env impl_sends impl_exec impl_final =>
    let '(tr, o) := standalone_do (S (length env)) (mkPolicy retry (delays_tab delays) true) true retryable 1 WFirst env in
    (sends tr =? impl_sends)%nat && (executions tr =? impl_exec)%nat && outcome_is o impl_final
  | CStandaloneBatch retry delays cmds env impl_from impl_final =>
    let '(tr, o) := standalone_domulti (S (length env)) (mkPolicy retry (delays_tab delays) true) true cmds 1 WFirst env in
    list_eqb Nat.eqb (map bs_from tr) impl_from
    && match o with Some rs => list_eqb reply_eqb rs impl_final | None => false end
  end.
