(** The decoded reply tree: mirrors the fields of [RedisMessage] (message.go) that carry a value.

      typ    byte
      bytes  *byte  + intlen  -> [str]  (string() = "" when the pointer is nil)
      array  *RedisMessage + intlen -> [arr]
      intlen int64  -> [ival]  (the integer value, or the length of str / arr, whichever the reader stored)
      attrs  *RedisMessage -> [attrs]
    The 7-byte [ttl] field is carried separately where it matters (cache codec).  Definitions only. *)
From Coq Require Import List NArith ZArith Bool.
Require Import RV.Model.Base.
Import ListNotations.
Open Scope N_scope.

Inductive msg : Type :=
| Msg (typ : N) (str : bytes) (ival : Z) (arr : list msg) (attrs : option msg).

Definition m_typ (m : msg) : N := match m with Msg t _ _ _ _ => t end.
Definition m_str (m : msg) : bytes := match m with Msg _ s _ _ _ => s end.
Definition m_ival (m : msg) : Z := match m with Msg _ _ i _ _ => i end.
Definition m_arr (m : msg) : list msg := match m with Msg _ _ _ a _ => a end.
Definition m_attrs (m : msg) : option msg := match m with Msg _ _ _ _ a => a end.

(** RedisMessage{} *)
Definition msg_zero : msg := Msg 0 [] 0%Z [] None.

Fixpoint msg_eqb (a b : msg) {struct a} : bool :=
  match a, b with
  | Msg t1 s1 i1 a1 at1, Msg t2 s2 i2 a2 at2 =>
    N.eqb t1 t2 && bytes_eqb s1 s2 && Z.eqb i1 i2 &&
    (fix go (l1 l2 : list msg) {struct l1} : bool :=
       match l1, l2 with
       | [], [] => true
       | x :: r1, y :: r2 => msg_eqb x y && go r1 r2
       | _, _ => false
       end) a1 a2 &&
    match at1, at2 with
    | Some x, Some y => msg_eqb x y
    | None, None => true
    | _, _ => false
    end
  end.

(** type bytes (resp.go constants) *)
Definition tBlobString : N := 36.      (* $ *)
Definition tSimpleString : N := 43.    (* + *)
Definition tSimpleErr : N := 45.       (* - *)
Definition tInteger : N := 58.         (* : *)
Definition tNull : N := 95.            (* _ *)
Definition tEnd : N := 46.             (* . *)
Definition tFloat : N := 44.           (* , *)
Definition tBool : N := 35.            (* # *)
Definition tBlobErr : N := 33.         (* ! *)
Definition tVerbatim : N := 61.        (* = *)
Definition tBigNumber : N := 40.       (* ( *)
Definition tArray : N := 42.           (* * *)
Definition tMap : N := 37.             (* % *)
Definition tSet : N := 126.            (* ~ *)
Definition tAttribute : N := 124.      (* | *)
Definition tPush : N := 62.            (* > *)
Definition tChunk : N := 59.           (* ; *)
