(** Model of [clusterClient.do] (cluster.go): pick, send, classify ([shouldRefreshRetry]), follow
    MOVED / ASK ([redirectOrNew], MaxMovedRedirections), retry (TRYAGAIN / CLUSTERDOWN / LOADING /
    transport error under the policy of retry.go), transparent re-send on errConnExpired.

    State of the client as far as this loop reads or writes it: the write table, the read table and
    the set of known addresses ([c.conns]).  A concurrent topology refresh is an input: every
    attempt of the environment may carry a replacement table that is installed before the pick.
    Connections are identified with their addresses (one [conn] per address in [c.conns]).
    Definitions only. *)
From Coq Require Import List Arith NArith ZArith Bool.
Require Import RV.Model.Base RV.Model.ClusterTopo RV.Model.Retry.
Import ListNotations.
Open Scope Z_scope.

Record cstate := mkCstate {
  cs_table : table;
  cs_known : list addr;        (* keys of c.conns *)
}.

Inductive rmode := ModeNone | ModeMove (a : addr) | ModeAsk (a : addr) | ModeRetry.

(** shouldRefreshRetry *)
Definition classify (r : reply) (ctx_done closed : bool) : rmode :=
  match r with
  | RVal _ | RNil => ModeNone
  | _ =>
    if closed then ModeNone else
    match r with
    | RMoved a => ModeMove a
    | RAsk a => ModeAsk a
    | RTryAgain | RClusterDown | RLoading => ModeRetry
    | RTransport | RCtx | RExpired => if ctx_done then ModeNone else ModeRetry
    | _ => ModeNone
    end
  end.

Definition set_w (t : table) (s : Z) (a : addr) : table :=
  mkTable (fun x => if x =? s then Some a else tb_w t x) (tb_r t) (tb_rinit t) (tb_readsel t).

(** redirectOrNew: the connection used is the one of [a]; a MOVED to an address that is new, or
    equal to the connection that answered, also rewrites wslots[slot] *)
Definition redirect_or_new (st : cstate) (a prev : addr) (slot : Z) (is_move : bool) : cstate :=
  if mem_addr a (cs_known st) && negb (addr_eqb prev a) then st
  else mkCstate (if is_move then set_w (cs_table st) slot a else cs_table st)
                (if mem_addr a (cs_known st) then cs_known st else a :: cs_known st).

(** one attempt of the environment *)
Record ctick := mkCtick {
  ct_tick : tick;
  ct_refresh : option table;   (* a refresh that completed before this attempt's pick *)
  ct_nsel : Z;                 (* what ReadNodeSelector answers if it is consulted *)
}.

Inductive skind := SPlain | SAsking.      (* SAsking = the batch [ASKING; cmd] *)

Record csend := mkCsend { s_to : addr; s_kind : skind; s_why : why; s_tick : tick }.

Inductive coutcome :=
| CDone (r : reply)
| CNoSlot                  (* ErrNoSlot (or the refresh error) *)
| COutOfEnv
| COutOfFuel.

Record ccfg := mkCcfg {
  cc_policy : policy;
  cc_max : Z;                  (* ClusterOption.MaxMovedRedirections; 0 = unlimited *)
}.

Inductive phase :=
| PhRetry                          (* label retry: pick again *)
| PhMoved (cc ncc : addr)          (* label recover1 *)
| PhAsk (cc ncc : addr).           (* label recover2 *)

Definition install (st : cstate) (ct : ctick) : cstate :=
  match ct_refresh ct with Some t => mkCstate t (cs_known st) | None => st end.

(** [do]: [slot] is the key slot of the command, [to_replica] = SendToReplicas(cmd) *)
Fixpoint do_loop (fuel : nat) (c : ccfg) (slot : Z) (retryable to_replica : bool)
         (st : cstate) (ph : phase) (w : why) (attempts : nat) (redirects : Z) (env : list ctick)
  : list csend * coutcome * cstate :=
  match fuel with
  | O => ([], COutOfFuel, st)
  | S f =>
    match env with
    | [] => ([], COutOfEnv, st)
    | ct :: env' =>
      let st0 := match ph with PhRetry => install st ct | _ => st end in
      let dest := match ph with
                  | PhRetry => pick_slot (cs_table st0) slot to_replica (ct_nsel ct)
                  | PhMoved _ n | PhAsk _ n => Some n
                  end in
      match dest with
      | None => ([], CNoSlot, st0)
      | Some d =>
        let t := effective (ct_tick ct) in
        let kind := match ph with PhAsk _ _ => SAsking | _ => SPlain end in
        let here := if k_ctx_call (ct_tick ct) then [] else [mkCsend d kind w t] in
        let r := k_reply t in
        let cc := match ph with PhRetry => d | PhMoved c0 _ | PhAsk c0 _ => c0 end in
        let go st' ph' w' a' rd' :=
            let '(tr, o, s') := do_loop f c slot retryable to_replica st' ph' w' a' rd' env' in (here ++ tr, o, s') in
        if is_expired r then go st0 ph WExpired attempts redirects
        else
          match classify r (k_ctx_cls t) (k_closed t) with
          | ModeMove a =>
            let rd := redirects + 1 in
            if (0 <? cc_max c) && (cc_max c <? rd) then (here, CDone r, st0)
            else go (redirect_or_new st0 a cc slot true) (PhMoved cc a) WRedirect attempts rd
          | ModeAsk a =>
            let rd := redirects + 1 in
            if (0 <? cc_max c) && (cc_max c <? rd) then (here, CDone r, st0)
            else go (redirect_or_new st0 a cc slot false) (PhAsk cc a) WRedirect attempts rd
          | ModeRetry =>
            if p_retry (cc_policy c) && retryable
               && wait_or_skip (p_delay (cc_policy c) attempts r) (k_left t)
            then go st0 PhRetry WRetry (S attempts) redirects
            else (here, CDone r, st0)
          | ModeNone => (here, CDone r, st0)
          end
      end
    end
  end.

Definition cluster_do (c : ccfg) (slot : Z) (retryable to_replica : bool) (st : cstate) (env : list ctick) :=
  do_loop (S (length env)) c slot retryable to_replica st PhRetry WFirst 1 0 env.

Definition cexecutions (tr : list csend) : nat := length (filter (fun s => k_executed (s_tick s)) tr).
Definition credirects (tr : list csend) : nat :=
  length (filter (fun s => match s_why s with WRedirect => true | _ => false end) tr).
