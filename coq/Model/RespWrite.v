(** Model of resp.go: writeN / writeB / writeS / writeCmd, and an independent server-side parser of
    RESP command frames (specification side of C14).  Definitions only.

    writeN computes the decimal digits of n with float64 Log10/Pow10; the model prints the
    mathematical decimal digits.  The two are tied by the exhaustive sweep of the real writeN in
    harness/cmd/obs_respwrite (every n < 10^7 in the quick tier, wider in thorough, and 10^k-1, 10^k,
    10^k+1); the float routine is known to be wrong from 10^15, which no Go slice length reaches in
    practice -- the C14 theorems carry the bound [len < 10^15] for that reason. *)
From Coq Require Import List Arith NArith Bool.
Require Import RV.Model.Base.
Require Export RV.Model.RespBase.
Import ListNotations.
Open Scope N_scope.

Definition CR : N := 13.
Definition LF : N := 10.
Definition crlf : bytes := [CR; LF].

(** decimal digits of n, most significant first; "0" for 0.  Fuel = bit size of n + 1 is enough
    because n / 10 has fewer bits than n. *)
Fixpoint dec_aux (fuel : nat) (n : N) (acc : bytes) : bytes :=
  match fuel with
  | O => acc
  | S f =>
    let acc' := (48 + n mod 10) :: acc in
    if n / 10 =? 0 then acc' else dec_aux f (n / 10) acc'
  end.

Definition dec (n : N) : bytes := dec_aux (S (N.size_nat n)) n [].

(** writeN(o, id, n) for n >= 0 *)
Definition write_n (id : N) (n : N) : bytes := id :: dec n ++ crlf.
(** writeB(o, id, str) *)
Definition write_b (id : N) (s : bytes) : bytes := write_n id (blen s) ++ s ++ crlf.
(** writeS(o, id, str) *)
Definition write_s (id : N) (s : bytes) : bytes := id :: s ++ crlf.
(** writeCmd(o, cmd) *)
Definition write_cmd (argv : list bytes) : bytes :=
  write_n 42 (N.of_nat (length argv)) ++ flat_map (write_b 36) argv.

(** the range in which the model of writeN is tied to the float routine *)
Definition len_bound : N := 1000000000000000.
Definition wire_ok (argv : list bytes) : Prop :=
  N.of_nat (length argv) < len_bound /\ Forall (fun a => blen a < len_bound) argv.

(** ---- specification side: what a RESP server does with the bytes ---- *)

Definition is_digit (b : N) : bool := (48 <=? b) && (b <=? 57).

(** digits* CR LF, at least one digit *)
Fixpoint parse_num_aux (bs : bytes) (acc : N) (seen : bool) : option (N * bytes) :=
  match bs with
  | [] => None
  | b :: r =>
    if is_digit b then parse_num_aux r (acc * 10 + (b - 48)) true
    else if b =? CR then
      match r with
      | l :: r' => if (l =? LF) && seen then Some (acc, r') else None
      | [] => None
      end
    else None
  end.

Definition parse_num (bs : bytes) : option (N * bytes) := parse_num_aux bs 0 false.

(** split off exactly n bytes *)
Fixpoint take_exact (n : nat) (bs : bytes) : option (bytes * bytes) :=
  match n with
  | O => Some ([], bs)
  | S k =>
    match bs with
    | [] => None
    | b :: r => match take_exact k r with Some (p, q) => Some (b :: p, q) | None => None end
    end
  end.

(** $<len>\r\n<payload>\r\n *)
Definition parse_bulk (bs : bytes) : option (bytes * bytes) :=
  match bs with
  | 36 :: r =>
    match parse_num r with
    | Some (n, r1) =>
      match take_exact (N.to_nat n) r1 with
      | Some (p, c :: l :: r2) => if (c =? CR) && (l =? LF) then Some (p, r2) else None
      | _ => None
      end
    | None => None
    end
  | _ => None
  end.

Fixpoint parse_bulks (k : nat) (bs : bytes) : option (list bytes * bytes) :=
  match k with
  | O => Some ([], bs)
  | S k' =>
    match parse_bulk bs with
    | Some (a, r) => match parse_bulks k' r with Some (l, r') => Some (a :: l, r') | None => None end
    | None => None
    end
  end.

(** *<n>\r\n then n bulk strings *)
Definition parse_cmd (bs : bytes) : option (list bytes * bytes) :=
  match bs with
  | 42 :: r =>
    match parse_num r with
    | Some (n, r1) => parse_bulks (N.to_nat n) r1
    | None => None
    end
  | _ => None
  end.

(** a whole stream of commands; fuel = length of the stream + 1 (every command consumes >= 4 bytes) *)
Fixpoint parse_cmds (fuel : nat) (bs : bytes) : option (list (list bytes)) :=
  match bs with
  | [] => Some []
  | _ =>
    match fuel with
    | O => None
    | S f =>
      match parse_cmd bs with
      | Some (argv, r) => match parse_cmds f r with Some l => Some (argv :: l) | None => None end
      | None => None
      end
    end
  end.

Definition parse_stream (bs : bytes) : option (list (list bytes)) := parse_cmds (S (length bs)) bs.

(** ---- correspondence cases (printed by harness/cmd/obs_respwrite) ---- *)
Inductive case :=
| CWriteN (id : N) (n : N) (impl_out : bytes)
| CWriteNs (id : N) (samples : list (N * bytes))     (* sampled points of an exhaustively swept range *)
| CWriteB (id : N) (s : bytes) (impl_out : bytes)
| CWriteS (id : N) (s : bytes) (impl_out : bytes)
| CWriteCmd (argv : list bytes) (impl_out : bytes)
| CWriteCmds (cs : list (list bytes)) (impl_out : bytes).  (* several commands through one writer / one pipelined connection *)

Definition check_case (c : case) : bool :=
  match c with
  | CWriteN id n o => bytes_eqb (write_n id n) o
  | CWriteNs id l => forallb (fun p => bytes_eqb (write_n id (fst p)) (snd p)) l
  | CWriteB id s o => bytes_eqb (write_b id s) o
  | CWriteS id s o => bytes_eqb (write_s id s) o
  | CWriteCmd argv o =>
      bytes_eqb (write_cmd argv) o &&
      match parse_cmd o with Some (a, []) => list_eqb bytes_eqb a argv | _ => false end
  | CWriteCmds cs o =>
      bytes_eqb (concat (map write_cmd cs)) o &&
      match parse_stream o with Some l => list_eqb (list_eqb bytes_eqb) l cs | None => false end
  end.
