(** Model of the batched client-side-cache read paths (property C11):

      pipe.go     DoMultiCache      [do_multi_cache]       miss list, stride-5 / stride-2 walks
      lru.go      Flights           [flights_lru]          two-phase classification of a batch
      pipe.go     (non-lru store)   [flights_seq]          Flight called per command
      pipe.go     doCacheMGet       [do_cache_mget]        per-key hits / waits / rewritten MGET / refill
      pipe.go     _backgroundRead   [reader_commits5/2/mget] what the reader commits for waiters
      mux.go      DoMultiCache      [mux_do_multi_cache]   slot -> wire batches with recorded indices
      cluster.go  _pickMultiCache / doretrycache / resultcachefn / DoMultiCache
                                    [cluster_do_multi_cache] conn -> batch regrouping, redirect rounds
      helper.go   doMultiCache      [helper_do_multi_cache] key -> reply map

    The cache store and the server are abstract functions:
      [lookup : key -> cmd -> lk]   the store's answer at call time (hit / somebody else's pending flight
                                    together with what that flight will deliver / miss);
      [srv : argv -> msg]           the reply the server gives to a command;
      [qerr : argv -> option msg]   a command the server rejects before executing it (unknown command,
                                    -MOVED / -ASK in a cluster): inside MULTI it poisons the transaction.
    The connection is the small MULTI/EXEC machine [redis_wire].  Every Go panic that the code can
    reach is the outcome [Panic]; [Err 1] = a waiter that nobody would ever wake; [Err 2] = out of fuel.
    Definitions only - proofs are in Proofs/CacheBatch*.v. *)
From Coq Require Import String Ascii.
From Coq Require Import List Arith NArith ZArith Bool.
Require Import RV.Model.Base.
Import ListNotations.
Open Scope N_scope.

(** * Messages, errors, results *)

Definition key := bytes.
Definition argv := list bytes.

(** RedisMessage projected to what callers can see: type byte (0 = the zero value), string payload,
    integer payload, elements.  The cache mark (attrs) and the expiry bytes are not modelled. *)
Inductive msg := Msg (typ : N) (str : bytes) (int : Z) (vals : list msg).

Definition m_typ (m : msg) : N := match m with Msg t _ _ _ => t end.
Definition m_str (m : msg) : bytes := match m with Msg _ s _ _ => s end.
Definition m_int (m : msg) : Z := match m with Msg _ _ i _ => i end.
Definition m_vals (m : msg) : list msg := match m with Msg _ _ _ v => v end.

Definition zero_msg : msg := Msg 0 [] 0%Z [].

Definition tArr : N := 42.      (* '*' *)
Definition tSet : N := 126.     (* '~' *)
Definition tNull : N := 95.     (* '_' *)
Definition tErr : N := 45.      (* '-' *)
Definition tBlobErr : N := 33.  (* '!' *)
Definition tInt : N := 58.      (* ':' *)
Definition tStr : N := 36.      (* '$' *)
Definition tSimple : N := 43.   (* '+' *)

Fixpoint bs (s : string) : bytes :=
  match s with
  | EmptyString => []
  | String a r => N_of_ascii a :: bs r
  end.

Definition arr (vs : list msg) : msg := Msg tArr [] 0%Z vs.
Definition simple (s : string) : msg := Msg tSimple (bs s) 0%Z [].
Definition errmsg (s : string) : msg := Msg tErr (bs s) 0%Z [].

(** Go errors, as far as the batch code distinguishes them. *)
Inductive err :=
| ENil                     (* rueidis.Nil, a *RedisError *)
| ERedis (text : bytes)    (* *RedisError built from a '-' / '!' message *)
| EAborted                 (* ErrDoCacheAborted *)
| EParse                   (* errParse wrapped: "... is not a array" *)
| EOther (code : N).       (* anything else: context errors, connection errors (waiters only) *)

Definition is_redis_err (e : err) : bool :=
  match e with ENil | ERedis _ => true | _ => false end.

(** strings.TrimPrefix(s, "ERR ") *)
Definition trim_err (s : bytes) : bytes :=
  match s with
  | a :: b :: c :: d :: r => if (a =? 69) && (b =? 82) && (c =? 82) && (d =? 32) then r else s
  | _ => s
  end.

(** RedisMessage.Error *)
Definition msg_error (m : msg) : option err :=
  if m_typ m =? tNull then Some ENil
  else if (m_typ m =? tErr) || (m_typ m =? tBlobErr) then Some (ERedis (trim_err (m_str m)))
  else None.

(** RedisResult *)
Record rres := mkRes { r_val : msg; r_err : option err }.

Definition zero_res : rres := mkRes zero_msg None.
Definition new_result (m : msg) : rres := mkRes m None.
Definition new_error (e : err) : rres := mkRes zero_msg (Some e).

(** RedisResult.Error *)
Definition res_error (r : rres) : option err :=
  match r_err r with
  | Some e => Some e
  | None => msg_error (r_val r)
  end.

(** RedisResult.ToArray *)
Definition to_array (r : rres) : list msg + err :=
  match r_err r with
  | Some e => inr e
  | None =>
    let m := r_val r in
    if (m_typ m =? tArr) || (m_typ m =? tSet) then inl (m_vals m)
    else match msg_error m with
         | Some e => inr e
         | None => inr EParse
         end
  end.

(** What a caller can observe of a result through Error() / the value accessors: the Go code hands a
    Redis error reply to the issuing caller as a value ('-' message) but to the callers that waited on
    the same flight of a static-TTL command as an error; both views coincide under [view]. *)
Definition view (r : rres) : msg + err :=
  match res_error r with
  | Some e => inr e
  | None => inl (r_val r)
  end.

(** * The connection: a MULTI/EXEC machine over the abstract server *)

Definition is_cmd (name : string) (a : argv) : bool :=
  match a with
  | n :: _ => bytes_eqb n (bs name)
  | [] => false
  end.

Definition ok_msg : msg := simple "OK".
Definition queued_msg : msg := simple "QUEUED".
Definition execabort_msg : msg := errmsg "EXECABORT Transaction discarded because of previous errors.".

Section Wire.
  Variable srv : argv -> msg.
  Variable qerr : argv -> option msg.

  (** replies, one per command, in order.  [queued] is kept in reverse. *)
  Fixpoint wire_go (inmulti : bool) (queued : list argv) (dirty : bool) (cs : list argv) : list msg :=
    match cs with
    | [] => []
    | c :: r =>
      if is_cmd "MULTI" c then ok_msg :: wire_go true [] false r
      else if is_cmd "EXEC" c then
        (if inmulti then (if dirty then execabort_msg else arr (map srv (rev queued)))
         else errmsg "ERR EXEC without MULTI") :: wire_go false [] false r
      else match qerr c with
           | Some e => e :: wire_go inmulti queued (dirty || inmulti) r
           | None => if inmulti then queued_msg :: wire_go true (c :: queued) dirty r
                     else srv c :: wire_go false [] false r
           end
    end.

  (** pipe.DoMulti on a healthy connection: one result per command *)
  Definition redis_wire (cs : list argv) : list rres := map new_result (wire_go false [] false cs).
End Wire.

(** * Cache keys and lookups *)

(** cmds.CacheKey without the scripting (EVAL_RO) special case *)
Definition cache_key (a : argv) : key * bytes :=
  match a with
  | [c; k] => (k, c)
  | c :: k :: rest => (k, c ++ concat rest)
  | [c] => ([], c)
  | [] => ([], [])
  end.

Inductive lk :=
| LHit (v : msg)        (* completed, unexpired entry *)
| LWait (r : rres)      (* pending entry of another caller; [r] is what Wait will return *)
| LMiss.

Definition ck_eqb (a b : key * bytes) : bool := bytes_eqb (fst a) (fst b) && bytes_eqb (snd a) (snd b).

Fixpoint ck_mem (x : key * bytes) (l : list (key * bytes)) : bool :=
  match l with
  | [] => false
  | y :: r => ck_eqb x y || ck_mem x r
  end.

(** CacheableTTL: the TTL does not influence positions and is not modelled *)
Record item := mkItem { it_argv : argv; it_static : bool; it_mget : bool }.

Inductive entry :=
| EForeign (r : rres)          (* pending flight of somebody else *)
| ESelf (ck : key * bytes).    (* pending flight created by this very call (duplicate in the batch) *)

(** checked / unchecked slice updates *)
Fixpoint upd {A : Type} (i : nat) (x : A) (l : list A) : list A :=
  match l, i with
  | [], _ => []
  | _ :: t, O => x :: t
  | a :: t, S i' => a :: upd i' x t
  end.

Definition set_nth {A : Type} (i : nat) (x : A) (l : list A) : result (list A) :=
  if (i <? length l)%nat then Ok (upd i x l) else Panic.

Definition indexed {A : Type} (l : list A) : list (nat * A) := combine (seq 0 (length l)) l.

(** state of the classification: results (hits filled in), entries (index -> entry to wait on),
    indices that missed, cache keys made pending by this call *)
Record fstate := mkF {
  f_results : list rres;
  f_entries : list (option entry);
  f_missed : list nat;
  f_created : list (key * bytes)
}.

Section Store.
  Variable lookup : key -> bytes -> lk.

  (** lru.Flights, first pass (read lock): hits and foreign waits are taken, the rest is [missed] *)
  Definition flights_pass1 (n : nat) (batch : list item) : fstate :=
    fold_left (fun st (ic : nat * item) =>
      let (i, it) := ic in
      let (k, c) := cache_key (it_argv it) in
      match lookup k c with
      | LHit v => mkF (upd i (new_result v) (f_results st)) (f_entries st) (f_missed st) (f_created st)
      | LWait r => mkF (f_results st) (upd i (Some (EForeign r)) (f_entries st)) (f_missed st) (f_created st)
      | LMiss => mkF (f_results st) (f_entries st) (f_missed st ++ [i]) (f_created st)
      end) (indexed batch) (mkF (repeat_n zero_res n) (repeat_n None n) [] []).

  (** lru.Flights, second pass (write lock) over the missed indices: the first occurrence of a cache
      key creates the pending entry and stays a miss, later occurrences find it and wait on it *)
  Definition flights_pass2 (batch : list item) (st : fstate) : fstate :=
    fold_left (fun st (i : nat) =>
      let ck := cache_key (it_argv (nth i batch (mkItem [] false false))) in
      if ck_mem ck (f_created st)
      then mkF (f_results st) (upd i (Some (ESelf ck)) (f_entries st)) (f_missed st) (f_created st)
      else mkF (f_results st) (f_entries st) (f_missed st ++ [i]) (f_created st ++ [ck]))
      (f_missed st) (mkF (f_results st) (f_entries st) [] []).

  Definition flights_lru (batch : list item) : fstate :=
    flights_pass2 batch (flights_pass1 (length batch) batch).

  (** the non-lru branch of pipe.DoMultiCache: CacheStore.Flight per command, in order *)
  Definition flights_seq (batch : list item) : fstate :=
    fold_left (fun st (ic : nat * item) =>
      let (i, it) := ic in
      let ck := cache_key (it_argv it) in
      if ck_mem ck (f_created st)
      then mkF (f_results st) (upd i (Some (ESelf ck)) (f_entries st)) (f_missed st) (f_created st)
      else match lookup (fst ck) (snd ck) with
           | LHit v => mkF (upd i (new_result v) (f_results st)) (f_entries st) (f_missed st) (f_created st)
           | LWait r => mkF (f_results st) (upd i (Some (EForeign r)) (f_entries st)) (f_missed st) (f_created st)
           | LMiss => mkF (f_results st) (f_entries st) (f_missed st ++ [i]) (f_created st ++ [ck])
           end) (indexed batch)
      (mkF (repeat_n zero_res (length batch)) (repeat_n None (length batch)) [] []).
End Store.

(** * pipe.DoMultiCache *)

Definition optin_cmd (optin : bool) : argv :=
  if optin then [bs "CLIENT"; bs "CACHING"; bs "YES"] else [bs "ECHO"; []].

Definition stride_cmds (optin skip : bool) (a : argv) : list argv :=
  if skip then [optin_cmd optin; a]
  else [optin_cmd optin; [bs "MULTI"]; [bs "PTTL"; fst (cache_key a)]; a; [bs "EXEC"]].

(** the error a transaction abort is reported with (same expression at three places in pipe.go) *)
Definition abort_err (e : err) (pre : rres) : err :=
  if is_redis_err e then
    match res_error pre with
    | Some pe => if is_redis_err pe then pe else EAborted
    | None => EAborted
    end
  else e.

Definition last_msg (l : list msg) : option msg := nth_error l (length l - 1).

(** the result slot that the stride-5 walk writes for one [.., cmd, EXEC] pair; exec[len(exec)-1]
    panics on an empty array *)
Definition decode_exec (pre ex : rres) : result rres :=
  match to_array ex with
  | inr e => Ok (new_error (abort_err e pre))
  | inl vs => match vs with
              | [] => Panic
              | _ => match last_msg vs with Some v => Ok (new_result v) | None => Panic end
              end
  end.

(** [results.s[j].val.typ == 0 && results.s[j].err == nil] *)
Definition unfilled (r : rres) : bool :=
  (m_typ (r_val r) =? 0) && match r_err r with None => true | Some _ => false end.

Fixpoint find_unfilled (rs : list rres) : option nat :=
  match rs with
  | [] => None
  | r :: t => if unfilled r then Some O else option_map S (find_unfilled t)
  end.

(** [for ; j < len(results.s); j++ { if unfilled { ...; break } }]: the index the loop stops at *)
Definition scan (j : nat) (rs : list rres) : option nat :=
  option_map (fun d => (j + d)%nat) (find_unfilled (skipn j rs)).

Definition rnth (i : nat) (l : list rres) : rres := nth i l zero_res.

(** stride-5 result walk: [j := 0; for i := 4; i < len(resp.s); i += 5 { scan; decode }] *)
Fixpoint refill5 (fuel : nat) (resp : list rres) (i j : nat) (rs : list rres) : result (list rres) :=
  match fuel with
  | O => Err 2
  | S f =>
    if (i <? length resp)%nat then
      match scan j rs with
      | Some j' =>
        match decode_exec (rnth (i - 1) resp) (rnth i resp) with
        | Ok r => refill5 f resp (i + 5) j' (upd j' r rs)
        | Err e => Err e
        | Panic => Panic
        end
      | None => refill5 f resp (i + 5) (length rs) rs
      end
    else Ok rs
  end.

(** stride-2 result walk: [j := 0; for i := 1; i < len(resp.s); i += 2 { scan; results[j] = resp[i] }] *)
Fixpoint refill2 (fuel : nat) (resp : list rres) (i j : nat) (rs : list rres) : result (list rres) :=
  match fuel with
  | O => Err 2
  | S f =>
    if (i <? length resp)%nat then
      match scan j rs with
      | Some j' => refill2 f resp (i + 2) j' (upd j' (rnth i resp) rs)
      | None => refill2 f resp (i + 2) (length rs) rs
      end
    else Ok rs
  end.

(** EXEC-level cancel loop: [for i := 4; i < len(resp.s); i += 5 { if err := resp.s[i].Error() … Cancel }] *)
Fixpoint cancels5 (fuel : nat) (missing : list argv) (resp : list rres) (i : nat) : list ((key * bytes) * err) :=
  match fuel with
  | O => []
  | S f =>
    if (i <? length resp)%nat then
      match res_error (rnth i resp) with
      | Some e => (cache_key (nth (i - 1) missing []), abort_err e (rnth (i - 1) resp)) :: cancels5 f missing resp (i + 5)
      | None => cancels5 f missing resp (i + 5)
      end
    else []
  end.

(** what the connection's reader commits while the replies of a stride-5 batch arrive
    ([ff >= 4 && len(msg.values()) >= 2 && multi[0].IsOptIn()]: Update with the last element) *)
Fixpoint reader_commits5 (fuel : nat) (missing : list argv) (resp : list rres) (i : nat) : list ((key * bytes) * msg) :=
  match fuel with
  | O => []
  | S f =>
    if (i <? length resp)%nat then
      let vs := m_vals (r_val (rnth i resp)) in
      if (2 <=? length vs)%nat then
        match last_msg vs with
        | Some v => (cache_key (nth (i - 1) missing []), v) :: reader_commits5 f missing resp (i + 5)
        | None => reader_commits5 f missing resp (i + 5)
        end
      else reader_commits5 f missing resp (i + 5)
    else []
  end.

(** static-TTL path of the reader ([ff > 0 && IsStaticTTL(multi[ff])]): a typed error other than
    Nil cancels the flight, anything else is committed *)
Fixpoint reader_static (fuel : nat) (missing : list argv) (resp : list rres) (i : nat)
  : list ((key * bytes) * msg) * list ((key * bytes) * err) :=
  match fuel with
  | O => ([], [])
  | S f =>
    if (i <? length resp)%nat then
      let m := r_val (rnth i resp) in
      let ck := cache_key (nth i missing []) in
      let (cm, cn) := reader_static f missing resp (i + 2) in
      match msg_error m with
      | Some ENil | None => ((ck, m) :: cm, cn)
      | Some e => (cm, (ck, e) :: cn)
      end
    else ([], [])
  end.

Fixpoint assoc_ck {B : Type} (x : key * bytes) (l : list ((key * bytes) * B)) : option B :=
  match l with
  | [] => None
  | (y, b) :: r => if ck_eqb x y then Some b else assoc_ck x r
  end.

(** entry.Wait for an entry created by this call: the reader's Update or somebody's Cancel wakes it *)
Definition wait_self (commits : list ((key * bytes) * msg)) (cancels : list ((key * bytes) * err)) (ck : key * bytes)
  : option rres :=
  match assoc_ck ck cancels with
  | Some e => Some (new_error e)
  | None => match assoc_ck ck commits with
            | Some v => Some (new_result v)
            | None => None
            end
  end.

(** [for i, entry := range entries.e { results.s[i] = NewResult(entry.Wait(ctx)) }] (distinct indices,
    hence independent of the map order) *)
Fixpoint do_waits (commits : list ((key * bytes) * msg)) (cancels : list ((key * bytes) * err))
         (es : list (option entry)) (i : nat) (rs : list rres) : result (list rres) :=
  match es with
  | [] => Ok rs
  | None :: t => do_waits commits cancels t (S i) rs
  | Some (EForeign r) :: t => do_waits commits cancels t (S i) (upd i r rs)
  | Some (ESelf ck) :: t =>
    match wait_self commits cancels ck with
    | Some r => do_waits commits cancels t (S i) (upd i r rs)
    | None => Err 1
    end
  end.

Definition no_item : item := mkItem [] false false.

Section Pipe.
  Variable lookup : key -> bytes -> lk.
  Variable srv : argv -> msg.
  Variable qerr : argv -> option msg.
  Variable optin : bool.     (* p.optIn: CLIENT CACHING YES vs. the ECHO placeholder *)
  Variable use_lru : bool.   (* the store is the built-in lru (Flights) or a CacheStore (Flight per command) *)

  Definition do_multi_cache (batch : list item) : result (list rres) :=
    match batch with
    | [] => Panic                                   (* multi[0] *)
    | _ =>
      if existsb it_mget batch then Panic           (* panic(panicmgetcsc) *)
      else
        let skip := forallb it_static batch in
        let st := if use_lru then flights_lru lookup batch else flights_seq lookup batch in
        let missing := flat_map (fun i => stride_cmds optin skip (it_argv (nth i batch no_item))) (f_missed st) in
        let resp := redis_wire srv qerr missing in
        let fuel := S (length resp) in
        let cc :=
          if skip then reader_static fuel missing resp 1
          else (reader_commits5 fuel missing resp 4, cancels5 fuel missing resp 4) in
        match do_waits (fst cc) (snd cc) (f_entries st) 0 (f_results st) with
        | Ok rs =>
          match missing with
          | [] => Ok rs
          | _ => if skip then refill2 fuel resp 1 0 rs else refill5 fuel resp 4 0 rs
          end
        | Err e => Err e
        | Panic => Panic
        end
    end.

  (** the specification side: what one command alone would be answered *)
  Definition single_miss (skip : bool) (a : argv) : result rres :=
    let resp := redis_wire srv qerr (stride_cmds optin skip a) in
    if skip then Ok (rnth 1 resp) else decode_exec (rnth 3 resp) (rnth 4 resp).

  Definition expected (skip : bool) (it : item) : result rres :=
    let (k, c) := cache_key (it_argv it) in
    match lookup k c with
    | LHit v => Ok (new_result v)
    | LWait r => Ok r
    | LMiss => single_miss skip (it_argv it)
    end.
End Pipe.

(** * pipe.doCacheMGet *)

Definition is_json (commands : argv) : bool :=
  match commands with
  | (c :: _) :: _ => c =? 74      (* mgetcc[0] == 'J' *)
  | _ => false
  end.

(** cmds.MGetCacheCmd *)
Definition mget_cc (commands : argv) : bytes :=
  if is_json commands then bs "JSON.GET" ++ last commands [] else bs "GET".

Fixpoint key_index (k : key) (l : list key) : option nat :=
  match l with
  | [] => None
  | x :: r => if bytes_eqb k x then Some O else option_map S (key_index k r)
  end.

Fixpoint key_mem (k : key) (l : list key) : bool :=
  match l with
  | [] => false
  | x :: r => bytes_eqb k x || key_mem k r
  end.

Inductive mentry := MForeign (r : rres) | MSelf (k : key).

Record mstate := mkM {
  ms_alloc : bool;                    (* result.val.values() has been allocated *)
  ms_values : list msg;
  ms_entries : list (option mentry);
  ms_rewrite : list key               (* keys appended to the rewritten command *)
}.

Definition typ_unfilled (m : msg) : bool := m_typ m =? 0.

Fixpoint find_unfilled_m (l : list msg) : option nat :=
  match l with
  | [] => None
  | m :: t => if typ_unfilled m then Some O else option_map S (find_unfilled_m t)
  end.

Definition scan_m (j : nat) (l : list msg) : option nat :=
  option_map (fun d => (j + d)%nat) (find_unfilled_m (skipn j l)).

(** [j := 0; for _, ret := range partial { for ; j < len(values); j++ { if values[j].typ == 0 { values[j] = ret; break } } }] *)
Fixpoint refill_m (partial : list msg) (j : nat) (vals : list msg) : list msg :=
  match partial with
  | [] => vals
  | ret :: r =>
    match scan_m j vals with
    | Some j' => refill_m r j' (upd j' ret vals)
    | None => refill_m r (length vals) vals
    end
  end.

Section MGet.
  Variable lookup : key -> bytes -> lk.
  Variable srv : argv -> msg.
  Variable qerr : argv -> option msg.
  Variable optin : bool.

  (** [for i, key := range commands[1 : keys+1] { Flight … }] *)
  Definition mget_scan (cc : bytes) (nkeys : nat) (ks : list key) : mstate :=
    fold_left (fun st (ik : nat * key) =>
      let (i, k) := ik in
      if key_mem k (ms_rewrite st)
      then mkM (ms_alloc st) (ms_values st) (upd i (Some (MSelf k)) (ms_entries st)) (ms_rewrite st)
      else match lookup k cc with
           | LHit v =>
             let vals := if ms_alloc st then ms_values st else repeat_n zero_msg nkeys in
             mkM true (upd i v vals) (ms_entries st) (ms_rewrite st)
           | LWait r => mkM (ms_alloc st) (ms_values st) (upd i (Some (MForeign r)) (ms_entries st)) (ms_rewrite st)
           | LMiss => mkM (ms_alloc st) (ms_values st) (ms_entries st) (ms_rewrite st ++ [k])
           end) (indexed ks) (mkM false [] (repeat_n None nkeys) []).

  (** the waits of doCacheMGet; the Go code ranges over a map, so when several waiters fail the error
      that is returned is any one of theirs - the model takes the one with the smallest index *)
  Fixpoint mget_waits (misskeys : list key) (fresh : list msg) (es : list (option mentry)) (i : nat) (vals : list msg)
    : result (list msg + err) :=
    match es with
    | [] => Ok (inl vals)
    | None :: t => mget_waits misskeys fresh t (S i) vals
    | Some (MForeign r) :: t =>
      match r_err r with
      | Some e => Ok (inr e)
      | None => mget_waits misskeys fresh t (S i) (upd i (r_val r) vals)
      end
    | Some (MSelf k) :: t =>
      (* reader: Update(MGetCacheKey(rewritten, idx), cc, msgs[idx]) for idx < len(msgs) *)
      match key_index k misskeys with
      | Some idx => match nth_error fresh idx with
                    | Some v => mget_waits misskeys fresh t (S i) (upd i v vals)
                    | None => Err 1
                    end
      | None => Err 1
      end
    end.

  Definition do_cache_mget (commands : argv) : result rres :=
    let json := is_json commands in
    let nkeys := ((length commands - 1) - (if json then 1 else 0))%nat in
    let cc := mget_cc commands in
    let ks := firstn nkeys (skipn 1 commands) in
    let st := mget_scan cc nkeys ks in
    let misskeys := ms_rewrite st in
    match misskeys with
    | [] =>
      (* all keys were hits or waits *)
      let vals := if ms_alloc st then ms_values st else repeat_n zero_msg nkeys in
      match mget_waits [] [] (ms_entries st) 0 vals with
      | Ok (inl vs) => Ok (new_result (arr (refill_m [] 0 vs)))
      | Ok (inr e) => Ok (new_error e)
      | Err e => Err e
      | Panic => Panic
      end
    | _ =>
      let rewritten := (nth 0 commands [] :: misskeys) ++ (if json then [last commands []] else []) in
      let multi := [optin_cmd optin; [bs "MULTI"]] ++ map (fun k => [bs "PTTL"; k]) misskeys ++ [rewritten; [bs "EXEC"]] in
      let resp := redis_wire srv qerr multi in
      match to_array (rnth (length multi - 1) resp) with
      | inr e =>
        (* every missed key is cancelled with this error; waiters of this call are never reached *)
        Ok (new_error (abort_err e (rnth (length multi - 2) resp)))
      | inl exec =>
        match last_msg exec with
        | None => Panic                                            (* exec[len(exec)-1] *)
        | Some lastv =>
          (* the transaction went through but the rewritten command itself was answered with an error: its flights
             are cancelled with that error (see [mget_fail_cancels]) and the reply is handed back as it is *)
          if (match msg_error lastv with Some _ => true | None => false end) then Ok (new_result lastv)
          else if (length rewritten =? length commands)%nat then Ok (new_result lastv)
          else
            let partial := m_vals lastv in
            (* the reader commits only when the EXEC array has at least two elements *)
            let fresh := if (2 <=? length exec)%nat then partial else [] in
            let vals := if ms_alloc st then ms_values st else repeat_n zero_msg nkeys in
            match mget_waits misskeys fresh (ms_entries st) 0 vals with
            | Ok (inl vs) => Ok (new_result (arr (refill_m partial 0 vs)))
            | Ok (inr e) => Ok (new_error e)
            | Err e => Err e
            | Panic => Panic
            end
        end
      end
    end.
End MGet.

(** the failure path of doCacheMGet: which flights are cancelled when the rewritten request fails
    ([for _, key := range rewritten.Commands()[1 : keys+1] { p.cache.Cancel(key, mgetcc, err) }] with the inner
    [keys] = number of rewritten keys; the same loop runs when EXEC succeeds but the rewritten command's own
    reply is an error).  [None]: the request did not fail (or nothing was sent). *)
Definition mget_fail_cancels (lookup : key -> bytes -> lk) (srv : argv -> msg) (qerr : argv -> option msg) (optin : bool)
           (commands : argv) : option (list key * err) :=
  let json := is_json commands in
  let nkeys := ((length commands - 1) - (if json then 1 else 0))%nat in
  let cc := mget_cc commands in
  let ks := firstn nkeys (skipn 1 commands) in
  let st := mget_scan lookup cc nkeys ks in
  let misskeys := ms_rewrite st in
  match misskeys with
  | [] => None
  | _ =>
    let rewritten := (nth 0 commands [] :: misskeys) ++ (if json then [last commands []] else []) in
    let inner_keys := ((length rewritten - 1) - (if json then 1 else 0))%nat in
    let multi := [optin_cmd optin; [bs "MULTI"]] ++ map (fun k => [bs "PTTL"; k]) misskeys ++ [rewritten; [bs "EXEC"]] in
    let resp := redis_wire srv qerr multi in
    match to_array (rnth (length multi - 1) resp) with
    | inr e => Some (firstn inner_keys (skipn 1 rewritten), abort_err e (rnth (length multi - 2) resp))
    | inl exec =>
      match last_msg exec with
      | Some lastv => match msg_error lastv with
                      | Some e => Some (firstn inner_keys (skipn 1 rewritten), e)
                      | None => None
                      end
      | None => None
      end
    end
  end.

(** * mux.DoMultiCache and cluster.DoMultiCache: regrouping with recorded indices *)

Record bucket := mkB { b_idx : list nat; b_cmds : list item }.

Fixpoint bucket_find (s : N) (bks : list (N * bucket)) : option bucket :=
  match bks with
  | [] => None
  | (t, b) :: r => if s =? t then Some b else bucket_find s r
  end.

(** [batch := batches.m[slot]; batch.commands = append(…); batch.cIndexes = append(…, i)]:
    a nil *batchcache (absent key) is a nil-pointer dereference *)
Fixpoint bucket_add (s : N) (i : nat) (c : item) (bks : list (N * bucket)) : result (list (N * bucket)) :=
  match bks with
  | [] => Panic
  | (t, b) :: r =>
    if s =? t then Ok ((t, mkB (b_idx b ++ [i]) (b_cmds b ++ [c])) :: r)
    else match bucket_add s i c r with
         | Ok r' => Ok ((t, b) :: r')
         | Err e => Err e
         | Panic => Panic
         end
  end.

(** one empty bucket per group that occurs ([if count > 0 { batches.m[slot] = … }]) in a fixed order;
    Go map order is dealt with by [order] below *)
Fixpoint distinct_groups (gs : list N) (seen : list N) : list N :=
  match gs with
  | [] => []
  | g :: r => if existsb (N.eqb g) seen then distinct_groups r seen else g :: distinct_groups r (g :: seen)
  end.

Definition fill_buckets (group_of : item -> N) (batch : list item) : result (list (N * bucket)) :=
  fold_left (fun acc (ic : nat * item) =>
    match acc with
    | Ok bks => bucket_add (group_of (snd ic)) (fst ic) (snd ic) bks
    | other => other
    end) (indexed batch)
    (Ok (map (fun g => (g, mkB [] [])) (distinct_groups (map group_of batch) []))).

(** [for i, r := range resp.s { results.s[cIndexes[i]] = r }]: cIndexes[i] panics when resp is longer *)
Fixpoint scatter (idx : list nat) (resp : list rres) (results : list rres) : result (list rres) :=
  match resp with
  | [] => Ok results
  | r :: rt =>
    match idx with
    | [] => Panic
    | i :: it => match set_nth i r results with
                 | Ok rs => scatter it rt rs
                 | Err e => Err e
                 | Panic => Panic
                 end
    end
  end.

Section Route.
  (** [conn_do g cmds]: wire.DoMultiCache / conn.DoMultiCache of the sub-batch on connection [g] *)
  Variable conn_do : N -> list item -> result (list rres).

  (** the buckets are processed in [order] (ParallelKeys over a Go map / one goroutine per conn) *)
  Fixpoint run_buckets (order : list N) (bks : list (N * bucket)) (results : list rres) : result (list rres) :=
    match order with
    | [] => Ok results
    | g :: r =>
      match bucket_find g bks with
      | None => run_buckets r bks results
      | Some b =>
        match conn_do g (b_cmds b) with
        | Ok resp => match scatter (b_idx b) resp results with
                     | Ok rs => run_buckets r bks rs
                     | Err e => Err e
                     | Panic => Panic
                     end
        | Err e => Err e
        | Panic => Panic
        end
      end
    end.

  (** muxslots.LessThen(2) on the slot histogram: fewer than two wires are used *)
  Definition less_than_2 (gs : list N) : bool := (length (distinct_groups gs []) <? 2)%nat.

  (** mux.DoMultiCache with [nwires = len(m.muxwires)] (a power of two), [slot_of] = cmd.Cmd.Slot() *)
  Definition mux_do_multi_cache (nwires : N) (slot_of : item -> N) (order : list N) (batch : list item)
    : result (list rres) :=
    let mask := nwires - 1 in
    if mask =? 0 then conn_do 0 batch
    else
      let g := fun it => N.land (slot_of it) mask in
      if less_than_2 (map g batch) then
        match batch with
        | [] => Panic                                  (* multi[0] *)
        | it0 :: _ => conn_do (g it0) batch
        end
      else
        match fill_buckets g batch with
        | Ok bks => run_buckets order bks (repeat_n zero_res (length batch))
        | Err e => Err e
        | Panic => Panic
        end.
End Route.

(** ** cluster: _pickMultiCache, doretrycache, resultcachefn, the redirect loop of DoMultiCache *)

Inductive redirect := RNone | RMoved (target : N) | RAsk (target : N).

Record cbucket := mkCB {
  cb_idx : list nat; cb_cmds : list item;      (* retrycache.cIndexes / commands *)
  cb_aidx : list nat; cb_acmds : list item     (* retrycache.aIndexes / cAskings *)
}.

Fixpoint cb_find (s : N) (bks : list (N * cbucket)) : option cbucket :=
  match bks with
  | [] => None
  | (t, b) :: r => if s =? t then Some b else cb_find s r
  end.

(** [nr := retries.m[nc]; if nr == nil { nr = new }; append to (aIndexes, cAskings) or (cIndexes, commands)] *)
Fixpoint cb_add (s : N) (asking : bool) (i : nat) (c : item) (bks : list (N * cbucket)) : list (N * cbucket) :=
  match bks with
  | [] => [(s, if asking then mkCB [] [] [i] [c] else mkCB [i] [c] [] [])]
  | (t, b) :: r =>
    if s =? t then
      (t, if asking then mkCB (cb_idx b) (cb_cmds b) (cb_aidx b ++ [i]) (cb_acmds b ++ [c])
          else mkCB (cb_idx b ++ [i]) (cb_cmds b ++ [c]) (cb_aidx b) (cb_acmds b)) :: r
    else (t, b) :: cb_add s asking i c r
  end.

Section Cluster.
  Variable conn_of : item -> option N.                              (* c.wslots[slot] / replica choice; None = no conn *)
  Variable conn_do : N -> list item -> result (list rres).          (* conn.DoMultiCache *)
  Variable asking_do : N -> list item -> result (list rres).        (* askingMultiCache on that conn *)
  Variable redirect_of : rres -> redirect.                          (* shouldRefreshRetry: MOVED / ASK (retry mode off) *)

  (** _pickMultiCache: None when some command has no connection *)
  Definition pick_multi_cache (batch : list item) : option (result (list (N * bucket))) :=
    if forallb (fun it => match conn_of it with Some _ => true | None => false end) batch
    then Some (fill_buckets (fun it => match conn_of it with Some g => g | None => 0 end) batch)
    else None.

  (** resultcachefn: results[cIndexes[i]] = resp; redirected commands are queued for the next round
      under their original index *)
  Fixpoint result_cache_fn (cc : N) (idx : list nat) (cmds : list item) (resps : list rres)
           (results : list rres) (next : list (N * cbucket)) : result (list rres * list (N * cbucket)) :=
    match resps with
    | [] => Ok (results, next)
    | r :: rt =>
      match idx, cmds with
      | i :: it, c :: ct =>
        match set_nth i r results with
        | Ok rs =>
          let next' := match redirect_of r with
                       | RNone => next
                       | RMoved t => cb_add t false i c next
                       | RAsk t => cb_add t true i c next
                       end in
          result_cache_fn cc it ct rt rs next'
        | Err e => Err e
        | Panic => Panic
        end
      | _, _ => Panic
      end
    end.

  (** doretrycache for one connection *)
  Definition do_retry_cache (cc : N) (b : cbucket) (results : list rres) (next : list (N * cbucket))
    : result (list rres * list (N * cbucket)) :=
    let step1 :=
      match cb_cmds b with
      | [] => Ok (results, next)
      | _ => match conn_do cc (cb_cmds b) with
             | Ok resps => result_cache_fn cc (cb_idx b) (cb_cmds b) resps results next
             | Err e => Err e
             | Panic => Panic
             end
      end in
    match step1 with
    | Ok (rs, nx) =>
      match cb_acmds b with
      | [] => Ok (rs, nx)
      | _ => match asking_do cc (cb_acmds b) with
             | Ok resps => result_cache_fn cc (cb_aidx b) (cb_acmds b) resps rs nx
             | Err e => Err e
             | Panic => Panic
             end
      end
    | other => other
    end.

  (** one pass over retries.m in the given order *)
  Fixpoint cluster_round (order : list N) (bks : list (N * cbucket)) (results : list rres) (next : list (N * cbucket))
    : result (list rres * list (N * cbucket)) :=
    match order with
    | [] => Ok (results, next)
    | g :: r =>
      match cb_find g bks with
      | None => cluster_round r bks results next
      | Some b =>
        match do_retry_cache g b results next with
        | Ok (rs, nx) => cluster_round r bks rs nx
        | other => other
        end
      end
    end.

  (** the [retry:] loop: [orders] gives the map iteration order of each round; [maxredir] =
      MaxMovedRedirections (0 = unlimited, the loop then ends when no redirect is left or fuel ends) *)
  Fixpoint cluster_rounds (fuel : nat) (orders : list (list N)) (maxredir redirects : nat)
           (bks : list (N * cbucket)) (results : list rres) : result (list rres) :=
    match fuel with
    | O => Err 2
    | S f =>
      let order := match orders with o :: _ => o | [] => map fst bks end in
      match cluster_round order bks results [] with
      | Ok (rs, next) =>
        match next with
        | [] => Ok rs
        | _ =>
          let redirects' := S redirects in
          if (0 <? maxredir)%nat && (maxredir <? redirects')%nat then Ok rs
          else cluster_rounds f (tl orders) maxredir redirects' next rs
        end
      | Err e => Err e
      | Panic => Panic
      end
    end.

  Definition cluster_do_multi_cache (fuel : nat) (orders : list (list N)) (maxredir : nat) (batch : list item)
    : result (list rres + err) :=
    match batch with
    | [] => Ok (inl [])
    | _ =>
      match pick_multi_cache batch with
      | None => Ok (inr (EOther 1))                                (* ErrNoSlot / refresh error: fillErrs *)
      | Some (Ok bks) =>
        let cbs := map (fun gb => (fst gb, mkCB (b_idx (snd gb)) (b_cmds (snd gb)) [] [])) bks in
        match cluster_rounds fuel orders maxredir 0 cbs (repeat_n zero_res (length batch)) with
        | Ok rs => Ok (inl rs)
        | Err e => Err e
        | Panic => Panic
        end
      | Some (Err e) => Err e
      | Some Panic => Panic
      end
    end.
End Cluster.

(** ** cluster.go askingMultiCache: the ASK redirection path - no cache involved, the replies are unwrapped in order *)

Definition asking_stride (optin skip : bool) (a : argv) : list argv :=
  if skip then [optin_cmd optin; [bs "ASKING"]; a]
  else [optin_cmd optin; [bs "ASKING"]; [bs "MULTI"]; [bs "PTTL"; fst (cache_key a)]; a; [bs "EXEC"]].

(** [if arr, err := resps.s[i].ToArray(); err != nil { if preErr := resps.s[i-1].Error(); preErr != nil { err = preErr } … }] *)
Definition decode_ask (pre ex : rres) : result rres :=
  match to_array ex with
  | inr e => Ok (new_error (match res_error pre with Some pe => pe | None => e end))
  | inl vs => match last_msg vs with Some v => Ok (new_result v) | None => Panic end
  end.

(** [for i := offset; i < len(resps.s); i += stride { results.s = append(results.s, …) }] *)
Fixpoint ask_walk (fuel : nat) (skip : bool) (resp : list rres) (i : nat) : result (list rres) :=
  match fuel with
  | O => Err 2
  | S f =>
    if (i <? length resp)%nat then
      match (if skip then Ok (rnth i resp) else decode_ask (rnth (i - 1) resp) (rnth i resp)) with
      | Ok r => match ask_walk f skip resp (i + (if skip then 3 else 6)) with
                | Ok rs => Ok (r :: rs)
                | Err e => Err e
                | Panic => Panic
                end
      | Err e => Err e
      | Panic => Panic
      end
    else Ok []
  end.

Definition asking_multi_cache (srv : argv -> msg) (qerr : argv -> option msg) (optin : bool) (batch : list item)
  : result (list rres) :=
  let skip := forallb it_static batch in
  let resp := redis_wire srv qerr (flat_map (fun it => asking_stride optin skip (it_argv it)) batch) in
  ask_walk (S (length resp)) skip resp (if skip then 2 else 5).

(** * helper.go doMultiCache: [ret[keys[i]] = resp.val], first transport-level error aborts *)

Fixpoint kv_set {B : Type} (k : key) (v : B) (m : list (key * B)) : list (key * B) :=
  match m with
  | [] => [(k, v)]
  | (k', v') :: r => if bytes_eqb k k' then (k, v) :: r else (k', v') :: kv_set k v r
  end.

Fixpoint kv_get {B : Type} (k : key) (m : list (key * B)) : option B :=
  match m with
  | [] => None
  | (k', v) :: r => if bytes_eqb k k' then Some v else kv_get k r
  end.

(** keys[i] panics when there are more results than keys *)
Fixpoint helper_do_multi_cache (keys : list key) (resps : list rres) (ret : list (key * msg))
  : result (list (key * msg) + err) :=
  match resps with
  | [] => Ok (inl ret)
  | r :: rt =>
    match r_err r with
    | Some e => Ok (inr e)
    | None =>
      match keys with
      | [] => Panic
      | k :: kt => helper_do_multi_cache kt rt (kv_set k (r_val r) ret)
      end
    end
  end.

(** * correspondence cases (printed by harness/cmd/obs_batch) *)

Fixpoint msg_eqb (a b : msg) : bool :=
  match a, b with
  | Msg t1 s1 i1 v1, Msg t2 s2 i2 v2 =>
    (t1 =? t2) && bytes_eqb s1 s2 && Z.eqb i1 i2 &&
    (fix go (l1 l2 : list msg) : bool :=
       match l1, l2 with
       | [], [] => true
       | x :: r1, y :: r2 => msg_eqb x y && go r1 r2
       | _, _ => false
       end) v1 v2
  end.

Definition err_eqb (a b : err) : bool :=
  match a, b with
  | ENil, ENil | EAborted, EAborted | EParse, EParse => true
  | ERedis x, ERedis y => bytes_eqb x y
  | EOther x, EOther y => x =? y
  | _, _ => false
  end.

Definition rres_eqb (a b : rres) : bool :=
  msg_eqb (r_val a) (r_val b) && option_eqb err_eqb (r_err a) (r_err b).

Definition argv_eqb : argv -> argv -> bool := list_eqb bytes_eqb.

Fixpoint assoc_argv {B : Type} (a : argv) (t : list (argv * B)) : option B :=
  match t with
  | [] => None
  | (x, b) :: r => if argv_eqb a x then Some b else assoc_argv a r
  end.

Definition tab_lookup (t : list ((key * bytes) * lk)) (k : key) (c : bytes) : lk :=
  match assoc_ck (k, c) t with Some x => x | None => LMiss end.
Definition tab_srv (t : list (argv * msg)) (a : argv) : msg :=
  match assoc_argv a t with Some m => m | None => ok_msg end.
Definition tab_q (t : list (argv * msg)) (a : argv) : option msg := assoc_argv a t.

Fixpoint assoc_N {B : Type} (n : N) (t : list (N * B)) : option B :=
  match t with
  | [] => None
  | (x, b) :: r => if n =? x then Some b else assoc_N n r
  end.

Definition kvs_eqb (a b : list (key * msg)) : bool :=
  list_eqb (fun x y => bytes_eqb (fst x) (fst y) && msg_eqb (snd x) (snd y)) a b.

Definition sum_eqb {A B : Type} (ea : A -> A -> bool) (eb : B -> B -> bool) (x y : A + B) : bool :=
  match x, y with
  | inl a, inl b => ea a b
  | inr a, inr b => eb a b
  | _, _ => false
  end.

Inductive case :=
(** pipe.DoMultiCache on one connection *)
| CMulti (use_lru optin : bool) (batch : list item) (lks : list ((key * bytes) * lk))
         (srvt qt : list (argv * msg)) (obs : result (list rres))
(** pipe.DoCache on MGET / JSON.MGET *)
| CMGet (optin : bool) (commands : argv) (lks : list ((key * bytes) * lk))
        (srvt qt : list (argv * msg)) (obs : result rres)
(** pipe.DoCache on MGET / JSON.MGET whose rewritten request fails: result and the cancelled flights *)
| CMGetFail (optin : bool) (commands : argv) (lks : list ((key * bytes) * lk))
            (srvt qt : list (argv * msg)) (obs : result rres) (cancelled : list key)
(** mux.DoMultiCache over [nwires] connections; [slots] gives cmd.Slot() per command *)
| CMux (nwires : N) (optin : bool) (batch : list item) (slots : list (argv * N)) (lks : list ((key * bytes) * lk))
       (srvt qt : list (argv * msg)) (obs : result (list rres))
(** cluster.DoMultiCache; per connection server tables; [redir]: error text -> redirect *)
| CCluster (optin : bool) (maxredir : nat) (batch : list item) (conns : list (argv * N)) (lkss : list (N * list ((key * bytes) * lk)))
           (srvts qts : list (N * list (argv * msg))) (redir : list (bytes * redirect)) (obs : result (list rres + err))
(** helper.go doMultiCache *)
| CHelper (keys : list key) (resps : list rres) (obs : result (list (key * msg) + err)).

Definition redirect_tab (t : list (bytes * redirect)) (r : rres) : redirect :=
  match res_error r with
  | Some (ERedis text) =>
    (fix go (l : list (bytes * redirect)) : redirect :=
       match l with
       | [] => RNone
       | (x, d) :: rest => if bytes_eqb x text then d else go rest
       end) t
  | _ => RNone
  end.

Definition check_case (c : case) : bool :=
  match c with
  | CMulti use_lru optin batch lks srvt qt obs =>
    result_eqb (list_eqb rres_eqb)
      (do_multi_cache (tab_lookup lks) (tab_srv srvt) (tab_q qt) optin use_lru batch) obs
  | CMGet optin commands lks srvt qt obs =>
    result_eqb rres_eqb (do_cache_mget (tab_lookup lks) (tab_srv srvt) (tab_q qt) optin commands) obs
  | CMGetFail optin commands lks srvt qt obs cancelled =>
    result_eqb rres_eqb (do_cache_mget (tab_lookup lks) (tab_srv srvt) (tab_q qt) optin commands) obs &&
    match mget_fail_cancels (tab_lookup lks) (tab_srv srvt) (tab_q qt) optin commands with
    | Some (ks, _) => list_eqb bytes_eqb ks cancelled
    | None => match cancelled with [] => true | _ => false end
    end
  | CMux nwires optin batch slots lks srvt qt obs =>
    let slot_of := fun it => match assoc_argv (it_argv it) slots with Some s => s | None => 0 end in
    let g := fun it => N.land (slot_of it) (nwires - 1) in
    result_eqb (list_eqb rres_eqb)
      (mux_do_multi_cache (fun _ items => do_multi_cache (tab_lookup lks) (tab_srv srvt) (tab_q qt) optin true items)
                          nwires slot_of (distinct_groups (map g batch) []) batch) obs
  | CCluster optin maxredir batch conns lkss srvts qts redir obs =>
    let conn_of := fun it => assoc_argv (it_argv it) conns in
    let tab := fun (ts : list (N * list (argv * msg))) c => match assoc_N c ts with Some t => t | None => [] end in
    result_eqb (sum_eqb (list_eqb rres_eqb) err_eqb)
      (cluster_do_multi_cache conn_of
         (fun c items => do_multi_cache (tab_lookup (match assoc_N c lkss with Some t => t | None => [] end)) (tab_srv (tab srvts c)) (tab_q (tab qts c)) optin true items)
         (fun c items => asking_multi_cache (tab_srv (tab srvts c)) (tab_q (tab qts c)) optin items)
         (redirect_tab redir) 64 [] maxredir batch) obs
  | CHelper keys resps obs =>
    result_eqb (sum_eqb kvs_eqb err_eqb) (helper_do_multi_cache keys resps []) obs
  end.
