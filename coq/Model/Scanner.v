(** Model of helper.go: Scanner.scan / Iter / Iter2 / Err  (C46).

    The [next] callback is scripted: the i-th call answers with the i-th page of the script;
    a call after the end of the script answers with the error [exhausted] (this is exactly what
    the observer's scripted callback does, so the model is total without fuel).

    The consumer of the iterator is described by its stop point: [None] never stops,
    [Some k] answers [true] to the first [k] yields and [false] to the next one
    (a [break] in the body of a range-over-func loop), so it receives at most [k+1] items.

    Go code (helper.go):
<<
      func (s *Scanner) scan() iter.Seq[[]string] {
        return func(yield func([]string) bool) {
          var e ScanEntry
          for e, s.err = s.next(0); s.err == nil && yield(e.Elements) && e.Cursor != 0; {
            e, s.err = s.next(e.Cursor)
          }
        }
      }
      Iter : for vs := range s.scan() { for _, v := range vs { if !yield(v) { return } } }
      Iter2: for vs := range s.scan() { for i := 0; i+1 < len(vs); i += 2 { if !yield(vs[i], vs[i+1]) { return } } }
>>
*)
From Coq Require Import List NArith Bool.
Require Import RV.Model.Base.
Import ListNotations.
Open Scope N_scope.

(** one answer of the [next] callback *)
Inductive page :=
| PErr (e : N)                              (* next returned an error (small enum) *)
| POk (elems : list bytes) (cursor : N).    (* ScanEntry{Elements, Cursor} *)

Definition exhausted : N := 255.

(** consumer stop point *)
Definition budget := option nat.

(** the inner loop of Iter over one chunk: items handed to the consumer, remaining budget, and
    whether the chunk-level [yield] returns true (the consumer did not stop) *)
Fixpoint feed {A : Type} (vs : list A) (b : budget) : list A * budget * bool :=
  match vs with
  | [] => ([], b, true)
  | v :: r =>
    match b with
    | Some O => ([v], Some O, false)
    | Some (S k) => let '(ys, b', c) := feed r (Some k) in (v :: ys, b', c)
    | None => let '(ys, b', c) := feed r None in (v :: ys, b', c)
    end
  end.

(** Iter2 walks a chunk by pairs [for i := 0; i+1 < len(vs); i += 2]; a trailing odd element is skipped *)
Fixpoint pairs_of {A : Type} (vs : list A) : list (A * A) :=
  match vs with
  | a :: b :: r => (a, b) :: pairs_of r
  | _ => []
  end.

Record out (A : Type) := mkOut {
  yielded : list A;          (* what the consumer received, in order *)
  cursors : list N;          (* arguments of the calls to next, in order *)
  err : option N             (* Scanner.Err() after the loop *)
}.
Arguments mkOut {A}.
Arguments yielded {A}.
Arguments cursors {A}.
Arguments err {A}.

(** the loop of [scan], entered with the cursor to request; [view] is the per-chunk projection
    (identity for Iter, [pairs_of] for Iter2) *)
Fixpoint scan_loop {A : Type} (view : list bytes -> list A) (script : list page) (cur : N) (b : budget) : out A :=
  match script with
  | [] => mkOut [] [cur] (Some exhausted)
  | PErr e :: _ => mkOut [] [cur] (Some e)
  | POk vs c :: rest =>
    let '(ys, b', cont) := feed (view vs) b in
    if cont && negb (c =? 0) then
      let o := scan_loop view rest c b' in
      mkOut (ys ++ yielded o) (cur :: cursors o) (err o)
    else mkOut ys [cur] None
  end.

Definition iter (script : list page) (b : budget) : out bytes := scan_loop (fun vs => vs) script 0 b.
Definition iter2 (script : list page) (b : budget) : out (bytes * bytes) := scan_loop pairs_of script 0 b.

(** ---- correspondence cases (printed by harness/cmd/obs_scanner) ---- *)
Inductive case :=
| CIter (script : list page) (b : budget) (y : list bytes) (cs : list N) (e : option N)
| CIter2 (script : list page) (b : budget) (y : list (bytes * bytes)) (cs : list N) (e : option N).

Definition pair_eqb (a b : bytes * bytes) : bool := bytes_eqb (fst a) (fst b) && bytes_eqb (snd a) (snd b).

Definition check_case (c : case) : bool :=
  match c with
  | CIter s b y cs e =>
    let o := iter s b in
    list_eqb bytes_eqb (yielded o) y && list_eqb N.eqb (cursors o) cs && option_eqb N.eqb (err o) e
  | CIter2 s b y cs e =>
    let o := iter2 s b in
    list_eqb pair_eqb (yielded o) y && list_eqb N.eqb (cursors o) cs && option_eqb N.eqb (err o) e
  end.
