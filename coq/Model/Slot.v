(** Model of internal/cmds/slot.go (crc16, slot) and of the key-slot bookkeeping of the command
    builders (internal/cmds/cmds.go [check], [InitSlot], [NoSlot], [SetSlot]; the [ks] updates emitted
    by hack/cmds/gen.go into every key-typed builder method; builder.go [Arbitrary.Keys]).

    Definitions only.  The CRC table itself is not here: it is regenerated from slot.go on every run
    (Gen/Crc16Tab.v) and passed in as [tab]. *)
From Coq Require Import List Arith NArith Bool.
Require Import RV.Model.Base.
Import ListNotations.
Open Scope N_scope.

(** * Specification side: CRC16-XMODEM, bit by bit (poly 0x1021, init 0, MSB first, no reflection,
      no final xor), and the hash-tag rule of the Redis Cluster specification. *)

Definition W16 : N := 65536.

(** one bit: shift left, and when the bit shifted out was set, xor the polynomial *)
Definition crc_shift1 (x : N) : N :=
  if N.testbit x 15 then N.lxor (N.shiftl x 1 mod W16) 4129 (* 0x1021 *)
  else N.shiftl x 1 mod W16.

Fixpoint crc_shiftk (k : nat) (x : N) : N :=
  match k with
  | O => x
  | S k' => crc_shiftk k' (crc_shift1 x)
  end.

(** one input byte: xor it into the high byte, then eight single-bit steps *)
Definition crc16_bit_step (crc b : N) : N := crc_shiftk 8 (N.lxor crc (N.shiftl b 8)).

Definition crc16_bitwise (bs : bytes) : N := fold_left crc16_bit_step bs 0.

(** [split_at c l] = (prefix without c, Some suffix after the first c) or (l, None) *)
Fixpoint split_at (c : N) (l : bytes) : bytes * option bytes :=
  match l with
  | [] => ([], None)
  | x :: r => if x =? c then ([], Some r)
              else let '(p, s) := split_at c r in (x :: p, s)
  end.

(** The hash tag: the text between the first '{' (123) and the next '}' (125) when there is such a
    pair and the text is non-empty, otherwise the whole key. *)
Definition hashtag_spec (k : bytes) : bytes :=
  match split_at 123 k with
  | (_, None) => k
  | (_, Some after) =>
    match split_at 125 after with
    | (_, None) => k
    | ([], Some _) => k
    | (tag, Some _) => tag
    end
  end.

Definition slot_spec (k : bytes) : N := crc16_bitwise (hashtag_spec k) mod 16384.

(** * Implementation side *)

(** crc16(): [crc = (crc << 8) ^ crc16tab[(uint8(crc>>8)^key[i])&0x00FF]] on uint16.
    The index is masked to 8 bits and the array has 256 entries (the translator refuses any other
    length), so the Go indexing cannot panic; [nth … 0] is never out of range for a 256-entry table. *)
Definition crc16_tab_step (tab : list N) (crc b : N) : N :=
  N.lxor (N.shiftl crc 8 mod W16)
         (nth (N.to_nat (N.land (N.lxor (N.shiftr crc 8 mod 256) b) 255)) tab 0).

Definition crc16_tab (tab : list N) (bs : bytes) : N := fold_left (crc16_tab_step tab) bs 0.

(** [for ; s < len(key); s++ { if key[s] == c { break } }] started at index [from]:
    the first index >= from holding c, or len(key). *)
Fixpoint find_from (c : N) (k : bytes) (from : nat) : nat :=
  match k with
  | [] => from
  | x :: r => if x =? c then from else find_from c r (S from)
  end.

(** index of the first [c] at or after [from] (or [length k]) *)
Definition find_idx (c : N) (k : bytes) (from : nat) : nat :=
  find_from c (skipn from k) from.

(** key[a:b] for a <= b <= len(key) *)
Definition slice (k : bytes) (a b : nat) : bytes := firstn (b - a) (skipn a k).

(** the part of the key that slot() feeds to crc16() *)
Definition hashtag (k : bytes) : bytes :=
  let s := find_idx 123 k 0 in
  if (s =? length k)%nat then k
  else
    let e := find_idx 125 k (S s) in
    if (e =? length k)%nat || (e =? S s)%nat then k
    else slice k (S s) e.

Definition slot (tab : list N) (k : bytes) : N := N.land (crc16_tab tab (hashtag k)) 16383.

(** * Key-slot bookkeeping of the builders *)

Definition InitSlot : N := 16384.  (* 1 << 14: cluster builder, no key seen yet *)
Definition NoSlot : N := 32768.    (* 1 << 15: non-cluster builder *)

(** cmds.go check(): panic(multiKeySlotErr) unless first key or same slot *)
Definition check (prev new : N) : result N :=
  if (prev =? InitSlot) || (prev =? new) then Ok new else Panic.

(** single key parameter:
    [if c.ks&NoSlot == NoSlot { c.ks = NoSlot | slot(key) } else { c.ks = check(c.ks, slot(key)) }] *)
Definition ks_key (tab : list N) (ks : N) (key : bytes) : result N :=
  if N.land ks NoSlot =? NoSlot then Ok (N.lor NoSlot (slot tab key))
  else check ks (slot tab key).

(** the else-branch loop of a variadic key parameter: [for _, k := range keys { c.ks = check(c.ks, slot(k)) }] *)
Fixpoint ks_check_all (tab : list N) (ks : N) (keys : list bytes) : result N :=
  match keys with
  | [] => Ok ks
  | k :: r =>
    match check ks (slot tab k) with
    | Ok ks' => ks_check_all tab ks' r
    | Err e => Err e
    | Panic => Panic
    end
  end.

(** variadic key parameter (also Arbitrary.Keys):
    [if c.ks&NoSlot == NoSlot { for _, k := range keys { c.ks = NoSlot | slot(k); break } } else { for … check … }] *)
Definition ks_keys (tab : list N) (ks : N) (keys : list bytes) : result N :=
  if N.land ks NoSlot =? NoSlot then
    match keys with
    | [] => Ok ks
    | k :: _ => Ok (N.lor NoSlot (slot tab k))
    end
  else ks_check_all tab ks keys.

(** One key-carrying builder call: a single key parameter, or one variadic key parameter. *)
Inductive key_event :=
| KOne (k : bytes)
| KMany (ks : list bytes).

Definition ks_event (tab : list N) (ks : N) (e : key_event) : result N :=
  match e with
  | KOne k => ks_key tab ks k
  | KMany l => ks_keys tab ks l
  end.

(** the [ks] of a command after its key-carrying builder calls, in call order *)
Fixpoint ks_run (tab : list N) (ks : N) (es : list key_event) : result N :=
  match es with
  | [] => Ok ks
  | e :: r =>
    match ks_event tab ks e with
    | Ok ks' => ks_run tab ks' r
    | Err x => Err x
    | Panic => Panic
    end
  end.

(** all keys of a command, in call order *)
Definition event_keys (e : key_event) : list bytes :=
  match e with KOne k => [k] | KMany l => l end.
Definition all_keys (es : list key_event) : list bytes := flat_map event_keys es.

(** the keys of a command agree on their slot *)
Definition same_slot (tab : list N) (keys : list bytes) : Prop :=
  forall k1 k2, In k1 keys -> In k2 keys -> slot tab k1 = slot tab k2.

(** non-cluster builders overwrite [ks] on every key call: the key that decides the final value is
    the first key of the last non-empty key call *)
Fixpoint deciding_key (es : list key_event) (acc : option bytes) : option bytes :=
  match es with
  | [] => acc
  | KOne k :: r => deciding_key r (Some k)
  | KMany [] :: r => deciding_key r acc
  | KMany (k :: _) :: r => deciding_key r (Some k)
  end.

(** finite check used on the regenerated table: entry i is the bitwise CRC of the one-byte string [i] *)
Definition range256 : list N := map N.of_nat (seq 0 256).
Definition table_okb (tab : list N) : bool :=
  (length tab =? 256)%nat &&
  forallb (fun i => nth (N.to_nat i) tab 0 =? crc16_bitwise [i]) range256.

(** Completed.SetSlot *)
Definition set_slot (tab : list N) (ks : N) (key : bytes) : N :=
  if N.land ks NoSlot =? NoSlot then N.lor NoSlot (slot tab key) else slot tab key.

(** ---- correspondence cases (printed by harness/cmd/obs_slot) ---- *)
Inductive case :=
| CSlot (key : bytes) (impl_slot : N) (impl_crc : N)   (* cmds.Slot(key), crc16(key) *)
| CBuilt (init : N) (es : list key_event) (impl : result N)
      (* Slot() of a command built through real builder methods from NewBuilder(init); Panic = recovered panic *)
| CSetSlot (ks : N) (key : bytes) (impl : N).

Definition check_case_with (tab : list N) (c : case) : bool :=
  match c with
  | CSlot k s crc => (slot tab k =? s) && (crc16_tab tab k =? crc) && (slot_spec k =? s) && (crc16_bitwise k =? crc)
  | CBuilt init es o => result_eqb N.eqb (ks_run tab init es) o
  | CSetSlot ks k o => set_slot tab ks k =? o
  end.
