(** Model of binary.go: VectorString32/64, ToVector32/64, BinaryString.
    A float is represented by its IEEE bit pattern (an [N] below 2^32 / 2^64): math.Float32bits and
    math.Float32frombits are bit-pattern identities on every supported platform (trusted, and
    exercised by the correspondence run with NaN payloads, signalling NaNs, signed zeros, subnormals). *)
From Coq Require Import List Arith NArith Bool.
Require Import RV.Model.Base.
Import ListNotations.
Open Scope N_scope.

(** binary.LittleEndian.PutUintNN: k bytes, least significant first *)
Fixpoint le_bytes (k : nat) (w : N) : bytes :=
  match k with
  | O => []
  | S k' => (w mod 256) :: le_bytes k' (w / 256)
  end.

(** binary.LittleEndian.UintNN on a k-byte slice *)
Fixpoint of_le (bs : bytes) : N :=
  match bs with
  | [] => 0
  | b :: r => b + 256 * of_le r
  end.

(** VectorString32 (k = 4) / VectorString64 (k = 8) *)
Definition vector_string (k : nat) (ws : list N) : bytes := flat_map (le_bytes k) ws.

(** ToVector32 / ToVector64: [for i := 0; i < len(bs); i += k { … bs[i:i+k] … }].
    Slicing beyond the end panics in Go, hence [Panic] when the length is not a multiple of k. *)
Fixpoint to_vector (fuel k : nat) (bs : bytes) : result (list N) :=
  match bs with
  | [] => Ok []
  | _ =>
    match fuel with
    | O => Panic
    | S f =>
      if (length bs <? k)%nat then Panic
      else match to_vector f k (skipn k bs) with
           | Ok r => Ok (of_le (firstn k bs) :: r)
           | Err e => Err e
           | Panic => Panic
           end
    end
  end.

Definition to_vector_top (k : nat) (bs : bytes) : result (list N) := to_vector (S (length bs)) k bs.

(** BinaryString: same bytes, no copy *)
Definition binary_string (bs : bytes) : bytes := bs.

(** ---- correspondence cases (printed by harness/cmd/obs_binary) ---- *)
Inductive case :=
| CVecStr (k : nat) (ws : list N) (impl_out : bytes)           (* VectorStringNN(ws) = impl_out *)
| CToVec (k : nat) (bs : bytes) (impl_out : result (list N))   (* ToVectorNN(bs) = impl_out (Panic = recovered panic) *)
| CBinStr (bs : bytes) (impl_out : bytes).

Definition check_case (c : case) : bool :=
  match c with
  | CVecStr k ws o => bytes_eqb (vector_string k ws) o
  | CToVec k bs o => result_eqb (list_eqb N.eqb) (to_vector_top k bs) o
  | CBinStr bs o => bytes_eqb (binary_string bs) o
  end.
