(** Point update of a list (used by the Lock and Aside models).  No proofs here. *)
From Coq Require Import List.
Import ListNotations.

Fixpoint upd {A : Type} (n : nat) (x : A) (l : list A) : list A :=
  match l, n with
  | [], _ => []
  | _ :: r, O => x :: r
  | y :: r, S k => y :: upd k x r
  end.
