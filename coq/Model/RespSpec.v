(** Specification side of C12: RESP2 / RESP3 reply values as trees that also record, per node, which of
    the wire encodings is used; the encoder family [enc]; and [abs], the message a client must obtain.
    Written from the RESP3 specification, without reference to resp.go.  Definitions only.

      VBlob t s            t in $ ! =      <t><len>\r\n<s>\r\n                      (s: arbitrary bytes)
      VBlobStream t cs     t in $ ! =      <t>?\r\n (;<len>\r\n<c>\r\n)* ;0\r\n      (every chunk non-empty)
      VLine t s            t in + - , (    <t><s>\r\n                               (s without LF)
      VInt i                               :<i>\r\n
      VBool b                              #t\r\n | #f\r\n
      VNull t              t in _ $ ! = * ~ >    _\r\n  |  <t>-1\r\n                 (RESP3 null, RESP2 nulls)
      VAgg t st l          t in * ~ > %    <t><n>\r\n e1 … en  |  <t>?\r\n e1 … en .\r\n   (n = len/2 for %)
      VAttr kvs st v                       |<n>\r\n k1 v1 …  followed by the value v it decorates *)
From Coq Require Import List Arith NArith ZArith Bool.
Require Import RV.Model.Base RV.Model.RespWrite.
Require Export RV.Model.RespMsg.
Import ListNotations.
Open Scope N_scope.

Inductive rv : Type :=
| VBlob (t : N) (s : bytes)
| VBlobStream (t : N) (chunks : list bytes)
| VLine (t : N) (s : bytes)
| VInt (i : Z)
| VBool (b : bool)
| VNull (t : N)
| VAgg (t : N) (streamed : bool) (l : list rv)
| VAttr (kvs : list rv) (streamed : bool) (v : rv).

(** decimal numeral of an integer *)
Definition decZ (i : Z) : bytes :=
  match i with
  | Zneg p => 45 :: dec (Npos p)
  | _ => dec (Z.to_N i)
  end.

Definition is_pair_type (t : N) : bool := (t =? tMap) || (t =? tAttribute).

Definition agg_header (t : N) (streamed : bool) (n : nat) : bytes :=
  if streamed then [t; 63] ++ crlf
  else t :: dec (N.of_nat (if is_pair_type t then Nat.div2 n else n)) ++ crlf.

Definition agg_trailer (streamed : bool) : bytes := if streamed then [tEnd] ++ crlf else [].

Fixpoint enc (v : rv) : bytes :=
  match v with
  | VBlob t s => t :: dec (blen s) ++ crlf ++ s ++ crlf
  | VBlobStream t cs =>
      [t; 63] ++ crlf ++ flat_map (fun c => tChunk :: dec (blen c) ++ crlf ++ c ++ crlf) cs ++ [tChunk; 48] ++ crlf
  | VLine t s => t :: s ++ crlf
  | VInt i => tInteger :: decZ i ++ crlf
  | VBool b => [tBool; if b then 116 else 102] ++ crlf
  | VNull t => if t =? tNull then [tNull] ++ crlf else [t; 45; 49] ++ crlf
  | VAgg t st l => agg_header t st (length l) ++ flat_map enc l ++ agg_trailer st
  | VAttr kvs st v => agg_header tAttribute st (length kvs) ++ flat_map enc kvs ++ agg_trailer st ++ enc v
  end.

Definition with_attrs (m : msg) (a : option msg) : msg :=
  match m with Msg t s i l _ => Msg t s i l a end.

(** the message a client must obtain *)
Fixpoint abs (v : rv) : msg :=
  match v with
  | VBlob t s => Msg t s (zlen s) [] None
  | VBlobStream t cs => Msg t (concat cs) (zlen (concat cs)) [] None
  | VLine t s => Msg t s (zlen s) [] None
  | VInt i => Msg tInteger [] i [] None
  | VBool b => Msg tBool [] (if b then 1 else 0)%Z [] None
  | VNull _ => Msg tNull [] 0%Z [] None
  | VAgg t _ l => Msg t [] (zlen l) (map abs l) None
  | VAttr kvs _ v => with_attrs (abs v) (Some (Msg tAttribute [] (zlen kvs) (map abs kvs) None))
  end.

(** well-formedness: the side conditions of the wire format *)
Definition is_blob_type (t : N) : bool := (t =? tBlobString) || (t =? tBlobErr) || (t =? tVerbatim).
Definition is_line_type (t : N) : bool := (t =? tSimpleString) || (t =? tSimpleErr) || (t =? tFloat) || (t =? tBigNumber).
Definition is_agg_type (t : N) : bool := (t =? tArray) || (t =? tSet) || (t =? tPush) || (t =? tMap).
Definition is_null_type (t : N) : bool :=
  (t =? tNull) || (t =? tBlobString) || (t =? tBlobErr) || (t =? tVerbatim) || (t =? tArray) || (t =? tSet) || (t =? tPush).

Definition no_lf (s : bytes) : bool := forallb (fun b => negb (b =? 10)) s.
Definition nonempty {A} (l : list A) : bool := match l with [] => false | _ => true end.
Definition len_ok {A} (l : list A) : bool := (zlen l + 2 <? two63)%Z.   (* length + 2 is computed in int64 by streamTo *)
(** Go cannot allocate more than 2^48 bytes: a payload, or an aggregate of 40-byte messages, beyond that is not a reply any client could hold *)
Definition max_len : Z := 281474976710656%Z.
Definition le_max (x : Z) : bool := (x <=? max_len)%Z.
Definition blob_ok (s : bytes) : bool := le_max (zlen s).
Definition agg_ok {A} (l : list A) : bool := le_max (zlen l * 40).

Definition decorable (v : rv) : bool :=
  match v with
  | VAttr _ _ _ => false                 (* stacked attribute frames: unspecified *)
  | VNull t => t =? tNull                (* RESP2 has no attributes *)
  | _ => true
  end.

Fixpoint wf (v : rv) : bool :=
  match v with
  | VBlob t s => is_blob_type t && blob_ok s
  | VBlobStream t cs => is_blob_type t && forallb (fun c => nonempty c && len_ok c) cs
  | VLine t s => is_line_type t && no_lf s
  | VInt i => in_i64b i
  | VBool _ => true
  | VNull t => is_null_type t
  | VAgg t st l => is_agg_type t && agg_ok l && (if t =? tMap then Nat.even (length l) else true) && forallb wf l
  | VAttr kvs st v => agg_ok kvs && Nat.even (length kvs) && forallb wf kvs && decorable v && wf v
  end.
