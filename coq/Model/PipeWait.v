(** The context-aware waits outside the pipeline proper (C05): a Go `select` over ctx.Done() and one
    other channel, as used by cacheEntry.Wait / adapterEntry.Wait (lru.go, cache.go) and by
    retryer.WaitForRetry / WaitOrSkipRetry (retry.go).  Definitions only.

    [cancellable]: ctx.Done() != nil;  [done]: that channel is closed;  [ready]: the other channel
    (cache flight completed / retry timer fired) is ready. *)
From Coq Require Import List Bool ZArith.
Import ListNotations.

Inductive wout := WCtxErr | WValue.

(** the outcomes a blocked `select { case <-ctx.Done(): …; case <-other: … }` can take now
    ([] = it stays blocked); with a nil Done channel only the other case exists *)
Definition select_outcomes (cancellable done ready : bool) : list wout :=
  (if cancellable && done then [WCtxErr] else []) ++ (if ready then [WValue] else []).

(** cacheEntry.Wait: `if ch := ctx.Done(); ch == nil { <-e.ch } else { select {…} }`;
    adapterEntry.Wait: always the select (a nil channel never fires) *)
Definition cache_wait := select_outcomes.

(** retryer.WaitForRetry(ctx, d): returns at once when d <= 0; time.Sleep(d) when ctx.Done() == nil;
    otherwise select over ctx.Done() and the timer.  [None] = returns without waiting. *)
Definition wait_for_retry (d : Z) (cancellable done fired : bool) : option (list wout) :=
  if (d <=? 0)%Z then None else Some (select_outcomes cancellable done fired).

(** retryer.WaitOrSkipRetry: delay = 0 -> retry at once; delay > 0 -> wait only if the context has no
    deadline or more time left than the delay, otherwise give up at once; delay < 0 -> give up.
    Result: (retry?, the wait performed if any) *)
Definition wait_or_skip (delay : Z) (has_deadline : bool) (until_deadline : Z) (cancellable done fired : bool)
  : bool * option (list wout) :=
  if (delay =? 0)%Z then (true, None)
  else if (0 <? delay)%Z then
    if negb has_deadline || (delay <? until_deadline)%Z then (true, wait_for_retry delay cancellable done fired)
    else (false, None)
  else (false, None).
