(** The keep-alive watchdog (pipe.go backgroundPing) and the blocking-command signal p.blcksig, as an extension
    of the pipe LTS.  Definitions only.

    [w_blk] is p.blcksig as far as Do / DoMulti maintain it:
      Do / DoMulti with a blocking command:  atomic.AddInt32(&p.blcksig, 1)  right after the entry check of the
      context (folded into the step [LIncr], the next atomic instruction of the caller), and in the deferred function
      `if resp.err == nil { atomic.AddInt32(&p.blcksig, -1) }` (DoMulti: no result has a non-nil err): the counter is
      given back iff the call ends with replies only - a value, a null reply, a Redis error reply alike - and kept
      when it ends with a transport / context error (the caller of a blocking command that returns early aborts the
      wire: mux.blocking, CleanSubscriptions).
    Close's own transient +1 / -1 is not part of [w_blk] (it only decides about Close's sacrificial PING, which
    [PipeLts] keeps non-deterministic: [LClose2 t block1]).

    The watchdog: every p.pinggap the timer function runs; it does nothing if there was traffic since the last
    tick, if blcksig <> 0, or if a synchronous call is in flight (state = 0 and waits <> 0, that call has its own
    connection deadline); otherwise it issues `p.Do(context.Background(), PING)` from a new goroutine and waits for it
    at most p.timeout ([WTick]: timer armed).  The PING itself is an ordinary call of the pipe LTS (a [LCall] by a fresh
    thread); whether it comes back in time is [WOk] or [WTimeout].  On a time-out (or any other error) with
    blcksig = 0 the watchdog calls p._exit(err), which is [LExtExit] of the pipe LTS; with blcksig <> 0 it ignores
    the error. *)
From Coq Require Import List NArith ZArith Bool.
Require Import RV.Model.Base RV.Model.PipeQueue RV.Model.Pipe RV.Model.PipeLts.
Import ListNotations.
Open Scope N_scope.

Definition blocking (c : crec) : bool := existsb c_block (k_cmds c).
Definition is_reply (r : result) : bool := match r with RMsg _ => true | RErr _ => false end.
Definition all_replies (r : list result) : bool := forallb is_reply r.

(** the value of blcksig after the step [l] that led from [s] to [s'] *)
Definition blk_after (s : pstate) (l : label) (k : nat) (s' : pstate) : nat :=
  match l with
  | LIncr t => if blocking (p_calls s t) && negb (k_done (p_calls s t)) then S k else k
  | LDecr t | LFin t =>
    match k_pc (p_calls s' t), k_ret (p_calls s' t) with
    | PRet, Some r => if blocking (p_calls s t) && all_replies r then pred k else k
    | _, _ => k
    end
  | _ => k
  end.

Record wstate := mkW { w_p : pstate; w_blk : nat; w_wd : bool (* the watchdog waits for its PING *) }.

Inductive wlabel := WL (l : label) | WTick | WOk | WTimeout.

Definition w_init (g : config) : wstate := mkW (p_init g) 0 false.

Definition wstep (g : config) (ws : wstate) (wl : wlabel) : option wstate :=
  let s := w_p ws in
  match wl with
  | WL l =>
    match pstep g s l with
    | Some s' => Some (mkW s' (blk_after s l (w_blk ws) s') (w_wd ws))
    | None => None
    end
  | WTick =>
    if negb (w_wd ws) && Nat.eqb (w_blk ws) 0 && negb (N.eqb (p_st s) 0 && negb (Nat.eqb (p_waits s) 0))
       && match p_err s with None => true | Some _ => false end
    then Some (mkW s (w_blk ws) true) else None
  | WOk => if w_wd ws then Some (mkW s (w_blk ws) false) else None
  | WTimeout =>
    if w_wd ws then
      if Nat.eqb (w_blk ws) 0 then
        match pstep g s LExtExit with Some s' => Some (mkW s' (w_blk ws) false) | None => None end
      else Some (mkW s (w_blk ws) false)
    else None
  end.

Fixpoint wrun (g : config) (sched : list wlabel) (ws : wstate) : option wstate :=
  match sched with
  | [] => Some ws
  | l :: r => match wstep g ws l with Some ws' => wrun g r ws' | None => None end
  end.

(** what the counter counts: blocking calls that have taken their count and have not given it back, i.e. those in
    flight and those that ended with a transport or context error *)
Inductive pclass := NotStarted | InFlight | Returned.
Definition pcl (p : pc) : pclass := match p with PIdle | PIncr => NotStarted | PRet => Returned | _ => InFlight end.
Definition bholds (c : crec) : nat :=
  if blocking c && negb (k_donestart c) &&
     match pcl (k_pc c) with
     | NotStarted => false
     | InFlight => true
     | Returned => match k_ret c with Some r => negb (all_replies r) | None => true end
     end
  then 1 else 0.
Definition bsum (s : pstate) : nat := fold_right (fun t acc => (bholds (p_calls s t) + acc)%nat) 0%nat (p_tids s).

(** a blocking call is in flight, or one was abandoned with a transport / context error on this pipe *)
Definition blocked_or_aborted (s : pstate) : Prop := exists t, In t (p_tids s) /\ bholds (p_calls s t) = 1%nat.
