(** Abstract specification of the pipeline queue: a FIFO of positions with three cursors.
    Definitions only.

    Position j (j = 1, 2, ...) lives in slot [sl j]; the positions of one slot are used one after
    the other (a slot is a one-place buffer).  [q_fill s] is the sequence of items that occupied
    slot s so far; the item of position j is its [cntp sl (j-1) (sl j)]-th element.  Three cursors:
    [q_w] tickets issued, [q_1] positions handed to the writer, [q_2] positions completed by the
    reader.  There are no marks, locks, condition variables, sleep flags or wrapped counters here. *)
From Coq Require Import List Arith Bool.
Import ListNotations.

Record qstate := { q_fill : nat -> list nat; q_w : nat; q_1 : nat; q_2 : nat }.

Inductive qlabel :=
| QTicket                  (* a caller takes the next ticket *)
| QFill (s x : nat)        (* item x occupies the next position of slot s *)
| QDeq                     (* the writer takes the item of position q_1 + 1 *)
| QComp.                   (* the reader completes position q_2 + 1 *)

(** number of positions 1..n that live in slot s *)
Fixpoint cntp (sl : nat -> nat) (n s : nat) : nat :=
  match n with
  | O => 0
  | S m => cntp sl m s + (if Nat.eqb (sl (S m)) s then 1 else 0)
  end.

Definition qinit : qstate := {| q_fill := fun _ => []; q_w := 0; q_1 := 0; q_2 := 0 |}.

(** the item of position j *)
Definition qitem (sl : nat -> nat) (q : qstate) (j : nat) : nat := nth (cntp sl (j - 1) (sl j)) (q_fill q (sl j)) 0.

(** one step of the specification and the item it outputs *)
Definition qstep (sl : nat -> nat) (q : qstate) (l : qlabel) : option (qstate * option nat) :=
  match l with
  | QTicket => Some ({| q_fill := q_fill q; q_w := S (q_w q); q_1 := q_1 q; q_2 := q_2 q |}, None)
  | QFill s x =>
      (* the slot is free: every earlier occupant has been completed *)
      if Nat.eqb (length (q_fill q s)) (cntp sl (q_2 q) s) then
        Some ({| q_fill := fun s' => if Nat.eqb s' s then q_fill q s ++ [x] else q_fill q s';
                 q_w := q_w q; q_1 := q_1 q; q_2 := q_2 q |}, None)
      else None
  | QDeq =>
      let s := sl (S (q_1 q)) in
      if Nat.ltb (cntp sl (q_1 q) s) (length (q_fill q s)) then
        Some ({| q_fill := q_fill q; q_w := q_w q; q_1 := S (q_1 q); q_2 := q_2 q |}, Some (qitem sl q (S (q_1 q))))
      else None
  | QComp =>
      if Nat.ltb (q_2 q) (q_1 q) then
        Some ({| q_fill := q_fill q; q_w := q_w q; q_1 := q_1 q; q_2 := S (q_2 q) |}, Some (qitem sl q (S (q_2 q))))
      else None
  end.

(** extensional equality of specification states *)
Definition qeq (a b : qstate) : Prop :=
  (forall s, q_fill a s = q_fill b s) /\ q_w a = q_w b /\ q_1 a = q_1 b /\ q_2 a = q_2 b.
