(** Correspondence cases for the pipe LTS and the auxiliary waits (printed by obs_ctx and obs_fault).
    Definitions only.

    [CSched]: a schedule of the LTS reconstructed from a real execution (the order in which the server
    received the commands, which frames it managed to send, where the failure / cancellation / Close
    happened) together with what every call returned, as classes: the exact message, the context's
    error, or some other error.  The model must accept the schedule ([prun] = Some) and return the same
    to every call; [sent] lists the calls whose commands reached the server. *)
From Coq Require Import List NArith ZArith Bool.
Require Import RV.Model.Base RV.Model.PipeQueue RV.Model.Pipe RV.Model.PipeLts RV.Model.PipeWait RV.Model.PipeWatch.
Import ListNotations.
Open Scope N_scope.

Inductive rclass := RcMsg (m : msg) | RcCtx | RcErr.

Definition res_matches (r : result) (c : rclass) : bool :=
  match r, c with
  | RMsg m, RcMsg m' => msg_eqb m m'
  | RErr ECtx, RcCtx => true
  | RErr ECtx, RcErr => false
  | RErr _, RcErr => true
  | _, _ => false
  end.

Fixpoint all_match (rs : list result) (cs : list rclass) : bool :=
  match rs, cs with
  | [], [] => true
  | r :: rs', c :: cs' => res_matches r c && all_match rs' cs'
  | _, _ => false
  end.

Fixpoint lookup_msg (t : list (N * msg)) (k : N) : msg :=
  match t with
  | [] => empty_msg
  | (k', m) :: r => if N.eqb k k' then m else lookup_msg r k
  end.

(** server whose reply to the command with identity k is given by a table (subscribe confirmations and
    PONGs are not used by these scenarios) *)
Definition table_srv (t : list (N * msg)) : server :=
  mkSrv (fun c => lookup_msg t (c_id c)) (fun _ => []) (fun _ => pong_msg).

Definition subset (a b : list N) : bool := forallb (fun x => existsb (N.eqb x) b) a.

(** compact command constructor for printed schedules: identity, argc, flag bits as in [Pipe.K] *)
Definition KI (id argc flags : N) : cmd :=
  mkCmd id (N.to_nat argc) (N.testbit flags 0) (N.testbit flags 1) (N.testbit flags 2)
        (N.testbit flags 3) (N.testbit flags 4) (N.testbit flags 5).

Inductive case :=
| CSched (flow : bool) (cap : N) (replies : list (N * msg)) (sched : list label)
         (expect : list (N * list rclass)) (sent : list N)
| CWatch (flow : bool) (cap : N) (replies : list (N * msg)) (sched : list wlabel)
         (expect : list (N * list rclass)) (blk : N)
| CSelect (cancellable done ready : bool) (got_ctx : bool)
| CRetry (delay until : Z) (has_deadline cancellable done fired : bool) (retried waited got_ctx : bool).

Definition check_case (c : case) : bool :=
  match c with
  | CSched flow cap replies sched expect sent =>
    let g := mkCfg (if flow then Flow else Ring) (N.to_nat cap) false 7 (table_srv replies) in
    match prun g sched (p_init g) with
    | None => false
    | Some s =>
      forallb (fun '(t, cs) => match k_ret (p_calls s t) with Some rs => all_match rs cs | None => false end) expect &&
      subset (p_sent s) sent && subset sent (p_sent s)
    end
  | CWatch flow cap replies sched expect blk =>
    (* a schedule of the pipe LTS extended with the keep-alive watchdog; [blk]: the value of blcksig the schedule
       must end with *)
    let g := mkCfg (if flow then Flow else Ring) (N.to_nat cap) false 7 (table_srv replies) in
    match wrun g sched (w_init g) with
    | None => false
    | Some ws =>
      forallb (fun '(t, cs) => match k_ret (p_calls (w_p ws) t) with Some rs => all_match rs cs | None => false end) expect &&
      Nat.eqb (w_blk ws) (N.to_nat blk)
    end
  | CSelect cancellable done ready got_ctx =>
    (* the implementation's outcome must be one the select allows *)
    existsb (fun o => match o, got_ctx with WCtxErr, true => true | WValue, false => true | _, _ => false end)
            (cache_wait cancellable done ready)
  | CRetry delay until has_deadline cancellable done fired retried waited got_ctx =>
    let '(r, w) := wait_or_skip delay has_deadline until cancellable done fired in
    Bool.eqb r retried &&
    match w, waited with
    | None, false => true
    | Some outs, true =>
      existsb (fun o => match o, got_ctx with WCtxErr, true => true | WValue, false => true | _, _ => false end) outs
    | _, _ => false
    end
  end.
