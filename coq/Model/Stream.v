(** Model of the connection-recycling half of streaming reads (C29b):
      pipe.go  [DoStream] / [DoMultiStream], [RedisResultStream]: [HasNext], [Error], [WriteTo]
      mux.go   [DoStream] / [DoMultiStream]: spool.Acquire, then the wire's DoStream
    The byte-level half ([streamTo]) is Model/Resp's subject; here one reply is abstracted to what [WriteTo]
    looks at: the byte count, the error and the [clean] flag of [streamTo].
    Definitions only. *)
From Coq Require Import String List Arith NArith ZArith Bool.
Require Import RV.Model.Base RV.Model.PsBase.
Import ListNotations.
Open Scope N_scope.
Open Scope list_scope.

Inductive serr := ENil | ERedis | EWriter | EIO | EEOF | ECtxDone | EPipe.   (* redis nil / error reply / the io.Writer failed /
                                                                              I/O or protocol error / io.EOF / ctx.Err() / p.Error() *)

Definition serr_eqb (a b : serr) : bool :=
  match a, b with
  | ENil, ENil | ERedis, ERedis | EWriter, EWriter | EIO, EIO | EEOF, EEOF | ECtxDone, ECtxDone | EPipe, EPipe => true
  | _, _ => false
  end.

(** the result of [streamTo] on one reply *)
Record sres := mkSres { sr_n : N; sr_err : option serr; sr_clean : bool }.

(** the streamTo contract WriteTo relies on ("err must not be nil in case of !clean") *)
Definition sres_wf (r : sres) : bool := sr_clean r || match sr_err r with Some _ => true | None => false end.

(** what happens to the pooled wire *)
Inductive pev :=
| PClose          (* s.w.Close() *)
| PStore.         (* s.p.Store(s.w) *)

Record stream := mkStream {
  st_n : nat;               (* replies still to be read *)
  st_e : option serr;       (* sticky error *)
  st_wire : bool            (* carries a wire (false: NewErrorResultStream) *)
}.

Definition has_next (s : stream) : bool := negb (st_n s =? 0)%nat && match st_e s with None => true | Some _ => false end.

(** RedisResultStream.WriteTo on the next reply [r] (only looked at when a reply is actually read).
    Returns the new stream, (n, err) as returned to the caller, whether a reply was consumed, and the pool events. *)
Definition write_to (s : stream) (r : sres) : stream * (N * option serr) * bool * list pev :=
  match st_e s with
  | Some e => (s, (0, Some e), false, [])
  | None =>
    if (st_n s =? 0)%nat then (s, (0, None), false, [])
    else
      let e1 := if sr_clean r then None else sr_err r in
      let n1 := if sr_clean r then st_n s else 1%nat in
      let n2 := (n1 - 1)%nat in
      if (n2 =? 0)%nat then
        (* the last reply: decrement blcksig and waits, close the wire first if the stream failed, store it *)
        match e1 with
        | None => (mkStream 0 (Some EEOF) (st_wire s), (sr_n r, sr_err r), true, [PStore])
        | Some e => (mkStream 0 (Some e) (st_wire s), (sr_n r, sr_err r), true, [PClose; PStore])
        end
      else (mkStream n2 e1 (st_wire s), (sr_n r, sr_err r), true, [])
  end.

(** the caller's loop [for s.HasNext() { s.WriteTo(w) }] over the replies the server sends *)
Fixpoint drain (fuel : nat) (s : stream) (replies : list sres) : stream * list (N * option serr) * list pev * list sres :=
  match fuel with
  | O => (s, [], [], replies)
  | S f =>
    if has_next s then
      match replies with
      | [] => (s, [], [], [])
      | r :: rest =>
        let '(s1, out, used, evs) := write_to s r in
        let '(s2, outs, evs2, rem) := drain f s1 (if used then rest else replies) in
        (s2, out :: outs, evs ++ evs2, rem)
      end
    else (s, [], [], replies)
  end.

(** ---- DoStream / DoMultiStream ---- *)
Record call := mkCall {
  c_ncmd : nat;            (* 1 for DoStream, len(multi) for DoMultiStream *)
  c_ctx_done : bool;       (* ctx.Err() != nil at the check in DoStream *)
  c_real : bool;           (* the wire handed out by spool.Acquire is a counted pool wire (false: the uncounted dead pipe
                              Acquire returns for a context that is already done) *)
  c_state : N;             (* p.state: 0 idle, 1 pipelining (a bug: panics), >= 2 closing / closed *)
  c_flush_ok : bool        (* writing and flushing the commands succeeded *)
}.

(** Result: the stream, the pool events, and whether a counted wire is now neither stored nor carried by the stream.
    [fixed] = the repaired code (fix: "DoStream/DoMultiStream must store the wire back when the context is already
    done"): the early return on ctx.Err() stores the wire first.  [fixed = false] is the code as it was found (DESIGN D7),
    kept as a record only ([do_stream_orig], [lifetime_orig]). *)
Definition do_stream_gen (fixed : bool) (c : call) : result (stream * list pev * bool) :=
  if c_ctx_done c then
    if fixed then Ok (mkStream 0 (Some ECtxDone) false, [PStore], false)        (* pool.Store(p); NewErrorResultStream(ctx.Err()) *)
    else Ok (mkStream 0 (Some ECtxDone) false, [], c_real c)                     (* before the fix: the acquired wire is not stored *)
  else if c_state c =? 1 then Panic
  else if c_state c =? 0 then
    if c_flush_ok c then Ok (mkStream (c_ncmd c) None true, [], false)
    else Ok (mkStream 0 (Some EPipe) false, [PClose; PStore], false)     (* error latched, conn closed, stored *)
  else Ok (mkStream 0 (Some EPipe) false, [PStore], false).

Definition do_stream := do_stream_gen true.
Definition do_stream_orig := do_stream_gen false.

(** the whole life of one call: DoStream, then the caller drains the stream *)
Definition lifetime_gen (fixed : bool) (c : call) (replies : list sres) : result (list (N * option serr) * list pev * bool) :=
  match do_stream_gen fixed c with
  | Ok (s, evs, leak) =>
    let '(_, outs, evs2, _) := drain (S (length replies)) s replies in
    Ok (outs, evs ++ evs2, leak)
  | Err e => Err e
  | Panic => Panic
  end.

Definition lifetime := lifetime_gen true.
Definition lifetime_orig := lifetime_gen false.

Definition count_store (l : list pev) : nat := length (filter (fun e => match e with PStore => true | _ => false end) l).

(** what the wire handed out by spool.Acquire is when the call starts:
    - [wire_err]: p.Error() != nil — every pipe whose state is not 0 has its error latched (the dead pipes of a failed
      dial and of a done context are created in state 3 with an error; a closing pipe sets the error before the state);
    - [wire_noslot]: the dead pipe pool.Acquire makes up for a context that is already done; it was never counted in
      pool.size and pool.Store must not give a slot back for it (pipe.noslot). *)
Definition wire_err (c : call) : bool := negb (c_state c =? 0).
Definition wire_noslot (c : call) : bool := negb (c_real c).
(** the made-up dead pipe is always in state 3 *)
Definition call_wf (c : call) : bool := c_real c || wire_err c.

(** the pool's books after the events of one call that started on a fresh pool: (size, idle list length).
    pool.Store puts a healthy wire on the idle list; a wire with an error is closed and dropped from the count,
    unless it never had a slot. *)
Fixpoint pool_after (size idle : nat) (bad noslot : bool) (evs : list pev) : nat * nat :=
  match evs with
  | [] => (size, idle)
  | PClose :: r => pool_after size idle true noslot r
  | PStore :: r => if bad then pool_after (if noslot then size else size - 1)%nat idle bad noslot r
                   else pool_after size (S idle) bad noslot r
  end.

(** the books of a fresh pool after one whole call *)
Definition books (c : call) (evs : list pev) : nat * nat :=
  pool_after (if c_real c then 1 else 0)%nat 0%nat (wire_err c) (wire_noslot c) evs.

(** ---- correspondence cases (printed by harness/cmd/obs_stream) ---- *)
Definition oserr_eqb := option_eqb serr_eqb.

Inductive case :=
| CStream (c : call) (replies : list sres)              (* what each reply is, as set up by the observer *)
          (outs : list (N * option serr))               (* (n, err) of every WriteTo the caller made while HasNext *)
          (size idle : nat)                              (* the stream pool's books afterwards (it was empty before) *)
          (final_err : option serr).                     (* stream.Error() at the end *)

Definition check_case (x : case) : bool :=
  match x with
  | CStream c replies outs size idle final_err =>
    match do_stream c with
    | Ok (s, evs, leak) =>
      let '(s2, outs', evs2, _) := drain (S (length replies)) s replies in
      let '(sz, id) := books c (evs ++ evs2) in
      list_eqb (fun a b => N.eqb (fst a) (fst b) && oserr_eqb (snd a) (snd b)) outs' outs &&
      (sz =? size)%nat && (id =? idle)%nat &&
      oserr_eqb (st_e s2) final_err
    | _ => false
    end
  end.
