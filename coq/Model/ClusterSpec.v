(** Specification side of the topology theorems: an abstract CLUSTER SLOTS answer (what a cluster
    node means to say) and its encoding as a reply tree.  Definitions only. *)
From Coq Require Import List Arith NArith ZArith Bool.
Require Import RV.Model.Base RV.Model.ClusterTopo.
Import ListNotations.
Open Scope Z_scope.

Record snode := mkSnode { sn_host : bytes; sn_port : Z }.
(** one element of the CLUSTER SLOTS array: a slot range served by a primary (first) and replicas *)
Record sentry := mkSentry { se_lo : Z; se_hi : Z; se_nodes : list snode }.

Definition enc_node (n : snode) : msg :=
  MAgg 42 [MStr 36 (sn_host n); MInt 58 (sn_port n); MStr 36 [105; 100]%N].
Definition enc_entry (e : sentry) : msg :=
  MAgg 42 (MInt 58 (se_lo e) :: MInt 58 (se_hi e) :: map enc_node (se_nodes e)).
Definition enc_slots (es : list sentry) : msg := MAgg 42 (map enc_entry es).

(** the address a node entry denotes ([None]: endpoint "?") *)
Definition node_addr (dh : bytes) (n : snode) : option addr := parse_endpoint dh (sn_host n) (sn_port n).
Definition entry_master (dh : bytes) (e : sentry) : option addr :=
  match se_nodes e with n :: _ => node_addr dh n | [] => None end.
Definition entry_range (e : sentry) : Z * Z := (se_lo e, se_hi e).
