(** Reader-side commit of client-side-cache replies: pipe.go _backgroundRead, the two branches that call
    cache.Update / cache.Cancel.  Given the commands of the batch being answered ([multi]), the index
    [ff] of the reply inside that batch, the reply [m] and the instant [now] the reader reads
    (time.Now()), [cache_wire] is the list of store calls made, in order.

    Wire forms (built by DoCache / doCacheMGet / DoMultiCache):
      standard:   CLIENT CACHING YES, MULTI, PTTL k, cmd, EXEC                 (EXEC reply at ff = 4)
      MGET:       CLIENT CACHING YES, MULTI, PTTL k1 .. PTTL kn, MGET k1..kn, EXEC
      static TTL: CLIENT CACHING YES, cmd                                       (reply at ff = 1)
    and repetitions of these inside one DoMultiCache batch.  Definitions only. *)
From Coq Require Import List NArith ZArith Bool.
Require Import RV.Model.Base RV.Model.Lru RV.Model.CacheKey.
Import ListNotations.
Open Scope Z_scope.

Record wcmd := WC {
  w_tokens : tokens;
  w_scr : bool;        (* scrRoTag *)
  w_static : bool;     (* staticTTLTag *)
  w_mget : bool;       (* mtGetTag *)
  w_optin : bool       (* optInTag: CLIENT CACHING YES *)
}.

Inductive scall :=
| SUpdate (k c : bytes) (v : msg)
| SCancel (k c : bytes) (err : msg).

(** RedisMessage.Error() is a real error (not Nil): simple or blob error *)
Definition is_redis_err (m : msg) : bool := (m_typ m =? 45)%N || (m_typ m =? 33)%N.

(** cp.setExpireAt(now.Add(time.Duration(pttl) * time.Millisecond).UnixMilli()) when pttl >= 0 *)
Definition with_pttl (cp : msg) (pttl now : Z) : msg :=
  if 0 <=? pttl then set_xat cp (trunc56 (unix_milli (now + pttl * 1000000))) else cp.

Fixpoint mget_calls (s : tokens) (cc : bytes) (replies : list msg) (msgs : list msg) (i : nat) (now : Z) : result (list scall) :=
  match msgs with
  | [] => Ok []
  | cp :: r =>
      match mget_cache_key s i, nth_error replies i with
      | Ok ck, Some p =>
          match mget_calls s cc replies r (S i) now with
          | Ok l => Ok (SUpdate ck cc (with_pttl (set_mark cp true) (m_intlen p) now) :: l)
          | e => e
          end
      | _, _ => Panic        (* index out of range *)
      end
  end.

Definition cache_wire (multi : list wcmd) (ff : nat) (m : msg) (now : Z) : result (list scall) :=
  match ff with
  | O => Ok []                                   (* first reply of a batch (CLIENT CACHING YES / any) *)
  | S ff1 =>
      match nth_error multi ff with
      | None => Panic
      | Some cur =>
          if w_static cur then
            match cache_key (w_scr cur) (w_tokens cur) with
            | Ok (ck, cc) => if is_redis_err m then Ok [SCancel ck cc m] else Ok [SUpdate ck cc (set_mark m true)]
            | _ => Panic
            end
          else if (4 <=? Z.of_nat ff) && (2 <=? Z.of_nat (length (m_vals m))) &&
                  match multi with c0 :: _ => w_optin c0 | [] => false end then
            match nth_error multi ff1 with
            | None => Panic
            | Some cb =>
                let vals := m_vals m in
                if w_mget cb then
                  match mget_cache_cmd (w_tokens cb) with
                  | Ok cc => mget_calls (w_tokens cb) cc vals (m_vals (last vals empty_msg)) 0 now
                  | _ => Panic
                  end
                else
                  match cache_key (w_scr cb) (w_tokens cb) with
                  | Ok (ck, cc) =>
                      let ci := (length vals - 1)%nat in
                      let cp := nth ci vals empty_msg in
                      let p := nth (ci - 1)%nat vals empty_msg in
                      Ok [SUpdate ck cc (with_pttl (set_mark cp true) (m_intlen p) now)]
                  | _ => Panic
                  end
            end
          else Ok []
      end
  end.

(** the store calls as operations of Model/Lru.v (what a connection history feeds to [Lru.step]) *)
Definition op_of_scall (c : scall) : op :=
  match c with
  | SUpdate k c v => Update k c v
  | SCancel k c _ => Cancel k c 1
  end.

(** correspondence case: the store calls a real pipe made for reply [ff] of batch [multi]; the reader's
    time.Now() lies between two harness readings [t0] <= [t1]; expiries are compared as intervals *)
Inductive ocall := OUpd (k c : bytes) (v : msg) | OCan (k c : bytes).

Definition body_eqb (a b : msg) : bool := msg_eqb (set_xat a 0) (set_xat b 0).

Fixpoint calls_match (lo hi : list scall) (obs : list ocall) : bool :=
  match lo, hi, obs with
  | [], [], [] => true
  | SUpdate k c v0 :: l0, SUpdate _ _ v1 :: l1, OUpd k' c' v :: r =>
      bytes_eqb k k' && bytes_eqb c c' && body_eqb v0 v && (m_xat v0 <=? m_xat v) && (m_xat v <=? m_xat v1) && calls_match l0 l1 r
  | SCancel k c _ :: l0, SCancel _ _ _ :: l1, OCan k' c' :: r => bytes_eqb k k' && bytes_eqb c c' && calls_match l0 l1 r
  | _, _, _ => false
  end.

Inductive case := CWire (multi : list wcmd) (ff : nat) (m : msg) (t0 t1 : Z) (obs : list ocall).

Definition check_case (c : case) : bool :=
  match c with
  | CWire multi ff m t0 t1 obs =>
      match cache_wire multi ff m t0, cache_wire multi ff m t1 with
      | Ok lo, Ok hi => calls_match lo hi obs
      | _, _ => false
      end
  end.
