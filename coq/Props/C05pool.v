(** C05 (pool half) - a caller waiting for a blocking-pool connection whose context is done wakes up.

    [C05_pool_wakeup]: in every reachable state of the repaired pool LTS (all schedules, any
    capacity, any number of callers) a parked caller whose context is done has the broadcast of its
    cancellation goroutine pending (the wake-up cannot be lost), and a continuation of at most
    three steps (the mutex holder's cond.Wait, that broadcast, the caller's re-lock) makes the
    caller leave Acquire with the dead pipe carrying the context error, without further waiting.
    [C05_pool_wakeup_refuted_orig]: on the code as found (broadcast without the mutex) the
    schedule "check; cancel; Broadcast; Wait" parks the caller for good (defect D8).
    Real-time "shortly after" is measured by the observer, not a model notion. *)
From Coq Require Import List NArith ZArith Bool Arith.
Require Import RV.Model.Base RV.Model.Pool.
Require Import RV.Proofs.PoolProofs RV.Proofs.PoolProofs4 RV.Proofs.PoolTheorems.
Import ListNotations.
Open Scope Z_scope.

Theorem C05_pool_wakeup : forall cfg s t, repaired cfg -> reachable cfg s ->
  In t (parked s) -> In t (ctxdone s) ->
  In t (bpend s) /\
  exists sch s', (length sch <= 3)%nat /\ forallb (wake_label t) sch = true /\ run cfg sch s = Some s' /\
                 In t (exiting s') /\ hd_error (held s') = Some CtxDead.
Proof.
  intros cfg s t Hrep Hr Hp Hd. split.
  - eapply pool_cancelled_waiter_has_waker; eassumption.
  - eapply pool_cancelled_waiter_wakes; eassumption.
Qed.
Print Assumptions C05_pool_wakeup.

(** a caller whose context is already done when it evaluates the wait condition never parks *)
Theorem C05_pool_done_ctx_never_parks : forall cfg t s, memb t (ctxdone s) = true ->
  held (acquire_eval cfg t s) = CtxDead :: held s /\ In t (exiting (acquire_eval cfg t s)).
Proof. exact acquire_eval_ctxdone. Qed.
Print Assumptions C05_pool_done_ctx_never_parks.

Theorem C05_pool_wakeup_refuted_orig :
  exists sch s, run (orig_cfg 1 0 false) sch init = Some s /\
    In 2%nat (parked s) /\ In 2%nat (ctxdone s) /\ ~ In 2%nat (bpend s) /\
    (forall l, wake_label 2 l = true -> lstep (orig_cfg 1 0 false) s l = None) /\
    (forall o, lstep (orig_cfg 1 0 false) s (Signal o) = None) /\ lstep (orig_cfg 1 0 false) s CloseBcast = None.
Proof. exact pool_wakeup_refuted_orig. Qed.
Print Assumptions C05_pool_wakeup_refuted_orig.

Example C05_pool_nonvacuous :
  exists s, run (fixed_cfg 1 0 false)
              [AcqEnter 1 false; MakeOk 1 (Some 1%nat) false; AcqReturn 1; AcqEnter 2 true; CtxCancel 2; AcqPark 2] init = Some s /\
            In 2%nat (parked s) /\ In 2%nat (ctxdone s) /\ bpend s = [2%nat].
Proof. eexists. split; [vm_compute; reflexivity|]. cbn. tauto. Qed.
