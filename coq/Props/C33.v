(** C33 — Built commands carry exactly the caller's arguments.

    "The argv of every built command is its command tokens followed by the caller's arguments in call
    order, with integers in base 10, floats in shortest round-trip form and durations or times in the
    unit the option names.  The client never modifies or recycles a command before it has been
    completely written to the server, even when the caller abandons the call."

    [builders] is the graph of every builder type / method of internal/cmds/gen_*.go (+ iter.go),
    regenerated on every run (Gen/Builders.v); the finite obligations [gen_graph_wf], [gen_graph_fmt_ok]
    are re-proved on it by the kernel.  Paths, argument values and their number are unbounded.
    Go's shortest-round-trip float printer is not modelled: [fe] (strconv.FormatFloat(x,'f',-1,64) as a
    function from bit patterns to text) is universally quantified; the observer checks on real output
    that the text parses back to the argument.

    The ownership half is in the second part of the file (model Model/CmdOwnership.v). *)
From Coq Require Import List Arith NArith ZArith Bool.
Require Import RV.Model.Base RV.Model.Slot RV.Model.Format RV.Model.BuilderGraph RV.Model.BuilderSem RV.Model.BuilderChecks.
Require Import RV.Gen.Crc16Tab RV.Gen.Builders.
Require Import RV.Proofs.FormatProofs RV.Proofs.BuilderProofs RV.Proofs.BuilderGenProofs.
Require Import RV.Model.BuilderGen. (* the observer's check_case: built (and kept consistent) with the property *)
Require Import RV.Model.CmdOwnership RV.Proofs.CmdOwnershipProofs.
Import ListNotations.
Open Scope N_scope.

(** For every root constructor, every sequence of builder calls with any argument values, and either
    terminal: the built argv is the command tokens followed by what each call appends, in call order;
    its argument-derived elements are exactly the caller's arguments call by call and parameter by
    parameter, each rendered once; all its other elements are the literal tokens of the command and of
    the chosen options (independent of the argument values). *)
Theorem C33_argv : forall fe init rn r ss t c,
  find_root rn roots = Some r ->
  build_path builders crc16tab fe init rn ss t = Ok c ->
  exists st tr,
    run_path builders crc16tab fe init rn ss = Ok st /\
    resolve builders (r_node r) ss = Some tr /\
    c_argv c = map snd (b_cs st) /\
    c_argv c = map unpack (r_toks r) ++ flat_map (fun call => map snd (call_out fe call)) tr /\
    args_of (b_cs st) = flat_map (fun call => opt_list (call_args_text fe (fst call) (snd call))) tr /\
    toks_of (b_cs st) = map unpack (r_toks r ++ flat_map (fun call => tok_items (e_items (fst call))) tr) /\
    (length (args_of (b_cs st)) + length (toks_of (b_cs st)) = length (c_argv c))%nat.
Proof.
  intros fe init rn r ss t c Hr Hb. unfold build_path in Hb.
  destruct (run_path builders crc16tab fe init rn ss) as [st| |] eqn:Erun; try discriminate.
  unfold finish in Hb. destruct (get_node builders (b_node st)) as [nd|]; [|discriminate].
  destruct (offers nd t); [|discriminate]. inversion Hb; subst c. cbn [c_argv].
  destruct (argv_structure builders crc16tab fe init rn ss st r gen_graph_wf Hr Erun) as (tr & A & B & C & D).
  exists st, tr. repeat split; try assumption.
  rewrite map_length. apply argv_split_length.
Qed.
Print Assumptions C33_argv.

(** every argument item of every method of the generated builders uses the canonical format of its
    parameter type: string as is, FormatInt/FormatUint base 10, FormatFloat 'f' -1 64, a time.Duration
    right after the token EX (resp. PX) divided by time.Second (resp. time.Millisecond), a time.Time right
    after EXAT (resp. PXAT) as Unix() (resp. UnixMilli()), base 10 *)
Theorem C33_formats : forall nd e,
  In nd (g_nodes builders) -> In e (n_edges nd) -> items_fmt_ok (e_params e) None (e_items e) = true.
Proof.
  intros nd e Hn He. pose proof gen_graph_fmt_ok as H. unfold graph_fmt_ok in H.
  rewrite forallb_forall in H. specialize (H nd Hn). rewrite forallb_forall in H. exact (H e He).
Qed.
Print Assumptions C33_formats.

(** what the check means, type by type ([prev] is the item appended just before) *)
Theorem C33_format_int : forall prev f, fmt_ok prev PInt f = true -> f = FI 10.
Proof.
  intros prev f H. destruct f as [|b| | | | | |]; cbn in H; try discriminate.
  destruct (N.eq_dec b 10) as [->|Hn]; [reflexivity|].
  destruct b as [|[[[[|[]|]|[]|]|[[|[]|]|[]|]|]|[[[|[]|]|[[|[]|]|[]|]|]|[]|]|]]; try discriminate; contradiction.
Qed.
Print Assumptions C33_format_int.

Theorem C33_format_duration : forall prev f, fmt_ok prev PDur f = true ->
  (prev = Some (IT EX) /\ f = FD 10 1000000000) \/ (prev = Some (IT PX) /\ f = FD 10 1000000).
Proof.
  intros prev f H. destruct f as [| | | | |b u| |]; cbn in H; try discriminate.
  assert (Hb : b = 10).
  { destruct (N.eq_dec b 10) as [->|Hn]; [reflexivity|].
    destruct b as [|[[[[|[]|]|[]|]|[[|[]|]|[]|]|]|[[[|[]|]|[[|[]|]|[]|]|]|[]|]|]]; try discriminate; contradiction. }
  subst b. destruct prev as [[t| | |]|]; try discriminate.
  apply orb_prop in H. destruct H as [H|H]; apply andb_prop in H; destruct H as [Ht Hu];
    apply N.eqb_eq in Ht; apply N.eqb_eq in Hu; subst; [left|right]; split; reflexivity.
Qed.
Print Assumptions C33_format_duration.

Theorem C33_format_time : forall prev f, fmt_ok prev PTime f = true ->
  (prev = Some (IT EXAT) /\ f = FTs 10) \/ (prev = Some (IT PXAT) /\ f = FTms 10).
Proof.
  intros prev f H. destruct f as [| | | | | |b|b]; cbn in H; try discriminate.
  - assert (Hb : b = 10).
    { destruct (N.eq_dec b 10) as [->|Hn]; [reflexivity|].
      destruct b as [|[[[[|[]|]|[]|]|[[|[]|]|[]|]|]|[[[|[]|]|[[|[]|]|[]|]|]|[]|]|]]; try discriminate; contradiction. }
    subst b. destruct prev as [[t| | |]|]; try discriminate. apply N.eqb_eq in H. subst. left. split; reflexivity.
  - assert (Hb : b = 10).
    { destruct (N.eq_dec b 10) as [->|Hn]; [reflexivity|].
      destruct b as [|[[[[|[]|]|[]|]|[[|[]|]|[]|]|]|[[[|[]|]|[[|[]|]|[]|]|]|[]|]|]]; try discriminate; contradiction. }
    subst b. destruct prev as [[t| | |]|]; try discriminate. apply N.eqb_eq in H. subst. right. split; reflexivity.
Qed.
Print Assumptions C33_format_time.

(** base 10: the text of an integer argument is the canonical decimal numeral that denotes it *)
Theorem C33_int_base10 : forall fe z, fmt_sval fe (FI 10) (VI z) = Some (fmt_int z) /\ int_value (fmt_int z) = Some z.
Proof. intros fe z. split; [reflexivity|apply fmt_int_value]. Qed.
Print Assumptions C33_int_base10.

Theorem C33_uint_base10 : forall fe n,
  fmt_sval fe (FU 10) (VU n) = Some (fmt_uint n) /\ dec_value (fmt_uint n) = Some n /\ dec_canonical (fmt_uint n) = true.
Proof. intros fe n. split; [reflexivity|apply fmt_uint_value]. Qed.
Print Assumptions C33_uint_base10.

(** units: EX d appends whole seconds, PX d whole milliseconds (truncated toward zero, as Go's integer division);
    EXAT t appends Unix seconds, PXAT t Unix milliseconds *)
Theorem C33_units : forall fe ns sec nsec,
  fmt_sval fe (FD 10 1000000000) (VD ns) = Some (fmt_int (Z.quot ns 1000000000)) /\
  fmt_sval fe (FD 10 1000000) (VD ns) = Some (fmt_int (Z.quot ns 1000000)) /\
  fmt_sval fe (FTs 10) (VT sec nsec) = Some (fmt_int sec) /\
  fmt_sval fe (FTms 10) (VT sec nsec) = Some (fmt_int (sec * 1000 + Z.of_N (nsec / 1000000))).
Proof. intros. repeat split. Qed.
Print Assumptions C33_units.

(** Arbitrary: tokens, then the caller's keys and arguments in call order *)
Theorem C33_arbitrary_argv : forall tg init toks ss t c,
  arb_path tg crc16tab init toks ss t = Ok c ->
  c_argv c = toks ++ flat_map (fun s => match s with AKeys l | AArgs l => l end) ss.
Proof.
  intros tg init toks ss t c H. unfold arb_path in H.
  assert (Hs : forall ss st st', arb_steps crc16tab st ss = Ok st' ->
                fst st' = fst st ++ flat_map (fun s => match s with AKeys l | AArgs l => l end) ss).
  { clear. induction ss as [|s ss IH]; intros st st' H; cbn [arb_steps] in H.
    - inversion H; subst. cbn. now rewrite app_nil_r.
    - destruct (arb_step crc16tab st s) as [st1| |] eqn:E; try discriminate.
      rewrite (IH _ _ H). cbn [flat_map]. rewrite app_assoc. f_equal.
      destruct st as [cs ks]. destruct s as [l|l]; cbn [arb_step] in E.
      + destruct (ks_keys crc16tab ks l); inversion E; subst; reflexivity.
      + inversion E; subst; reflexivity. }
  destruct (arb_steps crc16tab (toks, init) ss) as [[cs ks]| |] eqn:E; try discriminate.
  specialize (Hs _ _ _ E). cbn [fst] in Hs. subst cs.
  assert (Hb : forall cs cf ks c, arb_build cs cf ks = Ok c -> c_argv c = cs).
  { clear. intros cs cf ks c H. unfold arb_build in H. destruct cs as [|[|x c0] r]; try discriminate.
    destruct (has_suffix _ _); inversion H; reflexivity. }
  destruct t; cbn [arb_finish] in H; try (now apply Hb in H).
  destruct (toks ++ _) as [|[|x c0] r] eqn:Ec; try discriminate.
  destruct (_ || _); [|discriminate]. now apply Hb in H.
Qed.
Print Assumptions C33_arbitrary_argv.

(** non-vacuity: SET k v EX 1.5s through the generated graph; ZADD with an iterator; GETEX PXAT *)
Example C33_nonvacuous :
  let fe := FEnv (fun _ => None) (fun _ => None) in
  option_map c_argv (match build_path builders crc16tab fe 32768 0x01536574
      [Call 0x014b6579 [AS [107]]; Call 0x0156616c7565 [AS [118]]; Call 0x014578 [AD 1500000000%Z]] TBuild
      with Ok c => Some c | _ => None end)
  = Some [[83; 69; 84]; [107]; [118]; [69; 88]; [49]].
Proof. vm_compute. reflexivity. Qed.

(** ---------------------------------------------------------------------------------------------
    Ownership / recycling (model: Model/CmdOwnership.v — the life of one command inside Do / DoMulti /
    DoCache of the single, cluster and sentinel clients, with the PutCompleted decision transcribed). *)

(** PARTIAL with respect to the property text ("never modifies or recycles a command before it has been
    completely written to the server"): the theorems below are complete for the model, i.e. for the clients'
    retry / redirect loops and their PutCompleted decision, over all attempt sequences and cancellation points.
    What the model takes from the pipeline (not proved here; it belongs to the pipe/ring family and is tied there
    by wire observation): (a) a reply for a command implies the command was written completely; (b) a transport
    error is handed to a caller only after that pipe's writer goroutine has stopped; (c) the pipe itself never
    modifies a queued command.  obs_recycle checks the decision and, on the wire, that an abandoned command still
    reaches the server intact. *)

(** A command's slice is returned to the pool only after the attempt that used it has ended with a
    reply and no transport error (so the writer is done with it), or when it was never queued;
    a pinned command is never recycled.  For every client kind, every sequence of attempts
    (retries, redirects) and every point of cancellation. *)
Theorem C33_no_early_recycle : forall k pinned evs tr,
  run_life k pinned evs = Some tr -> no_early_recycle tr = true.
Proof. exact life_no_early_recycle. Qed.
Print Assumptions C33_no_early_recycle.

Theorem C33_pinned_never_recycled : forall k evs tr,
  run_life k true evs = Some tr -> recycled tr = false.
Proof. exact pinned_never_recycled. Qed.
Print Assumptions C33_pinned_never_recycled.

Theorem C33_recycled_at_most_once : forall k pinned evs tr,
  run_life k pinned evs = Some tr -> (count_recycles tr <= 1)%nat.
Proof. exact recycled_at_most_once. Qed.
Print Assumptions C33_recycled_at_most_once.

(** the commands a pipe builds itself on the cached MGET / JSON.MGET path (one PTTL per missing key, the rewritten
    MGET) are commands too: they are recycled only after EXEC delivered its array, never on an error return *)
Theorem C33_pipe_internal_only_after_exec : forall pinned evs tr,
  run_life KPipeInternal pinned evs = Some tr -> recycled tr = true ->
  exists e, evs = [e] /\ outcome_of e = OutReply /\ pinned = false.
Proof.
  intros pinned evs tr H Hr. unfold run_life in H. destruct evs as [|e r]; cbn [run_life_aux] in H; [discriminate|].
  cbn [goes_again] in H. destruct r; [|discriminate].
  exists e. split; [reflexivity|].
  destruct (outcome_of e) eqn:Eo; cbn [recycles andb] in H; inversion H; subst; try discriminate.
  destruct pinned; cbn in H; inversion H; subst; [discriminate|]. split; reflexivity.
Qed.
Print Assumptions C33_pipe_internal_only_after_exec.

(** the pooled batch buffer of clusterClient.DoMulti / DoMultiCache (its array is what the pipe's ring slot points at):
    it goes back to the pool only when every member of the batch got a reply, in particular never while a member
    was abandoned in the queue *)
Theorem C33_cluster_batch_buffer : forall members,
  batch_no_early_recycle (run_batch members) = true /\
  (recycled (run_batch members) = true <-> forall o, In o members -> member_replied o = true).
Proof.
  intros members. split; [apply batch_no_early|].
  rewrite batch_recycled_iff. unfold batch_clean. apply forallb_forall.
Qed.
Print Assumptions C33_cluster_batch_buffer.

Example C33_nonvacuous_life :
  exists tr, run_life KSingle false [EvAttempt OutReply] = Some tr /\ recycled tr = true
  /\ exists tr2, run_life KSingle false [EvAttemptAgain OutTransportError; EvAttempt OutAbandoned] = Some tr2 /\ recycled tr2 = false.
Proof. eexists. split; [vm_compute; reflexivity|]. split; [vm_compute; reflexivity|]. eexists. split; vm_compute; reflexivity. Qed.
