(** C03 — Non-retryable commands are executed at most once per call.

    The environment of a call lists, per attempt, what came back and whether the server executed
    the command on that attempt; [consistent] ties the two: MOVED / ASK / REDIRECT / TRYAGAIN /
    CLUSTERDOWN / LOADING replies and unwritten attempts are never executions, a transport failure
    or an expired connection may or may not hide one.

    FULL STATEMENT (refuted on the faithful model, see [C03_at_most_once_refuted]):
      forall env, Forall consistent env -> single_do … false … env = (tr, o) -> executions tr <= 1
    and the same for the cluster / standalone clients and for every non-retryable member of a batch. *)
From Coq Require Import List Arith NArith ZArith Bool Lia.
Require Import RV.Model.Base RV.Model.ClusterTopo RV.Model.Retry RV.Model.ClusterDo.
Require Import RV.Proofs.RetryProofs RV.Proofs.ClusterDoProofs.
Import ListNotations.
Open Scope Z_scope.

(** the defect: the pipe hands errConnExpired to a command that was written and executed (the
    connection lifetime ran out and the reply did not come within the close grace period), and
    every client re-sends on errConnExpired unconditionally *)
Theorem C03_at_most_once_refuted :
  exists env, forallb consistent env = true /\
    let '(tr, o) := single_do (S (length env)) (mkPolicy true (fun _ _ => 0) true) false 1 WFirst env in
    (1 < executions tr)%nat.
Proof. exists [w_expired_exec; w_value_exec]. vm_compute. split; [reflexivity|lia]. Qed.
Print Assumptions C03_at_most_once_refuted.

(** exactly which inputs fail (single / sentinel client): every execution beyond the first sits
    behind an attempt that the server executed and that ended with the expired-connection marker *)
Theorem C03_at_most_once_characterised : forall f p attempts w env tr o,
  single_do f p false attempts w env = (tr, o) ->
  (executions tr <= 1 + length (filter expired_executed tr))%nat.
Proof. exact single_do_c03. Qed.
Print Assumptions C03_at_most_once_characterised.

(** the property outside that class: when no attempt that ended with an expired connection had been
    executed (the command was never written, or written but not run), at most one execution —
    for every policy, failure sequence, context state *)
Theorem C03_at_most_once_partial : forall f p attempts w env tr o,
  single_do f p false attempts w env = (tr, o) ->
  (forall e, In e tr -> k_reply (e_tick e) = RExpired -> k_executed (e_tick e) = false) ->
  (executions tr <= 1)%nat.
Proof.
  intros f p attempts w env tr o H Hn. pose proof (single_do_c03 _ _ _ _ _ _ _ H) as B.
  assert (Z : filter expired_executed tr = []).
  { clear - Hn. induction tr as [|e r IH]; [reflexivity|]. cbn [filter]. unfold expired_executed at 1.
    destruct (is_expired (k_reply (e_tick e))) eqn:X; cbn [andb].
    - rewrite (Hn e (or_introl eq_refl)) by (destruct (k_reply (e_tick e)); try discriminate; reflexivity).
      apply IH. intros; apply Hn; auto; now right.
    - apply IH. intros; apply Hn; auto; now right. }
  rewrite Z in B. cbn in B. lia.
Qed.
Print Assumptions C03_at_most_once_partial.

(** a second send of a non-retryable command happens only after an expired-connection result:
    connection drops, timeouts and client-side retries never cause one *)
Theorem C03_resend_only_after_proof_partial : forall f p attempts w env tr o,
  single_do f p false attempts w env = (tr, o) ->
  forall pre e post, tr = pre ++ e :: post -> post <> [] -> k_reply (e_tick e) = RExpired.
Proof. exact single_do_nonretryable_shape. Qed.
Print Assumptions C03_resend_only_after_proof_partial.

(** cluster client: a further send follows only MOVED / ASK (not executed by a consistent server)
    or an expired connection; same characterisation *)
Theorem C03_cluster_characterised : forall c slot to_replica st env tr out st',
  (forall ct, In ct env -> consistent (ct_tick ct) = true) ->
  cluster_do c slot false to_replica st env = (tr, out, st') ->
  (cexecutions tr <= 1 + length (filter cexpired_executed tr))%nat.
Proof.
  intros c slot to_replica st env tr out st' Hc H. unfold cluster_do in H.
  apply (chain_c03 c).
  - exact (proj1 (do_loop_chain c slot false to_replica _ _ _ _ _ _ _ _ _ _ H)).
  - intros s Hs. destruct (do_loop_sends_env c slot false to_replica _ _ _ _ _ _ _ _ _ _ H s Hs) as [ct [I E]].
    rewrite E. now apply Hc.
Qed.
Print Assumptions C03_cluster_characterised.

(** standalone client with EnableRedirect, single command: REDIRECT proves non-execution *)
Theorem C03_standalone_characterised : forall f p redirect attempts w env tr o,
  (forall o', In o' env -> forall t, In t (o_inner o') -> consistent t = true) ->
  standalone_do f p redirect false attempts w env = (tr, o) ->
  (executions tr <= 1 + length (filter expired_executed tr))%nat.
Proof. exact standalone_do_c03. Qed.
Print Assumptions C03_standalone_characterised.

(** second defect: standalone.DoMulti re-sends the whole batch when any member was answered
    REDIRECT, including members the old primary had already executed *)
Theorem C03_standalone_batch_refuted :
  exists cs env, forallb (fun ob => forallb (forallb consistent) (ob_inner ob)) env = true /\
    all_retryable cs = false /\
    let '(tr, o) := standalone_domulti (S (length env)) (mkPolicy true (fun _ _ => 0) true) true cs 1 WFirst env in
    (1 < batch_executions 0 tr)%nat.
Proof. exists w_cmds, w_env_batch. vm_compute. split; [reflexivity|]. split; [reflexivity|lia]. Qed.
Print Assumptions C03_standalone_batch_refuted.

(** batches on one connection (single / sentinel): without an expired connection a batch with a
    non-retryable member is written exactly once *)
Theorem C03_batch_partial : forall f p cs attempts w x env,
  all_retryable cs = false ->
  (forall t, In t x -> is_expired (k_reply (effective t)) = false) ->
  fst (single_domulti (S f) p cs attempts w (x :: env)) = [mkBsend w 0 x].
Proof. intros. now rewrite single_domulti_once. Qed.
Print Assumptions C03_batch_partial.

(** the recovery after a partially answered batch resumes inside a transaction whose MULTI is at
    index 0 ([txIdx == 0] doubles as "no transaction") *)
Theorem C03_txidx_conflation :
  recover_from [mkCmd None KMulti false false 1; mkCmd None KPlain false false 2; mkCmd None KExec false false 3]
               [RVal 1; RExpired; RExpired] 0 0 = Some 1%nat /\
  recover_from [mkCmd None KPlain true false 0; mkCmd None KMulti false false 1; mkCmd None KPlain false false 2; mkCmd None KExec false false 3]
               [RVal 5; RVal 1; RExpired; RExpired] 0 0 = Some 1%nat.
Proof. exact recover_from_txidx0. Qed.
Print Assumptions C03_txidx_conflation.

(** ---- non-vacuity of the partial theorem: drops after execution never lead to a second send ---- *)
Example C03_nonvacuous :
  let t r x := mkTick r x false false false None in
  let '(tr, o) := single_do 9 (mkPolicy true (fun _ _ => 0) true) false 1 WFirst [t RTransport true; t (RVal 1) true] in
  executions tr = 1%nat /\ o = Done RTransport.
Proof. vm_compute. split; reflexivity. Qed.
