(** C05 — Calls honour context deadlines and cancellation (everything except the blocking pool's
    wake-up, which is Props/C05pool.v).

    Object: the LTS [PipeLts.pstep] with the environment event [LCtxDone t] (the context of call t is
    cancelled / its deadline passes), and [Model/PipeWait.v] for the selects outside the pipeline
    (client-side-cache flight wait, retry back-off).
    "Returns shortly after the deadline" is not a model notion: the theorems say that after CtxDone the
    caller's own next step is enabled (it is not blocked on anything) and returns the context's error;
    the wall-clock slack is measured by obs_ctx.  Partial for scheduling/timing.

    The ring queue does not observe the context while a caller is parked on a full ring (ring.go
    PutOne ignores ctx; documented in rueidis.go); that waiting state is therefore not covered — for
    the flow buffer it is ([C05_exit_enabled_flow_put]). *)
From Coq Require Import List NArith ZArith Bool.
Require Import RV.Model.Base RV.Model.PipeQueue RV.Model.Pipe RV.Model.PipeLts RV.Model.PipeWait.
Require Import RV.Proofs.PipeLtsBasics RV.Proofs.PipeExclusive RV.Proofs.PipeLifecycle RV.Proofs.PipeCtx.
Import ListNotations.
Open Scope N_scope.

(** waiting for the reply of a queued command: in any state, once the context is done the caller's
    abort step is enabled; it returns the context error for every command and leaves queue and wire
    untouched (the abandoned slot is drained by a goroutine that keeps the count) *)
Theorem C05_exit_enabled : forall g s t,
  k_pc (p_calls s t) = PWait -> k_done (p_calls s t) = true ->
  exists s', pstep g s (LAbort t) = Some s' /\ k_pc (p_calls s' t) = PRet /\
             k_ret (p_calls s' t) = Some (errs_for (p_calls s t) ECtx) /\
             p_q s' = p_q s /\ p_c2s s' = p_c2s s /\ p_wbuf s' = p_wbuf s.
Proof. exact abort_enabled. Qed.
Print Assumptions C05_exit_enabled.

(** blocked in PutOne / PutMulti of the flow buffer *)
Theorem C05_exit_enabled_flow_put : forall g s t,
  g_kind g = Flow -> k_pc (p_calls s t) = PPut -> k_done (p_calls s t) = true -> k_ctxput (p_calls s t) = true ->
  exists s', pstep g s (LPutFail t) = Some s' /\ k_pc (p_calls s' t) = PRet /\
             k_ret (p_calls s' t) = Some (errs_for (p_calls s t) ECtx) /\ p_q s' = p_q s /\ p_c2s s' = p_c2s s.
Proof. exact putfail_enabled. Qed.
Print Assumptions C05_exit_enabled_flow_put.

(** a synchronous call (syncDo / syncDoMulti) whose connection deadline — derived from the context's
    deadline — has passed: the failure step is enabled, and from there the caller's own non-blocking steps
    (the compare-and-swap of leaveSync, or background() and the decrement when others are queued behind it)
    make it return the context error for every command *)
Theorem C05_exit_enabled_sync : forall g s t,
  sync_user (p_calls s t) = true -> k_ctx (p_calls s t) = CtxDeadline -> k_done (p_calls s t) = true ->
  exists s1, pstep g s (LSyncFail t true) = Some s1 /\ k_pc (p_calls s1 t) = PDecr true /\
             k_res (p_calls s1 t) = errs_for (p_calls s t) ECtx /\
             exists path s2, (path = [LDecr t] \/ path = [LDecr t; LBgAfter t; LDecr t]) /\
                             prun g path s1 = Some s2 /\
                             k_ret (p_calls s2 t) = Some (errs_for (p_calls s t) ECtx).
Proof. exact syncfail_enabled. Qed.
Print Assumptions C05_exit_enabled_sync.

(** cancellation can arrive in every state of a started call with a cancellable context *)
Theorem C05_ctxdone_any_time : forall g s t,
  k_ctx (p_calls s t) <> CtxBg -> k_pc (p_calls s t) <> PIdle -> k_done (p_calls s t) = false ->
  exists s', pstep g s (LCtxDone t) = Some s' /\ k_done (p_calls s' t) = true /\ k_pc (p_calls s' t) = k_pc (p_calls s t).
Proof. exact ctxdone_enabled. Qed.
Print Assumptions C05_ctxdone_any_time.

(** waiting on another caller's cache flight (cacheEntry.Wait / adapterEntry.Wait) and the retry
    back-off (WaitForRetry): with a cancellable context that is done, the select is not blocked and its
    context branch is enabled, whatever the other channel does *)
Theorem C05_exit_enabled_cache_wait : forall ready,
  In WCtxErr (cache_wait true true ready) /\ cache_wait true true ready <> [].
Proof. intros ready. split; [apply select_ctx_enabled|apply select_not_blocked_after_done]. Qed.
Print Assumptions C05_exit_enabled_cache_wait.

Theorem C05_exit_enabled_retry : forall d fired, (0 < d)%Z ->
  exists outs, wait_for_retry d true true fired = Some outs /\ In WCtxErr outs.
Proof. exact retry_wait_ctx. Qed.
Print Assumptions C05_exit_enabled_retry.

(** the same for every cancellable context, with or without a deadline: whenever WaitOrSkipRetry decides to wait (no
    deadline, or a deadline later than the end of the back-off) the wait it performs is the select over ctx.Done() and
    the timer; once the context is done the context's error is an outcome, and the only one while the timer has not fired *)
Theorem C05_exit_enabled_retry_any_ctx : forall delay has_dl until fired,
  (0 < delay)%Z -> has_dl = false \/ (delay < until)%Z ->
  exists outs, wait_or_skip delay has_dl until true true fired = (true, Some outs) /\ In WCtxErr outs /\
               (fired = false -> outs = [WCtxErr]).
Proof. exact retry_wait_any_ctx. Qed.
Print Assumptions C05_exit_enabled_retry_any_ctx.

(** WaitOrSkipRetry never starts a back-off that would outlast the context's deadline *)
Theorem C05_retry_skips_when_deadline_sooner : forall delay until c d f,
  (0 < delay)%Z -> (until <= delay)%Z -> wait_or_skip delay true until c d f = (false, None).
Proof. exact retry_skip_when_deadline_sooner. Qed.
Print Assumptions C05_retry_skips_when_deadline_sooner.

(** While a caller uses the connection synchronously (syncDo / syncDoMulti: the connection deadline is the one
    derived from its context) it is the only user: no other synchronous caller, no background writer or reader,
    and the background workers - whose first action is to clear the connection deadline - have not been started.
    Whatever step any thread takes, as long as the caller is still in its synchronous section afterwards the
    background workers still have not been started: only the caller's own step (its failure step, which ends
    the section) can start them.  Hence nobody but the caller touches the deadline it installed. *)
Theorem C05_sync_owner_alone : forall g sched s t,
  prun g sched (p_init g) = Some s -> sync_user (p_calls s t) = true ->
  p_bg s = false /\ bg_user s = false /\ (forall u, sync_user (p_calls s u) = true -> u = t).
Proof. exact sync_owner_alone. Qed.
Print Assumptions C05_sync_owner_alone.

Theorem C05_sync_deadline_preserved : forall g sched s t l s',
  prun g sched (p_init g) = Some s -> sync_user (p_calls s t) = true -> pstep g s l = Some s' ->
  sync_user (p_calls s' t) = true -> p_bg s' = false.
Proof. exact sync_deadline_preserved. Qed.
Print Assumptions C05_sync_deadline_preserved.

(** a call whose context is already done when it starts returns the context error, its commands are
    never put on the wire (neither by itself nor by the writer) and it never owns a queue slot *)
Theorem C05_done_ctx_sends_nothing : forall g sched s t,
  prun g sched (p_init g) = Some s -> k_donestart (p_calls s t) = true ->
  k_pc (p_calls s t) = PRet /\ ~ In t (p_sent s) /\ ~ In t (map s_owner (q_pend (p_q s) ++ q_wr (p_q s))).
Proof. exact done_ctx_sends_nothing. Qed.
Print Assumptions C05_done_ctx_sends_nothing.

(** non-vacuity: a queued call is cancelled while the server has not answered; a call with a done
    context sends nothing *)
Definition echo_srv : server := mkSrv (fun c => Msg 36 [c_id c] 0 []) (fun c => []) (fun c => pong_msg).
Definition plain (id : N) : cmd := mkCmd id 2 false false false false false false.
Definition cfg : config := mkCfg Ring 4 false 7 echo_srv.
Definition sched : list label :=
  [LCall 1 [plain 10] false CtxCancel; LIncr 1; LLoad 1; LBg 1; LPut 1; LWNext; LWFlush;
   LCtxDone 1; LAbort 1;
   LCall 2 [plain 20] false CtxDeadline; LCtxDone 2; LIncr 2].

Example C05_nonvacuous :
  option_map (fun s => (k_ret (p_calls s 1), k_drain (p_calls s 1), k_ret (p_calls s 2), k_donestart (p_calls s 2), p_sent s, p_c2s s))
             (prun cfg sched (p_init cfg)) =
  Some (Some [RErr ECtx], DWait, Some [RErr ECtx], true, [1], [WReply (plain 10)]).
Proof. vm_compute. reflexivity. Qed.
