(** C29 — Streaming reads deliver exact bytes (byte-level half: streamTo of resp.go).
    The connection-recycling half (DoStream / DoMultiStream / pool) is Props/C29b.v.

    [stream_to] (Model/RespStream.v) transcribes streamTo after two repairs found by this property
    (a failing writer made it discard bytes of the next reply while reporting the reply clean; a streamed
    string abandoned after an error was reported clean).  [runw] runs it on a byte stream with a writer
    that accepts a budget of bytes and then fails ([unlimited]: never fails) -- "failure at every byte of
    the output"; failure of the input at every byte is the correspondence run's truncation sweep.
    Values and encodings are those of C12 (all sizes, arbitrary payload bytes, B >= 32). *)
From Coq Require Import List Arith NArith ZArith Bool.
From Coq Require Import String.
Require Import RV.Model.Base RV.Model.RespWrite RV.Model.RespStream.
Require Import RV.Proofs.RespRoundtrip RV.Proofs.RespStreamProofs RV.Proofs.RespStreamCounted RV.Proofs.RespStreamValues
               RV.Proofs.RespStreamChunks RV.Proofs.RespStreamC29 RV.Proofs.RespStreamTrunc.
Import ListNotations.
Open Scope N_scope.

(** a string (counted or streamed in any chunks), verbatim string, simple string, double, big number,
    integer or boolean reply: the writer receives exactly the payload, n is its length, no error, and
    exactly the reply has been taken off the connection *)
Theorem C29_bytes_payload : forall (B : nat) (v : rv) (p rest : bytes),
  (32 <= B)%nat -> wf v = true -> payload v = Some p ->
  stream B None (enc v ++ rest) = ((zlen p, SNone, true), rest, p).
Proof. intros B v p rest HB. now apply stream_payload_top. Qed.
Print Assumptions C29_bytes_payload.

(** … in any state of the writer and with any sufficient fuel (the form used for several replies in a row) *)
Theorem C29_bytes_payload_general : forall (B : nat) (v : rv) (p rest : bytes) (f : nat) (w : wstate),
  (32 <= B)%nat -> wf v = true -> payload v = Some p -> unlimited w -> (cost v <= S f)%nat ->
  exists w', runw B (stream_to (S f)) (enc v ++ rest) w = ((zlen p, SNone, true), rest, w') /\ w_out w' = w_out w ++ p.
Proof. intros B v p rest f w HB. now apply stream_payload. Qed.
Print Assumptions C29_bytes_payload_general.

(** the payload is what a normal read of the same reply returns (C12_roundtrip gives [abs v]) *)
Theorem C29_bytes_same_as_read : forall (v : rv) (p : bytes), payload v = Some p ->
  (m_typ (abs v) <> tInteger /\ m_typ (abs v) <> tBool /\ p = m_str (abs v)) \/
  ((m_typ (abs v) = tInteger \/ m_typ (abs v) = tBool) /\ p = decZ (m_ival (abs v))).
Proof. exact payload_is_read. Qed.
Print Assumptions C29_bytes_same_as_read.

(** the writer fails after k bytes, for any k: the first k payload bytes were written, the writer's error
    is reported, and the reply is nevertheless consumed exactly and reported clean *)
Theorem C29_bytes_writer_failure : forall (B : nat) (v : rv) (p rest : bytes) (f : nat) (k : N) (out : bytes),
  (32 <= B)%nat -> wf v = true -> payload v = Some p -> single_copy v = true -> (cost v <= S f)%nat ->
  let w := {| w_budget := Some k; w_out := out; w_failed := false |} in
  let d := firstn (Nat.min (N.to_nat k) (List.length p)) p in
  exists w',
    runw B (stream_to (S f)) (enc v ++ rest) w =
      ((zlen d, (if k <? blen p then SErr eWriter else SNone), true), rest, w') /\
    w_out w' = out ++ d.
Proof. intros B v p rest f k out HB. now apply stream_writer_fails. Qed.
Print Assumptions C29_bytes_writer_failure.

(** null replies (RESP3 null and every RESP2 null) are reported as rueidis.Nil *)
Theorem C29_bytes_nil : forall (B : nat) (t : N) (rest : bytes) (f : nat) (w : wstate),
  (32 <= B)%nat -> is_null_type t = true ->
  runw B (stream_to (S f)) (enc (VNull t) ++ rest) w = ((0%Z, SNil, true), rest, w).
Proof. intros B t rest f w HB. now apply stream_null. Qed.
Print Assumptions C29_bytes_nil.

(** error replies (simple errors, blob errors counted or streamed) are reported as a RedisError that
    carries exactly the decoded message *)
Theorem C29_bytes_error : forall (B : nat) (v : rv) (rest : bytes) (f : nat) (w : wstate),
  (32 <= B)%nat -> wf v = true -> (cost v <= S f)%nat ->
  (m_typ (abs v) = tSimpleErr \/ m_typ (abs v) = tBlobErr) ->
  (forall t s, enc v = t :: s -> k_stream_blob t = false) ->
  runw B (stream_to (S f)) (enc v ++ rest) w = ((0%Z, SRedis (abs v), true), rest, w).
Proof. intros B v rest f w HB. now apply stream_error. Qed.
Print Assumptions C29_bytes_error.

(** push frames that arrive before the reply are skipped *)
Theorem C29_bytes_push_skipped : forall (B : nat) (st : bool) (l : list rv) (s : bytes) (f : nat) (w : wstate),
  (32 <= B)%nat -> wf (VAgg tPush st l) = true -> (cost (VAgg tPush st l) <= S f)%nat ->
  runw B (stream_to (S f)) (enc (VAgg tPush st l) ++ s) w = runw B (stream_to f) s w.
Proof. intros B st l s f w HB. now apply stream_push. Qed.
Print Assumptions C29_bytes_push_skipped.

(** other aggregates are refused with an error, but consumed completely (the connection stays usable) *)
Theorem C29_bytes_aggregate_refused : forall (B : nat) (t : N) (st : bool) (l : list rv) (rest : bytes) (f : nat) (w : wstate),
  (32 <= B)%nat -> (t = tArray \/ t = tSet \/ t = tMap) ->
  wf (VAgg t st l) = true -> (cost (VAgg t st l) <= S f)%nat ->
  runw B (stream_to (S f)) (enc (VAgg t st l) ++ rest) w = ((0%Z, SErr eUnsupported, true), rest, w).
Proof. intros B t st l rest f w HB. now apply stream_aggregate. Qed.
Print Assumptions C29_bytes_aggregate_refused.

(** failure of the INPUT at every byte, combined with ANY writer (also one that has already failed part-way
    through the payload): every strict prefix of a counted string reply (cut inside the length line, inside
    the payload or inside the final CRLF, or empty) is reported unclean, with an error -- a connection on which
    the rest of the reply is still outstanding must not be recycled *)
Theorem C29_bytes_truncated_unclean : forall (B : nat) (t : N) (s : bytes) (k f : nat) (w : wstate),
  (32 <= B)%nat -> (t = tBlobString \/ t = tVerbatim) -> (zlen s + 2 < two63)%Z ->
  (k < List.length (enc (VBlob t s)))%nat ->
  unclean (fst (fst (runw B (stream_to (S f)) (firstn k (enc (VBlob t s))) w))).
Proof. intros B t s k f w HB. now apply stream_counted_trunc. Qed.
Print Assumptions C29_bytes_truncated_unclean.

(** Not proved, observed on every run (obs_respstream, kinds trunc / writer): truncations of the other reply
    kinds (streamed strings, lines, integers, …) are unclean; a streamed string whose writer fails is unclean. *)

(** non-vacuity: a streamed verbatim string after a push, a writer failing inside a counted string,
    a RESP2 null, a blob error *)
Example C29_bytes_nonvacuous :
  let push := VAgg tPush false [VLine tSimpleString (h "6d657373616765"); VInt 7] in
  stream 32 None (enc push ++ enc (VBlobStream tVerbatim [h "7478743a"; h "0d0a00ff"]) ++ h "2b4e4558540d0a")
    = ((8%Z, SNone, true), h "2b4e4558540d0a", h "7478743a0d0a00ff") /\
  stream 32 (Some 3) (enc (VBlob tBlobString (h "30313233343536373839")) ++ h "2b4e4558540d0a")
    = ((3%Z, SErr eWriter, true), h "2b4e4558540d0a", h "303132") /\
  stream 32 None (enc (VNull tBlobString) ++ [1]) = ((0%Z, SNil, true), [1], []) /\
  fst (fst (stream 32 None (enc (VBlob tBlobErr (h "455252")) ++ [1]))) = (0%Z, SRedis (abs (VBlob tBlobErr (h "455252"))), true).
Proof. vm_compute. repeat split. Qed.
