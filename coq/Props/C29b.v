(** C29 (connection-recycling half) — DoStream / DoMultiStream take one WriteTo per command, report nil and error
    replies as errors, and return the pooled connection exactly once after the last reply, closing it first if a
    reply could not be consumed completely.

    Model: [RV.Model.Stream] transcribes [RedisResultStream] ([HasNext], [WriteTo] with its [n] / [e] bookkeeping),
    [DoStream] / [DoMultiStream] and the caller's loop; one reply is abstracted to what [WriteTo] looks at, the
    (n, err, clean) triple of [streamTo] — whose byte-level correctness is the other half (Props/C29.v).
    The theorems quantify over every number of commands, every list of replies (any mix of payloads, nil, error
    replies, writer failures, I/O failures at any reply) and every way DoStream itself can go. *)
From Coq Require Import String List Arith NArith ZArith Bool Lia.
Require Import RV.Model.Base RV.Model.PsBase RV.Model.Stream RV.Proofs.StreamProofs.
Import ListNotations.
Open Scope N_scope.
Open Scope list_scope.

(** ** one WriteTo per command: draining a stream of n commands makes one WriteTo per reply read, each consuming
    exactly one reply, in order (outs = the (n, err) of the replies read, [rem] = the replies left on the wire);
    all n when every reply is clean, up to and including the first unclean one otherwise. *)
Theorem C29_one_per_cmd : forall n rs w,
  (0 < n)%nat -> (n <= length rs)%nat -> forallb sres_wf rs = true ->
  let '(s', outs, evs, rem) := drain (S (length rs)) (mkStream n None w) rs in
  has_next s' = false /\
  outs = map proj (firstn (length outs) rs) /\ rem = skipn (length outs) rs /\
  match first_unclean (firstn n rs) with
  | None => length outs = n /\ st_e s' = Some EEOF
  | Some k => length outs = S k
  end.
Proof.
  intros n rs w Hn Hl Hwf. pose proof (store_once n rs w Hn Hl Hwf) as H.
  destruct (drain (S (length rs)) (mkStream n None w) rs) as [[[s' outs] evs] rem].
  destruct H as [_ [H2 [H3 [H4 H5]]]]. repeat split; auto.
  destruct (first_unclean (firstn n rs)); tauto.
Qed.
Print Assumptions C29_one_per_cmd.

(** ** the wire is stored exactly once, by the WriteTo that reads the last reply, and closed first exactly when a
    reply was not consumed cleanly; a finished stream never touches the pool again. *)
Theorem C29_store_once : forall n rs w,
  (0 < n)%nat -> (n <= length rs)%nat -> forallb sres_wf rs = true ->
  let '(s', outs, evs, rem) := drain (S (length rs)) (mkStream n None w) rs in
  count_store evs = 1%nat /\
  (first_unclean (firstn n rs) = None -> evs = [PStore]) /\
  (first_unclean (firstn n rs) <> None -> evs = [PClose; PStore]) /\
  (forall fuel rs', drain fuel s' rs' = (s', [], [], rs')) /\
  (forall r, exists out, write_to s' r = (s', out, false, [])).
Proof.
  intros n rs w Hn Hl Hwf. pose proof (store_once n rs w Hn Hl Hwf) as H.
  destruct (drain (S (length rs)) (mkStream n None w) rs) as [[[s' outs] evs] rem].
  destruct H as [H1 [H2 [H3 _]]]. split; [exact H1|].
  destruct (first_unclean (firstn n rs)) as [k|]; repeat split; try tauto; try congruence.
  - intros fuel rs'. apply drain_done. exact H2.
  - intros r. apply write_to_done. exact H2.
  - intros fuel rs'. apply drain_done. exact H2.
  - intros r. apply write_to_done. exact H2.
Qed.
Print Assumptions C29_store_once.

(** ** nil and error replies (clean, with an error) are reported as the error of that WriteTo only: the stream goes
    on with the next reply, the wire is neither closed nor stored early. *)
Theorem C29_nil_err : forall n w r, (1 < n)%nat -> sr_clean r = true ->
  write_to (mkStream n None w) r = (mkStream (n - 1) None w, (sr_n r, sr_err r), true, []) /\
  has_next (mkStream (n - 1) None w) = true.
Proof.
  intros n w r Hn Hc. split; [apply write_to_clean_err; assumption|].
  unfold has_next. cbn. destruct n as [|[|n]]; try lia. reflexivity.
Qed.
Print Assumptions C29_nil_err.

(** ** the whole call.  Full statement (the property): over the life of a DoStream / DoMultiStream call the wire taken
    from the pool is stored exactly once.

      forall c rs, lifetime c rs = Ok (outs, evs, leak) -> count_store evs = 1 /\ leak = false

    The code does not satisfy it (DESIGN D7; repair pending with builder lts): *)
Theorem C29_store_once_call_refuted : exists c rs outs evs,
  forallb sres_wf rs = true /\ lifetime c rs = Ok (outs, evs, true) /\ count_store evs = 0%nat.
Proof.
  exists (mkCall 1 true true 0 true), [mkSres 5 None true], [], []. vm_compute. auto.
Qed.
Print Assumptions C29_store_once_call_refuted.

(** exactly which calls fail it: those whose context is done at the check in DoStream — the wire is then never
    stored (a leak when it is a counted pool wire, i.e. when the context ended after spool.Acquire); every other call
    stores it exactly once, whatever DoStream itself runs into (flush failure, closed pipe) and whatever the replies *)
Theorem C29_store_once_call_characterised : forall c rs outs evs leak,
  (0 < c_ncmd c)%nat -> (c_ncmd c <= length rs)%nat -> forallb sres_wf rs = true ->
  lifetime c rs = Ok (outs, evs, leak) ->
  (c_ctx_done c = false -> count_store evs = 1%nat /\ leak = false) /\
  (c_ctx_done c = true -> evs = [] /\ leak = c_real c /\ outs = []).
Proof. exact lifetime_store. Qed.
Print Assumptions C29_store_once_call_characterised.

Theorem C29_store_once_call_partial : forall c rs outs evs leak,
  (0 < c_ncmd c)%nat -> (c_ncmd c <= length rs)%nat -> forallb sres_wf rs = true ->
  c_ctx_done c = false ->
  lifetime c rs = Ok (outs, evs, leak) -> count_store evs = 1%nat /\ leak = false.
Proof. intros c rs outs evs leak Hn Hl Hwf Hc H. apply (lifetime_store c rs outs evs leak Hn Hl Hwf H). exact Hc. Qed.
Print Assumptions C29_store_once_call_partial.

(** non-vacuity: five commands — payload, nil, error reply, payload, then an I/O failure *)
Example C29b_nonvacuous :
  lifetime (mkCall 5 false true 0 true)
           [mkSres 10 None true; mkSres 0 (Some ENil) true; mkSres 0 (Some ERedis) true; mkSres 3 None true; mkSres 2 (Some EIO) false] =
  Ok ([(10, None); (0, Some ENil); (0, Some ERedis); (3, None); (2, Some EIO)], [PClose; PStore], false) /\
  lifetime (mkCall 2 false true 0 true) [mkSres 10 None true; mkSres 4 None true; mkSres 7 None true] =
  Ok ([(10, None); (4, None)], [PStore], false).
Proof. vm_compute. split; reflexivity. Qed.
