(** C29 (connection-recycling half) — DoStream / DoMultiStream take one WriteTo per command, report nil and error
    replies as errors, and return the pooled connection exactly once after the last reply, closing it first if a
    reply could not be consumed completely.

    Model: [RV.Model.Stream] transcribes [RedisResultStream] ([HasNext], [WriteTo] with its [n] / [e] bookkeeping),
    [DoStream] / [DoMultiStream] and the caller's loop; one reply is abstracted to what [WriteTo] looks at, the
    (n, err, clean) triple of [streamTo] — whose byte-level correctness is the other half (Props/C29.v).
    The theorems quantify over every number of commands, every list of replies (any mix of payloads, nil, error
    replies, writer failures, I/O failures at any reply) and every way DoStream itself can go. *)
From Coq Require Import String List Arith NArith ZArith Bool Lia.
Require Import RV.Model.Base RV.Model.PsBase RV.Model.Stream RV.Proofs.StreamProofs.
Import ListNotations.
Open Scope N_scope.
Open Scope list_scope.

(** ** one WriteTo per command: draining a stream of n commands makes one WriteTo per reply read, each consuming
    exactly one reply, in order (outs = the (n, err) of the replies read, [rem] = the replies left on the wire);
    all n when every reply is clean, up to and including the first unclean one otherwise. *)
Theorem C29_one_per_cmd : forall n rs w,
  (0 < n)%nat -> (n <= length rs)%nat -> forallb sres_wf rs = true ->
  let '(s', outs, evs, rem) := drain (S (length rs)) (mkStream n None w) rs in
  has_next s' = false /\
  outs = map proj (firstn (length outs) rs) /\ rem = skipn (length outs) rs /\
  match first_unclean (firstn n rs) with
  | None => length outs = n /\ st_e s' = Some EEOF
  | Some k => length outs = S k
  end.
Proof.
  intros n rs w Hn Hl Hwf. pose proof (store_once n rs w Hn Hl Hwf) as H.
  destruct (drain (S (length rs)) (mkStream n None w) rs) as [[[s' outs] evs] rem].
  destruct H as [_ [H2 [H3 [H4 H5]]]]. repeat split; auto.
  destruct (first_unclean (firstn n rs)); tauto.
Qed.
Print Assumptions C29_one_per_cmd.

(** ** the wire is stored exactly once, by the WriteTo that reads the last reply, and closed first exactly when a
    reply was not consumed cleanly; a finished stream never touches the pool again. *)
Theorem C29_store_once : forall n rs w,
  (0 < n)%nat -> (n <= length rs)%nat -> forallb sres_wf rs = true ->
  let '(s', outs, evs, rem) := drain (S (length rs)) (mkStream n None w) rs in
  count_store evs = 1%nat /\
  (first_unclean (firstn n rs) = None -> evs = [PStore]) /\
  (first_unclean (firstn n rs) <> None -> evs = [PClose; PStore]) /\
  (forall fuel rs', drain fuel s' rs' = (s', [], [], rs')) /\
  (forall r, exists out, write_to s' r = (s', out, false, [])).
Proof.
  intros n rs w Hn Hl Hwf. pose proof (store_once n rs w Hn Hl Hwf) as H.
  destruct (drain (S (length rs)) (mkStream n None w) rs) as [[[s' outs] evs] rem].
  destruct H as [H1 [H2 [H3 _]]]. split; [exact H1|].
  destruct (first_unclean (firstn n rs)) as [k|]; repeat split; try tauto; try congruence.
  - intros fuel rs'. apply drain_done. exact H2.
  - intros r. apply write_to_done. exact H2.
  - intros fuel rs'. apply drain_done. exact H2.
  - intros r. apply write_to_done. exact H2.
Qed.
Print Assumptions C29_store_once.

(** ** nil and error replies (clean, with an error) are reported as the error of that WriteTo only: the stream goes
    on with the next reply, the wire is neither closed nor stored early. *)
Theorem C29_nil_err : forall n w r, (1 < n)%nat -> sr_clean r = true ->
  write_to (mkStream n None w) r = (mkStream (n - 1) None w, (sr_n r, sr_err r), true, []) /\
  has_next (mkStream (n - 1) None w) = true.
Proof.
  intros n w r Hn Hc. split; [apply write_to_clean_err; assumption|].
  unfold has_next. cbn. destruct n as [|[|n]]; try lia. reflexivity.
Qed.
Print Assumptions C29_nil_err.

(** ** the whole call (the property): over the life of a DoStream / DoMultiStream call the wire taken from the pool is
    stored exactly once and never left behind — on every path: a context that is already done at the check in DoStream
    (whether spool.Acquire handed out its made-up dead pipe or a counted wire whose set-up outlived the context), a pipe
    that is closing, a failed flush, and the stream the caller drains, whatever the replies.
    This is the repaired code (fix: "DoStream/DoMultiStream must store the wire back when the context is already done"). *)
Theorem C29_store_once_call : forall c rs outs evs leak,
  (0 < c_ncmd c)%nat -> (c_ncmd c <= length rs)%nat -> forallb sres_wf rs = true ->
  lifetime c rs = Ok (outs, evs, leak) ->
  count_store evs = 1%nat /\ leak = false /\ (c_ctx_done c = true -> evs = [PStore] /\ outs = []).
Proof. exact lifetime_store. Qed.
Print Assumptions C29_store_once_call.

(** ** the pool's books after the call: the pool accounts for exactly what is on its idle list — the connection when it
    is still good (no error latched, nothing sent or everything consumed cleanly), nothing otherwise: a wire that was
    closed gave its slot back, the dead pipe made up for a done context never had one.  No slot is lost, none is
    given back twice. *)
Theorem C29_books : forall c rs outs evs leak,
  (0 < c_ncmd c)%nat -> (c_ncmd c <= length rs)%nat -> forallb sres_wf rs = true -> call_wf c = true ->
  lifetime c rs = Ok (outs, evs, leak) ->
  books c evs = if recycled c rs then (1, 1)%nat else (0, 0)%nat.
Proof. exact lifetime_books. Qed.
Print Assumptions C29_books.

(** ** record of the code as it was found (DESIGN D7): the early return on a done context did not store, so the
    call-level statement failed for every call whose context ended between spool.Acquire and the check — a counted
    wire was neither stored nor carried by the stream. *)
Theorem C29_store_once_call_before_fix_refuted :
  (exists c rs outs evs,
     (0 < c_ncmd c)%nat /\ (c_ncmd c <= length rs)%nat /\ forallb sres_wf rs = true /\
     lifetime_orig c rs = Ok (outs, evs, true) /\ count_store evs = 0%nat) /\
  (forall c rs, c_ctx_done c = true -> lifetime_orig c rs = Ok ([], [], c_real c)).
Proof.
  split; [|exact lifetime_orig_ctx_done].
  exists (mkCall 1 true true 0 true), [mkSres 5 None true], [], []. vm_compute. repeat split; auto.
Qed.
Print Assumptions C29_store_once_call_before_fix_refuted.

(** non-vacuity: five commands — payload, nil, error reply, payload, then an I/O failure; a clean call of two; a
    fault on a NON-final reply (the second of four): the stream ends there, the wire is closed and stored by that very
    WriteTo, the slot is free again; the context paths *)
Example C29b_nonvacuous :
  lifetime (mkCall 5 false true 0 true)
           [mkSres 10 None true; mkSres 0 (Some ENil) true; mkSres 0 (Some ERedis) true; mkSres 3 None true; mkSres 2 (Some EIO) false] =
  Ok ([(10, None); (0, Some ENil); (0, Some ERedis); (3, None); (2, Some EIO)], [PClose; PStore], false) /\
  lifetime (mkCall 2 false true 0 true) [mkSres 10 None true; mkSres 4 None true; mkSres 7 None true] =
  Ok ([(10, None); (4, None)], [PStore], false) /\
  lifetime (mkCall 4 false true 0 true) [mkSres 10 None true; mkSres 2 (Some EIO) false; mkSres 4 None true; mkSres 7 None true] =
  Ok ([(10, None); (2, Some EIO)], [PClose; PStore], false) /\
  books (mkCall 4 false true 0 true) [PClose; PStore] = (0, 0)%nat /\
  (* the context ended while the counted wire was being set up: stored, back on the idle list *)
  lifetime (mkCall 1 true true 0 true) [mkSres 5 None true] = Ok ([], [PStore], false) /\
  books (mkCall 1 true true 0 true) [PStore] = (1, 1)%nat /\
  (* the context was done before Acquire: the made-up dead pipe is stored (closed), the books stay at zero *)
  lifetime (mkCall 1 true false 3 true) [mkSres 5 None true] = Ok ([], [PStore], false) /\
  books (mkCall 1 true false 3 true) [PStore] = (0, 0)%nat /\
  (* the dial failed: the shared dead wire took a slot and gives it back *)
  books (mkCall 1 false true 3 true) [PStore] = (0, 0)%nat.
Proof. vm_compute. repeat split; reflexivity. Qed.
