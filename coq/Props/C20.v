(** C20 — Cluster batches keep order and transaction integrity.

    Objects: [pick_multi], [doresultfn] ([dstep]), [asking_wire], [rounds] of Model/ClusterBatch.v
    (cluster.go _pickMulti, doresultfn, askingMulti, DoMulti).  The servers are an arbitrary function
    from (command, node, how often that node saw the command) to a reply; the order in which the
    goroutines of one round append to the retry map is an arbitrary permutation ([bc_perm]). *)
From Coq Require Import List Arith NArith ZArith Bool Lia Permutation.
Require Import RV.Model.Base RV.Model.ClusterTopo RV.Model.Retry RV.Model.ClusterDo RV.Model.ClusterBatch.
Require Import RV.Proofs.ClusterBatchProofs RV.Proofs.ClusterTxProofs.
Import ListNotations.
Open Scope Z_scope.

(** Results are positional: whatever the split across nodes, the redirects, ASKs and retries, and
    however many rounds it takes, position i of the result holds a reply that a node gave to the
    command at position i of the batch (the last one assigned).  No bound on the number of rounds:
    the statement holds for every amount of fuel >= 1, in particular when the loop was cut short. *)
Theorem C20_order : forall (multi : list bcmd) (srv : servers) (c : bcfg) t str nsel fc m init fuel asg sends out,
  (forall k l, Permutation (bc_perm c k l) l) ->
  pick_multi t str nsel fc multi = PickOk m init ->
  cluster_domulti (S fuel) c srv init m = (asg, sends, out) ->
  forall i cmd, nth_error multi i = Some cmd ->
    exists r a k, result_at asg i = Some r /\ r = srv cmd a k.
Proof. intros multi srv. exact (domulti_positional multi srv). Qed.
Print Assumptions C20_order.

(** Every (index, command) pair the client ever queues for a re-send is in step with the batch:
    scatter through the indices cannot misplace a reply. *)
Theorem C20_order_pairs : forall (multi : list bcmd) t str nsel fc m init,
  pick_multi t str nsel fc multi = PickOk m init ->
  rmap_ok multi m /\ forall j, (j < length multi)%nat -> covered m j.
Proof. intros multi t str nsel fc m init. exact (pick_multi_spec multi t str nsel fc m init). Qed.
Print Assumptions C20_order_pairs.

(** Transaction integrity.  For a batch whose MULTI / EXEC commands are properly bracketed ([W1],
    [W2]: every MULTI is closed by an EXEC with only plain commands in between, and vice versa) and
    carry no key, and servers that never answer MULTI with MOVED / ASK (it has no key to redirect):
    every list of commands written to a node in any round — first send, redirect, ASK, retry; in any
    interleaving of the goroutines — is again properly bracketed ([tx_w1], [tx_w2]), every
    MULTI…EXEC stretch on the wire carries consecutive indices of the batch ([tx_idt]: it is a block
    of the batch, whole and in order), and a command from inside a block of the batch never travels
    outside such a stretch ([tx_mem]); all pairs stay in step with the batch ([tx_pairs]). *)
Theorem C20_tx_contiguous : forall (multi : list bcmd) (srv : servers) (c : bcfg) t str nsel fc m init fuel asg sends out,
  (forall k l, Permutation (bc_perm c k l) l) ->
  W1 multi -> W2 multi ->
  (forall cm, In cm multi -> marker cm = true -> b_slot cm = None) ->
  (forall cm a k, is_multi cm = true ->
     b_retryable cm = false /\ (forall x, srv cm a k <> RMoved x) /\ (forall x, srv cm a k <> RAsk x)) ->
  pick_multi t str nsel fc multi = PickOk m init ->
  cluster_domulti fuel c srv init m = (asg, sends, out) ->
  forall k w, In (k, w) sends -> txinv multi (strip (w_wire w)).
Proof. intros multi srv. exact (domulti_tx multi srv). Qed.
Print Assumptions C20_tx_contiguous.

(** ASKING goes once before a plain command and once before a whole block, never inside it. *)
Theorem C20_asking_once : forall m body e r,
  is_multi (snd m) = true -> Forall (fun p => marker (snd p) = false) body -> is_exec (snd e) = true ->
  asking_wire (m :: body ++ e :: r) false = None :: Some m :: map Some body ++ Some e :: asking_wire r false.
Proof. exact asking_wire_block. Qed.
Print Assumptions C20_asking_once.

Theorem C20_asking_plain : forall p r,
  marker (snd p) = false -> asking_wire (p :: r) false = None :: Some p :: asking_wire r false.
Proof. exact asking_wire_plain. Qed.
Print Assumptions C20_asking_plain.

(** With a no-slot command (MULTI, EXEC …) in the batch the first round is one exchange with one
    node, in batch order. *)
Theorem C20_first_round_whole : forall multi t str nsel fc m,
  pick_multi t str nsel fc multi = PickOk m true ->
  exists d, m = [(d, mkRg (idpairs_from 0 multi) [])] \/ (multi = [] /\ m = []).
Proof. exact pick_multi_init. Qed.
Print Assumptions C20_first_round_whole.

(** ---- non-vacuity: the scenario of the repaired defect ---- *)
Definition ex_a (n : Z) : addr := ([49%N], n).
Definition ex_batch : list bcmd :=
  [ mkCmd (Some 7) KPlain false false 1; mkCmd None KMulti false false 2; mkCmd (Some 7) KPlain false false 3;
    mkCmd None KExec false false 4; mkCmd (Some 7) KPlain true false 5 ].
(** node 1 queues the commands and answers EXEC with MOVED to node 2; node 2 executes *)
Definition ex_srv : servers := fun c a k =>
  if (snd a =? 1) then
    match b_kind c with
    | KMulti => RVal 1
    | KExec => RMoved (ex_a 2)
    | KPlain => if (b_id c =? 3)%N then RVal 2 else RVal 7
    end
  else RVal 1.
Definition ex_cfg : bcfg := mkBcfg (mkPolicy true (fun _ _ => 0) false) 0 (fun _ => mkRflags false false) (fun _ l => l).
Definition ex_table : table := mkTable (fun _ => Some (ex_a 1)) (fun _ => []) false false.

Example C20_nonvacuous :
  match pick_multi ex_table false (fun _ => 0) None ex_batch with
  | PickOk m init =>
    let '(asg, sends, out) := cluster_domulti 8 ex_cfg ex_srv init m in
    map (fun kw => (fst kw, snd (w_to (snd kw)), map (fun p => b_id (snd p)) (strip (w_wire (snd kw))))) sends
      = [(0%nat, 1, [1; 2; 3; 4; 5]%N); (1%nat, 2, [2; 3; 4]%N)]
    /\ map (result_at asg) (seq 0 5) = [Some (RVal 7); Some (RVal 1); Some (RVal 1); Some (RVal 1); Some (RVal 7)]
    /\ out = BDone
  | _ => False
  end.
Proof. vm_compute. repeat split; reflexivity. Qed.

Example C20_nonvacuous_hyps : mu ex_batch 1 = true /\ ex ex_batch 3 = true /\ nomark ex_batch 1 3.
Proof. split; [reflexivity|]. split; [reflexivity|]. intros j Hj. assert (j = 2)%nat as -> by lia. reflexivity. Qed.
