(** C22 — Read-node selectors follow their documented priorities.

    A node list is the list of the nodes' AZ strings (index 0 = primary).  [select k client azs c]
    is one call of the selector closure [k] whose uint32 counter holds [c]; it answers
    [Ok (new counter, index)] or [Panic].  [run_calls k client calls 0] is any sequence of calls on a
    fresh closure.  All statements hold for every list length below 2^32 (the property asks for
    lists up to 255 nodes) and every counter value; where the uint32 wrap-around of the counter
    matters it is an explicit hypothesis.

    The statements are about the repaired code (fix: AZAffinityNodeSelector on an empty node list);
    [C22_before_fix_refuted] records what the original code did. *)
From Coq Require Import List NArith ZArith Bool Permutation.
Require Import RV.Model.Base RV.Model.Selector RV.Proofs.SelectorProofs.
Import ListNotations.
Open Scope N_scope.

(** every selector, on every node list, with any counter value: never panics, returns -1 or a valid index *)
Theorem C22_range : forall k client azs c, N.of_nat (length azs) < two32 ->
  exists c' r, select k client azs c = Ok (c', r) /\
               (r = (-1)%Z \/ (0 <= r < Z.of_nat (length azs))%Z) /\ (c' = c \/ c' = incr32 c).
Proof. exact select_range. Qed.
Print Assumptions C22_range.

(** … hence along any call sequence on one closure *)
Theorem C22_range_any_call_sequence : forall k client calls c,
  Forall (fun azs => N.of_nat (length azs) < two32) calls ->
  exists rs, run_calls k client calls c = Ok rs /\
             Forall2 (fun azs r => r = (-1)%Z \/ (0 <= r < Z.of_nat (length azs))%Z) calls rs.
Proof. exact run_calls_range. Qed.
Print Assumptions C22_range_any_call_sequence.

(** a same-AZ replica among the first 255 nodes is always preferred (both AZ selectors) *)
Theorem C22_same_az_replica : forall k client azs c, k <> KPrefer ->
  (exists i, (1 <= i < Nat.min (length azs) 255)%nat /\ nth_error azs i = Some client) ->
  exists j, select k client azs c = Ok (incr32 c, Z.of_nat j) /\
            (1 <= j < Nat.min (length azs) 255)%nat /\ nth_error azs j = Some client.
Proof.
  intros k client azs c Hk Hs. destruct (same_az_replica_chosen k client azs c Hk Hs) as (j & H1 & _ & H2 & H3).
  exists j. auto.
Qed.
Print Assumptions C22_same_az_replica.

(** documented fallbacks when there is none *)
Theorem C22_fallback_az_affinity : forall client azs c, N.of_nat (length azs) < two32 ->
  ~ (exists i, (1 <= i < Nat.min (length azs) 255)%nat /\ nth_error azs i = Some client) ->
  select KAz client azs c =
  if (1 <? length azs)%nat
  then Ok (incr32 c, (Z.of_N (incr32 c mod N.of_nat (length azs - 1)) + 1)%Z)   (* any replica, round robin *)
  else Ok (c, (-1)%Z).                                                           (* primary *)
Proof.
  intros client azs c H1 H2. cbn [select]. rewrite az_affinity_fallback by assumption.
  now destruct (1 <? length azs)%nat.
Qed.
Print Assumptions C22_fallback_az_affinity.

Theorem C22_fallback_replicas_and_primary : forall client azs c, N.of_nat (length azs) < two32 ->
  ~ (exists i, (1 <= i < Nat.min (length azs) 255)%nat /\ nth_error azs i = Some client) ->
  select KAzRP client azs c =
  match azs with
  | [] => Ok (c, (-1)%Z)
  | az0 :: _ =>
    if bytes_eqb az0 client then Ok (c, 0%Z)                                     (* same-AZ primary *)
    else if (1 <? length azs)%nat then
      Ok (incr32 c, (Z.of_N (incr32 c mod N.of_nat (length azs - 1)) + 1)%Z)     (* any replica *)
    else Ok (c, (-1)%Z)                                                          (* primary *)
  end.
Proof. intros client azs c H1 H2. cbn [select]. now apply az_rp_fallback. Qed.
Print Assumptions C22_fallback_replicas_and_primary.

Theorem C22_prefer_replica : forall client azs c, N.of_nat (length azs) < two32 ->
  select KPrefer client azs c =
  if (1 <? length azs)%nat
  then Ok (incr32 c, (Z.of_N (incr32 c mod N.of_nat (length azs - 1)) + 1)%Z)
  else Ok (c, (-1)%Z).
Proof.
  intros client azs c H. cbn [select]. rewrite prefer_replica_spec by exact H. now destruct (1 <? length azs)%nat.
Qed.
Print Assumptions C22_prefer_replica.

(** the equally ranked same-AZ candidates are exactly the first (at most 8) same-AZ replicas in the window *)
Theorem C22_candidates : forall client azs j,
  In j (cands client azs 1) -> (1 <= j < Nat.min (length azs) 255)%nat /\ nth_error azs j = Some client.
Proof. intros client azs j. apply cands_in. Qed.
Print Assumptions C22_candidates.

Theorem C22_candidates_cap : forall client azs,
  cands client azs 1 = firstn 8 (same_az client azs 1) /\ NoDup (cands client azs 1) /\
  (forall j, In j (same_az client azs 1) <-> (1 <= j < Nat.min (length azs) 255)%nat /\ nth_error azs j = Some client).
Proof. intros. split; [reflexivity|]. split; [apply cands_nodup|]. intro j. apply same_az_in. Qed.
Print Assumptions C22_candidates_cap.

(** rotation: [count] consecutive calls return each of the [count] candidates exactly once,
    as long as the uint32 counter does not wrap inside the window *)
Theorem C22_rotation_same_az : forall k client azs c0, k <> KPrefer ->
  cands client azs 1 <> [] -> c0 + N.of_nat (length (cands client azs 1)) < two32 ->
  exists rs, run_calls k client (repeat azs (length (cands client azs 1))) c0 = Ok rs /\
             Permutation rs (map Z.of_nat (cands client azs 1)).
Proof. exact same_az_rotation. Qed.
Print Assumptions C22_rotation_same_az.

Theorem C22_rotation_replicas : forall k client azs c0,
  (k = KPrefer \/ (~ has_same_az_replica client azs /\ (k = KAz \/ nth_error azs 0 <> Some client))) ->
  (1 < length azs)%nat -> c0 + N.of_nat (length azs - 1) < two32 -> N.of_nat (length azs) < two32 ->
  exists rs, run_calls k client (repeat azs (length azs - 1)) c0 = Ok rs /\
             Permutation rs (map Z.of_nat (seq 1 (length azs - 1))).
Proof. exact replica_rotation. Qed.
Print Assumptions C22_rotation_replicas.

(** the wrap-around is where the hypothesis is needed: with 3 candidates the counter values 2^32-2 and
    2^32-1 pick the same candidate twice in a row (once every 2^32 calls); for 1, 2, 4, 8 candidates the
    index sequence is unaffected by the wrap *)
Theorem C22_rotation_wrap_characterised :
  (let azs := [[]; [1]; [1]; [1]] in
   snd (pick_az [1] azs 1 (two32 - 2)) = snd (pick_az [1] azs 1 (two32 - 1))) /\
  (forall c n, c < two32 -> (n = 1 \/ n = 2 \/ n = 4 \/ n = 8) -> incr32 c mod n = (c + 1) mod n).
Proof. split; [exact wrap_glitch|exact incr32_mod_pow2]. Qed.
Print Assumptions C22_rotation_wrap_characterised.

(** the original code: AZAffinityNodeSelector on an empty node list answered 2, 3, … (uint32(0-1) wraps);
    everywhere else it agreed with the repaired code *)
Theorem C22_before_fix_refuted :
  az_selector_before_fix 1 [97] [] 0 = (1, 2%Z) /\ az_selector_before_fix 1 [97] [] 1 = (2, 3%Z).
Proof. exact before_fix_out_of_range. Qed.
Print Assumptions C22_before_fix_refuted.

Theorem C22_before_fix_characterised : forall client azs c,
  (1 <= length azs)%nat -> N.of_nat (length azs) < two32 ->
  az_selector_before_fix 1 client azs c = az_selector 1 client azs c.
Proof. exact before_fix_same_elsewhere. Qed.
Print Assumptions C22_before_fix_characterised.

(** non-vacuity: a list with a same-AZ primary, two same-AZ replicas and others; rotation over 3 calls;
    fallback chain of the replicas-and-primary selector; empty list *)
Example C22_nonvacuous_rotation :
  run_calls KAz [97] (repeat [[97]; [98]; [97]; [99]; [97]] 3) 0 = Ok [4%Z; 2%Z; 4%Z] /\
  cands [97] [[97]; [98]; [97]; [99]; [97]] 1 = [2%nat; 4%nat].
Proof. vm_compute. split; reflexivity. Qed.

Example C22_nonvacuous_fallbacks :
  run_calls KAzRP [97] [[[97]; [98]; [99]]; [[98]; [98]; [99]]; [[98]; [98]; [99]]; [[98]]; []] 0 =
  Ok [0%Z; 2%Z; 1%Z; (-1)%Z; (-1)%Z] /\
  run_calls KAz [97] [[]; [[98]]; [[98]; [99]]] 0 = Ok [(-1)%Z; (-1)%Z; 1%Z].
Proof. vm_compute. split; reflexivity. Qed.
