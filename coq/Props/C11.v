(** C11 - Batched cache reads return results positionally.

    DoMultiCache, MGetCache, JsonMGetCache and DoCache on MGET / JSON.MGET return, at position i or
    under key i, the reply for the i-th command or key, whatever mix of hits, in-flight waits, misses,
    duplicates, multiplexed connections or cluster nodes served the batch.

    Model: RV.Model.CacheBatch (pipe.go DoMultiCache / doCacheMGet, lru.go Flights, the reader-side
    commits of pipe.go _backgroundRead, mux.go DoMultiCache, cluster.go _pickMultiCache / doretrycache /
    resultcachefn / DoMultiCache, helper.go doMultiCache).  The cache store ([lookup]), the server
    ([srv], [qerr]) and - for mux / cluster - the per-connection stores and servers are universally
    quantified; so are the Go map iteration orders ([order], [orders]).

    Standing assumptions, all explicit hypotheses below:
    * replies produced by the RESP decoder carry a type byte (typ <> 0) and a woken waiter has a value
      or an error - this is what lets the code recognise unfilled slots;
    * equal cache keys within one batch mean equal commands ([ck_inj], the C08 identity; it holds
      outright for two-word commands such as GET k, see [C11_ck_inj_two_words]);
    * cacheable commands are not MULTI / EXEC themselves ([not_tx]).
    [view] identifies a Redis error reply handed over as a value with the same error handed over as an
    error (the only difference between the issuing caller and callers that waited on its flight). *)
From Coq Require Import String Ascii.
From Coq Require Import List Arith NArith ZArith Bool Lia.
Require Import RV.Model.Base RV.Model.CacheBatch.
Require Import RV.Proofs.CacheBatchBase RV.Proofs.CacheBatchMulti RV.Proofs.CacheBatchMGet
               RV.Proofs.CacheBatchRoute RV.Proofs.CacheBatchHelper RV.Proofs.CacheBatchTop.
Import ListNotations.
Open Scope nat_scope.

(** ** pipe.DoMultiCache: result i is what command i alone would be answered *)
Theorem C11_positional :
  forall (lookup : key -> bytes -> lk) (srv : argv -> msg) (qerr : argv -> option msg) (optin use_lru : bool)
         (batch : list item),
    batch <> [] ->
    existsb it_mget batch = false ->
    Forall (fun it => not_tx (it_argv it)) batch ->
    ck_inj (map it_argv batch) ->
    (forall k c v, lookup k c = LHit v -> m_typ v <> 0%N) ->
    (forall k c r, lookup k c = LWait r -> filled r) ->
    (forall a, m_typ (srv a) <> 0%N) ->
    (forall a e, qerr a = Some e -> m_typ e <> 0%N) ->
    exists rs, do_multi_cache lookup srv qerr optin use_lru batch = Ok rs /\
      Forall2 (fun r it => exists r',
                 expected lookup srv qerr optin (forallb it_static batch) it = Ok r' /\ view r = view r') rs batch.
Proof. exact do_multi_cache_positional. Qed.
Print Assumptions C11_positional.

(** [expected] unfolded for the plain case: a miss that the server accepts is answered with the server's reply
    to exactly that command - so [C11_positional] reads "result i = reply_of (cmd i)" *)
Theorem C11_expected_miss :
  forall lookup srv qerr optin skip it,
    not_tx (it_argv it) ->
    lookup (fst (cache_key (it_argv it))) (snd (cache_key (it_argv it))) = LMiss ->
    qerr (it_argv it) = None -> qerr (pttl_cmd (it_argv it)) = None ->
    expected lookup srv qerr optin skip it = Ok (new_result (srv (it_argv it))).
Proof. exact expected_miss_is_server_reply. Qed.
Print Assumptions C11_expected_miss.

(** the same by index *)
Theorem C11_positional_nth :
  forall lookup srv qerr optin use_lru batch,
    batch <> [] -> existsb it_mget batch = false ->
    Forall (fun it => not_tx (it_argv it)) batch -> ck_inj (map it_argv batch) ->
    (forall k c v, lookup k c = LHit v -> m_typ v <> 0%N) ->
    (forall k c r, lookup k c = LWait r -> filled r) ->
    (forall a, m_typ (srv a) <> 0%N) ->
    (forall a e, qerr a = Some e -> m_typ e <> 0%N) ->
    exists rs, do_multi_cache lookup srv qerr optin use_lru batch = Ok rs /\ length rs = length batch /\
      forall i, i < length batch -> exists r',
        expected lookup srv qerr optin (forallb it_static batch) (nth i batch no_item) = Ok r' /\
        view (nth i rs zero_res) = view r'.
Proof. exact positional_nth. Qed.
Print Assumptions C11_positional_nth.

(** without static-TTL commands the slots are literally those values (duplicates included) *)
Theorem C11_positional_exact :
  forall lookup srv qerr optin use_lru batch,
    batch <> [] -> existsb it_mget batch = false ->
    Forall (fun it => not_tx (it_argv it)) batch -> ck_inj (map it_argv batch) ->
    (forall k c v, lookup k c = LHit v -> m_typ v <> 0%N) ->
    (forall k c r, lookup k c = LWait r -> filled r) ->
    (forall a, m_typ (srv a) <> 0%N) ->
    (forall a e, qerr a = Some e -> m_typ e <> 0%N) ->
    forallb it_static batch = false ->
    exists rs, do_multi_cache lookup srv qerr optin use_lru batch = Ok rs /\
      Forall2 (fun r it => expected lookup srv qerr optin false it = Ok r) rs batch.
Proof. exact do_multi_cache_positional_exact. Qed.
Print Assumptions C11_positional_exact.

(** lru.Flights (two passes under different locks) classifies a batch exactly as one Flight per command *)
Theorem C11_flights_agree : forall lookup batch, flights_lru lookup batch = flights_seq lookup batch.
Proof. exact flights_agree. Qed.
Print Assumptions C11_flights_agree.

(** two-word commands (GET k, the only shape MGetCache sends) have injective cache keys *)
Theorem C11_ck_inj_two_words : forall l : list argv, Forall (fun a => length a = 2) l -> ck_inj l.
Proof. exact ck_inj_two_words. Qed.
Print Assumptions C11_ck_inj_two_words.

(** ** DoCache on MGET / JSON.MGET: element i is the reply for key i *)
Theorem C11_mget_positional :
  forall (lookup : key -> bytes -> lk) (srv : argv -> msg) (qerr : argv -> option msg) (optin : bool)
         (cmd0 : bytes) (ks : list key) (pathopt : list bytes) (elem : key -> msg),
    let commands := cmd0 :: ks ++ pathopt in
    let cc := mget_cc commands in
    (is_json commands = true /\ (exists p, pathopt = [p])) \/ (is_json commands = false /\ pathopt = []) ->
    bytes_eqb cmd0 (bs "MULTI") = false /\ bytes_eqb cmd0 (bs "EXEC") = false ->
    (* the server answers the multi-key command with one element per key, in order *)
    (forall ms, srv (cmd0 :: ms ++ pathopt) = arr (map elem ms)) ->
    (forall k, m_typ (elem k) <> 0%N) ->
    (forall k v, lookup k cc = LHit v -> m_typ v <> 0%N) ->
    (forall k r, lookup k cc = LWait r -> r_err r = None /\ m_typ (r_val r) <> 0%N) ->
    (forall a, qerr a = None) ->
    do_cache_mget lookup srv qerr optin commands
    = Ok (new_result (arr (map (fun k => match lookup k cc with
                                         | LHit v => v
                                         | LWait r => r_val r
                                         | LMiss => elem k
                                         end) ks))).
Proof. intros. apply do_cache_mget_positional; assumption. Qed.
Print Assumptions C11_mget_positional.

(** ** regrouping: gather by a key, run each group, scatter through the recorded indices *)

(** the identity behind mux / cluster batching, for any grouping function, any number of groups and any
    processing order that covers them: if every group is answered elementwise by [f], so is the batch *)
Theorem C11_scatter_gather :
  forall (group_of : item -> N) (f : item -> rres) (batch : list item) (order : list N),
    (forall g, In g (distinct_groups (map group_of batch) []) -> In g order) ->
    match fill_buckets group_of batch with
    | Ok bks => run_buckets (fun _ cmds => Ok (map f cmds)) order bks (repeat_n zero_res (length batch))
    | _ => Panic
    end = Ok (map f batch).
Proof. exact scatter_gather. Qed.
Print Assumptions C11_scatter_gather.

(** one cache store and one server per wire / connection; [conn_do w] is pipe.DoMultiCache on connection [w];
    [answers w r it]: [r] is what connection [w] alone answers to [it] (in one of the two wire shapes) *)

(** mux.DoMultiCache (PipelineMultiplex): any number of wires, any slot assignment, any order in which
    the per-wire batches complete *)
Theorem C11_mux_positional :
  forall (lookup_of : N -> key -> bytes -> lk) (srv_of : N -> argv -> msg) (qerr_of : N -> argv -> option msg)
         (optin use_lru : bool) (batch : list item),
    batch <> [] ->
    existsb it_mget batch = false ->
    Forall (fun it => not_tx (it_argv it)) batch ->
    ck_inj (map it_argv batch) ->
    (forall w k c v, lookup_of w k c = LHit v -> m_typ v <> 0%N) ->
    (forall w k c r, lookup_of w k c = LWait r -> filled r) ->
    (forall w a, m_typ (srv_of w a) <> 0%N) ->
    (forall w a e, qerr_of w a = Some e -> m_typ e <> 0%N) ->
    forall (nwires : N) (slot_of : item -> N) (order : list N),
      let g := fun it => N.land (slot_of it) (nwires - 1) in
      (forall w, In w (distinct_groups (map g batch) []) -> In w order) ->
      exists rs, mux_do_multi_cache (conn_do lookup_of srv_of qerr_of optin use_lru) nwires slot_of order batch = Ok rs /\
        Forall2 (fun r it => answers lookup_of srv_of qerr_of optin (g it) r it) rs batch.
Proof. exact mux_positional. Qed.
Print Assumptions C11_mux_positional.

(** cluster.DoMultiCache: any slot -> connection map, any MOVED / ASK redirections, any map iteration
    orders: a call that returns has at every position an answer to that position's command, given by some
    connection directly (through its cache) or on the ASK path ([asking_do] = askingMultiCache). *)
Theorem C11_cluster_positional :
  forall (lookup_of : N -> key -> bytes -> lk) (srv_of : N -> argv -> msg) (qerr_of : N -> argv -> option msg)
         (optin use_lru : bool) (batch : list item),
    existsb it_mget batch = false ->
    Forall (fun it => not_tx (it_argv it)) batch ->
    ck_inj (map it_argv batch) ->
    (forall w k c v, lookup_of w k c = LHit v -> m_typ v <> 0%N) ->
    (forall w k c r, lookup_of w k c = LWait r -> filled r) ->
    (forall w a, m_typ (srv_of w a) <> 0%N) ->
    (forall w a e, qerr_of w a = Some e -> m_typ e <> 0%N) ->
    forall (conn_of : item -> option N) (redirect_of : rres -> redirect) (fuel : nat) (orders : list (list N))
           (maxredir : nat) (rs : list rres),
      (forall g, In g (distinct_groups (map (cl_group conn_of) batch) []) ->
                 In g (match orders with o :: _ => o | [] => distinct_groups (map (cl_group conn_of) batch) [] end)) ->
      cluster_do_multi_cache conn_of (conn_do lookup_of srv_of qerr_of optin use_lru) (asking_do srv_of qerr_of optin)
                             redirect_of fuel orders maxredir batch = Ok (inl rs) ->
      Forall2 (fun r it => exists c, answers_or_asked lookup_of srv_of qerr_of optin c r it) rs batch.
Proof. exact cluster_positional. Qed.
Print Assumptions C11_cluster_positional.

(** ** helper.go doMultiCache (MGetCache / JsonMGetCache): under key k, the reply for k *)
Theorem C11_helper_keys :
  forall (f : key -> msg) (keys : list key) (resps : list rres),
    Forall2 (fun k r => r_err r = None /\ r_val r = f k) keys resps ->
    exists m, helper_do_multi_cache keys resps [] = Ok (inl m) /\
      (forall k, In k keys -> kv_get k m = Some (f k)) /\
      (forall k, ~ In k keys -> kv_get k m = None).
Proof. exact helper_keys. Qed.
Print Assumptions C11_helper_keys.

(** MGetCache end to end: DoMultiCache over [GET k] commands, then the key map; every key is bound to the
    value of what [GET k] alone would be answered (hit / other caller's flight / server reply) *)
Theorem C11_mget_cache :
  forall lookup srv qerr optin use_lru (keys : list key),
    keys <> [] ->
    (forall k c v, lookup k c = LHit v -> m_typ v <> 0%N) ->
    (forall k c r, lookup k c = LWait r -> filled r) ->
    (forall a, m_typ (srv a) <> 0%N) ->
    (forall a e, qerr a = Some e -> m_typ e <> 0%N) ->
    (forall k, In k keys -> exists r, expected lookup srv qerr optin false (get_item k) = Ok r /\ r_err r = None) ->
    exists rs m,
      do_multi_cache lookup srv qerr optin use_lru (map get_item keys) = Ok rs /\
      helper_do_multi_cache keys rs [] = Ok (inl m) /\
      (forall k, In k keys -> exists r, expected lookup srv qerr optin false (get_item k) = Ok r /\ kv_get k m = Some (r_val r)) /\
      (forall k, ~ In k keys -> kv_get k m = None).
Proof. exact mget_cache_end_to_end. Qed.
Print Assumptions C11_mget_cache.

(** ** non-vacuity: a batch with a hit, a foreign wait, misses and duplicates of each *)
Definition nv_val (s : string) : msg := Msg tStr (bs s) 0%Z [].
Definition nv_get (k : string) : item := mkItem [bs "GET"; bs k] false false.
Definition nv_srv (a : argv) : msg := Msg tStr (List.concat a) 0%Z [].
Definition nv_lookup (k c : bytes) : lk :=
  if bytes_eqb k (bs "h") then LHit (nv_val "hit") else
  if bytes_eqb k (bs "w") then LWait (new_result (nv_val "waited")) else LMiss.
Definition nv_batch : list item := [nv_get "a"; nv_get "h"; nv_get "a"; nv_get "w"; nv_get "b"; nv_get "w"; nv_get "b"; nv_get "h"].

Example C11_nonvacuous_hyps :
  nv_batch <> [] /\ existsb it_mget nv_batch = false /\
  Forall (fun it => not_tx (it_argv it)) nv_batch /\ ck_inj (map it_argv nv_batch) /\
  (forall k c v, nv_lookup k c = LHit v -> m_typ v <> 0%N) /\
  (forall k c r, nv_lookup k c = LWait r -> filled r) /\
  (forall a, m_typ (nv_srv a) <> 0%N) /\
  (forall a e, (fun _ : argv => @None msg) a = Some e -> m_typ e <> 0%N).
Proof.
  split; [discriminate|]. split; [reflexivity|].
  split; [repeat constructor|].
  split; [apply ck_inj_two_words; repeat constructor|].
  split; [intros k c v; unfold nv_lookup; destruct (bytes_eqb k (bs "h")); [intro H; inversion H; discriminate|];
          destruct (bytes_eqb k (bs "w")); discriminate|].
  split; [intros k c r; unfold nv_lookup; destruct (bytes_eqb k (bs "h")); [discriminate|];
          destruct (bytes_eqb k (bs "w")); [intro H; inversion H; reflexivity|discriminate]|].
  split; [intros a; discriminate|intros a e; discriminate].
Qed.

Example C11_nonvacuous :
  do_multi_cache nv_lookup nv_srv (fun _ => None) true true nv_batch
  = Ok (map new_result [nv_val "GETa"; nv_val "hit"; nv_val "GETa"; nv_val "waited"; nv_val "GETb"; nv_val "waited";
                        nv_val "GETb"; nv_val "hit"]).
Proof. vm_compute. reflexivity. Qed.

Example C11_nonvacuous_mget :
  do_cache_mget nv_lookup (fun a => match a with c :: ks => arr (map (fun k => Msg tStr (c ++ k) 0%Z []) ks) | [] => zero_msg end)
                (fun _ => None) true [bs "MGET"; bs "a"; bs "h"; bs "a"; bs "w"; bs "b"]
  = Ok (new_result (arr [nv_val "MGETa"; nv_val "hit"; nv_val "MGETa"; nv_val "waited"; nv_val "MGETb"])).
Proof. vm_compute. reflexivity. Qed.

(** askingMultiCache answers its commands in order (what one command alone is answered after ASKING) *)

(** four wires, slots taken from the key's first byte: every reply sits at its command's position *)
Example C11_nonvacuous_mux :
  mux_do_multi_cache (fun _ items => do_multi_cache nv_lookup nv_srv (fun _ => None) true true items) 4
                     (fun it => match nth 1 (it_argv it) [] with c :: _ => c | [] => 0%N end)
                     [0; 1; 2; 3]%N nv_batch
  = Ok (map new_result [nv_val "GETa"; nv_val "hit"; nv_val "GETa"; nv_val "waited"; nv_val "GETb"; nv_val "waited";
                        nv_val "GETb"; nv_val "hit"]).
Proof. vm_compute. reflexivity. Qed.

(** two connections; connection 0 rejects key "b" with -MOVED (inside MULTI: EXECABORT), the second round asks
    connection 1; key "c" is in migration: -ASK, answered by connection 1 after ASKING *)
Definition nv_conn_of (it : item) : option N := Some 0%N.
Definition nv_qerr (c : N) (a : argv) : option msg :=
  if N.eqb c 0 then
    if bytes_eqb (nth 1 a []) (bs "b") then Some (errmsg "MOVED 1 n1")
    else if bytes_eqb (nth 1 a []) (bs "c") then Some (errmsg "ASK 2 n1") else None
  else None.
Definition nv_redirect (r : rres) : redirect :=
  match res_error r with
  | Some (ERedis t) => if bytes_eqb t (bs "MOVED 1 n1") then RMoved 1 else if bytes_eqb t (bs "ASK 2 n1") then RAsk 1 else RNone
  | _ => RNone
  end.

Example C11_nonvacuous_cluster :
  cluster_do_multi_cache nv_conn_of
    (fun c items => do_multi_cache nv_lookup nv_srv (nv_qerr c) true true items)
    (fun c items => asking_multi_cache nv_srv (nv_qerr c) true items)
    nv_redirect 8 [] 0 [nv_get "a"; nv_get "b"; nv_get "c"; nv_get "h"; nv_get "b"]
  = Ok (inl (map new_result [nv_val "GETa"; nv_val "GETb"; nv_val "GETc"; nv_val "hit"; nv_val "GETb"])).
Proof. vm_compute. reflexivity. Qed.
