(** C45 — Vector and binary helpers round-trip.
    Floats are their IEEE bit patterns ([N] below 2^32 resp. 2^64), so "bit for bit, including NaN
    payloads and signed zeros" is literal equality of the words.  JSON(x) = encoding/json(x) is not a
    statement about rueidis code beyond one call and is covered by the correspondence run only. *)
From Coq Require Import List Arith NArith Bool.
Require Import RV.Model.Base RV.Model.Binary RV.Proofs.BinaryProofs.
Import ListNotations.
Open Scope N_scope.

Theorem C45_vector32_roundtrip : forall ws : list N,
  Forall (fun w => w < 2 ^ 32) ws -> to_vector_top 4 (vector_string 4 ws) = Ok ws.
Proof. intros ws H. apply to_vector_top_roundtrip; [repeat constructor|exact H]. Qed.
Print Assumptions C45_vector32_roundtrip.

Theorem C45_vector64_roundtrip : forall ws : list N,
  Forall (fun w => w < 2 ^ 64) ws -> to_vector_top 8 (vector_string 8 ws) = Ok ws.
Proof. intros ws H. apply to_vector_top_roundtrip; [repeat constructor|exact H]. Qed.
Print Assumptions C45_vector64_roundtrip.

Theorem C45_vector_string_length : forall k ws, length (vector_string k ws) = (k * length ws)%nat.
Proof. exact vector_string_length. Qed.
Print Assumptions C45_vector_string_length.

Theorem C45_vector_string_bytes : forall k ws, Forall (fun b => b < 256) (vector_string k ws).
Proof.
  intros k ws. unfold vector_string. induction ws as [|w ws IH]; cbn [flat_map]; [constructor|].
  apply Forall_app; split; [apply le_bytes_bytes|exact IH].
Qed.
Print Assumptions C45_vector_string_bytes.

Theorem C45_binary_string : forall bs, binary_string bs = bs.
Proof. reflexivity. Qed.
Print Assumptions C45_binary_string.

(** non-vacuity: a NaN payload, -0.0 and a subnormal satisfy the hypothesis and round-trip *)
Example C45_nonvacuous :
  to_vector_top 4 (vector_string 4 [0x7fc00001; 0x80000000; 0x00000001; 0xffffffff]) =
  Ok [0x7fc00001; 0x80000000; 0x00000001; 0xffffffff].
Proof. vm_compute. reflexivity. Qed.
