(** C09, caller side of DoCache on MGET / JSON.MGET (pipe.go doCacheMGet, model RV.Model.CacheBatch):
    "a failed or aborted request wakes all its waiters with the error and is not cached".

    [own_flights] are the flights this call started: the keys of the MGET that the store answered with a
    miss (first occurrence).  When the rewritten request fails (the server rejects one of the commands of the
    transaction, so that EXEC answers EXECABORT), exactly those flights are cancelled, with the error the call
    itself returns - never the flight of a key that was a hit or that another caller is fetching, and none
    of its own is left behind.  The store-level consequences of Cancel (waiters woken with the error,
    nothing cached, the next Flight misses) are Props/C09.v. *)
From Coq Require Import String Ascii.
From Coq Require Import List Arith NArith ZArith Bool.
Require Import RV.Model.Base RV.Model.CacheBatch.
Require Import RV.Proofs.CacheBatchMulti RV.Proofs.CacheBatchMGet RV.Proofs.CacheBatchMGetFail.
Import ListNotations.

Theorem C09_mget_abort_cancels_own_flights :
  forall (lookup : key -> bytes -> lk) (srv : argv -> msg) (qerr : argv -> option msg) (optin : bool)
         (cmd0 : bytes) (ks : list key) (pathopt : list bytes),
    let commands := cmd0 :: ks ++ pathopt in
    (is_json commands = true /\ (exists p, pathopt = [p])) \/ (is_json commands = false /\ pathopt = []) ->
    bytes_eqb cmd0 (bs "MULTI") = false /\ bytes_eqb cmd0 (bs "EXEC") = false ->
    mget_fail_cancels lookup srv qerr optin commands
    = match own_flights lookup cmd0 ks pathopt with
      | [] => None
      | _ => match request_failure lookup srv qerr cmd0 ks pathopt with
             | Some e => Some (own_flights lookup cmd0 ks pathopt, e)
             | None => None
             end
      end.
Proof. exact mget_fail_cancels_spec. Qed.
Print Assumptions C09_mget_abort_cancels_own_flights.

(** [request_failure]: the transaction was aborted (a command rejected at queue time: EXECABORT, reported as the
    rejected command's error or ErrDoCacheAborted), or it went through and the rewritten command's own reply is
    an error *)
Theorem C09_mget_request_failure :
  forall lookup srv qerr cmd0 ks pathopt,
    request_failure lookup srv qerr cmd0 ks pathopt
    = if tx_rejected lookup qerr cmd0 ks pathopt then Some (fail_err lookup qerr cmd0 ks pathopt)
      else msg_error (srv (frewritten lookup cmd0 ks pathopt)).
Proof. reflexivity. Qed.
Print Assumptions C09_mget_request_failure.

(** the call returns the very error its flights were cancelled with *)
Theorem C09_mget_abort_returns_error :
  forall lookup srv qerr optin cmd0 ks pathopt,
    let commands := cmd0 :: ks ++ pathopt in
    (is_json commands = true /\ (exists p, pathopt = [p])) \/ (is_json commands = false /\ pathopt = []) ->
    bytes_eqb cmd0 (bs "MULTI") = false /\ bytes_eqb cmd0 (bs "EXEC") = false ->
    own_flights lookup cmd0 ks pathopt <> [] -> tx_rejected lookup qerr cmd0 ks pathopt = true ->
    do_cache_mget lookup srv qerr optin commands = Ok (new_error (fail_err lookup qerr cmd0 ks pathopt)).
Proof. exact mget_fail_result. Qed.
Print Assumptions C09_mget_abort_returns_error.

(** an error reply to the rewritten command inside a successful EXEC is handed back (and, by the first theorem,
    its flights are cancelled with it) *)
Theorem C09_mget_exec_error_returns_reply :
  forall lookup srv qerr optin cmd0 ks pathopt e,
    let commands := cmd0 :: ks ++ pathopt in
    (is_json commands = true /\ (exists p, pathopt = [p])) \/ (is_json commands = false /\ pathopt = []) ->
    bytes_eqb cmd0 (bs "MULTI") = false /\ bytes_eqb cmd0 (bs "EXEC") = false ->
    own_flights lookup cmd0 ks pathopt <> [] -> tx_rejected lookup qerr cmd0 ks pathopt = false ->
    msg_error (srv (frewritten lookup cmd0 ks pathopt)) = Some e ->
    do_cache_mget lookup srv qerr optin commands = Ok (new_result (srv (frewritten lookup cmd0 ks pathopt))).
Proof. intros lookup srv qerr optin cmd0 ks pathopt e commands H1 H2. exact (mget_exec_error_result lookup srv qerr optin cmd0 ks pathopt H1 H2 e). Qed.
Print Assumptions C09_mget_exec_error_returns_reply.

(** the cancelled keys are exactly the keys of this MGET that the store reported as misses *)
Theorem C09_mget_own_flights_are_the_misses :
  forall lookup cmd0 ks pathopt k,
    In k (own_flights lookup cmd0 ks pathopt) <-> (In k ks /\ lookup k (fcc cmd0 ks pathopt) = LMiss).
Proof.
  intros. split; [apply own_flights_are_misses|intros [H1 H2]; now apply misses_are_own_flights].
Qed.
Print Assumptions C09_mget_own_flights_are_the_misses.

(** non-vacuity: MGET h a b with h cached, w in another caller's flight: the server rejects the rewritten
    MGET a b; the flights of a and b - and only those - are cancelled, with the server's error *)
Definition nvm_lookup (k c : bytes) : lk :=
  if bytes_eqb k (bs "h") then LHit (Msg tStr (bs "hit") 0%Z []) else
  if bytes_eqb k (bs "w") then LWait (new_result (Msg tStr (bs "waited") 0%Z [])) else LMiss.
Definition nvm_qerr (a : argv) : option msg :=
  if is_cmd "MGET" a then Some (errmsg "ERR injected") else None.

Example C09_mget_nonvacuous :
  mget_fail_cancels nvm_lookup (fun _ => ok_msg) nvm_qerr true [bs "MGET"; bs "h"; bs "a"; bs "w"; bs "b"; bs "a"]
  = Some ([bs "a"; bs "b"], ERedis (bs "injected")).
Proof. vm_compute. reflexivity. Qed.
