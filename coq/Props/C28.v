(** C28 — Retries happen only when safe and within policy.

    Objects: the decision functions of Model/Retry.v (retry.go WaitOrSkipRetry, singleClient.Do /
    DoMulti, sentinelClient.Do / DoMulti — same code after pick —, standalone.Do), of
    Model/ClusterDo.v (clusterClient.do) and of Model/ClusterBatch.v (doresultfn), over every
    sequence of replies, context / client states and RetryDelay functions.  A "retry" is a send whose
    reason is [WRetry]; the transparent re-send after an expired connection and the re-sends after
    MOVED / ASK / REDIRECT are separate reasons and the subject of C03 / C19. *)
From Coq Require Import List Arith NArith ZArith Bool Lia.
Require Import RV.Model.Base RV.Model.ClusterTopo RV.Model.Retry RV.Model.ClusterDo RV.Model.ClusterBatch.
Require Import RV.Proofs.RetryProofs RV.Proofs.ClusterDoProofs RV.Proofs.ClusterBatchProofs.
Import ListNotations.
Open Scope Z_scope.

(** retry.go: the delay gates the retry — negative never, zero at once, positive only if it fits
    before the deadline *)
Theorem C28_wait_or_skip : forall d left,
  wait_or_skip d left = true <-> (d = 0 \/ (0 < d /\ (left = None \/ exists x, left = Some x /\ d < x))).
Proof.
  intros d left. unfold wait_or_skip. destruct (Z.eqb_spec d 0) as [->|N].
  - split; [intros _; now left|reflexivity].
  - destruct (Z.ltb_spec 0 d) as [P|P].
    + destruct left as [x|].
      * rewrite Z.ltb_lt. split; [intro H; right; split; [lia|right; eauto]|intros [E|[_ [E|[y [E L]]]]]; [lia|discriminate|inversion E; subst; exact L]].
      * split; [intros _; right; split; [lia|now left]|reflexivity].
    + split; [discriminate|intros [E|[Q _]]; lia].
Qed.
Print Assumptions C28_wait_or_skip.

(** single / sentinel / standalone clients: a retry is decided only for a read-only or retryable
    command, with retries enabled, after LOADING or a transport failure, with a live context, an
    open client and a non-negative delay that fits before the deadline *)
Theorem C28_retry_implies : forall p retryable attempts t,
  single_decision p retryable attempts t = DRetry ->
  p_retry p = true /\ retryable = true /\ retry_class_single (k_reply t) = true /\
  k_ctx_cls t = false /\ k_closed t = false /\
  0 <= p_delay p attempts (k_reply t) /\
  (p_delay p attempts (k_reply t) = 0 \/ k_left t = None \/ exists x, k_left t = Some x /\ p_delay p attempts (k_reply t) < x).
Proof. exact single_decision_retry. Qed.
Print Assumptions C28_retry_implies.

(** … and in the trace of a call every send is justified by the decision on the one before it:
    a [WRetry] send follows a [DRetry] decision (attempt counter included), a [WExpired] send an
    expired connection, and nothing follows a final reply; nothing is written on a done context *)
Theorem C28_trace : forall f p retryable env tr o,
  single_do f p retryable 1 WFirst env = (tr, o) ->
  ev_chain p retryable 1 tr /\ (forall e, In e tr -> k_ctx_call (e_tick e) = false).
Proof.
  intros f p retryable env tr o H. destruct (single_do_chain _ _ _ _ _ _ _ _ H) as [C [_ K]]. auto.
Qed.
Print Assumptions C28_trace.

(** ordinary replies — values, nil, error replies — and every failure the policy does not cover
    are handed to the caller as they are *)
Theorem C28_passthrough : forall f p retryable attempts w t0 env,
  single_decision p retryable attempts (effective t0) = DReturn ->
  snd (single_do (S f) p retryable attempts w (t0 :: env)) = Done (k_reply (effective t0)).
Proof. exact single_do_passthrough. Qed.
Print Assumptions C28_passthrough.

Theorem C28_passthrough_values : forall p retryable attempts t,
  (match k_reply t with RVal _ | RNil | RErr _ | RMoved _ | RAsk _ | RRedirect _ | RTryAgain | RClusterDown => True | _ => False end) ->
  single_decision p retryable attempts t = DReturn.
Proof.
  intros p retryable attempts t H. unfold single_decision.
  destruct (k_reply t); try contradiction; cbn; rewrite ?andb_false_r; reflexivity.
Qed.
Print Assumptions C28_passthrough_values.

Theorem C28_disable_retry : forall p retryable attempts t,
  p_retry p = false -> single_decision p retryable attempts t <> DRetry.
Proof. intros p retryable attempts t H D. apply single_decision_retry in D. destruct D as [D _]. congruence. Qed.
Print Assumptions C28_disable_retry.

(** batches on one connection: a batch with a member that is neither read-only nor retryable is
    never retried (it is sent exactly once unless a connection expires) *)
Theorem C28_batch_not_all_retryable : forall f p cs attempts w x env,
  all_retryable cs = false ->
  (forall t, In t x -> is_expired (k_reply (effective t)) = false) ->
  single_domulti (S f) p cs attempts w (x :: env) = ([mkBsend w 0 x], Some (map (fun t => k_reply (effective t)) x)).
Proof. exact single_domulti_once. Qed.
Print Assumptions C28_batch_not_all_retryable.

(** cluster client, single command: in every trace a [WRetry] send follows a reply classified
    ModeRetry (TRYAGAIN / CLUSTERDOWN / LOADING, or a transport failure with a live context; never
    with a closed client) of a retryable command with retries enabled and a delay the policy accepts *)
Theorem C28_cluster_retry_implies : forall c slot retryable to_replica st env tr out st',
  cluster_do c slot retryable to_replica st env = (tr, out, st') ->
  chain_ok c retryable tr.
Proof.
  intros c slot retryable to_replica st env tr out st' H.
  exact (proj1 (do_loop_chain c slot retryable to_replica _ _ _ _ _ _ _ _ _ _ H)).
Qed.
Print Assumptions C28_cluster_retry_implies.

Theorem C28_cluster_retry_class : forall r ctx_done closed,
  classify r ctx_done closed = ModeRetry ->
  closed = false /\
  match r with
  | RTryAgain | RClusterDown | RLoading => True
  | RTransport | RCtx | RExpired => ctx_done = false
  | _ => False
  end.
Proof.
  intros r ctx_done closed H. destruct r; cbn in H; destruct closed; try discriminate; try (split; [reflexivity|exact I]);
    destruct ctx_done; try discriminate; split; reflexivity.
Qed.
Print Assumptions C28_cluster_retry_class.

(** cluster batches (repaired doresultfn, fix a512c0c): a member that failed with a retry-class reply
    is queued for another round only if retries are enabled, it is retryable and RetryDelay returned
    a non-negative delay for it — also when other members of the batch were redirected *)
Theorem C28_batch_member : forall pol cc hasinit attempts fl ps resps d i ii cm r,
  nth_error ps i = Some (ii, cm) -> nth_error resps i = Some r ->
  classify r (rf_ctx fl) (rf_closed fl) = ModeRetry ->
  d_acts (dstep pol cc hasinit attempts fl ps resps d i) <> d_acts d ->
  p_retry pol = true /\ b_retryable cm = true /\ 0 <= p_delay pol attempts r.
Proof. exact dstep_retry_gate. Qed.
Print Assumptions C28_batch_member.

Theorem C28_batch_passthrough : forall pol cc hasinit attempts fl ps resps d i ii cm r,
  nth_error ps i = Some (ii, cm) -> nth_error resps i = Some r ->
  classify r (rf_ctx fl) (rf_closed fl) = ModeNone ->
  d_acts (dstep pol cc hasinit attempts fl ps resps d i) = d_acts d.
Proof. exact dstep_none_keeps. Qed.
Print Assumptions C28_batch_passthrough.

(** ---- the policy's bound is a bound on the rounds of a cluster batch ----
    clusterClient.DoMulti keeps ONE attempt counter and one redirect counter per call.  Every round starts with
    its own redirect count at 0 and its delay at -1 (the [retries.Redirects = 0] / [retries.RetryDelay = -1] of the
    code): a round in which some member was redirected is a redirect round (no wait, [attempts] unchanged, the
    redirect counter of the call goes up); a round without redirect that queued a retry waits and increments
    [attempts]. *)
Theorem C28_batch_round_reset : forall f c srv hasinit k m attempts redirects asg cn sends,
  rounds (S f) c srv hasinit k m attempts redirects asg cn sends =
  let st := fold_left (do_group (bc_policy c) srv hasinit attempts (bc_flags c k)) m (mkRstate [] 0 (-1) asg cn []) in
  let sends' := sends ++ map (fun w => (k, w)) (r_sends st) in
  match apply_actions (bc_perm c k (r_acts st)) with
  | [] => (r_results st, sends', BDone)
  | m' =>
    if (0 <? r_redirects st)%nat then
      if (0 <? bc_max c) && (bc_max c <? redirects + 1) then (r_results st, sends', BDone)
      else rounds f c srv hasinit (S k) m' attempts (redirects + 1) (r_results st) (r_cnt st) sends'
    else if 0 <=? r_delay st then rounds f c srv hasinit (S k) m' (S attempts) redirects (r_results st) (r_cnt st) sends'
    else (r_results st, sends', BDone)
  end.
Proof. intros. cbn [rounds]. destruct (apply_actions _); reflexivity. Qed.
Print Assumptions C28_batch_round_reset.

(** a round run at an attempt number at which the policy declines (for every error) never waits for a retry:
    unless one of its members was redirected, the call ends with it — whatever the servers answered, whatever
    happened in earlier rounds (redirect rounds included) *)
Theorem C28_batch_declined_round_ends : forall c srv hasinit f k m attempts redirects asg cn sends,
  (forall r, p_delay (bc_policy c) attempts r < 0) ->
  let st := fold_left (do_group (bc_policy c) srv hasinit attempts (bc_flags c k)) m (mkRstate [] 0 (-1) asg cn []) in
  r_delay st = -1 /\
  (r_redirects st = 0%nat ->
   rounds (S f) c srv hasinit k m attempts redirects asg cn sends
   = (r_results st, sends ++ map (fun w => (k, w)) (r_sends st), BDone)).
Proof. intros. now apply rounds_declined_round_ends. Qed.
Print Assumptions C28_batch_declined_round_ends.

(** a retry round (wait, attempts + 1) is entered only at an attempt number below the policy's bound *)
Theorem C28_batch_retry_round_below_bound : forall c srv hasinit B k m attempts asg cn,
  (forall a r, (B <= a)%nat -> p_delay (bc_policy c) a r < 0) ->
  let st := fold_left (do_group (bc_policy c) srv hasinit attempts (bc_flags c k)) m (mkRstate [] 0 (-1) asg cn []) in
  0 <= r_delay st -> (attempts < B)%nat.
Proof. intros. eapply rounds_retry_round_below_bound; eauto. Qed.
Print Assumptions C28_batch_retry_round_below_bound.

(** the number of rounds of one call — hence the number of times any member is sent — is bounded by the policy's
    bound plus the redirect limit: every write of the call happens in a round with index <= (B - 1) + MaxMovedRedirections *)
Theorem C28_batch_rounds_bounded : forall c srv hasinit m fuel B asg sends out,
  (1 <= B)%nat -> (forall a r, (B <= a)%nat -> p_delay (bc_policy c) a r < 0) -> 0 < bc_max c ->
  cluster_domulti fuel c srv hasinit m = (asg, sends, out) ->
  forall k w, In (k, w) sends -> Z.of_nat k <= Z.of_nat B - 1 + bc_max c.
Proof. intros. eapply domulti_rounds_bounded; eauto. Qed.
Print Assumptions C28_batch_rounds_bounded.

(** ---- non-vacuity ---- *)
Example C28_nonvacuous :
  let p := mkPolicy true (fun a _ => if (a <? 3)%nat then 0 else -1) false in
  let t r := mkTick r false false false false None in
  let '(tr, o) := single_do 9 p true 1 WFirst [t RLoading; t RTransport; t RLoading; t (RVal 1)] in
  map e_why tr = [WFirst; WRetry; WRetry] /\ o = Done RLoading.
Proof. vm_compute. split; reflexivity. Qed.
