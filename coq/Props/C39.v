(** C39 — Cache-aside reads never leak locks and load once.

    Model: Model/Aside.v — a store on one server clock (cached keys: loader value or the placeholder = id of the
    loading client; liveness keys of the clients), any number of clients with explicit client-side caches,
    tracking and in-flight invalidations, any number of Gets, each a state machine with one atomic step per
    round trip / loader call / wake-up.  The theorems quantify over all schedules ([list alabel]).
    [Forall label_ok ls] states the assumptions on the environment: loaders and other applications never
    produce a value with the placeholder prefix "rueidisid:", cached keys are not placeholder-shaped, client
    ids are (keepalive builds them so).  Not modelled (partial): real time (ClientTTL refresh, the Get's
    context timeout and expiry are steps that may happen), a SET NX whose reply is lost, OverrideCacheTTL.

    keepalive is three steps ([AKeepReuse]: c.id was set; [AKeep]: the SET of a fresh marker; [AInstall]: the
    second critical section), so several Gets of one client that all saw c.id == "" race in the model as they do
    in the code; C39_lock_id_is_installed_id states what the code's [else { id = c.id }] is there for. *)
From Coq Require Import List Arith NArith ZArith Bool.
Require Import RV.Model.Base RV.Model.ListUpd RV.Model.Aside RV.Proofs.AsideProofs.
Import ListNotations.
Open Scope nat_scope.

(** A Get never returns the lock placeholder — neither as a value nor next to an error. *)
Theorem C39_no_placeholder_returned :
  forall (cttl now : Z) (ls : list alabel) (s : astate) (gi : nat) (g : get) (r : gres),
    Forall label_ok ls -> arun cttl (ainit now) ls = Some s ->
    nth_error (a_gets s) gi = Some g -> g_st g = GSDone r ->
    match r with ROk v | RErr v _ => is_ph v = false end.
Proof. exact no_placeholder_returned. Qed.
Print Assumptions C39_no_placeholder_returned.

(** A value returned without error was produced by a loader for that key (or written for that key by another
    application): [a_loaded] / [a_ext] record every such production. *)
Theorem C39_value_origin :
  forall (cttl now : Z) (ls : list alabel) (s : astate) (gi : nat) (g : get) (v : bytes),
    Forall label_ok ls -> arun cttl (ainit now) ls = Some s ->
    nth_error (a_gets s) gi = Some g -> g_st g = GSDone (ROk v) ->
    In (g_key g, v) (a_loaded s) \/ In (g_key g, v) (a_ext s).
Proof. exact value_origin. Qed.
Print Assumptions C39_value_origin.

(** SINGLE LOADER WHILE ALIVE.  [a_lock s] lists, per key, the Get whose loader was started (its SET NX
    succeeded) and whose lock nothing has removed since.  (a) there is at most one such Get per key; (b) it is
    between its loader call and its setkey / delkey script and the key carries its client's id, so no other
    loader can start (c: a loader starts only on an absent key, and registers); (d) the registration is removed
    only by the Get's own setkey / delkey, by a script that changes the key (which for a foreign delkey means
    the holder was found dead, see C39_release_needs_dead_holder), by DEL / a foreign write, or by a clock
    advance (expiry). *)
Theorem C39_single_loader_while_alive :
  forall (cttl now : Z) (ls : list alabel) (s : astate) (k : bytes) (g1 g2 : nat),
    Forall label_ok ls -> arun cttl (ainit now) ls = Some s ->
    In (k, g1) (a_lock s) -> In (k, g2) (a_lock s) -> g1 = g2.
Proof. exact single_loader. Qed.
Print Assumptions C39_single_loader_while_alive.

Theorem C39_registered_loader_holds_lock :
  forall (cttl now : Z) (ls : list alabel) (s : astate) (k : bytes) (gi : nat),
    Forall label_ok ls -> arun cttl (ainit now) ls = Some s -> In (k, gi) (a_lock s) ->
    exists g id, nth_error (a_gets s) gi = Some g /\ g_key g = k /\ holding (g_st g) id /\ sget (a_store s) k = Some id.
Proof. exact lock_entry_meaning. Qed.
Print Assumptions C39_registered_loader_holds_lock.

Theorem C39_loader_starts_on_absent_key :
  forall (cttl : Z) (s s' : astate) (gi : nat) (g : get) (id : bytes),
    nth_error (a_gets s) gi = Some g -> g_st g = GSLock id ->
    astep_r cttl s (ALock gi false) = Some (s', OVal None) ->
    sget (a_store s) (g_key g) = None /\ In (g_key g, gi) (a_lock s') /\
    exists g', nth_error (a_gets s') gi = Some g' /\ g_st g' = GSLoad id.
Proof. intros cttl s s' gi g id. exact (loader_start cttl s gi s' g id). Qed.
Print Assumptions C39_loader_starts_on_absent_key.

Theorem C39_registration_persists :
  forall (cttl : Z) (s s' : astate) (l : alabel) (k : bytes) (gi : nat),
    astep cttl s l = Some s' -> ~ disturbs s l k gi -> In (k, gi) (a_lock s) -> In (k, gi) (a_lock s').
Proof. intros cttl s s' l k gi. exact (lock_persists cttl s l s' k gi). Qed.
Print Assumptions C39_registration_persists.

(** a Get deletes somebody's placeholder only after a read of that client's liveness key that found nothing:
    a real read sees the server as it is (the only other way into GSRelease is a cached nil) *)
Theorem C39_release_needs_dead_holder :
  forall (cttl : Z) (s s' : astate) (gi : nat) (g g' : get) (ph : bytes) (o : aobs),
    nth_error (a_gets s) gi = Some g -> g_st g = GSProbe ph ->
    astep_r cttl s (AProbe gi false false) = Some (s', o) ->
    nth_error (a_gets s') gi = Some g' -> g_st g' = GSRelease ph -> sget (a_store s) ph = None.
Proof.
  intros cttl s s' gi g g' ph o Hg Hs HR Hg' Hs'. cbn [astep_r] in HR. rewrite Hg, Hs in HR.
  destruct (nth_error (a_cls s) (g_cl g)) as [cl|] eqn:Hc; [|discriminate]. cbn [cached_read] in HR.
  injection HR as <- _. cbn [with_get a_gets] in Hg'.
  rewrite ListUpdProofs.nth_error_upd_same in Hg' by (eapply ListUpdProofs.nth_error_lt; eauto).
  injection Hg' as <-. cbn [set_st g_st] in Hs'. destruct (sget (a_store s) ph); [discriminate|reflexivity].
Qed.
Print Assumptions C39_release_needs_dead_holder.

(** DEAD LOCK RELEASED.  From any state in which the key carries the placeholder of a client whose liveness key
    is gone, a Get of another client that is about to read (with a loader, nothing cached for the two keys)
    gets through on its own seven steps and starts its loader. *)
Theorem C39_dead_lock_released :
  forall (cttl : Z) (s : astate) (gi : nat) (g : get) (cl : client) (ph newid : bytes),
    focus s gi g cl -> g_st g = GSRead -> g_fn g = true ->
    sget (a_store s) (g_key g) = Some ph -> is_ph ph = true -> sget (a_store s) ph = None ->
    is_ph (g_key g) = false -> is_ph newid = true ->
    exists s' g' id,
      arun cttl s [ARead gi false false; AProbe gi false false; ARelease gi true; ARead gi false false;
                   AKeep gi newid false; AInstall gi; ALock gi false] = Some s' /\
      nth_error (a_gets s') gi = Some g' /\ g_st g' = GSLoad id /\
      sget (a_store s') (g_key g) = Some id /\ In (g_key g, gi) (a_lock s').
Proof. exact dead_lock_released. Qed.
Print Assumptions C39_dead_lock_released.

(** THE LOCK ID IS THE INSTALLED ID.  Whatever races in keepalive (several Gets of one client, each with a fresh
    marker of its own), a Get that is about to lock, whose loader runs, or that stores / unlocks, does it under
    the id installed in its client at that moment — as long as the client did not lose its connection.  That id
    is the one the refresh goroutine extends, so the holder stays alive for the other clients while it loads
    (the markers of the losers of the race are abandoned: they expire, nothing points to them). *)
Theorem C39_lock_id_is_installed_id :
  forall (cttl now : Z) (ls : list alabel) (s : astate) (gi : nat) (g : get) (id : bytes),
    arun cttl (ainit now) ls = Some s -> ~ In (ALost (g_cl g)) ls ->
    nth_error (a_gets s) gi = Some g -> (g_st g = GSLock id \/ holding (g_st g) id) ->
    exists cl, nth_error (a_cls s) (g_cl g) = Some cl /\ cl_id cl = Some id.
Proof. exact lock_id_is_installed_id. Qed.
Print Assumptions C39_lock_id_is_installed_id.

Theorem C39_refresh_extends_lock_id :
  forall (cttl now : Z) (ls : list alabel) (s : astate) (gi : nat) (g : get) (id : bytes),
    arun cttl (ainit now) ls = Some s -> ~ In (ALost (g_cl g)) ls ->
    nth_error (a_gets s) gi = Some g -> (g_st g = GSLock id \/ holding (g_st g) id) ->
    exists s', astep cttl s (ARefresh (g_cl g)) = Some s' /\ In (id, ([], a_now s + cttl)%Z) (a_store s').
Proof. exact refresh_extends_lock_id. Qed.
Print Assumptions C39_refresh_extends_lock_id.

(** WAITING FOR THE RESULT (partial: delivery of invalidations is the environment's).  A Get that waits with
    both channels open is registered at the server for the key and for the holder's liveness key (tracked, or
    the invalidation is on its way); a write to a tracked key queues the invalidation; its delivery wakes the
    Get, which reads again. *)
Theorem C39_waiter_not_forgotten_partial :
  forall (cttl now : Z) (ls : list alabel) (s : astate) (gi : nat) (g : get) (ph : bytes),
    arun cttl (ainit now) ls = Some s -> nth_error (a_gets s) gi = Some g -> g_st g = GSWait ph ->
    g_wait_closed g = false -> g_ph_closed g = false ->
    pending s (g_cl g) (g_key g) /\ pending s (g_cl g) ph.
Proof. exact waiter_not_forgotten. Qed.
Print Assumptions C39_waiter_not_forgotten_partial.

Theorem C39_write_notifies_partial :
  forall (s : astate) (st' : store) (k : bytes) (u : bool) (c : nat),
    In (c, k) (a_track s) -> In (c, k) (a_infl (write s st' k u)).
Proof. exact write_notifies. Qed.
Print Assumptions C39_write_notifies_partial.

Theorem C39_invalidation_wakes_partial :
  forall (cttl : Z) (s : astate) (gi : nat) (g : get) (cl : client) (ph k : bytes),
    nth_error (a_gets s) gi = Some g -> g_st g = GSWait ph -> nth_error (a_cls s) (g_cl g) = Some cl ->
    In (g_cl g, k) (a_infl s) -> k = g_key g \/ k = ph ->
    exists s1 s2 g2, astep cttl s (AInval (g_cl g) [k]) = Some s1 /\ astep cttl s1 (AWake gi) = Some s2 /\
                     nth_error (a_gets s2) gi = Some g2 /\ g_st g2 = GSRead.
Proof. exact inval_wakes. Qed.
Print Assumptions C39_invalidation_wakes_partial.

(** ---- non-vacuity: two clients, one key; client 0 loads while client 1 waits and is woken by the result ---- *)

Definition kk : bytes := [107%N].
Definition id0 : bytes := ph_prefix ++ [48%N].
Definition vv : bytes := [118%N; 49%N].

Definition demo : list alabel :=
  [ANewClient; ANewClient;
   AStartGet 0 kk 4000%Z true; ARead 0 false false; AKeep 0 id0 false; AInstall 0; ALock 0 false;
   AStartGet 1 kk 4000%Z true; ARead 1 false false; AProbe 1 false false;
   ALoad 0 (Some vv); AStore 0 true true;
   AInval 1 [kk]; AWake 1; ARead 1 false false].

Example C39_nonvacuous :
  exists s, arun 4000%Z (ainit 0%Z) demo = Some s /\
            map gdone (a_gets s) = [Some (ROk vv); Some (ROk vv)] /\
            a_loaded s = [(kk, vv)] /\ a_lock s = [] /\ sget (a_store s) kk = Some vv.
Proof. eexists. vm_compute. repeat split; reflexivity. Qed.

Example C39_nonvacuous_labels : Forall label_ok demo.
Proof. unfold demo. repeat constructor. Qed.

(** while client 0 loads, it is the registered loader and client 1 waits with open channels, pending at the server *)
Example C39_nonvacuous_midway :
  exists s g, arun 4000%Z (ainit 0%Z) (firstn 10 demo) = Some s /\ a_lock s = [(kk, 0)] /\
              nth_error (a_gets s) 1 = Some g /\ g_st g = GSWait id0 /\ g_wait_closed g = false /\ g_ph_closed g = false.
Proof. eexists; eexists. vm_compute. repeat split; reflexivity. Qed.

(** ---- non-vacuity of the keepalive race: two Gets of ONE fresh client (keys kk, k2) both miss, both SET a marker
    of their own (id0, id1); Get 1 is first through the second critical section, so id1 is installed and BOTH
    lock with id1; after ClientTTL without a refresh of id0 (id1 is refreshed half way) the abandoned marker id0
    is gone, id1 is alive, and a Get of a second client that finds kk locked waits instead of releasing ---- *)
Definition k2 : bytes := [107%N; 50%N].
Definition id1 : bytes := ph_prefix ++ [49%N].
Definition id2 : bytes := ph_prefix ++ [50%N].

Definition race : list alabel :=
  [ANewClient; ANewClient;
   AStartGet 0 kk 60000%Z true; AStartGet 0 k2 60000%Z true;
   ARead 0 false false; ARead 1 false false;
   AKeep 0 id0 false; AKeep 1 id1 false; AInstall 1; AInstall 0;
   ALock 0 false; ALock 1 false;
   ATick 2000%Z; ARefresh 0; ATick 2500%Z;
   AStartGet 1 kk 60000%Z true; ARead 2 false false; AProbe 2 false false].

Example C39_race_nonvacuous :
  exists s g, arun 4000%Z (ainit 0%Z) race = Some s /\
            sget (a_store s) kk = Some id1 /\ sget (a_store s) k2 = Some id1 /\
            sget (a_store s) id0 = None /\ sget (a_store s) id1 = Some [] /\
            a_lock s = [(k2, 1); (kk, 0)] /\
            nth_error (a_gets s) 2 = Some g /\ g_st g = GSWait id1.
Proof. eexists; eexists. vm_compute. repeat split; reflexivity. Qed.

Example C39_race_labels : Forall label_ok race.
Proof. unfold race. repeat constructor. Qed.
