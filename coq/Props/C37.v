(** C37 — Sliding Bloom filters keep items for at least half a window.

    [size > 0], [k >= 1] (tested side condition as for C35), any hash function, [wh] = windowHalfMs =
    window.Milliseconds() / 2, times are server-clock milliseconds.
    From ANY server state [s] (whatever happened before, including Reset/Delete/expired or missing keys):
    if Add/AddMulti at time [t] succeeds with [x] among its keys, then after any further operations
    other than Reset/Delete that all run at times in [t, t + wh] — Add, AddMulti, Exists, ExistsMulti,
    Count, re-initialisation by another NewSlidingBloomFilter, in any number and order, by any client —
    an ExistsMulti at any time [t'] in [t, t + wh] answers one boolean per queried key and [true] at
    every position that holds [x].  No bound on the history; no monotonicity of the times is needed.
    (The lock key of the model expires as in the fake server, when [pxat <= now]; Redis keeps it one
    millisecond longer, which only lengthens the guarantee.) *)
From Coq Require Import List NArith ZArith Bool Lia.
Require Import RV.Model.Base RV.Model.Bloom RV.Model.SlidingBloom RV.Proofs.SlidingBloomProofs
               RV.Model.ScriptTexts RV.Gen.Scripts.
Import ListNotations.
Open Scope Z_scope.

Theorem C37_half_window : forall (K : Type) (hash : K -> N * N) (size k : N) (wh : Z),
  (1 <= k)%N -> (0 < size)%N ->
  forall (s : sstate) (t : Z) (keys : list K) (x : K) (s1 : sstate),
  In x keys -> sstep K hash size k wh s t (SAdd keys) = (s1, XDone) ->
  forall (post : list (Z * sop K)),
  Forall (fun p => t <= fst p <= t + wh /\ sdestructive K (snd p) = false) post ->
  forall (t' : Z) (qs : list K), t <= t' <= t + wh ->
  exists bs, snd (sstep K hash size k wh (srun K hash size k wh s1 post) t' (SExists qs)) = XBools (Ok bs)
    /\ length bs = length qs
    /\ forall i, nth_error qs i = Some x -> nth_error bs i = Some true.
Proof. intros K hash size k wh Hk Hs. apply half_window; assumption. Qed.
Print Assumptions C37_half_window.

(** the window half the client sends is the integer halving of the window in milliseconds, so the closed
    interval [t, t + wh] contains every millisecond instant t' with t' < t + w/2 in exact arithmetic
    (2 * (t' - t) < w), for even and odd w alike: "at least half the window" *)
Theorem C37_window_half : forall w t t', 0 <= w -> t <= t' -> 2 * (t' - t) < w -> t <= t' <= t + w / 2.
Proof.
  intros w t t' Hw H1 H2. split; [exact H1|].
  assert (t' - t <= w / 2); [|lia]. apply Z.div_le_lower_bound; lia.
Qed.
Print Assumptions C37_window_half.

(** rotation needs the lock to have expired: an operation at a time when the lock is alive never rotates *)
Theorem C37_no_rotation_while_locked : forall wh now s, 0 < wh -> lock_alive s now = true -> rotate wh now s = SOk s tt.
Proof. intros wh now s Hwh Ha. unfold rotate. rewrite Ha. destruct (wh <=? 0) eqn:E; [apply Z.leb_le in E; lia|reflexivity]. Qed.
Print Assumptions C37_no_rotation_while_locked.

Theorem C37_scripts_pinned :
  rueidisprob_slidingBloomFilterInitializeScript = pin_rueidisprob_slidingBloomFilterInitializeScript /\
  rueidisprob_slidingBloomFilterAddMultiScript = pin_rueidisprob_slidingBloomFilterAddMultiScript /\
  rueidisprob_slidingBloomFilterExistsMultiScript = pin_rueidisprob_slidingBloomFilterExistsMultiScript /\
  rueidisprob_slidingBloomFilterExistsReadOnlyMultiScript = pin_rueidisprob_slidingBloomFilterExistsReadOnlyMultiScript /\
  rueidisprob_slidingBloomFilterResetScript = pin_rueidisprob_slidingBloomFilterResetScript.
Proof. repeat split; vm_compute; reflexivity. Qed.
Print Assumptions C37_scripts_pinned.

(** non-vacuity: an add at t = 1000 with window half 500 right before the lock expires (at 1001), a
    rotation at 1001, more traffic, and the query at 1500 still finds the item; at 1501 a second
    rotation has happened and it is gone *)
Example C37_nonvacuous :
  let hash := fun x : N => (x * 11 + 3, x * 5 + 1)%N in
  let s0 := fst (sstep N hash 1021 3 500 sempty 501 SInit) in
  let '(s1, v) := sstep N hash 1021 3 500 s0 1000 (SAdd [7%N]) in
  let post := [(1001, SAdd [8%N]); (1200, SExists [9%N]); (1300, SInit); (1499, SCount)] in
  v = XDone
  /\ Forall (fun p => 1000 <= fst p <= 1000 + 500 /\ sdestructive N (snd p) = false) post
  /\ snd (sstep N hash 1021 3 500 (srun N hash 1021 3 500 s1 post) 1500 (SExists [8; 7; 9]%N)) = XBools (Ok [true; true; false])
  /\ snd (sstep N hash 1021 3 500 (srun N hash 1021 3 500 s1 post) 1501 (SExists [7]%N)) = XBools (Ok [false]).
Proof. vm_compute. repeat split; repeat constructor; auto; discriminate. Qed.
