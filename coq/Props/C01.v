(** C01 — Auto-pipelined calls always receive their own replies, in order.

    Object: the labelled transition system [PipeLts.pstep] (any number of callers of Do / DoMulti with
    single, batched, opt-in-cached and subscribe / unsubscribe commands, context cancellation at any
    moment, Close, connection failures, the writer, the reader [Pipe.reader_step] — a transcription of
    _backgroundRead —, the clean-up loop, a server that follows ServerProto and may push at any time).
    Quantifier: every schedule ([prun g sched]), every configuration [g] (queue kind and capacity,
    RESP2 pub/sub mode, any server behaviour allowed by ServerProto, version <> 6).

    Reading guide
    - [users s]: synchronous callers currently writing/reading the connection + 1 if the background
      writer or reader runs.
    - [k_res (p_calls s t)]: what has been written into call t's result slots so far;
      [k_ret (p_calls s t)]: what Do / DoMulti returned to the caller of t.
    - [result_of srv c]: the reply the server gave to command c (the empty message for a confirmed
      subscribe, the PONG of the appended PING for an unsubscribe).

    History: the first version of this model followed the code as it was (Do / DoMulti released their count
    with decrWaitsAndIncrRecvs *before* calling background() for the callers queued behind them).  For the flow
    buffer the exclusivity statement was then false: PutOne / PutMulti giving up on a done context in that window
    lets a newcomer see waits = 1 and use the connection synchronously while the background loops start (16-step
    schedule [flow_race] below; replayed on the implementation with the gap hooks, see docs/pipe.md, D5).  The code
    was repaired (pipe.go leaveSync: the count is kept until background() has been called) and the model follows the
    repaired code; all statements below now hold for both queues and every schedule. *)
From Coq Require Import List NArith ZArith Bool String.
Require Import RV.Model.Base RV.Model.PipeQueue RV.Model.Pipe RV.Model.PipeLts.
Require Import RV.Proofs.PipeLtsBasics RV.Proofs.PipeReaderProofs RV.Proofs.PipeExclusive RV.Proofs.PipeRouting RV.Proofs.PipeHistory.
Import ListNotations.
Open Scope N_scope.

(** ServerProto *)
Definition server_ok (g : config) : Prop := forall c, cmd_served_ok (g_r2ps g) (g_srv g) c = true.

Theorem C01_exclusive_conn : forall g sched s,
  prun g sched (p_init g) = Some s -> (users s <= 1)%nat.
Proof. intros g sched s H. exact (exclusive_conn g sched s H). Qed.
Print Assumptions C01_exclusive_conn.

Definition echo_srv : server := mkSrv (fun c => Msg 36 [c_id c] 0 []) (fun c => []) (fun c => pong_msg).
Definition plain (id : N) : cmd := mkCmd id 2 false false false false false false.
Definition flow_cfg : config := mkCfg Flow 2 false 7 echo_srv.
(** the schedule that broke exclusivity before the repair: caller 1 synchronous, caller 2 queued behind it and
    giving up in PutOne, caller 3 arriving before caller 1 calls background() *)
Definition flow_race : list label :=
  [LCall 1 [plain 10] false CtxBg; LIncr 1; LLoad 1; LSyncW 1;
   LCall 2 [plain 20] false CtxDeadline; LIncr 2; LLoad 2; LCtxDone 2;
   LSrv; LSyncR 1; LDecr 1; LPutFail 2;
   LCall 3 [plain 30] false CtxBg; LIncr 3; LLoad 3; LBgAfter 1].

(** with the repaired leaveSync caller 1 is still counted when caller 3 arrives: caller 3 queues *)
Example C01_flow_race_repaired :
  option_map (fun s => (users s, k_pc (p_calls s 3), p_waits s)) (prun flow_cfg flow_race (p_init flow_cfg)) =
  Some (1%nat, PPut, 2%nat).
Proof. vm_compute. reflexivity. Qed.

(** Routing: in every reachable state, for every call t,
    (a) the results delivered to t so far are a prefix of the replies the server gave to t's own
        commands, in command order, possibly followed by error entries (connection failure / Close);
    (b) if t returned and every returned entry is a reply (no error, in particular no cancellation),
        it returned exactly the replies to its own commands. *)
Theorem C01_routing : forall g sched s t,
  server_ok g -> g_ver g <> 6%Z ->
  prun g sched (p_init g) = Some s ->
  (exists k es, k_res (p_calls s t) =
                map RMsg (map (result_of (g_srv g)) (firstn k (k_cmds (p_calls s t)))) ++ map RErr es) /\
  (forall r, k_ret (p_calls s t) = Some r -> (forall x, In x r -> exists m, x = RMsg m) ->
             k_cmds (p_calls s t) <> [] ->
             r = map RMsg (map (result_of (g_srv g)) (k_cmds (p_calls s t)))).
Proof. intros g sched s t Hs Hv H. exact (routing g Hs Hv sched s t H). Qed.
Print Assumptions C01_routing.

(** for ServerProto servers the reader never reaches panic(protocolbug): it can always take the next frame *)
Theorem C01_no_protocol_panic : forall g sched s r,
  server_ok g -> g_ver g <> 6%Z ->
  prun g sched (p_init g) = Some s ->
  p_b s = BRead r -> p_s2c s <> [] -> exists s', pstep g s LRStep = Some s'.
Proof.
  intros g sched s r Hs Hv H Hb Hne.
  destruct (inv_reach g Hs Hv sched s H) as [_ IB]. exact (rstep_enabled g Hs Hv s r IB Hb Hne).
Qed.
Print Assumptions C01_no_protocol_panic.

(** No reply is lost, duplicated or handed to another slot: [p_wlog] is the list of queue slots in the
    order the writer put them on the wire, [expected] lists for them, in wire order, the triples
    (owner of the slot, index in the slot, reply of the server to that very command); [p_dlog] is the
    list of triples (owner, index, message) the reader has stored so far, in order.  The log is always an
    initial segment of [expected]; while the reader runs, the rest is exactly what is still due to the
    slot being filled (from index ff on) followed by the written slots not yet taken. *)
Theorem C01_no_loss_no_dup : forall g sched s,
  server_ok g -> g_ver g <> 6%Z ->
  prun g sched (p_init g) = Some s ->
  (exists rest, expected g (p_wlog s) = p_dlog s ++ rest) /\
  (forall r, p_b s = BRead r ->
     expected g (p_wlog s) =
     p_dlog s ++ exp_from g (r_owner r) (r_ff r) (skipn (r_ff r) (r_multi r)) ++ flat_map (exp_slot g) (q_wr (p_q s))).
Proof. intros g sched s Hs Hv H. exact (no_loss_no_dup g Hs Hv sched s H). Qed.
Print Assumptions C01_no_loss_no_dup.

(** non-vacuity: two callers, the first runs synchronously, the second (a batch with a 2-channel
    subscribe and an unsubscribe) is queued, the pipe switches to background mode, a push arrives in
    between; both calls return their own replies. *)
Definition sub2 (id : N) : cmd := mkCmd id 3 true false false false false false.
Definition unsub1 (id : N) : cmd := mkCmd id 2 true true false false false false.
Definition conf (ch : N) : msg := Msg 62 [] 0 [Msg 36 (b "subscribe"%string) 0 []; Msg 36 [ch] 0 []; Msg 58 [] 1 []].
Definition demo_srv : server :=
  mkSrv (fun c => Msg 36 [c_id c] 0 []) (fun c => [conf 1; conf 2]) (fun c => pong_msg).
Definition demo_cfg : config := mkCfg Ring 2 false 7 demo_srv.
Definition a_push : msg := Msg 62 [] 0 [Msg 36 (b "message"%string) 0 []; Msg 36 [7] 0 []; Msg 36 [8] 0 []].
Definition demo_sched : list label :=
  [LCall 1 [plain 10] false CtxBg; LIncr 1; LLoad 1; LSyncW 1;
   LCall 2 [plain 20; sub2 21; unsub1 22] true CtxBg; LIncr 2; LLoad 2; LPut 2;
   LSrv; LSyncR 1; LDecr 1; LBgAfter 1; LDecr 1;
   LWNext; LWFlush; LSrv; LSrvPush a_push; LSrv; LSrv;
   LRStep; LRStep; LRStep; LRStep; LRStep; LRecv 2; LFin 2].

Example C01_nonvacuous :
  option_map (fun s => (users s, k_ret (p_calls s 1), k_ret (p_calls s 2)))
             (prun demo_cfg demo_sched (p_init demo_cfg)) =
  Some (1%nat, Some [RMsg (Msg 36 [10] 0 [])],
        Some [RMsg (Msg 36 [20] 0 []); RMsg empty_msg; RMsg pong_msg]).
Proof. vm_compute. reflexivity. Qed.

Example C01_nonvacuous_log :
  option_map (fun s => (p_dlog s, expected demo_cfg (p_wlog s))) (prun demo_cfg demo_sched (p_init demo_cfg)) =
  Some ([(2, 0%nat, Msg 36 [20] 0 []); (2, 1%nat, empty_msg); (2, 2%nat, pong_msg)],
        [(2, 0%nat, Msg 36 [20] 0 []); (2, 1%nat, empty_msg); (2, 2%nat, pong_msg)]).
Proof. vm_compute. reflexivity. Qed.

Example C01_nonvacuous_server_ok :
  forallb (cmd_served_ok false demo_srv) [plain 10; plain 20; sub2 21; unsub1 22] = true.
Proof. vm_compute. reflexivity. Qed.
