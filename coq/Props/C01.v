(** C01 — placeholder while the routing proofs are being built. *)
From Coq Require Import List NArith ZArith Bool.
Require Import RV.Model.Base RV.Model.PipeQueue RV.Model.Pipe RV.Proofs.PipeReaderProofs.
Import ListNotations.
Open Scope N_scope.

Theorem C01_sync_multi_length : forall n fs ms r, sync_multi n fs = Some (ms, r) -> List.length ms = n.
Proof. exact sync_multi_length. Qed.
Print Assumptions C01_sync_multi_length.
