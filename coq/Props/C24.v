(** C24 - Blocking pool bounds, isolates and releases connections.

    Model: [RV.Model.Pool], a labelled transition system transcribed from pool.go; a schedule is a
    [list label], [run] executes it.  Every theorem quantifies over ALL schedules, any number of
    callers and any capacity >= 1 ([reachable cfg s] = some schedule leads from [init] to [s]).
    [repaired cfg] selects the code after the fix: commits (Store keeps the slot count for the dead
    pipe of a done context; the cancellation goroutine broadcasts under the mutex); the original
    code is [orig_cfg] and is refuted below with witness schedules (defects D6 and D8).

    Proved: safety (bound, exclusivity, after-Close), lost-wake-up freedom and absence of stuck
    states.  NOT claimed: fair termination under the real Go scheduler (a waiter can be overtaken
    for ever), real-time bounds. *)
From Coq Require Import List NArith ZArith Bool Arith.
Require Import RV.Model.Base RV.Model.Pool RV.Model.PoolCallers.
Require Import RV.Proofs.PoolProofs RV.Proofs.PoolProofs4 RV.Proofs.PoolTheorems.
Import ListNotations.
Open Scope Z_scope.

(** size = |holders of counted wires| + |idle| + makes in flight (minus the ghost count of stores of
    the shared dead wire after Close, which is 0 while the pool is open), and never above cap. *)
Theorem C24_bound : forall cfg s, repaired cfg -> reachable cfg s ->
  size s = Z.of_nat (live s) - Z.of_nat (dstores s) /\ Z.of_nat (live s) <= cap cfg /\
  (down s = false -> dstores s = 0%nat /\ size s = Z.of_nat (live s) /\ 0 <= size s <= cap cfg).
Proof. exact pool_bound. Qed.
Print Assumptions C24_bound.

(** a connection is in at most one of: the idle list (once), one holder *)
Theorem C24_exclusive : forall cfg s, reachable cfg s -> NoDup (idle s ++ real_ids (held s)).
Proof. exact pool_exclusive. Qed.
Print Assumptions C24_exclusive.

(** pool side of "every handed-out wire is returned": Store is never refused once the mutex is free,
    the mutex is always released by its holder's next step, and Store removes exactly that wire *)
Theorem C24_returned_pool : forall cfg s w, In w (held s) ->
  (forall u, mutex s = Some u -> enabled cfg s (AcqPark u)) /\
  (mutex s = None -> exists s', lstep cfg s (Store w) = Some s' /\ held s' = wremove1 w (held s) /\ sigs s' = S (sigs s)).
Proof.
  intros cfg s w Hin. split.
  - intros u Hu. apply pool_mutex_released. exact Hu.
  - intro Hm. apply pool_store_accepts; assumption.
Qed.
Print Assumptions C24_returned_pool.

(** caller side: on every path of mux.blocking / blockingMulti / DoStream / DoMultiStream / dedicated
    release the acquired wire is stored exactly once and not used afterwards (repaired code) *)
Theorem C24_returned_callers : callers_ok true = true.
Proof. vm_compute. reflexivity. Qed.
Print Assumptions C24_returned_callers.

(** D7 on the code as found: DoStream / DoMultiStream have a path that never stores the wire *)
Theorem C24_returned_callers_refuted :
  exists c p, In p (paths false c) /\ count_ev EStore p = 0%nat /\ callers_ok false = false.
Proof. exists DoStream. exists [EAcquire; EReturn]. split; [left; reflexivity|]. split; reflexivity. Qed.
Print Assumptions C24_returned_callers_refuted.

(** after Close every evaluation of Acquire hands out a dead wire, nothing becomes idle again, the
    idle wires are closed, and Close is permanent *)
Theorem C24_after_close : forall cfg s, reachable cfg s -> down s = true ->
  (forall l s', acquire_label l = true -> lstep cfg s l = Some s' ->
      exists w, held s' = w :: held s /\ (w = CtxDead \/ w = DeadDown) /\ idle s' = idle s /\ down s' = true) /\
  (forall id, In id (idle s) -> In id (broken s)) /\
  (forall w s', lstep cfg s (Store w) = Some s' -> idle s' = idle s /\ forall id, w = Real id -> In id (broken s')).
Proof.
  intros cfg s Hr Hd. split; [|split].
  - intros l s' Hl Hs. eapply pool_after_close; eassumption.
  - apply (pool_after_close_idle_closed cfg s Hr Hd).
  - intros w s' Hs. eapply pool_store_after_close; eassumption.
Qed.
Print Assumptions C24_after_close.

(** a parked waiter whose context is done always has its cancellation broadcast pending, and three
    steps (mutex release, that broadcast, its own re-lock) make it leave Acquire with the context error *)
Theorem C24_ctx_waiter_wakes : forall cfg s t, repaired cfg -> reachable cfg s ->
  In t (parked s) -> In t (ctxdone s) ->
  In t (bpend s) /\
  exists sch s', (length sch <= 3)%nat /\ forallb (wake_label t) sch = true /\ run cfg sch s = Some s' /\
                 In t (exiting s') /\ hd_error (held s') = Some CtxDead.
Proof.
  intros cfg s t Hrep Hr Hp Hd. split.
  - eapply pool_cancelled_waiter_has_waker; eassumption.
  - eapply pool_cancelled_waiter_wakes; eassumption.
Qed.
Print Assumptions C24_ctx_waiter_wakes.

(** no lost wake-up: somebody parked while capacity is free => a waker step is enabled *)
Theorem C24_no_lost_wakeup : forall cfg s, repaired cfg -> reachable cfg s ->
  down s = false -> parked s <> [] -> 0 < free cfg s ->
  exists l, waker_label l = true /\ enabled cfg s l.
Proof. exact pool_no_lost_wakeup. Qed.
Print Assumptions C24_no_lost_wakeup.

(** no stuck state: whenever somebody is parked, a step of a thread that is already inside the
    pool (or holds one of its wires) is enabled.  Fair termination is not claimed. *)
Theorem C24_not_stuck : forall cfg s, repaired cfg -> reachable cfg s -> parked s <> [] ->
  exists l, internal_label l = true /\ enabled cfg s l.
Proof. exact pool_not_stuck. Qed.
Print Assumptions C24_not_stuck.

(** D6 on the code as found: size accounting breaks and the capacity is exceeded *)
Theorem C24_bound_refuted_orig :
  exists sch s, run (orig_cfg 1 0 false) sch init = Some s /\ cap (orig_cfg 1 0 false) < Z.of_nat (live s) /\
                size s <> Z.of_nat (live s) - Z.of_nat (dstores s).
Proof. exact pool_bound_refuted_orig. Qed.
Print Assumptions C24_bound_refuted_orig.

(** D8 on the code as found: the cancelled waiter is parked and nothing pending can wake it *)
Theorem C24_ctx_waiter_refuted_orig :
  exists sch s, run (orig_cfg 1 0 false) sch init = Some s /\
    In 2%nat (parked s) /\ In 2%nat (ctxdone s) /\ ~ In 2%nat (bpend s) /\
    (forall l, wake_label 2 l = true -> lstep (orig_cfg 1 0 false) s l = None) /\
    (forall o, lstep (orig_cfg 1 0 false) s (Signal o) = None) /\ lstep (orig_cfg 1 0 false) s CloseBcast = None.
Proof. exact pool_wakeup_refuted_orig. Qed.
Print Assumptions C24_ctx_waiter_refuted_orig.

(** non-vacuity: a reachable state of the repaired model with capacity 2 in which one caller is parked
    with a cancelled context, one wire is idle-able and the hypotheses of the theorems above hold *)
Definition nv_schedule : list label :=
  [AcqEnter 1 false; MakeOk 1 (Some 1%nat) false; AcqReturn 1;
   AcqEnter 2 false; MakeOk 2 (Some 2%nat) false; AcqReturn 2;
   AcqEnter 3 true; AcqPark 3; AcqEnter 4 false; AcqPark 4; CtxCancel 3; Store (Real 1)].

Example C24_nonvacuous :
  repaired (fixed_cfg 2 0 false) /\
  exists s, run (fixed_cfg 2 0 false) nv_schedule init = Some s /\
            parked s = [3%nat; 4%nat] /\ ctxdone s = [3%nat] /\ bpend s = [3%nat] /\ down s = false /\
            free (fixed_cfg 2 0 false) s = 1 /\ size s = 2 /\ live s = 2%nat /\ sigs s = 1%nat.
Proof.
  split; [repeat split; vm_compute; congruence|].
  eexists. split; [vm_compute; reflexivity|]. repeat split.
Qed.
