(** C41 — go-redis adapter pipelines keep order and wrap transactions exactly.

    Model: Model/CompatPipe.v ([step]/[run] = Pipeline and TxPipeline of rueidiscompat, [watch] =
    Compat.Watch + tx.Watch).  The replies of the server are an input of every Exec, so all theorems
    quantify over all reply lists; "all sequences of queued adapter commands" is the quantification
    over all [ops] (any mix of queueing, Do, rejected calls, Len, Discard, Exec — nested Pipelined /
    TxPipelined calls flatten to such a list because they run on the same object).

    [arun] is the specification side: the abstract queue of a history — the commands queued since
    the last Exec / Discard and the creation numbers of their Cmds. *)
From Coq Require Import List Arith NArith ZArith Bool Lia String.
Require Import RV.Model.Base RV.Model.CompatPipe RV.Proofs.CompatPipeProofs.
Import ListNotations.
Local Open Scope nat_scope.
Local Open Scope string_scope.
Local Notation length := List.length.

Definition a0 : astate := mkA 0 [] [].

(** Every reachable pipeline state is the abstract queue of its history (and satisfies the invariant
    rets/cmds in step, ids distinct and valid), for every program and every reply list. *)
Theorem C41_reachable : forall tx ops,
  let s := fst (run tx pinit ops) in let a := fst (arun a0 ops) in
  inv s /\ queue s = a_q a /\ rets s = a_ids a /\ length (store s) = a_next a.
Proof.
  intros tx ops s a. split; [apply inv_run; exact inv_init|].
  destruct (absrel_run tx ops pinit a0 ltac:(repeat split)) as [H _]. exact H.
Qed.
Print Assumptions C41_reachable.

(** ORDER + WRAPPING, whole histories: the DoMulti calls a program makes are exactly the abstract
    batches, each sent as one batch in queue order — as they are for a Pipeline, and as
    MULTI :: batch ++ [EXEC] for a TxPipeline — whatever the server replies (even malformed). *)
Theorem C41_sent_batches : forall tx ops,
  sent_of (snd (run tx pinit ops)) = map (wrap tx) (snd (arun a0 ops)).
Proof. intros tx ops. destruct (absrel_run tx ops pinit a0 ltac:(repeat split)) as [_ H]. exact H. Qed.
Print Assumptions C41_sent_batches.

(** Pipeline.Exec after any history: the queued commands are sent in order as one batch, the returned
    Cmders are the queued ones in order, the i-th Cmd holds from(i-th reply) (and no other Cmd is
    touched), the returned error is the first error in queue order, the pipeline is empty again. *)
Theorem C41_pipeline_exec : forall ops resp,
  let s := fst (run false pinit ops) in let a := fst (arun a0 ops) in
  a_q a <> [] -> length resp = length (a_q a) ->
  exists st',
    step false s (OExec resp) =
      (mkP st' [] [], [EvSent (a_q a); EvRet (Some (a_ids a)) (first_err (errs_at st' (a_ids a)))])
    /\ assigned (store s) (a_ids a) resp st'.
Proof.
  intros ops resp s a Hq Hlen.
  destruct (C41_reachable false ops) as [Hinv [E1 [E2 _]]]. fold s a in Hinv, E1, E2.
  rewrite <- E1 in *. rewrite <- E2. apply pipe_exec_spec; assumption.
Qed.
Print Assumptions C41_pipeline_exec.

(** TxPipeline.Exec after any history, EXEC answered with an array of one element per command:
    MULTI, the commands in order, EXEC go out as one batch; the i-th Cmd holds
    from(NewResult(i-th EXEC element, non-redis error of the i-th QUEUED result)); first error. *)
Theorem C41_tx_exec : forall ops r0 qs results,
  let s := fst (run true pinit ops) in let a := fst (arun a0 ops) in
  a_q a <> [] -> length qs = length (a_q a) -> length results = length (a_q a) ->
  exists st',
    step true s (OExec (r0 :: qs ++ [RMsg (RArr results)])) =
      (mkP st' [] [], [EvSent (s_MULTI :: a_q a ++ [s_EXEC]);
                       EvRet (Some (a_ids a)) (first_err (errs_at st' (a_ids a)))])
    /\ assigned (store s) (a_ids a) (map (fun p => tx_result (fst p) (snd p)) (combine results qs)) st'.
Proof.
  intros ops r0 qs results s a Hq Hqs Hres.
  destruct (C41_reachable true ops) as [Hinv [E1 [E2 _]]]. fold s a in Hinv, E1, E2.
  rewrite <- E1 in *. rewrite <- E2. apply tx_exec_spec; assumption.
Qed.
Print Assumptions C41_tx_exec.

(** WATCH abort: EXEC answers nil => TxFailedErr, all Cmders returned, none touched. *)
Theorem C41_tx_failed : forall ops r0 qs,
  let s := fst (run true pinit ops) in let a := fst (arun a0 ops) in
  a_q a <> [] ->
  step true s (OExec (r0 :: qs ++ [RMsg RNil])) =
    (mkP (store s) [] [], [EvSent (s_MULTI :: a_q a ++ [s_EXEC]); EvRet (Some (a_ids a)) ETxFailed]).
Proof.
  intros ops r0 qs s a Hq.
  destruct (C41_reachable true ops) as [_ [E1 [E2 _]]]. fold s a in E1, E2.
  rewrite <- E1 in *. rewrite <- E2. apply tx_exec_abort; [assumption|reflexivity].
Qed.
Print Assumptions C41_tx_failed.

(** EXEC answers an error (EXECABORT after an error in the QUEUED phase) or the connection fails:
    that error is returned, no Cmd is touched. *)
Theorem C41_tx_exec_error : forall ops r0 qs last e,
  let s := fst (run true pinit ops) in let a := fst (arun a0 ops) in
  a_q a <> [] ->
  (exists m, last = RMsg (RErr m) /\ e = ERedis (trim_err m)) \/ (last = RNet /\ e = ENet) ->
  step true s (OExec (r0 :: qs ++ [last])) =
    (mkP (store s) [] [], [EvSent (s_MULTI :: a_q a ++ [s_EXEC]); EvRet (Some (a_ids a)) e]).
Proof.
  intros ops r0 qs last e s a Hq Hl.
  destruct (C41_reachable true ops) as [_ [E1 [E2 _]]]. fold s a in E1, E2.
  rewrite <- E1 in *. rewrite <- E2. apply tx_exec_abort; [assumption|].
  destruct Hl as [[m [H1 H2]]|[H1 H2]]; subst; reflexivity.
Qed.
Print Assumptions C41_tx_exec_error.

(** WRAPPING EXACT: whatever comes back, one Exec of a non-empty TxPipeline makes exactly one DoMulti
    call, with MULTI first, EXEC last and exactly the queued commands between; an empty pipeline
    sends nothing and returns (nil, nil). *)
Theorem C41_wrapping_exact : forall tx ops resp,
  let s := fst (run tx pinit ops) in let a := fst (arun a0 ops) in
  (a_q a <> [] -> sent_of (snd (step tx s (OExec resp))) = [wrap tx (a_q a)]) /\
  (a_q a = [] -> step tx s (OExec resp) = (s, [EvRet None ENone])).
Proof.
  intros tx ops resp s a.
  destruct (C41_reachable tx ops) as [_ [E1 _]]. fold s a in E1. rewrite <- E1. split; intro H.
  - apply exec_sent. exact H.
  - apply exec_empty. exact H.
Qed.
Print Assumptions C41_wrapping_exact.

(** DISCARD drops every queued command: afterwards Len = 0, the next Exec sends nothing, and the
    Cmds handed out before are left as they were. *)
Theorem C41_discard : forall tx s resp,
  let s' := fst (step tx s ODiscard) in
  snd (step tx s ODiscard) = [] /\ queue s' = [] /\ rets s' = [] /\ store s' = store s /\
  step tx s' OLen = (s', [EvLen 0]) /\ step tx s' (OExec resp) = (s', [EvRet None ENone]).
Proof. intros tx s resp. cbn. repeat split. Qed.
Print Assumptions C41_discard.

(** RE-USE: after an Exec (whatever the replies, even when it panics) the pipeline is empty and the
    store keeps its size: the next batch contains only what is queued afterwards. *)
Theorem C41_reuse : forall tx ops resp,
  let s := fst (run tx pinit ops) in
  queue s <> [] ->
  queue (fst (step tx s (OExec resp))) = [] /\ rets (fst (step tx s (OExec resp))) = [] /\
  length (store (fst (step tx s (OExec resp)))) = length (store s).
Proof. intros tx ops resp s H. apply exec_clears. exact H. Qed.
Print Assumptions C41_reuse.

(** No Exec panics against a server that answers every command once (and whose EXEC array, if any,
    has one element per queued command). *)
Theorem C41_no_panic : forall tx ops, wf_run tx pinit ops -> ~ In EvPanic (snd (run tx pinit ops)).
Proof. intros tx ops H. apply run_no_panic; [exact inv_init|exact H]. Qed.
Print Assumptions C41_no_panic.

(** Watch(fn, keys…): WATCH keys goes out first (only when there are keys); its error is returned
    without running fn; otherwise fn's TxPipeline behaves as above. *)
Theorem C41_watch : forall keys wres ops,
  (keys = [] -> snd (watch keys wres ops) = [WBody (snd (run true pinit ops))]) /\
  (keys <> [] -> watch_err wres = ENone ->
     snd (watch keys wres ops) = [WDo (s_WATCH :: keys); WBody (snd (run true pinit ops))]) /\
  (keys <> [] -> watch_err wres <> ENone ->
     snd (watch keys wres ops) = [WDo (s_WATCH :: keys); WErr (watch_err wres)]).
Proof.
  intros keys wres ops. repeat split.
  - intro H. subst. unfold watch. destruct (run true pinit ops). reflexivity.
  - intros Hk He. unfold watch. destruct keys; [congruence|]. rewrite He.
    destruct (run true pinit ops). reflexivity.
  - intros Hk He. unfold watch. destruct keys; [congruence|].
    destruct (watch_err wres); try congruence; reflexivity.
Qed.
Print Assumptions C41_watch.

(** non-vacuity: a history with a Discard and a re-use; the second batch holds a WRONGTYPE error in
    the middle: sent in order, results at their own index, first error returned. *)
Example C41_nonvacuous_pipeline :
  let ops := [OQueue KString [h "474554"; h "61"]; ODiscard;
              OQueue KString [h "474554"; h "62"]; OQueue KInt [h "494e4352"; h "62"]; ODo [h "4543484f"; h "78"]] in
  snd (arun a0 ops) = [] /\ a_q (fst (arun a0 ops)) = [[h "474554"; h "62"]; [h "494e4352"; h "62"]; [h "4543484f"; h "78"]] /\
  step false (fst (run false pinit ops)) (OExec [RMsg RNil; RMsg (RErr (h "4552522078")); RMsg (RStr (h "78"))]) =
  (mkP [mkCmd KString ENotExecuted None; mkCmd KString ENil None; mkCmd KInt (ERedis (h "78")) None;
        mkCmd KAny ENone (Some (RStr (h "78")))] [] [],
   [EvSent [[h "474554"; h "62"]; [h "494e4352"; h "62"]; [h "4543484f"; h "78"]]; EvRet (Some [1; 2; 3]) ENil]).
Proof. vm_compute. repeat split. Qed.

Example C41_nonvacuous_tx :
  let ops := [OQueue KString [h "474554"; h "61"]; OQueue KInt [h "494e4352"; h "62"]] in
  step true (fst (run true pinit ops))
       (OExec [RMsg (RStr (h "4f4b")); RMsg (RStr (h "515545554544")); RMsg (RStr (h "515545554544"));
               RMsg (RArr [RStr (h "76"); RInt 5])]) =
  (mkP [mkCmd KString ENone (Some (RStr (h "76"))); mkCmd KInt ENone (Some (RInt 5))] [] [],
   [EvSent [[h "4d554c5449"]; [h "474554"; h "61"]; [h "494e4352"; h "62"]; [h "45584543"]]; EvRet (Some [0; 1]) ENone])
  /\ wf_run true pinit (ops ++ [OExec [RMsg (RStr (h "4f4b")); RMsg (RStr (h "515545554544")); RMsg (RStr (h "515545554544")); RMsg RNil]]).
Proof.
  split; [vm_compute; reflexivity|].
  cbn. repeat split. intros _. exists (RMsg (RStr (h "4f4b"))), [RMsg (RStr (h "515545554544")); RMsg (RStr (h "515545554544"))], (RMsg RNil).
  repeat split. intros l H. discriminate.
Qed.
