(** C23 — Sentinel clients follow the current master.

    Object: Model/Sentinel.v (sentinel.go _refresh, listWatch, pickReplica, _switchTarget, event
    handler).  A history is any list of refreshes and pub/sub events, each under its own world (what
    every sentinel and every data node would answer at that moment); [ss_m] / [ss_r] are the addresses
    user traffic goes to (mConn / rConn, chosen by the routing functions of C21); the ghost fields
    record what ROLE said and who announced an address when it was adopted. *)
From Coq Require Import List Arith NArith ZArith Bool Lia.
Require Import RV.Model.Base RV.Model.ClusterTopo RV.Model.Sentinel RV.Proofs.ClusterTopoProofs RV.Proofs.SentinelProofs.
Import ListNotations.
Open Scope Z_scope.

(** over all histories: the address primary traffic goes to answered ROLE with "master" when it was
    adopted and was announced by a sentinel answer or an event; the replica address answered "slave" *)
Theorem C23_adopted_role : forall n fuel c sentinels ops st,
  srun n fuel c (sinit sentinels) ops = Ok st ->
  (ss_m st = None \/ (ss_m_role st = s_master_b /\ ss_m_src st <> SrcNone)) /\
  (ss_r st = None \/ (ss_r_role st = s_slave_b /\ ss_r_src st <> SrcNone)).
Proof. intros n fuel c sentinels ops st H. exact (srun_inv n fuel c ops _ _ (inv_init sentinels) H). Qed.
Print Assumptions C23_adopted_role.

(** the ghost fields mean what they say: a switch succeeds only on a reachable node whose ROLE reply
    starts with the required role, and changes nothing else *)
Theorem C23_switch_evidence : forall w st a is_master src st',
  switch_target w st a is_master src = Ok st' ->
  w_nup w a = true /\
  exists rest, w_role w a = RoleArr ((if is_master then s_master_b else s_slave_b) :: rest) /\
  (if is_master
   then ss_m st' = Some a /\ ss_m_role st' = s_master_b /\ ss_m_src st' = src /\
        ss_r st' = ss_r st /\ ss_r_role st' = ss_r_role st /\ ss_r_src st' = ss_r_src st
   else ss_r st' = Some a /\ ss_r_role st' = s_slave_b /\ ss_r_src st' = src /\
        ss_m st' = ss_m st /\ ss_m_role st' = ss_m_role st /\ ss_m_src st' = ss_m_src st) /\
  ss_list st' = ss_list st /\ ss_saddr st' = ss_saddr st.
Proof. exact switch_target_ok. Qed.
Print Assumptions C23_switch_evidence.

(** a node that answers with the wrong role is never routed to *)
Theorem C23_wrong_role_rejected : forall w st a src first rest,
  w_role w a = RoleArr (first :: rest) -> first <> s_master_b ->
  forall st', switch_target w st a true src <> Ok st'.
Proof. exact switch_target_wrong_role. Qed.
Print Assumptions C23_wrong_role_rejected.

(** ---- reused vs fresh targets ([target_of]) ----
    A switch to the address already in use probes the INSTALLED connection.  When that probe fails (ROLE
    error, wrong role) the installed connection is closed: it stays in mConn / rConn, but no user command
    reaches the node through it ([live_m] / [live_r] = None) until a later switch succeeds.  On the fresh path
    a failed switch changes nothing. *)
Theorem C23_wrong_role_rejected_reuse : forall w st a src first rest,
  ss_m st = Some a -> ss_m_open st = true -> w_nup w a = true ->
  w_role w a = RoleArr (first :: rest) -> first <> s_master_b ->
  target_of w st a true = TReused /\
  switch_target w st a true src = Err 3 /\
  live_m (switch_fail w st a true) = None /\
  live_r (switch_fail w st a true) = live_r st /\ ss_m (switch_fail w st a true) = ss_m st.
Proof.
  intros w st a src first rest Hm Ho Hu Hr Hn.
  pose proof (target_of_current_master w st a Hm Ho Hu) as T.
  destruct (switch_fail_reused w st a true T) as [[X Y] [Z _]].
  split; [exact T|]. split; [|auto].
  unfold switch_target. rewrite Hu, Hr. cbn [negb].
  destruct (bytes_eqb first s_master_b) eqn:B; [apply list_eqb_N_spec in B; contradiction|reflexivity].
Qed.
Print Assumptions C23_wrong_role_rejected_reuse.

(** every failure of a switch to the address in use (ROLE error included), master and replica side *)
Theorem C23_failed_reuse_closes : forall w st a (is_master : bool) src e,
  (if is_master return Prop then ss_m st = Some a else ss_r st = Some a) -> w_nup w a = true ->
  switch_target w st a is_master src = Err e ->
  (if is_master return Prop then live_m (switch_fail w st a true) = None else live_r (switch_fail w st a false) = None).
Proof.
  intros w st a is_master src e H Hu _. destruct is_master.
  - now apply switch_fail_current_master.
  - now apply switch_fail_current_replica.
Qed.
Print Assumptions C23_failed_reuse_closes.

Theorem C23_failed_fresh_changes_nothing : forall w st a is_master,
  target_of w st a is_master = TFresh -> switch_fail w st a is_master = st.
Proof. exact switch_fail_fresh. Qed.
Print Assumptions C23_failed_fresh_changes_nothing.

(** +switch-master and +reboot master naming the address master traffic currently uses, whose node now answers
    ROLE with another role (demoted in place while the sentinel still reports it), followed by any number of
    refresh retries under that world: master traffic reaches that node no more, and wherever it can arrive is
    reachable and answered "master" *)
Theorem C23_same_address_demoted : forall n fuel c w st old_h old_p h p tail first rest st',
  ss_m st = Some (h, p) -> w_nup w (h, p) = true -> w_role w (h, p) = RoleArr (first :: rest) -> first <> s_master_b ->
  (handle_event n fuel c w st (EvSwitchMaster (sc_set c :: old_h :: old_p :: h :: p :: tail)) = Ok st' \/
   handle_event n fuel c w st (EvReboot (s_master_b :: sc_set c :: h :: p :: tail)) = Ok st') ->
  live_m st' <> Some (h, p) /\
  (live_m st' = None \/ exists a r, live_m st' = Some a /\ w_nup w a = true /\ w_role w a = RoleArr (s_master_b :: r)).
Proof.
  intros n fuel c w st old_h old_p h p tail first rest st' Hm Hu Hr Hn [H|H].
  - destruct (handle_switch_master_same_demoted _ _ _ _ _ _ _ _ _ _ _ _ _ Hm Hu Hr Hn H) as [L N]. split; [exact N|exact L].
  - destruct (handle_reboot_master_same_demoted _ _ _ _ _ _ _ _ _ _ _ Hm Hu Hr Hn H) as [L N]. split; [exact N|exact L].
Qed.
Print Assumptions C23_same_address_demoted.

(** the refresh after a dropped subscription: the switch to the address the sentinel names fails and that address
    is the one in use — the rotation goes on with the installed connection closed *)
Theorem C23_refresh_failed_reuse_closes : forall c w st s a r e,
  sc_replica_only c = false -> (sc_has_str c = true -> r <> None) -> ss_m st = Some a -> w_nup w a = true ->
  switch_target w st a true (SrcSentinel s) = Err e ->
  live_m (switch_all_partial c w st s (Some a) r) = None.
Proof. exact switch_all_partial_current_master. Qed.
Print Assumptions C23_refresh_failed_reuse_closes.

(** "user traffic only reaches nodes whose latest probe answered the right role", as an invariant of every
    refresh and every event under one world *)
Theorem C23_live_probed : forall n fuel c w st,
  (forall st' o, refresh fuel c w st = Ok (st', o) ->
     (live_m_ok w st -> live_m_ok w st') /\ (live_r_ok w st -> live_r_ok w st')) /\
  (forall ev st', handle_event n fuel c w st ev = Ok st' ->
     (live_m_ok w st -> live_m_ok w st') /\ (live_r_ok w st -> live_r_ok w st')).
Proof.
  intros n fuel c w st. split.
  - intros st' o H. split; intro I; [eapply refresh_live_m|eapply refresh_live_r]; eauto.
  - intros ev st' H. split; intro I; [eapply handle_event_live_m|eapply handle_event_live_r]; eauto.
Qed.
Print Assumptions C23_live_probed.

(** after a successful refresh the master is the address the answering sentinel reported, and that
    node answered "master" *)
Theorem C23_refresh_master : forall fuel c w st st',
  sc_replica_only c = false -> refresh fuel c w st = Ok (st', ROk) ->
  exists s h p rest1 rest2, w_sup w s = true /\ w_master w s = MList (h :: p :: rest1) /\ ss_m st' = Some (h, p) /\
    w_nup w (h, p) = true /\ w_role w (h, p) = RoleArr (s_master_b :: rest2) /\ ss_m_src st' = SrcSentinel s.
Proof.
  intros fuel c w st st' Hr H. unfold refresh in H. destruct (ss_list st) as [|hd l]; [discriminate|].
  eapply refresh_loop_master; eauto.
Qed.
Print Assumptions C23_refresh_master.

(** +switch-master for the client's master set whose target is up and answers "master": primary
    traffic goes to the target from then on *)
Theorem C23_switch : forall n fuel c w st set old_h old_p h p tail rest,
  set = sc_set c -> w_nup w (h, p) = true -> w_role w (h, p) = RoleArr (s_master_b :: rest) ->
  exists st', handle_event n fuel c w st (EvSwitchMaster (set :: old_h :: old_p :: h :: p :: tail)) = Ok st' /\
              ss_m st' = Some (h, p) /\ ss_m_src st' = SrcEvent /\ ss_r st' = ss_r st /\ ss_list st' = ss_list st.
Proof. exact handle_switch_master. Qed.
Print Assumptions C23_switch.

Theorem C23_other_set_ignored : forall n fuel c w st parts m0,
  nth_error parts 0 = Some m0 -> m0 <> sc_set c -> handle_event n fuel c w st (EvSwitchMaster parts) = Ok st.
Proof. exact handle_switch_other_set. Qed.
Print Assumptions C23_other_set_ignored.

(** S2 — the unguarded indexing, exactly: an empty ROLE array, a master address with fewer than two
    strings, a +switch-master message for our set with fewer than five fields *)
Theorem C23_panic_sites :
  (forall w st a is_master src, switch_target w st a is_master src = Panic <-> w_nup w a = true /\ w_role w a = RoleArr []) /\
  (forall c w s others items, sc_replica_only c = false -> sc_has_str c = false -> w_sentinels w s = SnList others ->
      w_master w s = MList items -> (length items < 2)%nat -> list_watch c w s = Panic) /\
  (forall n fuel c w st parts, nth_error parts 0 = Some (sc_set c) -> (length parts < 5)%nat ->
      handle_event n fuel c w st (EvSwitchMaster parts) = Panic).
Proof. split; [exact switch_target_panic|]. split; [exact list_watch_panic_short_master|exact handle_switch_master_short]. Qed.
Print Assumptions C23_panic_sites.

(** ---- non-vacuity: a stale sentinel first, then one that knows the new master ---- *)
Definition ex_s (n : N) : saddr := ([115%N], [n]).
Definition ex_n (n : N) : saddr := ([110%N], [n]).
Definition ex_world : world :=
  mkWorld (fun _ => true) (fun _ => SnList [])
          (fun s => if saddr_eqb s (ex_s 1) then MList [[110%N]; [1%N]] else MList [[110%N]; [2%N]])
          (fun _ => RpErr) (fun _ => true)
          (fun a => if saddr_eqb a (ex_n 2) then RoleArr [s_master_b] else RoleArr [s_slave_b]) 0.

(** the reuse path is reachable: the demoted master is named again by its own address *)
Example C23_reuse_nonvacuous :
  match refresh 8 (mkScfg false false [109%N]) ex_world (sinit [ex_s 2]) with
  | Ok (st, ROk) =>
    let w' := mkWorld (fun _ => true) (fun _ => SnList []) (fun _ => MList [[110%N]; [2%N]]) (fun _ => RpErr) (fun _ => true)
                      (fun _ => RoleArr [s_slave_b]) 0 in
    live_m st = Some (ex_n 2) /\ target_of w' st (ex_n 2) true = TReused /\
    match handle_event 2 8 (mkScfg false false [109%N]) w' st (EvSwitchMaster [[109%N]; [110%N]; [2%N]; [110%N]; [2%N]]) with
    | Ok st' => live_m st' = None /\ ss_m st' = Some (ex_n 2)
    | _ => False
    end
  | _ => False
  end.
Proof. vm_compute. repeat split; reflexivity. Qed.

Example C23_nonvacuous :
  match refresh 8 (mkScfg false false [109%N]) ex_world (sinit [ex_s 1; ex_s 2]) with
  | Ok (st, ROk) => ss_m st = Some (ex_n 2) /\ ss_list st = [ex_s 2; ex_s 1] /\ ss_m_src st = SrcSentinel (ex_s 2)
  | _ => False
  end.
Proof. vm_compute. repeat split; reflexivity. Qed.
